import EaselModel.Sqio.Model
/-! # The block loader is a cursor over the file bytes, for every block size `B ≥ 1` (C04 block-size independence, C02 no fault)

`WF a`: block mode, no recording, the buffer is the window `[boff, boff+nc)` of the file that ends where the next `fread`
starts. `pos a = boff + bpos` is the absolute position of the cursor. `nextchar` moves it by exactly one byte and returns
`file[pos+1]`, or reports `eslEOF` exactly at the end of the file — whatever `B` is — and never touches memory outside the
buffer (`Status.fault` is not among the outcomes). -/
namespace EaselModel.Sqio.Refine

structure WF (a : Ascii) : Prop where
  block : a.linebased = false
  norec : a.recording ≠ 1
  bpos1 : 1 ≤ a.B
  full : a.mpos = a.mn
  moff0 : 0 ≤ a.moff
  fposEq : a.moff + a.mn = a.fpos
  fposLe : a.fpos ≤ a.file.size
  ncLe : a.nc ≤ a.mn
  boffEq : a.boff = a.moff + a.mn - a.nc
  bposLe : a.bpos ≤ a.nc

/-- absolute file position of the cursor -/
def pos (a : Ascii) : Int := a.boff + a.bpos

/-- state in which the next `loadbuf` must `fread` (after open / Position): nothing buffered -/
structure Pre (a : Ascii) : Prop where
  block : a.linebased = false
  norec : a.recording ≠ 1
  bpos1 : 1 ≤ a.B
  full : a.mpos ≥ a.mn
  fposLe : a.fpos ≤ a.file.size

/-- what `loadbuf` does in block mode when `mem` is used up: one `fread` of `min B (size − fpos)` bytes at `fpos` -/
theorem loadbuf_block (a : Ascii) (h1 : a.linebased = false) (h2 : a.recording ≠ 1) (h3 : a.mpos ≥ a.mn) :
    loadbuf a =
      ({ a with memValid := true, recording := -1, moff := a.fpos, mn := min a.B (a.file.size - a.fpos),
                fpos := a.fpos + min a.B (a.file.size - a.fpos), boff := (a.fpos : Int) + ((0 : Nat) : Int), bpos := 0,
                nc := min a.B (a.file.size - a.fpos) - 0, mpos := 0 + (min a.B (a.file.size - a.fpos) - 0) },
       if (min a.B (a.file.size - a.fpos) - 0 == 0) = true then Status.eof else Status.ok) := by
  have h2' : (a.recording == 1) = false := by simpa using h2
  simp [loadbuf, loadmem, h1, h2', h3]

theorem loadbuf_wf (a : Ascii) (h : Pre a) : WF (loadbuf a).1 ∧ (loadbuf a).1.bpos = 0 ∧ (loadbuf a).1.file = a.file ∧
    (loadbuf a).1.B = a.B ∧ pos (loadbuf a).1 = a.fpos ∧
    ((loadbuf a).2 = .ok ∧ 0 < (loadbuf a).1.nc ∧ a.fpos < a.file.size ∨
     (loadbuf a).2 = .eof ∧ (loadbuf a).1.nc = 0 ∧ a.fpos = a.file.size) := by
  rw [loadbuf_block a h.block h.norec h.full]
  have hB := h.bpos1
  have hf := h.fposLe
  refine ⟨⟨h.block, by simp, hB, by simp, by simp, by simp, ?_, by simp, by simp, by simp⟩, rfl, rfl, rfl, by simp [pos], ?_⟩
  · simp only; omega
  · by_cases hz : min a.B (a.file.size - a.fpos) = 0
    · right; simp [hz]; omega
    · left; simp [hz]; omega

/-- inside the window every byte is readable and is the file byte at that absolute position -/
theorem bufGet_window (a : Ascii) (h : WF a) (i : Nat) (hi : i < a.nc) :
    ∃ x, a.bufGet i = some x ∧ a.file[(a.boff.toNat + i)]? = some x ∧ a.boff.toNat + i < a.file.size := by
  have h1 := h.fposEq; have h2 := h.fposLe; have h3 := h.ncLe; have h4 := h.boffEq; have h5 := h.moff0
  have hlt : a.boff.toNat + i < a.file.size := by omega
  refine ⟨a.file[a.boff.toNat + i], ?_, ?_, hlt⟩
  · simp [Ascii.bufGet, h.block, hi, hlt]
  · simp [hlt]

/-- `WF` states are `Pre` states once the buffer is exhausted (`mpos = mn` always holds in block mode) -/
theorem WF.toPre {a : Ascii} (h : WF a) : Pre a :=
  ⟨h.block, h.norec, h.bpos1, by rw [h.full]; exact Nat.le_refl _, h.fposLe⟩

theorem nextchar_eq_load (a : Ascii) (c : UInt8) (hc : a.nc = a.bpos + 1) :
    nextchar a c =
      (if (loadbuf { a with bpos := a.bpos + 1 }).2 != .ok then
         ((loadbuf { a with bpos := a.bpos + 1 }).1, (loadbuf { a with bpos := a.bpos + 1 }).2, c)
       else match (loadbuf { a with bpos := a.bpos + 1 }).1.bufGet (loadbuf { a with bpos := a.bpos + 1 }).1.bpos with
         | some x => ((loadbuf { a with bpos := a.bpos + 1 }).1, .ok, x)
         | none => ((loadbuf { a with bpos := a.bpos + 1 }).1, .fault, c)) := by
  unfold nextchar
  have hcond : (({ a with bpos := a.bpos + 1 } : Ascii).nc == ({ a with bpos := a.bpos + 1 } : Ascii).bpos) = true := by
    show (a.nc == a.bpos + 1) = true
    simp [hc]
  simp only [hcond, if_true]
  rfl

theorem nextchar_eq_stay (a : Ascii) (c : UInt8) (hc : a.nc ≠ a.bpos + 1) :
    nextchar a c =
      (match ({ a with bpos := a.bpos + 1 } : Ascii).bufGet (a.bpos + 1) with
       | some x => ({ a with bpos := a.bpos + 1 }, .ok, x)
       | none => ({ a with bpos := a.bpos + 1 }, .fault, c)) := by
  unfold nextchar
  have hcond : (({ a with bpos := a.bpos + 1 } : Ascii).nc == ({ a with bpos := a.bpos + 1 } : Ascii).bpos) = false := by
    show (a.nc == a.bpos + 1) = false
    simp [hc]
  simp only [hcond, Bool.false_eq_true, if_false]
  rfl

/-- **`nextchar` is "advance the cursor by one byte", for every `B ≥ 1`.** From a state whose cursor is on a byte of the
    buffer: either `eslOK`, the cursor is on the next byte of the *file* (possibly in a freshly read block) and that byte is
    returned; or `eslEOF`, exactly when the cursor was on the last byte of the file. `fault` is impossible. -/
theorem nextchar_refines (a : Ascii) (c : UInt8) (h : WF a) (hb : a.bpos < a.nc) :
    WF (nextchar a c).1 ∧ (nextchar a c).1.file = a.file ∧ (nextchar a c).1.B = a.B ∧
    (((nextchar a c).2.1 = .ok ∧ (nextchar a c).1.bpos < (nextchar a c).1.nc ∧ pos (nextchar a c).1 = pos a + 1 ∧
        a.file[(pos a + 1).toNat]? = some (nextchar a c).2.2) ∨
     ((nextchar a c).2.1 = .eof ∧ (nextchar a c).2.2 = c ∧ pos a + 1 = a.file.size ∧ (nextchar a c).1.nc = 0 ∧
        (nextchar a c).1.bpos = 0 ∧ pos (nextchar a c).1 = pos a + 1)) := by
  have hpos0 : 0 ≤ a.boff := by have := h.boffEq; have := h.ncLe; have := h.moff0; omega
  by_cases hlast : a.nc = a.bpos + 1
  · -- the buffer is used up: one fread
    have hpre : Pre { a with bpos := a.bpos + 1 } :=
      ⟨h.block, h.norec, h.bpos1, by show a.mpos ≥ a.mn; rw [h.full]; exact Nat.le_refl _, h.fposLe⟩
    obtain ⟨hwf, hbp, hfile, hB, hp, hcase⟩ := loadbuf_wf { a with bpos := a.bpos + 1 } hpre
    have hfp : ((a.fpos : Nat) : Int) = pos a + 1 := by
      have := h.fposEq; have := h.boffEq; have := h.ncLe; simp only [pos]; omega
    rw [nextchar_eq_load a c hlast]
    generalize loadbuf { a with bpos := a.bpos + 1 } = l at hwf hbp hfile hB hp hcase
    obtain ⟨a', st⟩ := l
    simp only at hwf hbp hfile hB hp hcase
    have hfile' : a'.file = a.file := hfile
    have hB' : a'.B = a.B := hB
    have hp' : pos a' = (a.fpos : Int) := hp
    rcases hcase with ⟨hst, hnc, hlt⟩ | ⟨hst, hnc, heq⟩
    · obtain ⟨x, hx1, hx2, _⟩ := bufGet_window a' hwf 0 (by omega)
      subst hst
      have hne : (Status.ok != Status.ok) = false := by decide
      simp only [hbp, hx1, hne, Bool.false_eq_true, if_false]
      refine ⟨hwf, hfile', hB', Or.inl ⟨trivial, ?_, ?_, ?_⟩⟩
      · first | omega | (simp only [hbp]; exact hnc)
      · first | omega | (simp only [pos] at hp' ⊢; omega)
      · have hboff : a'.boff = a.fpos := by simp only [pos, hbp] at hp'; simpa using hp'
        rw [hfile', hboff] at hx2
        have : (pos a + 1).toNat = a.fpos + 0 := by omega
        simp only [this]; simpa using hx2
    · subst hst
      have hne : (Status.eof != Status.ok) = true := by decide
      simp only [hne, if_true]
      have hsz : (a.fpos : Int) = a.file.size := by exact_mod_cast heq
      refine ⟨hwf, hfile', hB', Or.inr ⟨by first | rfl | trivial | simp, by first | rfl | trivial | simp, ?_, by first | exact hnc | simpa using hnc, by first | exact hbp | simpa using hbp, ?_⟩⟩
      · omega
      · show pos a' = pos a + 1
        omega
  · -- stays inside the buffer
    have hlt : a.bpos + 1 < a.nc := by omega
    have hwf : WF { a with bpos := a.bpos + 1 } :=
      ⟨h.block, h.norec, h.bpos1, h.full, h.moff0, h.fposEq, h.fposLe, h.ncLe, h.boffEq, by show a.bpos + 1 ≤ a.nc; omega⟩
    obtain ⟨x, hx1, hx2, _⟩ := bufGet_window _ hwf (a.bpos + 1) (by show a.bpos + 1 < a.nc; omega)
    rw [nextchar_eq_stay a c hlast]
    simp only [hx1]
    refine ⟨hwf, trivial, trivial, Or.inl ⟨trivial, by show a.bpos + 1 < a.nc; omega, by simp only [pos]; omega, ?_⟩⟩
    have hbo : ({ a with bpos := a.bpos + 1 } : Ascii).boff = a.boff := rfl
    have hfi : ({ a with bpos := a.bpos + 1 } : Ascii).file = a.file := rfl
    rw [hbo, hfi] at hx2
    have : (pos a + 1).toNat = a.boff.toNat + (a.bpos + 1) := by simp only [pos]; omega
    simp only [this]; exact hx2

end EaselModel.Sqio.Refine
