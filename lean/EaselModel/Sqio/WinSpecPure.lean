import EaselModel.Sqio.Model
/-! # The declarative window series of a sequence (C04): what `esl_sqio_ReadWindow` must return, as a function of the residues

`specWindows R req`: the forward windows of a sequence with residues `R` for the request stream `req k = (C_k, W_k)`:
window `k` holds `c = min C_k (size of the previous window)` residues of context followed by `w = min W_k (residues left)` new ones,
`start = d − c + 1`, `end = d + w` (1-based; `d` = residues delivered before), and the series ends when nothing is left.
`specWindows_concat`: the new parts of the windows, concatenated, are the sequence. Core Lean only. -/
namespace EaselModel.Sqio.WinSpecPure

/-- what a client sees of one window -/
structure WinRec where
  start : Int
  end_ : Int
  C : Int
  W : Int
  seq : Bytes
  deriving DecidableEq, Repr

def toWin (s : Sq) : WinRec := ⟨s.start, s.end_, s.C, s.W, s.seq⟩

/-- the residues of a window behind its context -/
def newPart (x : WinRec) : Bytes := x.seq.extract x.C.toNat x.seq.size

def specWindows (R : Bytes) (req : Nat → Int × Int) : Nat → Nat → Nat → Nat → List WinRec
  | 0, _, _, _ => []
  | fuel + 1, k, d, nPrev =>
    if R.size ≤ d then [] else
    ⟨(d : Int) - (min (req k).1.toNat nPrev : Nat) + 1, ((d + min (req k).2.toNat (R.size - d) : Nat) : Int),
      (min (req k).1.toNat nPrev : Nat), (min (req k).2.toNat (R.size - d) : Nat),
      R.extract (d - min (req k).1.toNat nPrev) (d + min (req k).2.toNat (R.size - d))⟩ ::
      specWindows R req fuel (k + 1) (d + min (req k).2.toNat (R.size - d)) (min (req k).1.toNat nPrev + min (req k).2.toNat (R.size - d))

theorem specWindows_succ (R : Bytes) (req : Nat → Int × Int) (fuel k d nPrev : Nat) :
    specWindows R req (fuel + 1) k d nPrev =
    if R.size ≤ d then [] else
    ⟨(d : Int) - (min (req k).1.toNat nPrev : Nat) + 1, ((d + min (req k).2.toNat (R.size - d) : Nat) : Int),
      (min (req k).1.toNat nPrev : Nat), (min (req k).2.toNat (R.size - d) : Nat),
      R.extract (d - min (req k).1.toNat nPrev) (d + min (req k).2.toNat (R.size - d))⟩ ::
      specWindows R req fuel (k + 1) (d + min (req k).2.toNat (R.size - d)) (min (req k).1.toNat nPrev + min (req k).2.toNat (R.size - d)) := rfl

/-- **the windows tile the sequence**: the new parts, concatenated in order, are the residues `d+1 .. L` -/
theorem specWindows_concat (R : Bytes) (req : Nat → Int × Int) (hW : ∀ k, 1 ≤ (req k).2) :
    ∀ (fuel k d nPrev : Nat) (acc : Bytes), nPrev ≤ d → R.size - d < fuel →
      (specWindows R req fuel k d nPrev).foldl (fun acc x => acc ++ newPart x) acc = acc ++ R.extract d R.size := by
  intro fuel
  induction fuel with
  | zero => intro k d nPrev acc _ h; omega
  | succ fuel ih =>
    intro k d nPrev acc hn hf
    rw [specWindows_succ]
    by_cases hd : R.size ≤ d
    · simp only [hd, if_true, List.foldl_nil]
      rw [Array.extract_empty_of_stop_le_start hd]; simp
    · simp only [hd, if_false, List.foldl_cons]
      have hw1 : 1 ≤ (req k).2.toNat := by have := hW k; omega
      generalize hc : min (req k).1.toNat nPrev = c
      generalize hw : min (req k).2.toNat (R.size - d) = w
      have hcd : c ≤ d := by omega
      have hwpos : 1 ≤ w := by omega
      have hwle : d + w ≤ R.size := by omega
      rw [ih (k + 1) (d + w) (c + w) _ (by omega) (by omega)]
      have hnp : newPart ⟨(d : Int) - (c : Nat) + 1, ((d + w : Nat) : Int), (c : Nat), (w : Nat), R.extract (d - c) (d + w)⟩ = R.extract d (d + w) := by
        simp only [newPart, Int.toNat_natCast, Array.size_extract, Array.extract_extract]
        congr 1 <;> omega
      rw [hnp, Array.append_assoc, Array.extract_append_extract]
      congr 2 <;> omega

/-- coordinates: every window is `[start .. end]` with `end − start + 1 = C + W` residues, windows are contiguous -/
theorem specWindows_coords (R : Bytes) (req : Nat → Int × Int) :
    ∀ (fuel k d nPrev : Nat), nPrev ≤ d →
      ∀ x ∈ specWindows R req fuel k d nPrev, x.end_ - x.start + 1 = x.C + x.W ∧ (x.seq.size : Int) = x.C + x.W ∧ 1 ≤ x.start ∧
        x.end_ ≤ (R.size : Int) ∧ 0 ≤ x.C := by
  intro fuel
  induction fuel with
  | zero => intro k d nPrev _ x hx; cases hx
  | succ fuel ih =>
    intro k d nPrev hn x hx
    rw [specWindows_succ] at hx
    by_cases hd : R.size ≤ d
    · simp only [hd, if_true] at hx; cases hx
    · simp only [hd, if_false] at hx
      rcases List.mem_cons.mp hx with e | e
      · subst e
        simp only [Array.size_extract]
        omega
      · exact ih _ _ _ (by omega) x e

end EaselModel.Sqio.WinSpecPure
