import EaselModel.Core.Proto
import EaselModel.Sqio.Fetch
/-! Line-protocol step function over the sequence-file model, shared by the C04 / C02 / C07 drivers. -/
namespace EaselModel.Sqio
open EaselModel.Proto

structure DS where
  file : Bytes := #[]
  ext : String := "fa"
  a : Option Ascii := none
  sq : Sq := {}
  ssi : Option Ssi := none
  blk : Option Block := none
  dead : Bool := false          -- a call failed: the C API leaves the handle in an unspecified state
  unmodelled : Bool := false    -- a format / call outside the model was selected: answer `unmodelled` from here on
  deriving Inhabited

def hexB (b : Bytes) : String := hexOrDash b.toList

def fmtSq (sq : Sq) : String :=
  s!"name={hexB (cstr sq.name)} acc={hexB (cstr sq.acc)} desc={hexB (cstr sq.desc)} src={hexB (cstr sq.source)} " ++
  s!"n={sq.n} L={sq.L} start={sq.start} end={sq.end_} C={sq.C} W={sq.W} " ++
  s!"roff={sq.roff} hoff={sq.hoff} doff={sq.doff} eoff={sq.eoff} seq={hexB sq.seq} wf=1"

/-- result line of a reading call -/
def fmtRes (a : Ascii) (sq : Sq) (st : Status) : String :=
  let exc := if a.exc then " exc" else ""
  match st with
  | .ok => "ok " ++ fmtSq sq
  | .eod => "eod " ++ fmtSq sq
  | .eof => "eof"
  | .eformat => s!"eformat line={a.linenumber} " ++ (if a.haveErr then "msg" else "nomsg") ++ exc
  | .fault => "fault"
  | s => s.name ++ (if a.haveErr then " msg" else " nomsg") ++ exc

def fmtCode (s : String) : Option Nat :=
  match s with
  | "fasta" => some 1 | "embl" => some 2 | "genbank" => some 3 | "ddbj" => some 4 | "uniprot" => some 5
  | "daemon" => some 7 | "hmmpgmd" => some 8 | "unknown" => some 0
  | _ => none

def abcCode (s : String) : Option Nat :=
  match s with
  | "text" => some 0 | "dna" => some 1 | "rna" => some 2 | "amino" => some 3 | _ => none

/-- `sqascii_GuessFileFormat()`: by file-name suffix, else by the first non-blank line (read in recording + line mode).
    Returns the reset handle and the format, `none` if undetermined (the MSA autodetection takes over: outside the model). -/
def guessFormat (a : Ascii) (ext : String) : Ascii × Option Nat :=
  if ext == "fa" then (a, some 1) else if ext == "gb" then (a, some 3) else
  let a := { a with recording := 1, linebased := true }
  let (a, _) := loadbuf a
  let (a, st) := skipLinesWhile isBlankStr (fuelOf a) a
  let fmt : Option Nat :=
    if st != .ok then none
    else if a.line.getD 0 0 == chGt then some 1
    else if hasPrefix a.line "ID   " then some 2
    else if hasPrefix a.line "LOCUS   " then some 3
    else if containsStr a.line "Genetic Sequence Data Bank" then some 3
    else none
  ({ a with mpos := 0, recording := 0, linebased := false, line := #[], nc := 0, bpos := 0 }, fmt)

def inmapFor (fmt abc : Nat) : Bytes :=
  if fmt == 2 || fmt == 5 || fmt == 3 || fmt == 4 then inmapEmbl abc
  else if fmt == 7 then inmapDaemon abc
  else inmapFasta abc

/-- `esl_sqfile_Open` / `esl_sqfile_OpenDigital` for the modelled formats; `none` = outside the model -/
def openModel (file : Bytes) (ext : String) (fmt abc B : Nat) : Option (Ascii × Status) :=
  let a0 : Ascii := { file := file, B := B, abc := abc }
  let (a0, fmtR) : Ascii × Option Nat := if fmt == 0 then guessFormat a0 ext else (a0, some fmt)
  match fmtR with
  | none => none
  | some fmt =>
  if !(fmt == 1 || fmt == 2 || fmt == 3 || fmt == 4 || fmt == 5 || fmt == 7 || fmt == 8) then none else
  let lineb := fmt == 2 || fmt == 5 || fmt == 3 || fmt == 4
  let a : Ascii := { a0 with fmt := fmt, eofIsOk := (fmt == 1 || fmt == 8), linebased := lineb, inmap := inmapFor fmt 0 }
  let (a, st) := loadbuf a
  if st == .eof then some (a, .eformat)
  else if st != .ok then some (a, st)
  else
    let (a, st) := if fmt == 8 then fileheaderHmmpgmd a else (a, Status.ok)
    if st != .ok then some (a, st) else
    some ({ a with inmap := inmapFor fmt abc, haveErr := false }, .ok)

def freshSq (abc : Nat) : Sq := { digital := abc != 0, abc := abc }

def fnv (h : UInt64) (x : UInt8) : UInt64 := (h ^^^ x.toUInt64) * (0x100000001b3 : UInt64)
def fnvBytes (l : List UInt8) : UInt64 := l.foldl fnv (0xcbf29ce484222325 : UInt64)

/-- read every record of `file` with `sqascii_Read` -/
def readAllLoop : Nat → Ascii → Nat → Array Sq → Option (Array Sq)
  | 0, _, _, _ => none
  | fuel + 1, a, abc, acc =>
    let (a, sq, st) := read a (freshSq abc)
    if st == .eof then some acc else if st != .ok then none else readAllLoop fuel a abc (acc.push sq)

def sameRec (x y : Sq) : Bool :=
  cstr x.name == cstr y.name && cstr x.acc == cstr y.acc && cstr x.desc == cstr y.desc && x.seq == y.seq && x.L == y.L

/-- the op `roundtrip`: read all, write all as FASTA, re-read, compare -/
def roundtrip (file : Bytes) (abc B : Nat) : String :=
  match openModel file "fa" 1 abc B with
  | some (a, .ok) =>
    match readAllLoop (file.size + 2) a abc #[] with
    | none => "skip"
    | some recs =>
      let out : List UInt8 := recs.toList.flatMap writeFasta
      let file2 : Bytes := out.toArray
      let recs2 : Option (Array Sq) :=
        if file2.size == 0 then some #[] else
        match openModel file2 "fa" 1 abc B with
        | some (a2, .ok) => readAllLoop (file2.size + 2) a2 abc #[]
        | _ => none
      match recs2 with
      | none => s!"ok nrec={recs.size} same=0 h={fnvBytes out}"
      | some r2 =>
        let same := r2.size == recs.size && (List.range recs.size).all (fun i => sameRec (recs.getD i {}) (r2.getD i {}))
        s!"ok nrec={recs.size} same={if same then 1 else 0} h={fnvBytes out}"
  | _ => "skip"

/-- the composite op `srcscan`: read the file to its end with one kind of call (gzip pipe and standard input deliver the same
    bytes through the same block loader; only repositioning is unavailable) -/
def scanAllLoop (call : String) (C W : Int) : Nat → Ascii → Sq → List String → List String
  | 0, _, _, acc => acc.reverse
  | fuel + 1, a, sq, acc =>
    let a := { a with haveErr := false, exc := false }
    let (a, sq, st) :=
      if call == "read" then read a sq.reuse
      else if call == "readinfo" then readInfo a sq.reuse
      else if call == "readseq" then readSequence a sq.reuse
      else readWindow a sq C W
    let acc := fmtRes a sq st :: acc
    if st == .eof then acc.reverse
    else if !(st == .ok || st == .eod) then acc.reverse
    else scanAllLoop call C W fuel a (if st == .eod then sq.reuse else sq) acc

/-- tokens of a key / GDF file as `esl_fileparser` delivers them: lines split at `\n`, `#` starts a comment, blanks separate tokens -/
def fileTokens (txt : List UInt8) : List (List (List UInt8)) :=
  let lines := (txt.splitOn (10 : UInt8))
  (lines.map fun ln =>
    let ln := ln.takeWhile (· != 35)
    (ln.splitOn (32 : UInt8)).flatMap (fun w => (w.splitOn (9 : UInt8))) |>.map (fun w => w.filter (· != 13)) |>.filter (fun w => !w.isEmpty)).filter (fun l => !l.isEmpty)

def natOfDigits (w : List UInt8) : Int := (w.foldl (fun acc c => if 48 ≤ c && c ≤ 57 then acc * 10 + (c.toNat - 48) else acc) 0 : Nat)

/-- `onefetch_subseq()` of esl-sfetch -/
def toolSubseq (a : Ascii) (ssi : Ssi) (newname : Option Bytes) (k : Bytes) (gs ge : Int) : Ascii × Option (List UInt8) :=
  let (st0, en, rc) := if ge != 0 && gs > ge then (ge, gs, true) else (gs, ge, false)
  let (a, sq, st) := fetchSubseq a ssi (freshSq 0) k st0 en
  if st != .ok then (a, none) else
  let nm := match newname with
    | some n => n
    | none => k ++ #[47] ++ decBytes gs ++ #[45] ++ decBytes (if ge == 0 then sq.L else ge)
  let sq := { sq with name := nm }
  let (sq, stR, _) := if rc then revcomp sq else (sq, Status.ok, false)
  if stR != .ok then (a, none) else (a, some (writeFasta sq))

/-- esl-sfetch `onefetch` without an index: read sequentially until the name or accession matches, then Echo the record -/
def scanFetchLoop : Nat → Ascii → Bytes → Option (Ascii × Sq)
  | 0, _, _ => none
  | fuel + 1, a, key =>
    let (a, sq, st) := read a (freshSq 0)
    if st != .ok then none
    else if cstr sq.name == key || cstr sq.acc == key then some (a, sq)
    else scanFetchLoop fuel a key

/-- esl-sfetch `multifetch` without an index: read everything, write (FASTA) the records whose name or accession is a key -/
def scanMultiLoop : Nat → Ascii → List Bytes → List UInt8 → Nat → Option (List UInt8 × Nat)
  | 0, _, _, _, _ => none
  | fuel + 1, a, keys, out, nseq =>
    let (a, sq, st) := read a (freshSq 0)
    if st == .eof then some (out, nseq)
    else if st != .ok then none
    else if ((cstr sq.name).size > 0 && keys.contains (cstr sq.name)) || ((cstr sq.acc).size > 0 && keys.contains (cstr sq.acc)) then
      scanMultiLoop fuel a keys (out ++ writeFasta sq) (nseq + 1)
    else scanMultiLoop fuel a keys out nseq

def withA (s : DS) (f : Ascii → DS × String) : DS × String :=
  if s.unmodelled then (s, "unmodelled") else
  if s.dead then (s, "dead") else
  match s.a with
  | none => (s, "closed")
  | some a => f { a with haveErr := false, exc := false }

def finish (s : DS) (a : Ascii) (sq : Sq) (st : Status) : DS × String :=
  let dead := !(st == .ok || st == .eof || st == .eod)
  ({ s with a := some a, sq := sq, dead := dead }, fmtRes a sq st)

def step (s : DS) (line : String) : DS × String :=
  let ws := words line
  match ws with
  | "file" :: _ =>
    match argHex? ws "hex" with
    | some b => ({ s with file := b.toArray, ext := (arg? ws "ext").getD "fa", a := none, ssi := none, dead := false, unmodelled := false },
                 s!"ok n={b.length}")
    | none => (s, "bad-op")
  | "open" :: _ =>
    match (arg? ws "fmt").bind fmtCode, (arg? ws "abc").bind abcCode, argNat? ws "B" with
    | some fmt, some abc, some B =>
      if B == 0 then (s, "bad-op") else
      match openModel s.file s.ext fmt abc B with
      | none => ({ s with unmodelled := true, a := none }, "unmodelled")
      | some (a, st) =>
        if st == .ok then ({ s with a := some a, sq := freshSq abc, ssi := none, blk := none, dead := false, unmodelled := false }, s!"ok fmt={a.fmt}")
        else ({ s with a := none, dead := false, unmodelled := false }, st.name)
    | none, some _, some _ =>
      -- a format name the model does not know (alignment formats read as sequences): outside the model
      ({ s with unmodelled := true, a := none }, "unmodelled")
    | _, _, _ => (s, "bad-op")
  | "close" :: _ => if s.unmodelled then (s, "unmodelled") else ({ s with a := none, ssi := none, dead := false }, "ok")
  | "reuse" :: _ => if s.unmodelled then (s, "unmodelled") else ({ s with sq := s.sq.reuse }, "ok")
  | "read" :: _ => withA s fun a => let (a, sq, st) := read a s.sq.reuse; finish s a sq st
  | "readinfo" :: _ => withA s fun a => let (a, sq, st) := readInfo a s.sq.reuse; finish s a sq st
  | "readseq" :: _ => withA s fun a => let (a, sq, st) := readSequence a s.sq.reuse; finish s a sq st
  | "readwin" :: _ =>
    match argInt? ws "C", argInt? ws "W" with
    | some C, some W => withA s fun a => let (a, sq, st) := readWindow a s.sq C W; finish s a sq st
    | _, _ => (s, "bad-op")
  | "inmap" :: _ => withA s fun a => (s, s!"ok inmap={hexOfBytes a.inmap.toList}")
  | "geom" :: _ => withA s fun a => (s, s!"ok bpl={a.trk.bpl} rpl={a.trk.rpl}")
  | "pos" :: _ =>
    match argNat? ws "off" with
    | some off => withA s fun a =>
        let (a, st) := position a off
        ({ s with a := some a, dead := !(st == .ok || st == .eof) }, st.name)
    | none => (s, "bad-op")
  | "index" :: _ =>
    if s.unmodelled then (s, "unmodelled") else
    match s.a with
    | none => (s, "closed")
    | some a0 =>
      match openModel s.file s.ext a0.fmt 0 a0.B with
      | some (a, .ok) =>
        match buildIndexLoop (s.file.size + 2) a {} with
        | none => (s, "index-failed")
        | some (a, ssi) =>
          let fast := a.trk.bpl > 0 && a.trk.rpl > 0
          let ssi := { ssi with fast := fast, bpl := if fast then a.trk.bpl else 0, rpl := if fast then a.trk.rpl else 0 }
          ({ s with ssi := some ssi },
           s!"ok nprim={ssi.prim.size} nalias={ssi.alias.size} fast={if fast then 1 else 0} bpl={ssi.bpl} rpl={ssi.rpl}")
      | _ => (s, "index-failed")
  | "poskey" :: _ =>
    match argHex? ws "key", s.ssi with
    | some k, some ssi => withA s fun a =>
        match ssi.findName k.toArray with
        | none => ({ s with a := some a }, "enotfound")
        | some e =>
          -- sqascii_PositionByKey (e3f8b5b): an index without record offsets (made from an alignment file) does not describe this file
          if e.roff < 0 then ({ s with a := some a, dead := true }, "eformat") else
          let (a, st) := position a e.roff.toNat
          ({ s with a := some a, dead := !(st == .ok || st == .eof) }, st.name)
    | _, _ => (s, if s.unmodelled then "unmodelled" else "bad-op")
  | "posnum" :: _ =>
    match argNat? ws "n", s.ssi with
    | some n, some ssi => withA s fun a =>
        match findNumber ssi n with
        | none => ({ s with a := some a }, "enotfound")
        | some _ =>
          let (a, st) := positionByNumber a ssi n
          ({ s with a := some a, dead := !(st == .ok || st == .eof) }, st.name)
    | _, _ => (s, if s.unmodelled then "unmodelled" else "bad-op")
  | "fetch" :: _ =>
    match argHex? ws "key", s.ssi with
    | some k, some ssi => withA s fun a =>
        match ssi.findName k.toArray with
        | none => ({ s with a := some a }, "enotfound nomsg")
        | some e =>
          if e.roff < 0 then finish s a s.sq .eformat else     -- sqascii_PositionByKey, e3f8b5b
          let (a, st) := position a e.roff.toNat
          if st != .ok then finish s a s.sq st else
          let (a, sq, st) := read a s.sq.reuse
          finish s a sq st
    | _, _ => (s, if s.unmodelled then "unmodelled" else "bad-op")
  | "fetchinfo" :: _ =>
    match argHex? ws "key", s.ssi with
    | some k, some ssi => withA s fun a =>
        match ssi.findName k.toArray with
        | none => ({ s with a := some a }, "enotfound nomsg")
        | some e =>
          if e.roff < 0 then finish s a s.sq .eformat else     -- sqascii_PositionByKey, e3f8b5b
          let (a, st) := position a e.roff.toNat
          if st != .ok then finish s a s.sq st else
          let (a, sq, st) := readInfo a s.sq.reuse
          finish s a sq st
    | _, _ => (s, if s.unmodelled then "unmodelled" else "bad-op")
  | "fetchsub" :: _ =>
    match argHex? ws "key", argInt? ws "s", argInt? ws "e", s.ssi with
    | some k, some st0, some en, some ssi => withA s fun a =>
        let (a, sq, st) := fetchSubseq a ssi s.sq.reuse k.toArray st0 en
        -- ENOTFOUND / ERANGE before any repositioning leave the handle usable
        if st == .enotfound || st == .erange then ({ s with a := some a }, fmtRes a sq st) else finish s a sq st
    | _, _, _, _ => (s, if s.unmodelled then "unmodelled" else "bad-op")
  | "echo" :: _ => withA s fun a =>
      let (a, st, out) := echo a s.sq
      if st == .ok then ({ s with a := some a }, s!"ok hex={hexB out} ln={a.linenumber}")
      else ({ s with a := some a, dead := true }, if st == .fault then "fault" else st.name ++ (if a.exc then " exc" else ""))
  | "toolfetch" :: _ =>
    -- `onefetch` of esl-sfetch with an index: PositionByKey, Read, Echo
    match argHex? ws "key", s.ssi with
    | some k, some ssi => withA s fun a =>
        match ssi.findName k.toArray with
        | none => ({ s with a := some a, dead := true }, "tool-fatal")
        | some e =>
          let (a, st) := position a e.roff.toNat
          if st != .ok then ({ s with a := some a, dead := true }, "tool-fatal") else
          let (a, sq, st) := read a (freshSq 0)
          if st != .ok then ({ s with a := some a, dead := true }, "tool-fatal") else
          let (a, st, out) := echo a sq
          if st != .ok then ({ s with a := some a, dead := true }, "tool-fatal") else
          ({ s with a := some a }, s!"ok hex={hexB out}")
    | some k, none => withA s fun a =>
        match scanFetchLoop (s.file.size + 2) a k.toArray with
        | none => ({ s with a := some a, dead := true }, "tool-fatal")
        | some (a, sq) =>
          let (a, st, out) := echo a sq
          if st != .ok then ({ s with a := some a, dead := true }, "tool-fatal") else
          ({ s with a := some a }, s!"ok hex={hexB out}")
    | _, _ => (s, if s.unmodelled then "unmodelled" else "bad-op")
  | "toolmulti" :: _ =>
    match argHex? ws "text", s.ssi with
    | some txt, some ssi => withA s fun a =>
        let keys := (fileTokens txt).filterMap List.head?
        let r := keys.foldl (fun (acc : Ascii × Option (List UInt8)) k =>
          match acc with
          | (a, none) => (a, none)
          | (a, some out) =>
            match ssi.findName k.toArray with
            | none => (a, none)
            | some e =>
              let (a, st) := position a e.roff.toNat
              if st != .ok then (a, none) else
              let (a, sq, st) := read a (freshSq 0)
              if st != .ok then (a, none) else
              let (a, st, bytes) := echo a sq
              if st != .ok then (a, none) else (a, some (out ++ bytes.toList))) (a, some [])
        match r with
        | (a, some out) => ({ s with a := some a }, s!"ok hex={hexOrDash out}")
        | (a, none) => ({ s with a := some a, dead := true }, "tool-fatal")
    | some txt, none => withA s fun a =>
        let keys := ((fileTokens txt).filterMap List.head?).map List.toArray
        match scanMultiLoop (s.file.size + 2) a keys [] 0 with
        | some (out, nseq) =>
          if nseq != keys.length then ({ s with a := none, dead := true }, "tool-fatal")
          else ({ s with dead := true }, s!"ok hex={hexOrDash out}")
        | none => ({ s with dead := true }, "tool-fatal")
    | _, _ => (s, if s.unmodelled then "unmodelled" else "bad-op")
  | "toolmultisub" :: _ =>
    match argHex? ws "text", s.ssi with
    | some txt, some ssi => withA s fun a =>
        let r := (fileTokens txt).foldl (fun (acc : Ascii × Option (List UInt8)) toks =>
          match acc, toks with
          | (a, none), _ => (a, none)
          | (a, some out), [nn, s1, s2, src] =>
            let (a, r) := toolSubseq a ssi (some nn.toArray) src.toArray (natOfDigits s1) (natOfDigits s2)
            (a, r.map (out ++ ·))
          | (a, some _), _ => (a, none)) (a, some [])
        match r with
        | (a, some out) => ({ s with a := some a }, s!"ok hex={hexOrDash out}")
        | (a, none) => ({ s with a := some a, dead := true }, "tool-fatal")
    | _, _ => (s, if s.unmodelled then "unmodelled" else "bad-op")
  | "toolsub" :: _ =>
    -- `onefetch_subseq` of esl-sfetch: coordinates with start > end request the reverse complement
    match argHex? ws "key", argInt? ws "s", argInt? ws "e", s.ssi with
    | some k, some gs, some ge, some ssi => withA s fun a =>
        let (st0, en, rc) := if ge != 0 && gs > ge then (ge, gs, true) else (gs, ge, false)
        let (a, sq, st) := fetchSubseq a ssi (freshSq 0) k.toArray st0 en
        if st != .ok then ({ s with a := some a, dead := true }, "tool-fatal") else
        let nm := k.toArray ++ #[47] ++ decBytes gs ++ #[45] ++ decBytes (if ge == 0 then sq.L else ge)
        let sq := { sq with name := nm }
        let (sq, stR, _) := if rc then revcomp sq else (sq, Status.ok, false)
        if stR != .ok then ({ s with a := some a, dead := true }, "tool-fatal") else
        ({ s with a := some a }, s!"ok hex={hexOrDash (writeFasta sq)}")
    | _, _, _, _ => (s, if s.unmodelled then "unmodelled" else "bad-op")
  | "readblock" :: _ =>
    match argNat? ws "list", argInt? ws "maxres", argInt? ws "maxseq", argNat? ws "init", argNat? ws "long", argInt? ws "ctx" with
    | some ls, some mr, some ms, some ini, some lng, some ctx => withA s fun a =>
        let blk : Block := match s.blk with
          | some b => b
          | none => { listSize := ls, complete := true, list := (Array.range ls).map fun _ => freshSq a.abc }
        -- the caller's part of the contract: recycle the sequences (short mode) / move the incomplete window to slot 0 (long mode)
        let blk :=
          if lng == 0 then { blk with list := blk.list.map Sq.reuse }
          else if !blk.complete && blk.count > 0 then
            let last := blk.list.getD (blk.count - 1) {}
            let l0 := if blk.count > 1 then (blk.list.getD 0 {}).copyFrom last else blk.list.getD 0 {}
            { blk with list := blk.list.setIfInBounds 0 { l0 with C := ctx } }
          else blk
        let (a, blk, st) := readBlock a blk mr ms (ini != 0) (lng != 0)
        let exc := if a.exc then " exc" else ""
        if st == .ok then
          let items := (List.range blk.count).map fun i =>
            let q := blk.list.getD i {}
            s!" | name={hexB (cstr q.name)} n={q.n} L={q.L} start={q.start} end={q.end_} C={q.C} W={q.W} seq={hexB q.seq}"
          ({ s with a := some a, blk := some blk }, s!"ok count={blk.count} complete={if blk.complete then 1 else 0}" ++ String.join items ++ " | wf=1")
        else if st == .eof then ({ s with a := some a, blk := some blk }, "eof")
        else if st == .fault then ({ s with a := some a, blk := some blk, dead := true }, "fault")
        else ({ s with a := some a, blk := some blk, dead := true },
              st.name ++ (if st == .eformat then (if a.haveErr then " msg" else " nomsg") else "") ++ exc)
    | _, _, _, _, _, _ => (s, "bad-op")
  | "srcscan" :: _ =>
    match (arg? ws "fmt").bind fmtCode, (arg? ws "abc").bind abcCode, argNat? ws "B", arg? ws "call", argInt? ws "C", argInt? ws "W" with
    | some fmt, some abc, some B, some call, some C, some W =>
      -- format autodetection on a pipe works on the name without `.gz`; on standard input the name is `-` (no suffix)
      let ext := if arg? ws "src" == some "stdin" || arg? ws "src" == some "pipe" then "-" else s.ext
      match openModel s.file ext fmt abc (if B == 0 then 1 else B) with
      | none => ({ s with a := none }, "unmodelled")
      | some (a, st) =>
        let tag := if arg? ws "src" == some "stdin" then "scan-stdin " else if arg? ws "src" == some "pipe" then "scan-pipe " else "scan-gzip "
        if st != .ok then ({ s with a := none }, tag ++ s!"open-{st.name}") else
        let fuel := 4 * s.file.size + 16
        ({ s with a := none }, tag ++ " ;; ".intercalate (scanAllLoop call C W fuel a (freshSq abc) []))
    | _, _, _, _, _, _ => (s, "bad-op")
  | "afetch" :: _ => ({ s with a := none, ssi := none }, "unmodelled")    -- alignment databases: harness + monitor only
  | "guessabc" :: _ => withA s fun a =>
      let (a, st, t) := guessAlphabet a
      ({ s with a := some a, dead := st != "ok" }, s!"{st} type={t}" ++ (if a.exc then " exc" else ""))
  | "wfasta" :: _ =>
    if s.unmodelled then (s, "unmodelled") else (s, s!"ok hex={hexOrDash (writeFasta s.sq)}")
  | "roundtrip" :: _ =>
    if s.unmodelled then (s, "unmodelled") else
    match s.a with
    | none => (s, "closed")
    | some a => (s, roundtrip s.file a.abc a.B)
  | _ => (s, "bad-op")

end EaselModel.Sqio
