import EaselModel.Sqio.SpecFasta
/-! # `sqascii_ReadBlock` (whole-sequence mode) = the next records of the declarative parser (C04)

`specBlock`: records of `specOne` while fewer than `maxSeq` records and fewer than `MAX_RESIDUE_COUNT` residues have been taken.
`blockShortLoop_spec` / `readBlock_short_spec`: the block reader (which calls `sqascii_Read` on the slots of the block, each slot with
its own allocations) fills the slots with exactly these records, for every block size; `specBlock_prefix`: they are a prefix of the
records of `specFasta`'s loop from the same cursor. -/
namespace EaselModel.Sqio.BlockSpec
open EaselModel.Sqio.Refine EaselModel.Sqio.DataScan EaselModel.Sqio.Cursor EaselModel.Sqio.BodySpec EaselModel.Sqio.HeaderSpec
open EaselModel.Sqio.ReadSpec EaselModel.Sqio.ParseFasta EaselModel.Sqio.SpecFasta

def specBlock (inmap map : Bytes) (N : Nat) : Nat → (i size maxSeq : Nat) → Status → List UInt8 → List Record × Status × List UInt8
  | 0, _, _, _, _, l => ([], .fault, l)
  | fuel + 1, i, size, maxSeq, st, l =>
    if i < maxSeq && size < maxResidueCount then
      match specOne inmap map N l with
      | (.ok, some r, rest) =>
        (r :: (specBlock inmap map N fuel (i + 1) (size + r.seq.length) maxSeq .ok rest).1,
         (specBlock inmap map N fuel (i + 1) (size + r.seq.length) maxSeq .ok rest).2)
      | (st', _, rest) => ([], st', rest)
    else ([], st, l)

/-- the records a block holds are the next records of the sequential parse -/
theorem specBlock_prefix (inmap map : Bytes) (N : Nat) (fuel : Nat) : ∀ (i size maxSeq : Nat) (st : Status) (l : List UInt8),
    (specBlock inmap map N fuel i size maxSeq st l).1 <+: (specAll inmap map N fuel l).1 := by
  induction fuel with
  | zero => intro i size maxSeq st l; exact List.nil_prefix
  | succ fuel ih =>
    intro i size maxSeq st l
    simp only [specBlock, specAll]
    by_cases hc : (decide (i < maxSeq) && decide (size < maxResidueCount)) = true
    · simp only [hc, if_true]
      generalize specOne inmap map N l = S
      obtain ⟨s1, s2, s3⟩ := S
      cases s1 <;> try exact List.nil_prefix
      cases s2 with
      | none => exact List.nil_prefix
      | some r =>
        simp only []
        exact List.cons_prefix_cons.mpr ⟨rfl, ih _ _ _ _ _⟩
    · simp only [hc, Bool.false_eq_true, if_false]
      exact List.nil_prefix

/-- a slot of the block as `esl_sq_Reuse` / `esl_sq_CreateBlock` leaves it -/
structure SlotOk (dig : Bool) (abc : Nat) (s : Sq) : Prop where
  seq : s.seq = #[]
  nalloc : 2 ≤ s.nalloc
  dalloc : 2 ≤ s.dalloc
  dig : s.digital = dig
  abc : s.abc = abc

/-- what the block reader needs of the handle -/
structure HReady (a : Ascii) (map : Bytes) : Prop where
  cur : Cur a
  fmt : a.fmt = 1
  eofOk : a.eofIsOk = true
  hm : a.inmap.size = 128
  mapOk : MapOk a.inmap map
  eodGt : EodGt a.inmap

theorem blockShortLoop_succ (fuel : Nat) (a : Ascii) (b : Block) (i size maxSeq : Nat) (st : Status) :
    blockShortLoop (fuel + 1) a b i size maxSeq st =
    if i < maxSeq && size < maxResidueCount then
      if (read a (b.list.getD i {})).2.2 != .ok then
        ((read a (b.list.getD i {})).1, { b with list := b.list.setIfInBounds i (read a (b.list.getD i {})).2.1 }, i, (read a (b.list.getD i {})).2.2)
      else
        blockShortLoop fuel (read a (b.list.getD i {})).1
          { b with list := b.list.setIfInBounds i (read a (b.list.getD i {})).2.1, count := b.count + 1 } (i + 1)
          (size + (read a (b.list.getD i {})).2.1.n) maxSeq (read a (b.list.getD i {})).2.2
    else (a, b, i, st) := by
  simp only [blockShortLoop]

theorem getD_set_ne (arr : Array Sq) (i j : Nat) (v : Sq) (h : i ≠ j) : (arr.setIfInBounds i v).getD j {} = arr.getD j {} := by
  simp [Array.getD_eq_getD_getElem?, h]

theorem getD_set_eq (arr : Array Sq) (i : Nat) (v : Sq) (h : i < arr.size) : (arr.setIfInBounds i v).getD i {} = v := by
  simp [Array.getD_eq_getD_getElem?, h]

theorem blockShortLoop_spec (dig : Bool) (abc : Nat) (fuel : Nat) : ∀ (a : Ascii) (b : Block) (i size maxSeq : Nat) (st : Status),
    HReady a (if dig then abcInmap abc else a.inmap) → (∀ j, i ≤ j → j < maxSeq → SlotOk dig abc (b.list.getD j {})) →
    maxSeq ≤ b.list.size → (fileFrom a).length < fuel → st ≠ .fault →
    (blockShortLoop fuel a b i size maxSeq st).2.2.2 =
      (specBlock a.inmap (if dig then abcInmap abc else a.inmap) a.file.size fuel i size maxSeq st (fileFrom a)).2.1 ∧
    (blockShortLoop fuel a b i size maxSeq st).2.2.1 =
      i + (specBlock a.inmap (if dig then abcInmap abc else a.inmap) a.file.size fuel i size maxSeq st (fileFrom a)).1.length ∧
    (blockShortLoop fuel a b i size maxSeq st).2.1.count =
      b.count + (specBlock a.inmap (if dig then abcInmap abc else a.inmap) a.file.size fuel i size maxSeq st (fileFrom a)).1.length ∧
    (∀ k r, (specBlock a.inmap (if dig then abcInmap abc else a.inmap) a.file.size fuel i size maxSeq st (fileFrom a)).1[k]? = some r →
      toRecord ((blockShortLoop fuel a b i size maxSeq st).2.1.list.getD (i + k) {}) = r) ∧
    (∀ j, j < i → (blockShortLoop fuel a b i size maxSeq st).2.1.list.getD j {} = b.list.getD j {}) ∧
    (blockShortLoop fuel a b i size maxSeq st).2.1.list.size = b.list.size ∧
    (blockShortLoop fuel a b i size maxSeq st).2.1.complete = b.complete ∧
    (blockShortLoop fuel a b i size maxSeq st).2.2.2 ≠ .fault := by
  induction fuel with
  | zero => intro a b i size maxSeq st _ _ _ h _; omega
  | succ fuel ih =>
    intro a b i size maxSeq st H hslot hsz hf hstf
    rw [blockShortLoop_succ]
    simp only [specBlock]
    by_cases hc : (decide (i < maxSeq) && decide (size < maxResidueCount)) = true
    · simp only [hc, if_true]
      have hi : i < maxSeq := by
        have := (Bool.and_eq_true _ _).mp hc; exact of_decide_eq_true this.1
      have S := hslot i (Nat.le_refl _) hi
      generalize hsq : b.list.getD i {} = s at *
      have hmapeq : mapFor a.inmap s = (if dig then abcInmap abc else a.inmap) := by
        simp only [mapFor, S.dig, S.abc]
      have R : Ready a s := ⟨H.cur, H.fmt, H.eofOk, H.hm, by rw [mapOf_eq, hmapeq]; exact H.mapOk, H.eodGt, S.nalloc, S.dalloc⟩
      obtain ⟨q1, q2, _, _⟩ := read_spec a s R
      obtain ⟨e1, e2⟩ := recL_eq_specOne a.inmap a.file.size s (fileFrom a) S.seq
      rw [hmapeq] at e1 e2
      by_cases hok : (read a s).2.2 = .ok
      · have hb : ((read a s).2.2 != Status.ok) = false := by rw [hok]; decide
        simp only [hb, Bool.false_eq_true, if_false]
        rw [q1] at hok
        obtain ⟨m1, m2, m3, m4⟩ := q2 hok
        obtain ⟨f1, f2⟩ := e2 hok
        obtain ⟨k1, k2, k3, k4⟩ := recL_keeps a.inmap a.file.size s (fileFrom a) hok
        have hst : (specOne a.inmap (if dig then abcInmap abc else a.inmap) a.file.size (fileFrom a)).1 = .ok := by rw [← e1]; exact hok
        have hi1 : (read a s).1.inmap = a.inmap := stat_inmap m4
        have hf1 : (read a s).1.file = a.file := stat_file m4
        have H' : HReady (read a s).1 (if dig then abcInmap abc else (read a s).1.inmap) := by
          rw [hi1]
          exact ⟨m2, (stat_fmt m4).trans H.fmt, (stat_eofIsOk m4).trans H.eofOk, by rw [hi1]; exact H.hm, by rw [hi1]; exact H.mapOk,
            by rw [hi1]; exact H.eodGt⟩
        have hlt : ((recL a.inmap a.file.size s (fileFrom a)).2.2).length < (fileFrom a).length :=
          (Totality.recL_wf a.inmap a.file.size s (fileFrom a) (by have := H.cur.len; omega) S.nalloc S.dalloc hok).2
        have key := ih (read a s).1 { b with list := b.list.setIfInBounds i (read a s).2.1, count := b.count + 1 } (i + 1)
          (size + (read a s).2.1.n) maxSeq (read a s).2.2 H'
          (fun j hj1 hj2 => by
            show SlotOk dig abc ((b.list.setIfInBounds i (read a s).2.1).getD j {})
            rw [getD_set_ne _ _ _ _ (by omega)]; exact hslot j (by omega) hj2)
          (by show maxSeq ≤ (b.list.setIfInBounds i (read a s).2.1).size; rw [Array.size_setIfInBounds]; exact hsz)
          (by rw [m3]; omega) (by rw [q1, hok]; decide)
        rw [hi1, hf1, m3, f2] at key
        have hn : (read a s).2.1.n = (toRecord (read a s).2.1).seq.length := by simp [toRecord, Sq.n]
        have hok' : (read a s).2.2 = .ok := by rw [q1]; exact hok
        rw [hn, hok'] at key ⊢
        rw [m1] at key
        generalize specOne a.inmap (if dig then abcInmap abc else a.inmap) a.file.size (fileFrom a) = SO at *
        obtain ⟨o1, o2, o3⟩ := SO
        simp only [] at f1 hst key ⊢
        subst hst f1
        simp only []
        rw [m1]
        obtain ⟨j1, j2, j3, j4, j5, j6, j7, j8⟩ := key
        refine ⟨j1, by rw [j2]; simp only [List.length_cons]; omega, by rw [j3]; simp only [List.length_cons]; omega, ?_, ?_, ?_, j7, j8⟩
        · intro k r hk
          cases k with
          | zero =>
            simp only [List.getElem?_cons_zero, Option.some.injEq] at hk
            rw [show i + 0 = i from rfl, j5 i (by omega)]
            show toRecord ((b.list.setIfInBounds i _).getD i {}) = r
            rw [getD_set_eq _ _ _ (by omega), hk]
          | succ k =>
            simp only [List.getElem?_cons_succ] at hk
            have := j4 k r hk
            rw [show i + (k + 1) = i + 1 + k by omega]
            exact this
        · intro j hj
          rw [j5 j (by omega)]
          show (b.list.setIfInBounds i _).getD j {} = _
          rw [getD_set_ne _ _ _ _ (by omega)]
        · rw [j6]; show (b.list.setIfInBounds i _).size = _; rw [Array.size_setIfInBounds]
      · have hb : ((read a s).2.2 != Status.ok) = true := by simpa using hok
        simp only [hb, if_true]
        have hst : (specOne a.inmap (if dig then abcInmap abc else a.inmap) a.file.size (fileFrom a)).1 ≠ .ok := by
          rw [← e1, ← q1]; exact hok
        have hnf : (read a s).2.2 ≠ .fault := by
          rw [q1]
          rcases Totality.recL_status a.inmap a.file.size s (fileFrom a) with h | h | h <;> rw [h] <;> decide
        have hq : (read a s).2.2 = (specOne a.inmap (if dig then abcInmap abc else a.inmap) a.file.size (fileFrom a)).1 := by rw [q1, e1]
        generalize specOne a.inmap (if dig then abcInmap abc else a.inmap) a.file.size (fileFrom a) = SO at *
        obtain ⟨o1, o2, o3⟩ := SO
        simp only [] at hst hq ⊢
        have hres : (match (o1, o2, o3) with
            | (Status.ok, some r, rest) =>
              (r :: (specBlock a.inmap (if dig then abcInmap abc else a.inmap) a.file.size fuel (i + 1) (size + r.seq.length) maxSeq .ok rest).1,
               (specBlock a.inmap (if dig then abcInmap abc else a.inmap) a.file.size fuel (i + 1) (size + r.seq.length) maxSeq .ok rest).2)
            | (st', _, rest) => (([] : List Record), st', rest)) = ([], o1, o3) := by
          cases o1 <;> first | exact absurd rfl hst | rfl
        rw [hres]
        simp only [List.length_nil, Nat.add_zero]
        refine ⟨hq, trivial, trivial, fun k r hk => by simp at hk, fun j hj => ?_, ?_, trivial, hnf⟩
        · show (b.list.setIfInBounds i _).getD j {} = _
          rw [getD_set_ne _ _ _ _ (by omega)]
        · show (b.list.setIfInBounds i _).size = _; rw [Array.size_setIfInBounds]
    · simp only [hc, Bool.false_eq_true, if_false, List.length_nil, Nat.add_zero]
      exact ⟨trivial, trivial, trivial, fun k r hk => by simp at hk, fun _ _ => trivial, trivial, trivial, hstf⟩


/-- the number of sequences `sqascii_ReadBlock` will read at most -/
def blockMaxSeq (b : Block) (maxSeq : Int) : Nat := if maxSeq < 1 || maxSeq > b.listSize then b.listSize else maxSeq.toNat

theorem readBlock_short_eq (a : Ascii) (b : Block) (maxRes maxSeq : Int) (maxInit : Bool) :
    readBlock a b maxRes maxSeq maxInit false =
      if (blockShortLoop (fuelOf a) a { b with count := 0 } 0 0 (blockMaxSeq b maxSeq) .ok).2.2.2 == .fault then
        ((blockShortLoop (fuelOf a) a { b with count := 0 } 0 0 (blockMaxSeq b maxSeq) .ok).1,
         (blockShortLoop (fuelOf a) a { b with count := 0 } 0 0 (blockMaxSeq b maxSeq) .ok).2.1, .fault)
      else
        ((blockShortLoop (fuelOf a) a { b with count := 0 } 0 0 (blockMaxSeq b maxSeq) .ok).1,
         { (blockShortLoop (fuelOf a) a { b with count := 0 } 0 0 (blockMaxSeq b maxSeq) .ok).2.1 with complete := true },
         if (blockShortLoop (fuelOf a) a { b with count := 0 } 0 0 (blockMaxSeq b maxSeq) .ok).2.2.2 == .eof &&
             (blockShortLoop (fuelOf a) a { b with count := 0 } 0 0 (blockMaxSeq b maxSeq) .ok).2.2.1 > 0 then .ok
         else (blockShortLoop (fuelOf a) a { b with count := 0 } 0 0 (blockMaxSeq b maxSeq) .ok).2.2.2) := by
  unfold readBlock blockMaxSeq
  simp only [Bool.not_false, if_true]

/-- **`sqascii_ReadBlock` (whole-sequence mode) delivers the next records of the sequential parse, for every block size.** From a ready
    handle and a block whose slots are as `esl_sq_Reuse` leaves them: the status is `eslOK` when at least one record was read (also
    when the end of the file was then met), `eslEOF` / `eslEFORMAT` otherwise; `count` records were stored; slot `k` holds — name,
    description, residues, offsets, `L` — the `k`-th record of `specBlock`, and these are a prefix of the records a `Read` loop yields
    from the same cursor (`specAll`, which is `specFasta`'s loop). Never `fault`. -/
theorem readBlock_short_spec (dig : Bool) (abc : Nat) (a : Ascii) (b : Block) (maxRes maxSeq : Int) (maxInit : Bool)
    (H : HReady a (if dig then abcInmap abc else a.inmap)) (hls : b.listSize ≤ b.list.size)
    (hslot : ∀ j, j < blockMaxSeq b maxSeq → SlotOk dig abc (b.list.getD j {})) :
    (readBlock a b maxRes maxSeq maxInit false).2.2 =
      (if (specBlock a.inmap (if dig then abcInmap abc else a.inmap) a.file.size (fuelOf a) 0 0 (blockMaxSeq b maxSeq) .ok (fileFrom a)).2.1 == .eof &&
          (specBlock a.inmap (if dig then abcInmap abc else a.inmap) a.file.size (fuelOf a) 0 0 (blockMaxSeq b maxSeq) .ok (fileFrom a)).1.length > 0
       then .ok
       else (specBlock a.inmap (if dig then abcInmap abc else a.inmap) a.file.size (fuelOf a) 0 0 (blockMaxSeq b maxSeq) .ok (fileFrom a)).2.1) ∧
    (readBlock a b maxRes maxSeq maxInit false).2.1.count =
      (specBlock a.inmap (if dig then abcInmap abc else a.inmap) a.file.size (fuelOf a) 0 0 (blockMaxSeq b maxSeq) .ok (fileFrom a)).1.length ∧
    (∀ k r, (specBlock a.inmap (if dig then abcInmap abc else a.inmap) a.file.size (fuelOf a) 0 0 (blockMaxSeq b maxSeq) .ok (fileFrom a)).1[k]? = some r →
      toRecord ((readBlock a b maxRes maxSeq maxInit false).2.1.list.getD k {}) = r) ∧
    (readBlock a b maxRes maxSeq maxInit false).2.1.complete = true ∧
    (readBlock a b maxRes maxSeq maxInit false).2.2 ≠ .fault ∧
    (specBlock a.inmap (if dig then abcInmap abc else a.inmap) a.file.size (fuelOf a) 0 0 (blockMaxSeq b maxSeq) .ok (fileFrom a)).1 <+:
      (specAll a.inmap (if dig then abcInmap abc else a.inmap) a.file.size (fuelOf a) (fileFrom a)).1 := by
  have hM : blockMaxSeq b maxSeq ≤ b.list.size := by
    unfold blockMaxSeq
    split
    · exact hls
    · rename_i h
      have : ¬ (maxSeq < 1 ∨ maxSeq > (b.listSize : Int)) := by simpa using h
      omega
  obtain ⟨j1, j2, j3, j4, _, _, _, j8⟩ := blockShortLoop_spec dig abc (fuelOf a) a { b with count := 0 } 0 0 (blockMaxSeq b maxSeq) .ok H
    (fun j _ hj => hslot j hj) hM H.cur.fuel (by decide)
  rw [readBlock_short_eq]
  have hnf : ((blockShortLoop (fuelOf a) a { b with count := 0 } 0 0 (blockMaxSeq b maxSeq) .ok).2.2.2 == Status.fault) = false := by
    simpa using j8
  simp only [hnf, Bool.false_eq_true, if_false]
  simp only [Nat.zero_add] at j2 j3 j4
  refine ⟨by rw [j1, j2], j3, j4, trivial, ?_, specBlock_prefix _ _ _ _ _ _ _ _ _⟩
  rw [j1, j2]
  by_cases hc : ((specBlock a.inmap (if dig then abcInmap abc else a.inmap) a.file.size (fuelOf a) 0 0 (blockMaxSeq b maxSeq) .ok (fileFrom a)).2.1 == .eof &&
          decide ((specBlock a.inmap (if dig then abcInmap abc else a.inmap) a.file.size (fuelOf a) 0 0 (blockMaxSeq b maxSeq) .ok (fileFrom a)).1.length > 0)) = true
  · simp only [hc, if_true]; decide
  · simp only [hc, Bool.false_eq_true, if_false]; rw [← j1]; exact j8

end EaselModel.Sqio.BlockSpec
