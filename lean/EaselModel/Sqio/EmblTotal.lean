import EaselModel.Sqio.EmblAll
/-! # The line-based readers (EMBL / UniProt / GenBank / DDBJ) never fault (C02)

For every byte string and every block size: `sqascii_Read` on a line-based file returns `eslOK`, `eslEOF` or `eslEFORMAT` — the
model-only outcome `fault` (an access outside a buffer or an allocation, a loop running out of fuel) is unreachable, and no
exception is raised. -/
namespace EaselModel.Sqio.EmblTotal
open EaselModel.Sqio EaselModel.Sqio.LineSpec EaselModel.Sqio.EmblSpec EaselModel.Sqio.EmblAll
open EaselModel.Sqio.Fold EaselModel.Sqio.BodySpec

/-- number of file bytes behind the current line -/
def rl (a : Ascii) : Nat := (a.file.toList.drop (a.boff.toNat + a.nc)).length

theorem rl_le (a : Ascii) : rl a < fuelOf a := by
  unfold rl fuelOf
  simp only [List.length_drop, Array.length_toList]
  omega

theorem nextLine_shrinks (l : List UInt8) (h : l ≠ []) : (nextLine l).2.length < l.length := by
  have h1 := @List.takeWhile_append_dropWhile _ (· != 10) l
  have h2 := congrArg List.length h1
  rw [List.length_append] at h2
  unfold nextLine
  simp only [List.length_drop]
  cases hd : l.dropWhile (· != 10) with
  | nil =>
    rw [hd] at h2
    have : l.length ≠ 0 := fun k => h (List.eq_nil_of_length_eq_zero k)
    simp at h2 ⊢
    omega
  | cons c t =>
    rw [hd] at h2
    simp at h2 ⊢
    omega

/-- what every step of the readers keeps of the handle -/
structure Good (a b : Ascii) : Prop where
  fmt : b.fmt = a.fmt
  w : LWF b
  exc : b.exc = a.exc
  inm : b.inmap = a.inmap
  trk : b.trk = a.trk
  file : b.file = a.file

theorem Good.refl {a : Ascii} (w : LWF a) : Good a a := ⟨rfl, w, rfl, rfl, rfl, rfl⟩
theorem Good.trans {a b c : Ascii} (h1 : Good a b) (h2 : Good b c) : Good a c :=
  ⟨h2.fmt.trans h1.fmt, h2.w, h2.exc.trans h1.exc, h2.inm.trans h1.inm, h2.trk.trans h1.trk, h2.file.trans h1.file⟩
theorem Good.fail {a b : Ascii} (h : Good a b) : Good a b.fail :=
  ⟨h.fmt, (fail_lsim (lsim_refl h.w)).w1, h.exc, h.inm, h.trk, h.file⟩

theorem loadbuf_good (a : Ascii) (w : LWF a) :
    Good a (loadbuf a).1 ∧ ((loadbuf a).2 = .ok ∨ (loadbuf a).2 = .eof) ∧ ((loadbuf a).2 = .ok → rl (loadbuf a).1 < rl a) := by
  obtain ⟨l1, l2, _, _, _, _, l7, l8⟩ := loadbuf_line a w
  have k := l2
  simp only [keepL, Prod.mk.injEq] at k
  obtain ⟨k1, _, _, _, k5, k6, k7, _, _, _, k11, _⟩ := k
  refine ⟨⟨k7, l1, k11, k6, k5, k1⟩, ?_, ?_⟩
  · rw [l7]; split <;> simp
  · intro hok
    rw [l7] at hok
    have hne : a.file.toList.drop (a.boff.toNat + a.nc) ≠ [] := by
      intro k; rw [k] at hok; simp at hok
    unfold rl
    rw [k1, l8]
    exact nextLine_shrinks _ hne

/-! ## the header parsers never fault -/

theorem skipLinesWhile_good (cond : Bytes → Bool) (fuel : Nat) : ∀ (a : Ascii), LWF a → rl a < fuel →
    Good a (skipLinesWhile cond fuel a).1 ∧ ((skipLinesWhile cond fuel a).2 = .ok ∨ (skipLinesWhile cond fuel a).2 = .eof) := by
  induction fuel with
  | zero => intro a _ h; omega
  | succ fuel ih =>
    intro a w hf
    simp only [skipLinesWhile]
    obtain ⟨g, hs, hr⟩ := loadbuf_good a w
    generalize loadbuf a = r at g hs hr
    obtain ⟨b, s⟩ := r
    simp only at g hs hr ⊢
    by_cases hc : cond a.line = true
    · simp only [hc, if_true]
      rcases hs with k | k
      · subst k
        have e : (Status.ok != Status.ok) = false := by decide
        simp only [e, Bool.false_eq_true, if_false]
        obtain ⟨i1, i2⟩ := ih b g.w (by have := hr rfl; omega)
        exact ⟨g.trans i1, i2⟩
      · subst k
        have e : (Status.eof != Status.ok) = true := by decide
        simp only [e, if_true]
        exact ⟨g, by first | trivial | exact Or.inr rfl⟩
    · simp only [hc]
      exact ⟨Good.refl w, by first | trivial | exact Or.inl rfl⟩

/-- outcome of a header stage: the handle is kept, the status is `eslOK` or `eslEFORMAT` (with a message) -/
def HRes (a : Ascii) (r : Ascii × Sq × Status) : Prop :=
  Good a r.1 ∧ (r.2.2 = .ok ∨ r.2.2 = .eformat) ∧ (r.2.2 = .eformat → r.1.haveErr = true)

theorem HRes.of_good {a b : Ascii} {r : Ascii × Sq × Status} (g : Good a b) (h : HRes b r) : HRes a r :=
  ⟨g.trans h.1, h.2.1, h.2.2⟩

theorem emblScan_good (parse : Bool) (fuel : Nat) : ∀ (a : Ascii) (sq : Sq), LWF a → rl a < fuel →
    HRes a (emblScan parse fuel a sq) := by
  induction fuel with
  | zero => intro a sq _ h; omega
  | succ fuel ih =>
    intro a sq w hf
    simp only [emblScan]
    obtain ⟨g, hs, hr⟩ := loadbuf_good a w
    generalize loadbuf a = r at g hs hr
    obtain ⟨b, s⟩ := r
    simp only at g hs hr ⊢
    rcases hs with k | k
    · subst k
      have e1 : (Status.ok == Status.fault) = false := by decide
      have e2 : (Status.ok != Status.ok) = false := by decide
      simp only [e1, e2, Bool.false_eq_true, if_false]
      have hrec : ∀ q, HRes a (emblScan parse fuel b q) := fun q => HRes.of_good g (ih b q g.w (by have := hr rfl; omega))
      repeat' split
      all_goals first
        | exact ⟨g.fail, Or.inr rfl, fun _ => rfl⟩
        | exact ⟨g, Or.inl rfl, fun k => (by cases k)⟩
        | exact hrec _
    · subst k
      have e1 : (Status.eof == Status.fault) = false := by decide
      have e2 : (Status.eof != Status.ok) = true := by decide
      simp only [e1, e2, Bool.false_eq_true, if_false, if_true]
      exact ⟨g.fail, Or.inr rfl, fun _ => rfl⟩

theorem genbankScan_good (parse : Bool) (fuel : Nat) : ∀ (a : Ascii) (sq : Sq), LWF a → rl a < fuel →
    HRes a (genbankScan parse fuel a sq) := by
  induction fuel with
  | zero => intro a sq _ h; omega
  | succ fuel ih =>
    intro a sq w hf
    simp only [genbankScan]
    obtain ⟨g, hs, hr⟩ := loadbuf_good a w
    generalize loadbuf a = r at g hs hr
    obtain ⟨b, s⟩ := r
    simp only at g hs hr ⊢
    rcases hs with k | k
    · subst k
      have e1 : (Status.ok == Status.fault) = false := by decide
      have e2 : (Status.ok != Status.ok) = false := by decide
      simp only [e1, e2, Bool.false_eq_true, if_false]
      have hrec : ∀ q, HRes a (genbankScan parse fuel b q) := fun q => HRes.of_good g (ih b q g.w (by have := hr rfl; omega))
      repeat' split
      all_goals first
        | exact ⟨g.fail, Or.inr rfl, fun _ => rfl⟩
        | exact ⟨g, Or.inl rfl, fun k => (by cases k)⟩
        | exact hrec _
    · subst k
      have e1 : (Status.eof == Status.fault) = false := by decide
      have e2 : (Status.eof != Status.ok) = true := by decide
      simp only [e1, e2, Bool.false_eq_true, if_false, if_true]
      exact ⟨g.fail, Or.inr rfl, fun _ => rfl⟩

theorem hdrTail_good (r : Ascii × Sq × Status) (a : Ascii) (h : HRes a r) : HRes a (hdrTail r) := by
  obtain ⟨b, q, st⟩ := r
  obtain ⟨g, hs, he⟩ := h
  simp only at g hs he
  unfold hdrTail
  simp only []
  obtain ⟨gl, hls, _⟩ := loadbuf_good b g.w
  generalize loadbuf b = l at gl hls
  obtain ⟨b', s'⟩ := l
  simp only at gl hls ⊢
  rcases hs with k | k
  · subst k
    have e2 : (Status.ok != Status.ok) = false := by decide
    simp only [e2, Bool.false_eq_true, if_false]
    rcases hls with k' | k'
    · subst k'
      have e1 : (Status.ok == Status.fault) = false := by decide
      simp only [e1, e2, Bool.false_eq_true, if_false]
      exact ⟨g.trans gl, Or.inl rfl, fun k => (by cases k)⟩
    · subst k'
      have e1 : (Status.eof == Status.fault) = false := by decide
      have e3 : (Status.eof != Status.ok) = true := by decide
      simp only [e1, e3, Bool.false_eq_true, if_false, if_true]
      exact ⟨(g.trans gl).fail, Or.inr rfl, fun _ => rfl⟩
  · subst k
    have e2 : (Status.eformat != Status.ok) = true := by decide
    simp only [e2, if_true]
    exact ⟨g, Or.inr rfl, he⟩

theorem emblId_good (parse : Bool) (a : Ascii) (sq : Sq) (w : LWF a) : HRes a (emblId parse a sq) := by
  unfold emblId
  have hrec : ∀ q, HRes a (hdrTail (emblScan parse (fuelOf a) a q)) :=
    fun q => hdrTail_good _ a (emblScan_good parse (fuelOf a) a q w (rl_le a))
  repeat' split
  all_goals first
    | exact ⟨(Good.refl w).fail, Or.inr rfl, fun _ => rfl⟩
    | exact hrec _

theorem gbLocus_good (parse : Bool) (a : Ascii) (sq : Sq) (w : LWF a) : HRes a (gbLocus parse a sq) := by
  unfold gbLocus
  have hrec : ∀ q, HRes a (hdrTail (genbankScan parse (fuelOf a) a q)) :=
    fun q => hdrTail_good _ a (genbankScan_good parse (fuelOf a) a q w (rl_le a))
  repeat' split
  all_goals first
    | exact ⟨(Good.refl w).fail, Or.inr rfl, fun _ => rfl⟩
    | exact hrec _

/-- outcome of a header parser: `eslOK`, `eslEOF` or `eslEFORMAT` with a message -/
def PRes (a : Ascii) (r : Ascii × Sq × Status) : Prop :=
  Good a r.1 ∧ (r.2.2 = .ok ∨ r.2.2 = .eof ∨ r.2.2 = .eformat) ∧ (r.2.2 = .eformat → r.1.haveErr = true)

theorem PRes.of_hres {a b : Ascii} {r : Ascii × Sq × Status} (g : Good a b) (h : HRes b r) : PRes a r :=
  ⟨g.trans h.1, by rcases h.2.1 with k | k; exact Or.inl k; exact Or.inr (Or.inr k), h.2.2⟩

theorem headerEmbl_good (parse : Bool) (a : Ascii) (sq : Sq) (w : LWF a) : PRes a (headerEmbl parse a sq) := by
  rw [headerEmbl_eq]
  obtain ⟨g, hs⟩ := skipLinesWhile_good isBlankStr (fuelOf a) a w (rl_le a)
  generalize skipLinesWhile isBlankStr (fuelOf a) a = r at g hs
  obtain ⟨b, s⟩ := r
  simp only at g hs ⊢
  by_cases h0 : (a.nc == 0) = true
  · simp only [h0, if_true]
    exact ⟨Good.refl w, Or.inr (Or.inl rfl), fun k => (by cases k)⟩
  · simp only [h0, Bool.false_eq_true, if_false]
    rcases hs with k | k
    · subst k
      have e : (Status.ok != Status.ok) = false := by decide
      simp only [e, Bool.false_eq_true, if_false]
      exact PRes.of_hres g (emblId_good parse b sq g.w)
    · subst k
      have e : (Status.eof != Status.ok) = true := by decide
      simp only [e, if_true]
      exact ⟨g, Or.inr (Or.inl rfl), fun k => (by cases k)⟩

theorem headerGenbank_good (parse : Bool) (a : Ascii) (sq : Sq) (w : LWF a) : PRes a (headerGenbank parse a sq) := by
  rw [headerGenbank_eq]
  obtain ⟨g, hs⟩ := skipLinesWhile_good (fun l => !hasPrefix l "LOCUS   ") (fuelOf a) a w (rl_le a)
  generalize skipLinesWhile (fun l => !hasPrefix l "LOCUS   ") (fuelOf a) a = r at g hs
  obtain ⟨b, s⟩ := r
  simp only at g hs ⊢
  by_cases h0 : (a.nc == 0) = true
  · simp only [h0, if_true]
    exact ⟨Good.refl w, Or.inr (Or.inl rfl), fun k => (by cases k)⟩
  · simp only [h0, Bool.false_eq_true, if_false]
    rcases hs with k | k
    · subst k
      have e : (Status.ok != Status.ok) = false := by decide
      simp only [e, Bool.false_eq_true, if_false]
      exact PRes.of_hres g (gbLocus_good parse b sq g.w)
    · subst k
      have e : (Status.eof != Status.ok) = true := by decide
      simp only [e, if_true]
      exact ⟨g, Or.inr (Or.inl rfl), fun k => (by cases k)⟩

theorem parseHeader_good (a : Ascii) (sq : Sq) (w : LWF a) (hf : LineFmt a) : PRes a (parseHeader a sq) := by
  unfold parseHeader
  rcases hf with k | k | k | k <;> simp only [k] <;> first
    | exact headerEmbl_good true a sq w
    | exact headerGenbank_good true a sq w

/-! ## the residue loop in line mode never faults -/

theorem lwf_lineSize (a : Ascii) (w : LWF a) : a.line.size = a.nc := by
  have hb := w.boff0
  have hn := w.next
  have hle : a.boff.toNat + a.nc ≤ a.file.size := by
    by_cases k : a.mpos < a.mn
    · obtain ⟨m1, m2⟩ := w.mem k
      simp only [k, if_true] at hn
      have := w.fposLe; have := w.mposLe
      omega
    · simp only [k, if_false] at hn
      have := w.fposLe
      omega
  rw [w.lineEq, Array.size_extract]
  omega

theorem rd_of_lwf (a : Ascii) (w : LWF a) : NoFault.Rd a := by
  intro i hi
  have hs := lwf_lineSize a w
  have hlt : i < a.line.size := by rw [hs]; exact hi
  exact ⟨a.line[i], by simp [Ascii.bufGet, w.lb, hi, hlt]⟩

theorem seebuf_same_buf (a : Ascii) (m : Option Nat) :
    (seebuf a m).1.line = a.line ∧ (seebuf a m).1.memValid = a.memValid ∧ (seebuf a m).1.linebased = a.linebased ∧
    (seebuf a m).1.nc = a.nc ∧ (seebuf a m).1.bpos = a.bpos ∧ (seebuf a m).1.file = a.file ∧ (seebuf a m).1.boff = a.boff := by
  cases m <;> (simp only [seebuf]; split <;> simp)

theorem bufList_seebuf (a : Ascii) (m : Option Nat) (lo : Nat) : bufList (seebuf a m).1 lo = bufList a lo := by
  obtain ⟨h1, h2, h3, h4, _, h6, h7⟩ := seebuf_same_buf a m
  unfold bufList byteAt Ascii.bufGet
  simp only [h1, h2, h3, h4, h6, h7]

theorem bufList_length (a : Ascii) (lo : Nat) : (bufList a lo).length = a.nc - lo := by
  simp [bufList]

/-- `seebuf` on a line: consumes `takeWhile isData` of the rest of the line; never a fault -/
theorem seebuf_line_facts (a : Ascii) (w : LWF a) (tok : Track.Ok a.trk) (hm : a.inmap.size = 128) :
    (seebuf a none).2.st = stopSt a.inmap ((bufList a a.bpos).dropWhile (isData a.inmap)) ∧
    (seebuf a none).2.nres = nresOf a.inmap ((bufList a a.bpos).takeWhile (isData a.inmap)) ∧
    ((seebuf a none).2.st ≠ .eformat → Track.Ok (seebuf a none).1.trk) := by
  have hr := rd_of_lwf a w
  have key := seebuf_fold a none hr tok
  simp only at key
  obtain ⟨k1, _, k3, _, k5⟩ := key
  obtain ⟨z1, z2, z3⟩ := scanBytes_simple a.inmap hm a.nc (bufList a a.bpos) ⟨a.trk, a.linenumber, 0⟩ a.bpos
    (by simp only [bufList_length]; omega)
  have q7 := (DataScan.scanBytes_bounds a.inmap a.nc (bufList a a.bpos) ⟨a.trk, a.linenumber, 0⟩ a.bpos).2.2.2.2.2.2 tok
  have hnf : (seebuf a none).2.st ≠ .fault := by
    rw [k1, z3]
    unfold stopSt
    split
    · simp
    · split <;> simp
  refine ⟨k1.trans z3, by rw [k3, z2]; simp [nresOf], fun hne => ?_⟩
  rw [k5 hne hnf]; exact q7

/-- what the body loop needs of handle and `ESL_SQ` -/
structure BInv (a : Ascii) (sq : Sq) : Prop where
  w : LWF a
  tok : Track.Ok a.trk
  hm : a.inmap.size = 128
  hmap : MapOk a.inmap (mapOf a sq)

/-- the parts of `Good` that the body loop keeps (the tracker changes) -/
structure Good2 (a b : Ascii) : Prop where
  fmt : b.fmt = a.fmt
  w : LWF b
  exc : b.exc = a.exc
  inm : b.inmap = a.inmap
  file : b.file = a.file

theorem Good2.refl {a : Ascii} (w : LWF a) : Good2 a a := ⟨rfl, w, rfl, rfl, rfl⟩
theorem Good2.trans {a b c : Ascii} (h1 : Good2 a b) (h2 : Good2 b c) : Good2 a c :=
  ⟨h2.fmt.trans h1.fmt, h2.w, h2.exc.trans h1.exc, h2.inm.trans h1.inm, h2.file.trans h1.file⟩
theorem Good.to2 {a b : Ascii} (h : Good a b) : Good2 a b := ⟨h.fmt, h.w, h.exc, h.inm, h.file⟩
theorem Good2.fail {a b : Ascii} (h : Good2 a b) : Good2 a b.fail :=
  ⟨h.fmt, (fail_lsim (lsim_refl h.w)).w1, h.exc, h.inm, h.file⟩

theorem seebuf_good2 (a : Ascii) (w : LWF a) (m : Option Nat) : Good2 a (seebuf a m).1 := by
  obtain ⟨s1, _, s3, _, s5, _, s7, _, _⟩ := DataScan.seebuf_same a m
  exact ⟨s5, (seebuf_lsim (lsim_refl w) m).1.w1, s7, s3, s1⟩

/-- `esl_sq_GrowTo` + `addbuf` of what `seebuf` counted: no fault, and the terminator fits afterwards -/
theorem adOf_good (a : Ascii) (sq : Sq) (h : BInv a sq) :
    (adOf a sq).2.2 = .ok ∧ (adOf a sq).2.1.termOk = true ∧ (adOf a sq).2.1.digital = sq.digital ∧ (adOf a sq).2.1.abc = sq.abc ∧
    Good2 a (adOf a sq).1 ∧ (adOf a sq).1.trk = (seebuf a none).1.trk ∧ (adOf a sq).1.haveErr = (seebuf a none).1.haveErr ∧
    (adOf a sq).1.boff = a.boff ∧ (adOf a sq).1.nc = a.nc := by
  obtain ⟨f1, f3, _⟩ := seebuf_line_facts a h.w h.tok h.hm
  have g := seebuf_good2 a h.w none
  obtain ⟨_, _, _, t6, t5, _, hboff⟩ := seebuf_same_buf a none
  have hbl := bufList_seebuf a none a.bpos
  have hlen := bufList_length a a.bpos
  have htw := takeWhile_length_le (isData a.inmap) (bufList a a.bpos)
  have hsz : ∀ d : List UInt8, (resOf a.inmap (mapOf a sq) d).size = nresOf a.inmap d := fun d => resOf_size _ _ d
  have hk : ∃ b', (addbufLoop (seebuf a none).1 (mapOf a sq) sq.digital
        (max sq.salloc (sq.n + (seebuf a none).2.nres + (if sq.digital then 2 else 1))) (seebuf a none).2.nres
        (seebuf a none).1.bpos sq.seq).1 = .ok ∧
      (addbufLoop (seebuf a none).1 (mapOf a sq) sq.digital
        (max sq.salloc (sq.n + (seebuf a none).2.nres + (if sq.digital then 2 else 1))) (seebuf a none).2.nres
        (seebuf a none).1.bpos sq.seq).2.1 = b' ∧
      (addbufLoop (seebuf a none).1 (mapOf a sq) sq.digital
        (max sq.salloc (sq.n + (seebuf a none).2.nres + (if sq.digital then 2 else 1))) (seebuf a none).2.nres
        (seebuf a none).1.bpos sq.seq).2.2 = sq.seq ++ resOf a.inmap (mapOf a sq) ((bufList a a.bpos).takeWhile (isData a.inmap)) := by
    by_cases hb : a.bpos ≤ a.nc
    · have := addbufLoop_spec (seebuf a none).1 (rd_of_lwf _ g.w) (mapOf a sq) sq.digital
        (max sq.salloc (sq.n + (seebuf a none).2.nres + (if sq.digital then 2 else 1))) (by rw [g.inm]; exact h.hmap)
        ((bufList a a.bpos).takeWhile (isData a.inmap)).length (seebuf a none).1.bpos (seebuf a none).2.nres sq.seq
        (by rw [t5, t6]; omega)
        (by rw [t5, hbl, take_takeWhile_length, g.inm]; intro c hc; exact mem_takeWhile_imp _ _ c hc)
        (by rw [t5, hbl, take_takeWhile_length, g.inm, f3]; rfl) (by simp only [Sq.n]; omega)
      rw [t5, hbl, take_takeWhile_length, g.inm] at this
      rw [t5]
      exact this
    · have hnil : bufList a a.bpos = [] := bufList_nil a a.bpos (by omega)
      have hz : (seebuf a none).2.nres = 0 := by rw [f3, hnil]; rfl
      rw [hz, hnil, addbufLoop]
      exact ⟨_, by simp, rfl, by simp [resOf]⟩
  obtain ⟨b', e1, e2, e3⟩ := hk
  have hA : adOf a sq = ({ (seebuf a none).1 with bpos := b' },
      { sq with seq := sq.seq ++ resOf a.inmap (mapOf a sq) ((bufList a a.bpos).takeWhile (isData a.inmap)),
                salloc := max sq.salloc (sq.n + (seebuf a none).2.nres + (if sq.digital then 2 else 1)) }, .ok) := by
    unfold adOf
    rw [addbuf_eq, growTo_eq]
    simp only [mapOf, g.inm] at e1 e2 e3 ⊢
    rw [e1, e2, e3]
  rw [hA]
  refine ⟨rfl, ?_, rfl, rfl, ⟨g.fmt, (setBpos_lsim (lsim_refl g.w) _).w1, g.exc, g.inm, g.file⟩, rfl, rfl, hboff, t6⟩
  unfold Sq.termOk Sq.n
  have hs := hsz ((bufList a a.bpos).takeWhile (isData a.inmap))
  simp only [Array.size_append, hs, ← f3]
  cases sq.digital <;> simp <;> omega

theorem stopSt_cases (inmap : Bytes) (l : List UInt8) : stopSt inmap l = .ok ∨ stopSt inmap l = .eod ∨ stopSt inmap l = .eformat := by
  unfold stopSt
  split
  · simp
  · split <;> simp

theorem termOk_eoff (q : Sq) (e : Int) : ({ q with eoff := e } : Sq).termOk = q.termOk := rfl

/-- one pass of the residue loop on a line: four outcomes, none of them a fault -/
theorem scanStep_good (a : Ascii) (sq : Sq) (h : BInv a sq) :
    Good2 a (scanStep true a sq).1 ∧ (scanStep true a sq).2.1.digital = sq.digital ∧ (scanStep true a sq).2.1.abc = sq.abc ∧
    (((scanStep true a sq).2.2.1 = .eformat ∧ (scanStep true a sq).2.2.2.2 = false ∧ (scanStep true a sq).1.haveErr = true) ∨
     (((scanStep true a sq).2.2.1 = .eod ∨ (scanStep true a sq).2.2.1 = .eof) ∧ (scanStep true a sq).2.2.2.2 = false ∧
        (scanStep true a sq).2.1.termOk = true) ∨
     ((scanStep true a sq).2.2.1 = .ok ∧ (scanStep true a sq).2.2.2.2 = true ∧ Track.Ok (scanStep true a sq).1.trk ∧
        rl (scanStep true a sq).1 < rl a)) := by
  obtain ⟨f1, _, f4⟩ := seebuf_line_facts a h.w h.tok h.hm
  have gs := seebuf_good2 a h.w none
  obtain ⟨d1, d2, d3, d4, d5, d6, d7, d8, d9⟩ := adOf_good a sq h
  have herr := DataScan.seebuf_haveErr a none
  rw [scanStep_true]
  rcases stopSt_cases a.inmap ((bufList a a.bpos).dropWhile (isData a.inmap)) with k | k | k
  all_goals (rw [← f1] at k)
  · -- the whole line is data: next line
    have e1 : (Status.ok == Status.fault) = false := by decide
    have e2 : (Status.ok == Status.eformat) = false := by decide
    have e3 : (Status.ok == Status.eod) = false := by decide
    simp only [k, d1, e1, e2, e3, Bool.false_eq_true, if_false]
    have hX : LWF { (adOf a sq).1 with L := (adOf a sq).1.L + ((seebuf a none).2.nres : Int) } :=
      (setL_lsim (lsim_refl d5.w) _).w1
    obtain ⟨gl, hls, hr⟩ := loadbuf_good _ hX
    have hrlX : rl { (adOf a sq).1 with L := (adOf a sq).1.L + ((seebuf a none).2.nres : Int) } = rl a := by
      show (List.drop ((adOf a sq).1.boff.toNat + (adOf a sq).1.nc) (adOf a sq).1.file.toList).length = _
      rw [d8, d9, d5.file]; rfl
    have g2 : Good2 a (loadbuf { (adOf a sq).1 with L := (adOf a sq).1.L + ((seebuf a none).2.nres : Int) }).1 :=
      ⟨gl.fmt.trans d5.fmt, gl.w, gl.exc.trans d5.exc, gl.inm.trans d5.inm, gl.file.trans d5.file⟩
    have htok : Track.Ok (loadbuf { (adOf a sq).1 with L := (adOf a sq).1.L + ((seebuf a none).2.nres : Int) }).1.trk := by
      rw [gl.trk]
      show Track.Ok (adOf a sq).1.trk
      rw [d6]; exact f4 (by rw [k]; decide)
    refine ⟨g2, d3, d4, ?_⟩
    rcases hls with k' | k'
    · right; right
      exact ⟨k', by rw [k']; rfl, htok, by rw [← hrlX]; exact hr k'⟩
    · right; left
      exact ⟨Or.inr k', by rw [k']; rfl, by rw [termOk_eoff]; exact d2⟩
  · -- end of data on this line
    have e1 : (Status.eod == Status.fault) = false := by decide
    have e2 : (Status.eod == Status.eformat) = false := by decide
    simp only [k, d1, e1, e2, Bool.false_eq_true, if_false, beq_self_eq_true, if_true]
    have hX : LWF { (adOf a sq).1 with L := (adOf a sq).1.L + ((seebuf a none).2.nres : Int) } :=
      (setL_lsim (lsim_refl d5.w) _).w1
    exact ⟨⟨d5.fmt, hX, d5.exc, d5.inm, d5.file⟩, d3, d4, Or.inr (Or.inl ⟨Or.inl rfl, rfl, by rw [termOk_eoff]; exact d2⟩)⟩
  · -- an illegal byte
    have e1 : (Status.eformat == Status.fault) = false := by decide
    simp only [k, e1, Bool.false_eq_true, if_false, beq_self_eq_true, if_true]
    exact ⟨gs, by first | trivial | rfl, by first | trivial | rfl,
      Or.inl ⟨by first | trivial | rfl, by first | trivial | rfl, by rw [herr, k]; simp⟩⟩

theorem mapOf_same {a b : Ascii} {sq q : Sq} (hi : b.inmap = a.inmap) (hd : q.digital = sq.digital) (ha : q.abc = sq.abc) :
    mapOf b q = mapOf a sq := by
  simp only [mapOf, hi, hd, ha]

/-- the residue loop: ends with `eslEFORMAT` (message written), or with `eslEOD` / `eslEOF` and room for the terminator — never a
    fault: every pass consumes one line, so the fuel `size + 2` always suffices -/
theorem scanLoop_good (fuel : Nat) : ∀ (a : Ascii) (sq : Sq), BInv a sq → rl a < fuel →
    Good2 a (scanLoop true fuel a sq).1 ∧
    (((scanLoop true fuel a sq).2.2.1 = .eformat ∧ (scanLoop true fuel a sq).1.haveErr = true) ∨
     (((scanLoop true fuel a sq).2.2.1 = .eod ∨ (scanLoop true fuel a sq).2.2.1 = .eof) ∧ (scanLoop true fuel a sq).2.1.termOk = true)) := by
  induction fuel with
  | zero => intro a sq _ h; omega
  | succ fuel ih =>
    intro a sq h hf
    obtain ⟨g, hd, ha, hc⟩ := scanStep_good a sq h
    rw [DataScan.scanLoop_succ]
    rcases hc with ⟨c1, c2, c3⟩ | ⟨c1, c2, c3⟩ | ⟨c1, c2, c3, c4⟩
    · simp only [c2, Bool.false_eq_true, if_false]
      exact ⟨g, Or.inl ⟨c1, c3⟩⟩
    · simp only [c2, Bool.false_eq_true, if_false]
      exact ⟨g, Or.inr ⟨c1, c3⟩⟩
    · simp only [c2, if_true]
      have hinv : BInv (scanStep true a sq).1 (scanStep true a sq).2.1 :=
        ⟨g.w, c3, by rw [g.inm]; exact h.hm, by rw [mapOf_same g.inm hd ha, g.inm]; exact h.hmap⟩
      obtain ⟨i1, i2⟩ := ih _ _ hinv (by omega)
      exact ⟨g.trans i1, i2⟩

/-! ## the header parsers keep the mode of the `ESL_SQ` -/

def Same (sq q : Sq) : Prop := q.digital = sq.digital ∧ q.abc = sq.abc
theorem Same.rfl' (sq : Sq) : Same sq sq := ⟨rfl, rfl⟩
theorem Same.trans {s q r : Sq} (h1 : Same s q) (h2 : Same q r) : Same s r := ⟨h2.1.trans h1.1, h2.2.trans h1.2⟩

theorem emblScan_same (parse : Bool) (fuel : Nat) : ∀ (a : Ascii) (sq : Sq), Same sq (emblScan parse fuel a sq).2.1 := by
  induction fuel with
  | zero => intro a sq; exact Same.rfl' sq
  | succ fuel ih =>
    intro a sq
    simp only [emblScan]
    generalize loadbuf a = r
    obtain ⟨b, s⟩ := r
    simp only []
    by_cases k1 : (s == Status.fault) = true
    · simp only [k1, if_true]; exact ⟨rfl, rfl⟩
    simp only [k1, Bool.false_eq_true, if_false]
    by_cases k2 : (s != Status.ok) = true
    · simp only [k2, if_true]; exact ⟨rfl, rfl⟩
    simp only [k2, Bool.false_eq_true, if_false]
    by_cases hc : (parse && hasPrefix b.line "AC   " && (cstr sq.acc).size == 0) = true
    · simp only [hc, if_true]
      cases hs : strtok (cstrFrom b.line 5) [59] with
      | none => simp only []; exact ⟨rfl, rfl⟩
      | some tok =>
        simp only []
        repeat' split
        all_goals first
          | exact ⟨rfl, rfl⟩
          | exact Same.trans ⟨rfl, rfl⟩ (ih _ _)
    · simp only [hc, Bool.false_eq_true, if_false]
      repeat' split
      all_goals first
        | exact ⟨rfl, rfl⟩
        | exact Same.trans ⟨rfl, rfl⟩ (ih _ _)

theorem genbankScan_same (parse : Bool) (fuel : Nat) : ∀ (a : Ascii) (sq : Sq), Same sq (genbankScan parse fuel a sq).2.1 := by
  induction fuel with
  | zero => intro a sq; exact Same.rfl' sq
  | succ fuel ih =>
    intro a sq
    simp only [genbankScan]
    generalize loadbuf a = r
    obtain ⟨b, s⟩ := r
    simp only []
    by_cases k1 : (s == Status.fault) = true
    · simp only [k1, if_true]; exact ⟨rfl, rfl⟩
    simp only [k1, Bool.false_eq_true, if_false]
    by_cases k2 : (s != Status.ok) = true
    · simp only [k2, if_true]; exact ⟨rfl, rfl⟩
    simp only [k2, Bool.false_eq_true, if_false]
    by_cases hc : (parse && hasPrefix b.line "VERSION   ") = true
    · simp only [hc, if_true]
      by_cases h12 : b.nc < 12
      · simp only [h12, if_true]; exact ⟨rfl, rfl⟩
      simp only [h12, if_false]
      cases hs : strtok (cstrFrom b.line 12) [32, 9, 10] with
      | none => simp only []; exact ⟨rfl, rfl⟩
      | some tok =>
        simp only []
        repeat' split
        all_goals first
          | exact ⟨rfl, rfl⟩
          | exact Same.trans ⟨rfl, rfl⟩ (ih _ _)
    · simp only [hc, Bool.false_eq_true, if_false]
      repeat' split
      all_goals first
        | exact ⟨rfl, rfl⟩
        | exact Same.trans ⟨rfl, rfl⟩ (ih _ _)

theorem hdrTail_same (r : Ascii × Sq × Status) : Same r.2.1 (hdrTail r).2.1 := by
  unfold hdrTail
  repeat' split
  all_goals exact ⟨rfl, rfl⟩

theorem emblId_same (parse : Bool) (a : Ascii) (sq : Sq) : Same sq (emblId parse a sq).2.1 := by
  unfold emblId
  by_cases hid : (!hasPrefix a.line "ID   ") = true
  · simp only [hid, if_true]; exact ⟨rfl, rfl⟩
  simp only [hid, Bool.false_eq_true, if_false]
  cases parse
  · simp only [Bool.false_eq_true, if_false]
    refine Same.trans ?_ (hdrTail_same _)
    exact Same.trans ⟨rfl, rfl⟩ (emblScan_same _ _ _ _)
  · simp only [if_true]
    cases hs : strtok (cstrFrom a.line 5) [32, 59] with
    | none => simp only []; exact ⟨rfl, rfl⟩
    | some tok =>
      simp only []
      refine Same.trans ?_ (hdrTail_same _)
      exact Same.trans ⟨rfl, rfl⟩ (emblScan_same _ _ _ _)

theorem gbLocus_same (parse : Bool) (a : Ascii) (sq : Sq) : Same sq (gbLocus parse a sq).2.1 := by
  unfold gbLocus
  cases parse
  · simp only [Bool.false_eq_true, if_false]
    refine Same.trans ?_ (hdrTail_same _)
    exact Same.trans ⟨rfl, rfl⟩ (genbankScan_same _ _ _ _)
  · simp only [if_true]
    by_cases h12 : a.nc < 12
    · simp only [h12, if_true]; exact ⟨rfl, rfl⟩
    simp only [h12, if_false]
    cases hs : strtok (cstrFrom a.line 12) [32] with
    | none => simp only []; exact ⟨rfl, rfl⟩
    | some tok =>
      simp only []
      refine Same.trans ?_ (hdrTail_same _)
      exact Same.trans ⟨rfl, rfl⟩ (genbankScan_same _ _ _ _)

theorem headerEmbl_same (parse : Bool) (a : Ascii) (sq : Sq) : Same sq (headerEmbl parse a sq).2.1 := by
  rw [headerEmbl_eq]
  repeat' split
  all_goals first
    | exact ⟨rfl, rfl⟩
    | exact emblId_same parse _ sq

theorem headerGenbank_same (parse : Bool) (a : Ascii) (sq : Sq) : Same sq (headerGenbank parse a sq).2.1 := by
  rw [headerGenbank_eq]
  repeat' split
  all_goals first
    | exact ⟨rfl, rfl⟩
    | exact gbLocus_same parse _ sq

theorem parseHeader_same (a : Ascii) (sq : Sq) (hf : LineFmt a) : Same sq (parseHeader a sq).2.1 := by
  unfold parseHeader
  rcases hf with k | k | k | k <;> simp only [k] <;> first
    | exact headerEmbl_same true a sq
    | exact headerGenbank_same true a sq

/-! ## `readBody`, `sqascii_Read` -/

theorem endEmbl_good (a : Ascii) (sq : Sq) (w : LWF a) :
    Good2 a (endEmbl a sq).1 ∧ ((endEmbl a sq).2.2 = .ok ∨ (endEmbl a sq).2.2 = .eformat) ∧
    ((endEmbl a sq).2.2 = .eformat → (endEmbl a sq).1.haveErr = true) ∧ (endEmbl a sq).2.1.termOk = sq.termOk ∧
    ((endEmbl a sq).2.2 = .ok → rl (endEmbl a sq).1 ≤ rl a) := by
  unfold endEmbl
  obtain ⟨g, hs, _⟩ := loadbuf_good a w
  have hrl : rl (loadbuf a).1 ≤ rl a := by
    obtain ⟨_, l2, _, _, _, _, _, l8⟩ := loadbuf_line a w
    have k1 : (loadbuf a).1.file = a.file := congrArg (fun t => t.1) l2
    unfold rl
    rw [k1, l8]
    unfold nextLine
    simp only [List.length_drop]
    have := @List.takeWhile_append_dropWhile _ (· != 10) (a.file.toList.drop (a.boff.toNat + a.nc))
    have h2 := congrArg List.length this
    rw [List.length_append] at h2
    simp only [List.length_drop] at h2 ⊢
    omega
  generalize loadbuf a = r at g hs hrl
  obtain ⟨b, s⟩ := r
  simp only at g hs hrl ⊢
  by_cases hp : (!hasPrefix a.line "//") = true
  · simp only [hp, if_true]
    exact ⟨(Good2.refl w).fail, by first | trivial | rfl | exact Or.inl rfl | exact Or.inr rfl | exact fun k => (by cases k) | exact fun _ => rfl, by first | trivial | rfl | exact Or.inl rfl | exact Or.inr rfl | exact fun _ => rfl | exact fun k => (by cases k), by first | trivial | rfl | exact Or.inl rfl | exact Or.inr rfl | exact fun k => (by cases k) | exact fun _ => rfl, by first | trivial | rfl | exact Or.inl rfl | exact Or.inr rfl | exact fun k => (by cases k) | exact fun _ => rfl⟩
  · simp only [hp, Bool.false_eq_true, if_false]
    have hnf : (s == Status.fault) = false := by rcases hs with k | k <;> rw [k] <;> rfl
    simp only [hnf, Bool.false_eq_true, if_false]
    exact ⟨g.to2, by first | trivial | rfl | exact Or.inl rfl | exact Or.inr rfl | exact fun k => (by cases k) | exact fun _ => rfl, by first | trivial | rfl | exact Or.inl rfl | exact Or.inr rfl | exact fun k => (by cases k) | exact fun _ => rfl, by first | trivial | rfl | exact Or.inl rfl | exact Or.inr rfl | exact fun k => (by cases k) | exact fun _ => rfl, fun _ => hrl⟩

/-- the outcome of `readBody` / `read` on a line-based file -/
def RRes (a : Ascii) (r : Ascii × Sq × Status) : Prop :=
  Good2 a r.1 ∧ (r.2.2 = .ok ∨ r.2.2 = .eof ∨ r.2.2 = .eformat) ∧ (r.2.2 = .eformat → r.1.haveErr = true)

theorem readBody_good (a : Ascii) (sq : Sq) (h : BInv a sq) (hf : LineFmt a) :
    Good2 a (readBody a sq).1 ∧ ((readBody a sq).2.2 = .ok ∨ (readBody a sq).2.2 = .eformat) ∧
    ((readBody a sq).2.2 = .eformat → (readBody a sq).1.haveErr = true) := by
  rw [readBody_eq]
  obtain ⟨g, hc⟩ := scanLoop_good (fuelOf a) a sq h (rl_le a)
  generalize scanLoop true (fuelOf a) a sq = r at g hc
  obtain ⟨b, q, st, ep⟩ := r
  simp only at g hc ⊢
  have hfb : LineFmt b := hf.of_eq g.fmt
  rcases hc with ⟨c1, c2⟩ | ⟨c1, c2⟩
  · subst c1
    have e : (Status.eformat == Status.fault || Status.eformat == Status.eformat) = true := by decide
    simp only [e, if_true]
    exact ⟨g, by first | trivial | rfl | exact Or.inl rfl | exact Or.inr rfl | exact fun k => (by cases k) | exact fun _ => rfl, fun _ => c2⟩
  · have e : (st == Status.fault || st == Status.eformat) = false := by rcases c1 with k | k <;> rw [k] <;> rfl
    simp only [e, Bool.false_eq_true, if_false]
    -- bodyEnd
    have hE : Good2 a (bodyEnd b q st ep).1 ∧ ((bodyEnd b q st ep).2.2 = .ok ∨ (bodyEnd b q st ep).2.2 = .eformat) ∧
        ((bodyEnd b q st ep).2.2 = .eformat → (bodyEnd b q st ep).1.haveErr = true) ∧ (bodyEnd b q st ep).2.1.termOk = true := by
      unfold bodyEnd
      have hb : LWF { b with bpos := ep } := (setBpos_lsim (lsim_refl g.w) ep).w1
      rw [parseEnd_line b q hfb, parseEnd_line { b with bpos := ep } q hfb]
      obtain ⟨x1, x2, x3, x4, _⟩ := endEmbl_good b q g.w
      obtain ⟨y1, y2, y3, y4, _⟩ := endEmbl_good { b with bpos := ep } q hb
      have y1' : Good2 a (endEmbl { b with bpos := ep } q).1 := g.trans ⟨y1.fmt, y1.w, y1.exc, y1.inm, y1.file⟩
      rcases c1 with k | k
      · subst k
        have e1 : (Status.eod == Status.eof) = false := by decide
        simp only [e1, Bool.false_eq_true, if_false, beq_self_eq_true, if_true]
        exact ⟨y1', y2, y3, by rw [y4]; exact c2⟩
      · subst k
        simp only [beq_self_eq_true, if_true]
        split
        · exact ⟨g.fail, Or.inr rfl, fun _ => rfl, c2⟩
        · exact ⟨g.trans x1, x2, x3, by rw [x4]; exact c2⟩
    obtain ⟨z1, z2, z3, z4⟩ := hE
    generalize bodyEnd b q st ep = r' at z1 z2 z3 z4
    obtain ⟨b', q', s'⟩ := r'
    simp only at z1 z2 z3 z4
    unfold bodyFin
    simp only []
    rcases z2 with k | k
    · subst k
      have e2 : (Status.ok != Status.ok) = false := by decide
      simp only [e2, Bool.false_eq_true, if_false, z4, Bool.not_true]
      exact ⟨z1, by first | trivial | rfl | exact Or.inl rfl | exact Or.inr rfl | exact fun k => (by cases k) | exact fun _ => rfl, by first | trivial | rfl | exact Or.inl rfl | exact Or.inr rfl | exact fun k => (by cases k) | exact fun _ => rfl⟩
    · subst k
      have e2 : (Status.eformat != Status.ok) = true := by decide
      simp only [e2, if_true]
      exact ⟨z1, by first | trivial | rfl | exact Or.inl rfl | exact Or.inr rfl | exact fun k => (by cases k) | exact fun _ => rfl, fun _ => z3 rfl⟩

/-- **`sqascii_Read` on an EMBL / UniProt / GenBank / DDBJ file never faults**: for every byte string and every block size the outcome
    is `eslOK`, `eslEOF` or `eslEFORMAT` (then with a message); no exception; the handle stays a well-formed line-mode handle of the
    same format on the same file -/
theorem read_linebased_total (a : Ascii) (sq : Sq) (w : LWF a) (hf : LineFmt a) (tok : Track.Ok a.trk) (hm : a.inmap.size = 128)
    (hmap : MapOk a.inmap (mapOf a sq)) :
    let r := read a sq
    (r.2.2 = .ok ∨ r.2.2 = .eof ∨ r.2.2 = .eformat) ∧ (r.2.2 = .eformat → r.1.haveErr = true) ∧ r.1.exc = a.exc ∧ LWF r.1 ∧
    r.1.fmt = a.fmt ∧ r.1.file = a.file ∧ r.1.inmap = a.inmap := by
  intro r
  have key : RRes a (read a sq) := by
    rw [read_eq]
    obtain ⟨g, hs, he⟩ := parseHeader_good a sq w hf
    obtain ⟨sd, sa⟩ := parseHeader_same a sq hf
    generalize parseHeader a sq = p at g hs he sd sa
    obtain ⟨b, q, st⟩ := p
    simp only at g hs he sd sa ⊢
    by_cases h0 : (a.nc == 0) = true
    · simp only [h0, if_true]
      exact ⟨Good2.refl w, Or.inr (Or.inl rfl), fun k => (by cases k)⟩
    · simp only [h0, Bool.false_eq_true, if_false]
      rcases hs with k | k | k
      · subst k
        have e : (Status.ok != Status.ok) = false := by decide
        simp only [e, Bool.false_eq_true, if_false]
        have hinv : BInv b q := ⟨g.w, by rw [g.trk]; exact tok, by rw [g.inm]; exact hm,
          by rw [mapOf_same g.inm sd sa, g.inm]; exact hmap⟩
        obtain ⟨x1, x2, x3⟩ := readBody_good b q hinv (hf.of_eq g.fmt)
        refine ⟨g.to2.trans x1, ?_, x3⟩
        rcases x2 with k | k
        · exact Or.inl k
        · exact Or.inr (Or.inr k)
      · subst k
        have e : (Status.eof != Status.ok) = true := by decide
        simp only [e, if_true]
        exact ⟨g.to2, Or.inr (Or.inl rfl), fun k => (by cases k)⟩
      · subst k
        have e : (Status.eformat != Status.ok) = true := by decide
        simp only [e, if_true]
        exact ⟨g.to2, Or.inr (Or.inr rfl), he⟩
  obtain ⟨k1, k2, k3⟩ := key
  exact ⟨k2, k3, k1.exc, k1.w, k1.fmt, k1.file, k1.inm⟩

end EaselModel.Sqio.EmblTotal
