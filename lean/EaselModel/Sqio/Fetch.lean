import EaselModel.Sqio.Model
/-! # Model of the SSI-based random access of `esl_sqio_ascii.c` and of `esl_ssi_FindSubseq` (C07). Core Lean only.

The index itself (on-disk layout, binary search) belongs to C06; here it is the association list that
`esl-sfetch --index` (`create_ssi_index`) builds by scanning the file with `esl_sqio_ReadInfo`. -/
namespace EaselModel.Sqio

structure SsiEntry where
  key : Bytes
  roff : Int
  doff : Int
  len : Int
  deriving Inhabited

structure Ssi where
  prim : Array SsiEntry := #[]
  alias : Array (Bytes × Bytes) := #[]      -- (secondary key, primary key)
  fast : Bool := false                       -- eslSSI_FASTSUBSEQ
  bpl : Int := 0
  rpl : Int := 0
  deriving Inhabited

/-- `esl_ssi_FindName`: primary keys first, then secondary keys (one level: aliases point at primary keys) -/
def Ssi.findName (s : Ssi) (key : Bytes) : Option SsiEntry :=
  match s.prim.find? (fun e => e.key == key) with
  | some e => some e
  | none =>
    match s.alias.find? (fun p => p.1 == key) with
    | some p => s.prim.find? (fun e => e.key == p.2)
    | none => none

/-- The offset arithmetic of `esl_ssi_FindSubseq` (with the `requested_start < 1` repair of DESIGN §7 item 11):
    returns `(roff, doff', L, actual_start)` -/
def findSubseq (s : Ssi) (key : Bytes) (start : Int) : Except Status (Int × Int × Int × Int) :=
  match s.findName key with
  | none => .error .enotfound
  | some e =>
    if start < 1 || start > e.len then .error .erange else
    if e.doff == 0 || !s.fast then .ok (e.roff, e.doff, e.len, 1) else
    if s.rpl == 0 || s.bpl == 0 then .error .einval else
    let l := (start - 1) / s.rpl
    if s.bpl == s.rpl + 1 then .ok (e.roff, e.doff + l * s.bpl + (start - 1) % s.rpl, e.len, start)
    else .ok (e.roff, e.doff + l * s.bpl, e.len, 1 + l * s.rpl)

/-- decimal rendering used by `esl_sq_FormatName(sq, "%s/%ld-%ld", …)` -/
def decBytes (n : Int) : Bytes := (toString n).toUTF8.data

/-- `sqascii_FetchSubseq()` -/
def fetchSubseq (a : Ascii) (ssi : Ssi) (sq : Sq) (source : Bytes) (start end_ : Int) : Ascii × Sq × Status :=
  match findSubseq ssi source start with
  | .error st => (a.fail, sq, st)
  | .ok (roff, doff, len, actualStart) =>
    let end_ := if end_ == 0 then len else end_
    if start > end_ then (a.fail, sq, .erange) else
    if len > 0 && end_ > len then (a.fail, sq, .erange) else
    if roff < 0 then (a.raise.fail, sq, .einval) else
    let (a, st) := position a roff.toNat
    if st != .ok then (a.fail, sq, st) else
    let (a, sq, st) := parseHeader a sq
    if st != .ok then (a, sq, st) else
    let (a, st) := if doff != 0 then position a doff.toNat else (a, Status.ok)
    if st == .eof then (a.fail, sq, .erange) else
    if st != .ok then (a.fail, sq, st) else
    let nskip := start - actualStart
    let nres := end_ - start + 1
    let sq := sq.growTo nres.toNat
    let (a, sq, st, n) := readNres a sq nskip.toNat nres.toNat
    if st == .fault then (a, sq, .fault) else
    if st == .eformat then (a, sq, .eformat) else      -- illegal character in the data: seebuf has set the message (50dd524)
    if st != .ok || (n : Int) < nres then (a.raise, sq, .einconceivable) else
    let nm := source ++ #[47] ++ decBytes start ++ #[45] ++ decBytes end_
    (a, { sq with start := start, end_ := end_, C := 0, W := sq.n, L := if len > 0 then len else -1, name := nm, source := source }, .ok)

/-! ## `esl_ssi_FindNumber` / `sqascii_PositionByNumber` -/

/-- byte-wise key order of the index (`strcmp` on keys without NUL) -/
def keyLe (x y : SsiEntry) : Bool := !(y.key.toList < x.key.toList)

/-- the primary keys in index order -/
def sortedPrim (s : Ssi) : List SsiEntry := s.prim.toList.mergeSort keyLe

/-- `esl_ssi_FindNumber(ssi, n)`: the `n`-th primary key (0-based) in index order; `none` = `eslENOTFOUND` -/
def findNumber (s : Ssi) (n : Nat) : Option SsiEntry := (sortedPrim s)[n]?

/-- `sqascii_PositionByNumber(n)` -/
def positionByNumber (a : Ascii) (s : Ssi) (n : Nat) : Ascii × Status :=
  match findNumber s n with
  | none => (a, .enotfound)
  | some e => position a e.roff.toNat

/-- the copy loop of `sqascii_Echo`: whole buffers while `boff + nc ≤ eoff` -/
def echoLoop : Nat → Ascii → Int → Bytes → Ascii × Bytes × Status
  | 0, a, _, out => (a, out, .fault)
  | fuel + 1, a, eoff, out =>
    if a.boff + a.nc ≤ eoff then
      let chunk := if a.linebased then a.line.extract 0 a.nc else a.file.extract a.boff.toNat (a.boff.toNat + a.nc)
      let (a, st) := loadbuf a
      if st != .ok then (a.raise, out ++ chunk, .ecorrupt) else echoLoop fuel a eoff (out ++ chunk)
    else (a, out, .ok)

/-- `sqascii_Echo()`: the bytes `roff..eoff` of the file, re-read through the block loader; the handle is left positioned at
    `roff` with its bookkeeping restored -/
def echo (a : Ascii) (sq : Sq) : Ascii × Status × Bytes :=
  if sq.roff == -1 || sq.eoff == -1 then (a.raise, .einval, #[]) else
  let saveLn := a.linenumber
  let saveTrk := a.trk
  let saveL := a.L
  let (a, st) := position a sq.roff.toNat
  if st == .eof then (a.raise, .ecorrupt, #[]) else
  if st != .ok then (a, st, #[]) else
  let (a, out, st) := echoLoop (fuelOf a) a sq.eoff #[]
  if st != .ok then (a, st, out) else
  let n := sq.eoff - a.boff + 1
  if n < 0 || n > a.nc then (a, .fault, out) else
  let chunk := if a.linebased then a.line.extract 0 n.toNat else a.file.extract a.boff.toNat (a.boff.toNat + n.toNat)
  let out := out ++ chunk
  let (a, st) := position a sq.roff.toNat
  if st == .eof then (a.raise, .ecorrupt, out) else
  if st != .ok then (a, st, out) else
  ({ a with linenumber := saveLn, L := saveL,
            trk := { a.trk with currpl := saveTrk.currpl, curbpl := saveTrk.curbpl, prvrpl := saveTrk.prvrpl, prvbpl := saveTrk.prvbpl } },
   .ok, out)

/-! ## sqascii_GuessAlphabet (recording mode + rewind) -/

/-- `esl_sq_GuessAlphabet` + `esl_abc_GuessAlphabet` on a text-mode sequence: eslUNKNOWN 0, eslRNA 1, eslDNA 2, eslAMINO 3.
    (`k ≤ 0.02·n` in binary64 is `50·k ≤ n` for the sample sizes ≤ 10001 that can occur.) -/
def guessAbcType (seq : Bytes) : Nat :=
  let up := fun (c : UInt8) => if 97 ≤ c && c ≤ 122 then c - 32 else c
  let letters := (seq.toList.map up).filter (fun c => 65 ≤ c && c ≤ 90)
  let sample := letters.take 10001
  let ct := fun (ch : Char) => (sample.filter (fun c => c.toNat == ch.toNat)).length
  let sumOver := fun (str : String) => (str.toList.map ct).foldl (· + ·) 0
  let kinds := fun (str : String) => (str.toList.filter (fun ch => ct ch > 0)).length
  let n := sample.length
  let n1 := sumOver "EFIJLOPQZ"; let x1 := kinds "EFIJLOPQZ"
  let n2 := sumOver "ACG";       let x2 := kinds "ACG"
  let n3 := sumOver "DHKMRSVWY"; let x3 := kinds "DHKMRSVWY"
  let nt := ct 'T'; let xt := if nt > 0 then 1 else 0
  let nu := ct 'U'; let xu := if nu > 0 then 1 else 0
  let nx := ct 'X'
  let nn := ct 'N'; let xn := if nn > 0 then 1 else 0
  if n ≤ 10 then 0
  else if n > 2000 && nn == n then 2
  else if n1 > 0 then 3
  else if 50 * (n - (n2 + nt + nn)) ≤ n && x2 + xt == 4 then 2
  else if 50 * (n - (n2 + nu + nn)) ≤ n && x2 + xu == 4 then 1
  else if 50 * (n - (n1 + n2 + n3 + nn + nt + nx)) ≤ n && n3 > n2 && x1 + x2 + x3 + xn + xt ≥ 15 then 3
  else 0

/-- `sqascii_GuessAlphabet()`: record while reading the first window of ≤ 4000 residues in text mode, guess, rewind onto the recording.
    Status names: `.ok`, `.eformat` …; `enodata` / `enoalphabet` are reported as strings by the driver. -/
def guessAlphabet (a : Ascii) : Ascii × String × Nat :=
  let a := { a with recording := 1 }
  let (a, sq, st) := readWindow a ({} : Sq) 0 4000
  if st == .eof then (a, "enodata", 0) else
  if st == .fault then (a, "fault", 0) else
  if st != .ok && st != .eod then (a, st.name, 0) else
  let t := guessAbcType sq.seq
  if t == 0 then (a, "enoalphabet", 0) else
  let a := { a with mpos := 0, linenumber := 1, recording := 0 }
  let (a, st) := loadbuf a
  if st != .ok then (a.raise, st.name, 0) else (a, "ok", t)

/-- `create_ssi_index()` of `esl-sfetch`: scan with `ReadInfo`, one primary key per record, accession as alias.
    Returns `none` when the scan ends in anything but EOF (the tool then dies with a message). -/
def buildIndexLoop : Nat → Ascii → Ssi → Option (Ascii × Ssi)
  | 0, _, _ => none
  | fuel + 1, a, s =>
    let (a, sq, st) := readInfo a ({} : Sq)
    if st == .eof then some (a, s)
    else if st != .ok then none
    else
      let nm := cstr sq.name
      let s := { s with prim := s.prim.push ⟨nm, sq.roff, sq.doff, sq.L⟩ }
      let s := if (cstr sq.acc).size > 0 then { s with alias := s.alias.push (cstr sq.acc, nm) } else s
      buildIndexLoop fuel a s

end EaselModel.Sqio
