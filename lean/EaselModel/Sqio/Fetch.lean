import EaselModel.Sqio.Model
/-! # Model of the SSI-based random access of `esl_sqio_ascii.c` and of `esl_ssi_FindSubseq` (C07). Core Lean only.

The index itself (on-disk layout, binary search) belongs to C06; here it is the association list that
`esl-sfetch --index` (`create_ssi_index`) builds by scanning the file with `esl_sqio_ReadInfo`. -/
namespace EaselModel.Sqio

structure SsiEntry where
  key : Bytes
  roff : Int
  doff : Int
  len : Int
  deriving Inhabited

structure Ssi where
  prim : Array SsiEntry := #[]
  alias : Array (Bytes × Bytes) := #[]      -- (secondary key, primary key)
  fast : Bool := false                       -- eslSSI_FASTSUBSEQ
  bpl : Int := 0
  rpl : Int := 0
  deriving Inhabited

/-- `esl_ssi_FindName`: primary keys first, then secondary keys (one level: aliases point at primary keys) -/
def Ssi.findName (s : Ssi) (key : Bytes) : Option SsiEntry :=
  match s.prim.find? (fun e => e.key == key) with
  | some e => some e
  | none =>
    match s.alias.find? (fun p => p.1 == key) with
    | some p => s.prim.find? (fun e => e.key == p.2)
    | none => none

/-- The offset arithmetic of `esl_ssi_FindSubseq` (with the `requested_start < 1` repair of DESIGN §7 item 11):
    returns `(roff, doff', L, actual_start)` -/
def findSubseq (s : Ssi) (key : Bytes) (start : Int) : Except Status (Int × Int × Int × Int) :=
  match s.findName key with
  | none => .error .enotfound
  | some e =>
    if start < 1 || start > e.len then .error .erange else
    if e.doff == 0 || !s.fast then .ok (e.roff, e.doff, e.len, 1) else
    if s.rpl == 0 || s.bpl == 0 then .error .einval else
    let l := (start - 1) / s.rpl
    if s.bpl == s.rpl + 1 then .ok (e.roff, e.doff + l * s.bpl + (start - 1) % s.rpl, e.len, start)
    else .ok (e.roff, e.doff + l * s.bpl, e.len, 1 + l * s.rpl)

/-- decimal rendering used by `esl_sq_FormatName(sq, "%s/%ld-%ld", …)` -/
def decBytes (n : Int) : Bytes := (toString n).toUTF8.data

/-- `sqascii_FetchSubseq()` -/
def fetchSubseq (a : Ascii) (ssi : Ssi) (sq : Sq) (source : Bytes) (start end_ : Int) : Ascii × Sq × Status :=
  match findSubseq ssi source start with
  | .error st => (a.fail, sq, st)
  | .ok (roff, doff, len, actualStart) =>
    let end_ := if end_ == 0 then len else end_
    if start > end_ then (a.fail, sq, .erange) else
    if len > 0 && end_ > len then (a.fail, sq, .erange) else
    if roff < 0 then (a.raise.fail, sq, .einval) else
    let (a, st) := position a roff.toNat
    if st != .ok then (a.fail, sq, st) else
    let (a, sq, st) := parseHeader a sq
    if st != .ok then (a, sq, st) else
    let (a, st) := if doff != 0 then position a doff.toNat else (a, Status.ok)
    if st == .eof then (a.fail, sq, .erange) else
    if st != .ok then (a.fail, sq, st) else
    let nskip := start - actualStart
    let nres := end_ - start + 1
    let sq := sq.growTo nres.toNat
    let (a, sq, st, n) := readNres a sq nskip.toNat nres.toNat
    if st == .fault then (a, sq, .fault) else
    if st != .ok || (n : Int) < nres then (a.raise, sq, .einconceivable) else
    let nm := source ++ #[47] ++ decBytes start ++ #[45] ++ decBytes end_
    (a, { sq with start := start, end_ := end_, C := 0, W := sq.n, L := if len > 0 then len else -1, name := nm, source := source }, .ok)

/-- the copy loop of `sqascii_Echo`: whole buffers while `boff + nc ≤ eoff` -/
def echoLoop : Nat → Ascii → Int → Bytes → Ascii × Bytes × Status
  | 0, a, _, out => (a, out, .fault)
  | fuel + 1, a, eoff, out =>
    if a.boff + a.nc ≤ eoff then
      let chunk := if a.linebased then a.line.extract 0 a.nc else a.file.extract a.boff.toNat (a.boff.toNat + a.nc)
      let (a, st) := loadbuf a
      if st != .ok then (a.raise, out ++ chunk, .ecorrupt) else echoLoop fuel a eoff (out ++ chunk)
    else (a, out, .ok)

/-- `sqascii_Echo()`: the bytes `roff..eoff` of the file, re-read through the block loader; the handle is left positioned at
    `roff` with its bookkeeping restored -/
def echo (a : Ascii) (sq : Sq) : Ascii × Status × Bytes :=
  if sq.roff == -1 || sq.eoff == -1 then (a.raise, .einval, #[]) else
  let saveLn := a.linenumber
  let saveTrk := a.trk
  let saveL := a.L
  let (a, st) := position a sq.roff.toNat
  if st == .eof then (a.raise, .ecorrupt, #[]) else
  if st != .ok then (a, st, #[]) else
  let (a, out, st) := echoLoop (fuelOf a) a sq.eoff #[]
  if st != .ok then (a, st, out) else
  let n := sq.eoff - a.boff + 1
  if n < 0 || n > a.nc then (a, .fault, out) else
  let chunk := if a.linebased then a.line.extract 0 n.toNat else a.file.extract a.boff.toNat (a.boff.toNat + n.toNat)
  let out := out ++ chunk
  let (a, st) := position a sq.roff.toNat
  if st == .eof then (a.raise, .ecorrupt, out) else
  if st != .ok then (a, st, out) else
  ({ a with linenumber := saveLn, L := saveL,
            trk := { a.trk with currpl := saveTrk.currpl, curbpl := saveTrk.curbpl, prvrpl := saveTrk.prvrpl, prvbpl := saveTrk.prvbpl } },
   .ok, out)

/-- `create_ssi_index()` of `esl-sfetch`: scan with `ReadInfo`, one primary key per record, accession as alias.
    Returns `none` when the scan ends in anything but EOF (the tool then dies with a message). -/
def buildIndexLoop : Nat → Ascii → Ssi → Option (Ascii × Ssi)
  | 0, _, _ => none
  | fuel + 1, a, s =>
    let (a, sq, st) := readInfo a ({} : Sq)
    if st == .eof then some (a, s)
    else if st != .ok then none
    else
      let nm := cstr sq.name
      let s := { s with prim := s.prim.push ⟨nm, sq.roff, sq.doff, sq.L⟩ }
      let s := if (cstr sq.acc).size > 0 then { s with alias := s.alias.push (cstr sq.acc, nm) } else s
      buildIndexLoop fuel a s

end EaselModel.Sqio
