import EaselModel.Sqio.Fetch
/-! # Line geometry: where residue `i` of a record lies in the file (C07, reverse windows of C04)

`dropRes p n l` is what `skipbuf` does: consume bytes until `n` residues (bytes satisfying `p`) have gone by.
The residues that a subsequent `addbuf` delivers are `(dropRes p n l).filter p`. -/
namespace EaselModel.Sqio.Geometry

def dropRes {α : Type} (p : α → Bool) : Nat → List α → List α
  | 0, l => l
  | _ + 1, [] => []
  | n + 1, x :: xs => if p x then dropRes p n xs else dropRes p (n + 1) xs

/-- skipping `n` residues and then reading residues = dropping `n` from the residue sequence -/
theorem filter_dropRes {α : Type} (p : α → Bool) (n : Nat) (l : List α) :
    (dropRes p n l).filter p = (l.filter p).drop n := by
  induction l generalizing n with
  | nil => cases n <;> simp [dropRes]
  | cons x xs ih =>
    cases n with
    | zero => simp [dropRes]
    | succ n =>
      by_cases hx : p x = true
      · simp [dropRes, hx, ih]
      · simp [dropRes, hx, ih]

/-- A block of `l` complete lines: `l*b` bytes holding `l*r` residues. -/
structure FullLines {α : Type} (p : α → Bool) (b r : Nat) (lines : List (List α)) : Prop where
  bytes : ∀ ln ∈ lines, ln.length = b
  residues : ∀ ln ∈ lines, (ln.filter p).length = r

theorem FullLines.length_flatten {α : Type} {p : α → Bool} {b r : Nat} {lines : List (List α)}
    (h : FullLines p b r lines) : lines.flatten.length = lines.length * b := by
  induction lines with
  | nil => simp
  | cons ln rest ih =>
    have h1 := h.bytes ln (by simp)
    have h2 := ih ⟨fun x hx => h.bytes x (by simp [hx]), fun x hx => h.residues x (by simp [hx])⟩
    rw [List.flatten_cons, List.length_append, h1, h2, List.length_cons, Nat.succ_mul]; omega

theorem FullLines.count_flatten {α : Type} {p : α → Bool} {b r : Nat} {lines : List (List α)}
    (h : FullLines p b r lines) : (lines.flatten.filter p).length = lines.length * r := by
  induction lines with
  | nil => simp
  | cons ln rest ih =>
    have h1 := h.residues ln (by simp)
    have h2 := ih ⟨fun x hx => h.bytes x (by simp [hx]), fun x hx => h.residues x (by simp [hx])⟩
    rw [List.flatten_cons, List.filter_append, List.length_append, h1, h2, List.length_cons, Nat.succ_mul]; omega

/-- **Line addressing.** If the record's data starts with `l` complete lines of `b` bytes / `r` residues each, then seeking to
    byte `l*b` and skipping `j` residues delivers the same residues as skipping `l*r + j` residues from the start of the data. -/
theorem line_addressing {α : Type} (p : α → Bool) (b r : Nat) (lines : List (List α)) (rest : List α) (j : Nat)
    (h : FullLines p b r lines) :
    (dropRes p j ((lines.flatten ++ rest).drop (lines.length * b))).filter p
      = (dropRes p (lines.length * r + j) (lines.flatten ++ rest)).filter p := by
  rw [filter_dropRes, filter_dropRes]
  have hb := h.length_flatten
  have hr := h.count_flatten
  rw [← hb, List.drop_left, List.filter_append, ← hr, ← List.drop_drop, List.drop_left]

/-- **Residue addressing.** If moreover the next line starts with more than `j` residues (no other byte before them), then
    seeking to byte `l*b + j` and skipping nothing delivers the same residues. -/
theorem residue_addressing {α : Type} (p : α → Bool) (b r : Nat) (lines : List (List α)) (res tail : List α) (j : Nat)
    (h : FullLines p b r lines) (hres : ∀ x ∈ res, p x = true) (hj : j ≤ res.length) :
    ((lines.flatten ++ (res ++ tail)).drop (lines.length * b + j)).filter p
      = (dropRes p (lines.length * r + j) (lines.flatten ++ (res ++ tail))).filter p := by
  rw [filter_dropRes]
  have hb := h.length_flatten
  have hr := h.count_flatten
  have hfr : res.filter p = res := List.filter_eq_self.mpr hres
  rw [← List.drop_drop, ← hb, List.drop_left, List.filter_append, ← hr, ← List.drop_drop, List.drop_left]
  rw [List.drop_append_of_le_length hj, List.filter_append, List.filter_append, hfr]
  rw [List.drop_append_of_le_length hj]
  congr 1
  exact (List.filter_eq_self.mpr (fun x hx => hres x (List.mem_of_mem_drop hx)))

/-! ## The tracker of `seebuf` -/

/-- one record as the tracker sees it: `header_*` resets `prv*` to −1 and `cur*` to 0, then one `onEol` per terminated line
    with (bytes, residues) of that line -/
def scanRecord (t : Track) (lines : List (Int × Int)) : Track :=
  lines.foldl (fun t ln => t.onEol ln.1 ln.2) { t with prvrpl := -1, prvbpl := -1, currpl := 0, curbpl := 0 }

def scanFile (recs : List (List (Int × Int))) : Track := recs.foldl scanRecord {}

end EaselModel.Sqio.Geometry
