import EaselModel.Ssi.Robust
/-! # Lemmas about the SSI model, part 8: a TRUNCATED index never returns a wrong record.

`Sub d' d`: every read that succeeds on `d'` returns what the same read returns on `d` (a prefix of a file is the
instance that matters: `sub_take`). Everything the reader does is monotone in that relation, so an `eslOK` answer on the
damaged file is an `eslOK` answer made of the intact file's records; on a written index those are the stored records. -/
namespace EaselModel.Ssi

/-- every successful read on `d'` agrees with `d` -/
def Sub (d' d : Array UInt8) : Prop := ∀ off k x, readAt d' off k = some x → readAt d off k = some x

/-- a file cut after `n` bytes -/
theorem sub_take (l : Bytes) (n : Nat) : Sub (l.take n).toArray l.toArray := by
  intro off k x h
  by_cases hk : k = 0
  · subst hk
    simp only [readAt, ↓reduceIte] at h ⊢
    exact h
  · have hle : off + k ≤ (l.take n).length := by
      unfold readAt at h
      simp only [hk, ↓reduceIte] at h
      split at h
      · rename_i hsz; simpa using hsz
      · cases h
    rw [readAt_toArray _ _ _ (by omega) hle] at h
    have hlt : (l.take n).length = min n l.length := List.length_take
    have hn : off + k ≤ n := by omega
    rw [readAt_toArray l off k (by omega) (by omega)]
    have e : ((l.take n).drop off).take k = (l.drop off).take k := by
      rw [List.drop_take, List.take_take]
      congr 1
      omega
    rw [← h, e]

theorem Sub.mono_readU {d' d : Array UInt8} (hs : Sub d' d) (off k v : Nat) (h : readU d' off k = some v) : readU d off k = some v := by
  unfold readU at h ⊢
  cases hr : readAt d' off k with
  | none => simp [hr] at h
  | some x =>
    rw [hs off k x hr]
    simpa [hr] using h

theorem Sub.mono_readFields {d' d : Array UInt8} (hs : Sub d' d) (ws : List Nat) (pos : Nat) (vs : List Nat)
    (h : readFields d' pos ws = some vs) : readFields d pos ws = some vs := by
  induction ws generalizing pos vs with
  | nil => simpa [readFields] using h
  | cons w ws ih =>
    simp only [readFields] at h ⊢
    cases hr : readU d' pos w with
    | none => simp [hr] at h
    | some v =>
      simp only [hr] at h
      rw [hs.mono_readU pos w v hr]
      cases hrest : readFields d' (pos + w) ws with
      | none => simp [hrest] at h
      | some rest =>
        simp only [hrest, Option.map_some] at h
        simp only [ih (pos + w) rest hrest, Option.map_some]
        exact h

theorem Sub.mono_openFiles {d' d : Array UInt8} (hs : Sub d' d) (flen frecsize foffset n i : Nat) (l : List SsiFile)
    (h : openFiles d' flen frecsize foffset n i = .ok l) : openFiles d flen frecsize foffset n i = .ok l := by
  induction n generalizing i l with
  | zero => simpa [openFiles] using h
  | succ n ih =>
    rw [openFiles] at h ⊢
    cases hr : readAt d' (foffset + i * frecsize % 4294967296) flen with
    | none => simp [hr] at h
    | some name =>
      simp only [hr] at h
      simp only [hs _ _ _ hr]
      cases hf : readFields d' (foffset + i * frecsize % 4294967296 + flen) [4, 4, 4, 4] with
      | none => simp [hf] at h
      | some vs =>
        rw [hf] at h
        rw [hs.mono_readFields _ _ _ hf]
        split at h
        · rename_i fmt fl bpl rpl
          cases hrest : openFiles d' flen frecsize foffset n (i + 1) with
          | error e => simp [hrest] at h
          | ok rest =>
            simp only [hrest] at h
            simp only [ih (i + 1) rest hrest]
            exact h
        · cases h

theorem Sub.mono_open {d' d : Array UInt8} (hs : Sub d' d) (s' : Ssi) (h : Ssi.open d' = .ok s') :
    Ssi.open d = .ok { s' with data := d } := by
  unfold Ssi.open at h ⊢
  cases h1 : readFields d' 0 [4, 4, 4] with
  | none => simp [h1] at h
  | some v1 =>
    rw [h1] at h
    rw [hs.mono_readFields _ _ _ h1]
    match v1, h with
    | [magic, flags, offsz], h =>
      simp only [] at h ⊢
      by_cases hm : magic ≠ V30MAGIC ∧ magic ≠ V30SWAP
      · simp [hm] at h
      · by_cases ho : offsz ≠ 4 ∧ offsz ≠ 8
        · simp [hm, ho] at h
        · simp only [hm, ho, ↓reduceIte] at h ⊢
          cases h2 : readFields d' 12 [2, 8, 8, 4, 4, 4, 4, 4, 4, offsz, offsz, offsz] with
          | none => simp [h2] at h
          | some v2 =>
            rw [h2] at h
            rw [hs.mono_readFields _ _ _ h2]
            match v2, h with
            | [nfiles, nprimary, nsecondary, flen, plen, slen, frecsize, precsize, srecsize, foffset, poffset, soffset], h =>
              simp only [] at h ⊢
              by_cases hnf : nfiles = 0
              · simp [hnf] at h
              · simp only [hnf, ↓reduceIte] at h ⊢
                cases h3 : openFiles d' flen frecsize foffset nfiles 0 with
                | error e => simp [h3] at h
                | ok files =>
                  simp only [h3] at h
                  simp only [Sub.mono_openFiles hs _ _ _ _ _ _ h3]
                  injection h with h
                  subst h
                  rfl
            | [], h => simp at h
            | [_], h => simp at h
            | [_, _], h => simp at h
            | [_, _, _], h => simp at h
            | [_, _, _, _], h => simp at h
            | [_, _, _, _, _], h => simp at h
            | [_, _, _, _, _, _], h => simp at h
            | [_, _, _, _, _, _, _], h => simp at h
            | [_, _, _, _, _, _, _, _], h => simp at h
            | [_, _, _, _, _, _, _, _, _], h => simp at h
            | [_, _, _, _, _, _, _, _, _, _], h => simp at h
            | [_, _, _, _, _, _, _, _, _, _, _], h => simp at h
            | _ :: _ :: _ :: _ :: _ :: _ :: _ :: _ :: _ :: _ :: _ :: _ :: _ :: _, h => simp at h
    | [], h => simp at h
    | [_], h => simp at h
    | [_, _], h => simp at h
    | _ :: _ :: _ :: _ :: _, h => simp at h

/-! ## `FindName` is monotone -/

theorem Sub.mono_rdNameAt {d' d : Array UInt8} (hs : Sub d' d) (klen base recsize j : Nat) (key : Bytes)
    (h : rdNameAt d' klen base recsize j = .ok key) : rdNameAt d klen base recsize j = .ok key := by
  unfold rdNameAt at h ⊢
  cases hr : readAt d' (base + recsize * j) klen with
  | none => simp [hr] at h
  | some buf =>
    rw [hs _ _ _ hr]
    simpa [hr] using h

theorem Sub.mono_readHit {s' s : Ssi} (hs : Sub s'.data s.data) (ho : s'.offsz = s.offsz) (pos : Nat) (hit : Hit)
    (h : readHit s' pos = .ok hit) : readHit s pos = .ok hit := by
  unfold readHit at h ⊢
  cases hr : readFields s'.data pos [2, s'.offsz, s'.offsz, 8] with
  | none => simp [hr] at h
  | some vs =>
    rw [hr] at h
    rw [← ho, hs.mono_readFields _ _ _ hr]
    exact h

/-- same header, less data -/
structure SameGeometry (s' s : Ssi) : Prop where
  sub : Sub s'.data s.data
  offsz : s'.offsz = s.offsz
  nprimary : s'.nprimary = s.nprimary
  nsecondary : s'.nsecondary = s.nsecondary
  plen : s'.plen = s.plen
  slen : s'.slen = s.slen
  precsize : s'.precsize = s.precsize
  srecsize : s'.srecsize = s.srecsize
  poffset : s'.poffset = s.poffset
  soffset : s'.soffset = s.soffset

theorem SameGeometry.resolves {s' s : Ssi} (g : SameGeometry s' s) (key : Bytes) (hit : Hit) (h : s'.Resolves key hit) :
    s.Resolves key hit := by
  induction h with
  | primary j key hit hp =>
    obtain ⟨hj, hrd, hh⟩ := hp
    refine .primary j key hit ⟨by rw [← g.nprimary]; exact hj, ?_, ?_⟩
    · rw [← g.plen, ← g.poffset, ← g.precsize]; exact g.sub.mono_rdNameAt _ _ _ _ _ hrd
    · rw [← g.plen, ← g.poffset, ← g.precsize]; exact Sub.mono_readHit g.sub g.offsz _ _ hh
  | alias j key target hit ha _ ih =>
    obtain ⟨hj, hrd, buf, hbuf, hcs⟩ := ha
    refine .alias j key target hit ⟨by rw [← g.nsecondary]; exact hj, ?_, buf, ?_, hcs⟩ ih
    · rw [← g.slen, ← g.soffset, ← g.srecsize]; exact g.sub.mono_rdNameAt _ _ _ _ _ hrd
    · rw [← g.slen, ← g.soffset, ← g.srecsize, ← g.plen]; exact g.sub _ _ _ hbuf

theorem SameGeometry.findNumber {s' s : Ssi} (g : SameGeometry s' s) (i : Int) (r : Hit × Bytes)
    (h : s'.findNumber i = .ok r) : s.findNumber i = .ok r := by
  unfold Ssi.findNumber at h ⊢
  simp only [g.nprimary, g.plen, g.poffset, g.precsize] at h
  generalize (if i < 0 then (i + 18446744073709551616).toNat else i.toNat) = u at h ⊢
  by_cases hge : u ≥ s.nprimary
  · simp [hge] at h
  · simp only [hge, ↓reduceIte] at h ⊢
    cases hr : readAt s'.data (s.poffset + s.precsize * u) s.plen with
    | none => simp [hr] at h
    | some buf =>
      simp only [hr] at h
      simp only [g.sub _ _ _ hr]
      cases hh : readHit s' (s.poffset + s.precsize * u + s.plen) with
      | error e => simp [hh] at h
      | ok hit =>
        simp only [hh] at h
        simp only [Sub.mono_readHit g.sub g.offsz _ _ hh]
        exact h

/-! ## what `Resolves` means on a written index -/

/-- on the image of a well-formed index with distinct keys and registered alias targets, `key` resolves only to the
    record stored for it: its own (primary key) or its target's (alias) -/
theorem resolves_image {ns : NewSsi} (h : ns.WF) (hd : ns.Distinct) (htg : ∀ a ∈ ns.skeys, ∃ k ∈ ns.pkeys, a.pkey = k.key)
    (key : Bytes) (hit : Hit) (hr : ns.opened.Resolves key hit) :
    ∃ k ∈ ns.pkeys, hit = hitOf k ∧ (k.key = key ∨ ∃ a ∈ ns.skeys, a.key = key ∧ a.pkey = k.key) := by
  induction hr with
  | primary j key hit hp =>
    obtain ⟨hj, hrd, hh⟩ := hp
    simp only [NewSsi.opened] at hj hrd
    have hj' : j < (sortPKeys ns.pkeys).length := by rw [sortP_len h]; exact hj
    have hk := reads_pkeys h j (by simpa using hj')
    rw [hk] at hrd
    injection hrd with hrd
    have hhit : readHit ns.opened (78 + (16 + ns.flen) * ns.files.length + (26 + ns.plen) * j + ns.plen)
        = .ok (hitOf (sortPKeys ns.pkeys)[j]) := by
      unfold readHit
      simp only [NewSsi.opened]
      rw [read_phit h j hj']
      rfl
    simp only [NewSsi.opened] at hh
    simp only [NewSsi.opened] at hhit
    rw [hhit] at hh
    injection hh with hh
    exact ⟨(sortPKeys ns.pkeys)[j], sortP_mem h (List.getElem_mem hj'), hh.symm, .inl (by simpa using hrd)⟩
  | alias j key target hit ha _ ih =>
    obtain ⟨hj, hrd, buf, hbuf, hcs⟩ := ha
    simp only [NewSsi.opened] at hj hrd hbuf
    have hj' : j < (sortSKeys ns.skeys).length := by rw [sortS_len h]; exact hj
    have hmem : (sortSKeys ns.skeys)[j] ∈ ns.skeys := sortS_mem h (List.getElem_mem hj')
    obtain ⟨k0, hk0, hak0⟩ := htg _ hmem
    have hpk := h.pkey k0 hk0
    have hpl : ns.plen ≠ 0 := by omega
    have hk := reads_skeys h j (by simpa using hj')
    rw [hk] at hrd
    injection hrd with hrd
    rw [read_spkey h j hj' hpl] at hbuf
    injection hbuf with hbuf
    rw [← hbuf, hak0, cstr_strncpy _ _ hpk.2.1 hpk.2.2.1] at hcs
    obtain ⟨k, hkm, hhit, hcase⟩ := ih
    rcases hcase with hkey | ⟨a', ha', hakey, _⟩
    · refine ⟨k, hkm, hhit, .inr ⟨(sortSKeys ns.skeys)[j], hmem, by simpa using hrd, ?_⟩⟩
      rw [hak0, hcs, hkey]
    · exact absurd (hcs.trans hakey.symm) (hd.2.2 k0 hk0 a' ha')

/-- the index cut after `n` bytes, if `Open` still accepts it, has the header and file records of the intact one -/
theorem trunc_geometry {ns : NewSsi} (h : ns.WF) (n : Nat) (s' : Ssi) (ho : Ssi.open (ns.image.take n).toArray = .ok s') :
    SameGeometry s' ns.opened ∧ ns.opened = { s' with data := ns.image.toArray } := by
  have hsub := sub_take ns.image n
  have hopen := hsub.mono_open s' ho
  rw [open_image h] at hopen
  have e : ns.opened = { s' with data := ns.image.toArray } := by injection hopen
  have hdata : s'.data = (ns.image.take n).toArray := ((open_status _).2 s' ho).1
  exact ⟨{ sub := by rw [hdata]; exact hsub
           offsz := by rw [e], nprimary := by rw [e], nsecondary := by rw [e], plen := by rw [e], slen := by rw [e],
           precsize := by rw [e], srecsize := by rw [e], poffset := by rw [e], soffset := by rw [e] }, e⟩

theorem trunc_fileInfo {ns : NewSsi} (h : ns.WF) (n : Nat) (s' : Ssi) (ho : Ssi.open (ns.image.take n).toArray = .ok s')
    (fh : Nat) : s'.fileInfo fh = ns.opened.fileInfo fh := by
  have e := (trunc_geometry h n s' ho).2
  unfold Ssi.fileInfo
  rw [e]

end EaselModel.Ssi
