import EaselModel.Ssi.External
/-! # Lemmas about the SSI model, part 6: every insertion history, with the switch to the external sort at any point,
    ends in a state that represents its *logical content* (the in-memory index built by the same calls), and that
    content is well-formed. -/
namespace EaselModel.Ssi

/-- calls on an `ESL_NEWSSI` (and the assignment to its public field `max_ram` that forces the external sort) -/
inductive Op where
  | addFile (name : Bytes) (fmt : Nat)
  | setSubseq (fh bpl rpl : Nat)
  | addKey (key : Bytes) (fh roff doff len : Nat)
  | addAlias (alias key : Bytes)
  | setMaxRam (m : Int)

/-- one call; a call that returns an error status leaves the index unchanged -/
def step (ns : NewSsi) : Op → NewSsi
  | .addFile name fmt => match ns.addFile name fmt with | .ok (ns', _) => ns' | .error _ => ns
  | .setSubseq fh bpl rpl => match ns.setSubseq fh bpl rpl with | .ok ns' => ns' | .error _ => ns
  | .addKey key fh r d l => match ns.addKey key fh r d l with | .ok ns' => ns' | .error _ => ns
  | .addAlias a k => match ns.addAlias a k with | .ok ns' => ns' | .error _ => ns
  | .setMaxRam m => { ns with maxRam := m }

def run (ops : List Op) : NewSsi := ops.foldl step {}

/-- the same call on the logical content: keys are simply appended in memory -/
def stepL (l : NewSsi) : Op → NewSsi
  | .addFile name fmt =>
    if l.nfiles ≥ MAXFILES then l
    else { l with flen := if name.length + 1 > l.flen then name.length + 1 else l.flen,
                  files := l.files ++ [{ name := fileTail name, fmt := fmt, bpl := 0, rpl := 0 }] }
  | .setSubseq fh bpl rpl =>
    if fh ≥ l.nfiles then l else if bpl = 0 ∨ rpl = 0 then l
    else { l with files := l.files.modify fh (fun f => { f with bpl := bpl, rpl := rpl }) }
  | .addKey key fh r d len =>
    if fh ≥ MAXFILES then l else if l.nprimary ≥ MAXKEYS then l
    else { l with plen := if key.length + 1 > l.plen then key.length + 1 else l.plen,
                  pkeys := l.pkeys ++ [{ key := key, fnum := fh, roff := r, doff := d, len := len }],
                  nprimary := l.nprimary + 1 }
  | .addAlias a k =>
    if l.nsecondary ≥ MAXKEYS then l
    else { l with slen := if a.length + 1 > l.slen then a.length + 1 else l.slen,
                  skeys := l.skeys ++ [{ key := a, pkey := k }], nsecondary := l.nsecondary + 1 }
  | .setMaxRam _ => l

def logical (ops : List Op) : NewSsi := ops.foldl stepL {}

/-- `ns` holds the logical content `l`, in memory or in the tmp files -/
structure Rep (ns l : NewSsi) : Prop where
  lint : l.external = false
  files : ns.files = l.files
  flen : ns.flen = l.flen
  plen : ns.plen = l.plen
  slen : ns.slen = l.slen
  nprimary : ns.nprimary = l.nprimary
  nsecondary : ns.nsecondary = l.nsecondary
  written : ns.written = l.written
  body : (ns.external = false ∧ ns.pkeys = l.pkeys ∧ ns.skeys = l.skeys) ∨
         (ns.external = true ∧ ns.ptmp = l.pkeys.map pkeyLine ∧ ns.stmp = l.skeys.map skeyLine)

theorem rep_init : Rep {} {} := ⟨rfl, rfl, rfl, rfl, rfl, rfl, rfl, rfl, .inl ⟨rfl, rfl, rfl⟩⟩

theorem rep_maybeExternal (ns l : NewSsi) (h : Rep ns l) : Rep ns.maybeExternal l := by
  obtain ⟨h0, h1, h2, h3, h4, h5, h6, h7, h8⟩ := h
  unfold NewSsi.maybeExternal
  split
  · unfold NewSsi.activateExternal
    split
    · exact ⟨h0, h1, h2, h3, h4, h5, h6, h7, h8⟩
    · rename_i hne
      rcases h8 with ⟨e1, e2, e3⟩ | ⟨e1, _, _⟩
      · exact ⟨h0, h1, h2, h3, h4, h5, h6, h7, .inr ⟨rfl, by simp [e2], by simp [e3]⟩⟩
      · exact absurd e1 hne
  · exact ⟨h0, h1, h2, h3, h4, h5, h6, h7, h8⟩

theorem rep_appendKey (ns l : NewSsi) (k : PKey) (h : Rep ns l) :
    Rep (ns.appendKey k)
      { l with plen := if k.key.length + 1 > l.plen then k.key.length + 1 else l.plen,
               pkeys := l.pkeys ++ [k], nprimary := l.nprimary + 1 } := by
  obtain ⟨h0, h1, h2, h3, h4, h5, h6, h7, h8⟩ := h
  cases ns with
  | mk external' maxRam' files' flen' pkeys' plen' nprimary' ptmp' skeys' slen' nsecondary' stmp' written' =>
  simp only at h1 h2 h3 h4 h5 h6 h7 h8
  subst h3
  rcases h8 with ⟨e1, e2, e3⟩ | ⟨e1, e2, e3⟩
  · subst e1
    by_cases hc : k.key.length + 1 > l.plen <;>
      simp only [NewSsi.appendKey, hc, ↓reduceIte, Bool.false_eq_true] <;>
      exact ⟨h0, h1, h2, rfl, h4, by simp [h5], h6, h7, .inl ⟨rfl, by simp [e2], e3⟩⟩
  · subst e1
    by_cases hc : k.key.length + 1 > l.plen <;>
      simp only [NewSsi.appendKey, hc, ↓reduceIte] <;>
      exact ⟨h0, h1, h2, rfl, h4, by simp [h5], h6, h7, .inr ⟨rfl, by simp [e2], e3⟩⟩

theorem rep_appendAlias (ns l : NewSsi) (k : SKey) (h : Rep ns l) :
    Rep (ns.appendAlias k)
      { l with slen := if k.key.length + 1 > l.slen then k.key.length + 1 else l.slen,
               skeys := l.skeys ++ [k], nsecondary := l.nsecondary + 1 } := by
  obtain ⟨h0, h1, h2, h3, h4, h5, h6, h7, h8⟩ := h
  cases ns with
  | mk external' maxRam' files' flen' pkeys' plen' nprimary' ptmp' skeys' slen' nsecondary' stmp' written' =>
  simp only at h1 h2 h3 h4 h5 h6 h7 h8
  subst h4
  rcases h8 with ⟨e1, e2, e3⟩ | ⟨e1, e2, e3⟩
  · subst e1
    by_cases hc : k.key.length + 1 > l.slen <;>
      simp only [NewSsi.appendAlias, hc, ↓reduceIte, Bool.false_eq_true] <;>
      exact ⟨h0, h1, h2, h3, rfl, h5, by simp [h6], h7, .inl ⟨rfl, e2, by simp [e3]⟩⟩
  · subst e1
    by_cases hc : k.key.length + 1 > l.slen <;>
      simp only [NewSsi.appendAlias, hc, ↓reduceIte] <;>
      exact ⟨h0, h1, h2, h3, rfl, h5, by simp [h6], h7, .inr ⟨rfl, e2, by simp [e3]⟩⟩

theorem rep_step (ns l : NewSsi) (op : Op) (h : Rep ns l) : Rep (step ns op) (stepL l op) := by
  have hme := rep_maybeExternal ns l h
  obtain ⟨h0, h1, h2, h3, h4, h5, h6, h7, h8⟩ := h
  cases op with
  | addFile name fmt =>
    by_cases hc : ns.files.length ≥ MAXFILES
    · have hc' : l.files.length ≥ MAXFILES := by rw [← h1]; exact hc
      simp only [step, stepL, NewSsi.addFile, NewSsi.nfiles, hc, hc', ↓reduceIte]
      exact ⟨h0, h1, h2, h3, h4, h5, h6, h7, h8⟩
    · have hc' : ¬ l.files.length ≥ MAXFILES := by rw [← h1]; exact hc
      simp only [step, stepL, NewSsi.addFile, NewSsi.nfiles, hc, hc', ↓reduceIte]
      exact ⟨h0, by simp [h1], by simp [h2], h3, h4, h5, h6, h7, h8⟩
  | setSubseq fh bpl rpl =>
    by_cases hc : fh ≥ ns.files.length
    · have hc' : fh ≥ l.files.length := by rw [← h1]; exact hc
      simp only [step, stepL, NewSsi.setSubseq, NewSsi.nfiles, hc, hc', ↓reduceIte]
      exact ⟨h0, h1, h2, h3, h4, h5, h6, h7, h8⟩
    · have hc' : ¬ fh ≥ l.files.length := by rw [← h1]; exact hc
      by_cases hc2 : bpl = 0 ∨ rpl = 0
      · simp only [step, stepL, NewSsi.setSubseq, NewSsi.nfiles, hc, hc', hc2, ↓reduceIte]
        exact ⟨h0, h1, h2, h3, h4, h5, h6, h7, h8⟩
      · simp only [step, stepL, NewSsi.setSubseq, NewSsi.nfiles, hc, hc', hc2, ↓reduceIte]
        exact ⟨h0, by simp [h1], h2, h3, h4, h5, h6, h7, h8⟩
  | addKey key fh r d len =>
    by_cases hc : fh ≥ MAXFILES
    · simp only [step, stepL, NewSsi.addKey, hc, ↓reduceIte]
      exact ⟨h0, h1, h2, h3, h4, h5, h6, h7, h8⟩
    · by_cases hc2 : ns.nprimary ≥ MAXKEYS
      · have hc2' : l.nprimary ≥ MAXKEYS := by rw [← h5]; exact hc2
        simp only [step, stepL, NewSsi.addKey, hc, hc2, hc2', ↓reduceIte]
        exact ⟨h0, h1, h2, h3, h4, h5, h6, h7, h8⟩
      · have hc2' : ¬ l.nprimary ≥ MAXKEYS := by rw [← h5]; exact hc2
        simp only [step, stepL, NewSsi.addKey, hc, hc2, hc2', ↓reduceIte]
        exact rep_appendKey _ l _ hme
  | addAlias a k =>
    by_cases hc2 : ns.nsecondary ≥ MAXKEYS
    · have hc2' : l.nsecondary ≥ MAXKEYS := by rw [← h6]; exact hc2
      simp only [step, stepL, NewSsi.addAlias, hc2, hc2', ↓reduceIte]
      exact ⟨h0, h1, h2, h3, h4, h5, h6, h7, h8⟩
    · have hc2' : ¬ l.nsecondary ≥ MAXKEYS := by rw [← h6]; exact hc2
      simp only [step, stepL, NewSsi.addAlias, hc2, hc2', ↓reduceIte]
      exact rep_appendAlias _ l _ hme
  | setMaxRam m =>
    simp only [step, stepL]
    exact ⟨h0, h1, h2, h3, h4, h5, h6, h7, h8⟩

theorem rep_run (ops : List Op) : Rep (run ops) (logical ops) := by
  unfold run logical
  suffices ∀ ns l, Rep ns l → Rep (ops.foldl step ns) (ops.foldl stepL l) from this _ _ rep_init
  induction ops with
  | nil => intro ns l h; exact h
  | cons op ops ih => intro ns l h; exact ih _ _ (rep_step ns l op h)

end EaselModel.Ssi

namespace EaselModel.Ssi

/-! ## `Write` sees only the logical content -/

theorem rep_writeBytes (ns l : NewSsi) (h : Rep ns l) :
    ns.writeBytes = if ns.external then l.toExternal.writeBytes else l.writeBytes := by
  obtain ⟨h0, h1, h2, h3, h4, h5, h6, h7, h8⟩ := h
  cases ns with
  | mk external' maxRam' files' flen' pkeys' plen' nprimary' ptmp' skeys' slen' nsecondary' stmp' written' =>
  cases l with
  | mk external maxRam files flen pkeys plen nprimary ptmp skeys slen nsecondary stmp written =>
  simp only at h0 h1 h2 h3 h4 h5 h6 h7 h8
  subst h0 h1 h2 h3 h4 h5 h6 h7
  rcases h8 with ⟨e1, e2, e3⟩ | ⟨e1, e2, e3⟩
  · subst e1 e2 e3
    simp only [Bool.false_eq_true, ↓reduceIte]
    rfl
  · subst e1 e2 e3
    simp only [↓reduceIte]
    rfl

theorem rep_write (ns l : NewSsi) (h : Rep ns l) (hl : ns.external = true → l.toExternal.writeBytes = l.writeBytes)
    (cur : Option Bytes) : (ns.write cur).2 = (l.write cur).2 := by
  have hw : ns.writeBytes = l.writeBytes := by
    rw [rep_writeBytes ns l h]
    cases he : ns.external
    · simp
    · simp [hl he]
  unfold NewSsi.write
  rw [h.nsecondary, h.slen, h.written, hw]
  split
  · rfl
  · split
    · rfl
    · split <;> rfl

/-! ## the logical content of a history of valid calls is well-formed -/

/-- arguments in range: names and keys are NUL-free C strings shorter than 64 KB, keys and aliases are non-empty
    words over bytes above TAB/newline (printable non-blank characters are), numbers fit their C types -/
def Op.Valid : Op → Prop
  | .addFile name fmt => (0 : UInt8) ∉ name ∧ name.length < 65535 ∧ fmt < 2^32
  | .setSubseq _ bpl rpl => bpl < 2^32 ∧ rpl < 2^32
  | .addKey key _ r d len => key ≠ [] ∧ KeyChars key ∧ key.length < 65535 ∧ r < 2^64 ∧ d < 2^64 ∧ len < 2^64
  | .addAlias a k => a ≠ [] ∧ KeyChars a ∧ a.length < 65535 ∧ k ≠ [] ∧ KeyChars k
  | .setMaxRam _ => True

theorem KeyChars.no_nul {t : Bytes} (h : KeyChars t) : (0 : UInt8) ∉ t := by
  intro h0
  have := h 0 h0
  simp at this

theorem fileTail_aux (p acc : Bytes) :
    (∀ c ∈ p.foldl (fun (acc : Bytes) c => if c == 47 then [] else c :: acc) acc, c ∈ p ∨ c ∈ acc) ∧
    (p.foldl (fun (acc : Bytes) c => if c == 47 then [] else c :: acc) acc).length ≤ p.length + acc.length := by
  induction p generalizing acc with
  | nil => simp
  | cons x xs ih =>
    simp only [List.foldl_cons, List.length_cons]
    by_cases hx : (x == 47) = true
    · simp only [hx, ↓reduceIte]
      have := ih []
      constructor
      · intro c hc
        rcases this.1 c hc with h | h
        · exact .inl (by simp [h])
        · simp at h
      · have := this.2; simp only [List.length_nil] at this; omega
    · simp only [hx, Bool.false_eq_true, ↓reduceIte]
      have := ih (x :: acc)
      constructor
      · intro c hc
        rcases this.1 c hc with h | h
        · exact .inl (by simp [h])
        · rcases List.mem_cons.mp h with h | h
          · exact .inl (by simp [h])
          · exact .inr h
      · have := this.2; simp only [List.length_cons] at this; omega

theorem fileTail_mem (p : Bytes) : ∀ c ∈ fileTail p, c ∈ p := by
  intro c hc
  unfold fileTail at hc
  rw [List.mem_reverse] at hc
  rcases (fileTail_aux p []).1 c hc with h | h
  · exact h
  · simp at h

theorem fileTail_length (p : Bytes) : (fileTail p).length ≤ p.length := by
  unfold fileTail
  rw [List.length_reverse]
  have := (fileTail_aux p []).2
  simpa using this

theorem mem_modify {α : Type} (l : List α) (i : Nat) (f : α → α) : ∀ x ∈ l.modify i f, x ∈ l ∨ ∃ y ∈ l, x = f y := by
  induction l generalizing i with
  | nil => simp
  | cons a as ih =>
    intro x hx
    cases i with
    | zero =>
      simp only [List.modify_zero_cons, List.mem_cons] at hx
      rcases hx with rfl | hx
      · exact .inr ⟨a, by simp, rfl⟩
      · exact .inl (by simp [hx])
    | succ i =>
      simp only [List.modify_succ_cons, List.mem_cons] at hx
      rcases hx with rfl | hx
      · exact .inl (by simp)
      · rcases ih i x hx with h | ⟨y, hy, rfl⟩
        · exact .inl (by simp [h])
        · exact .inr ⟨y, by simp [hy], rfl⟩

/-- reduce projections of structure literals, then linear arithmetic -/
macro "dom" : tactic => `(tactic| ((try dsimp only at *); omega))

/-- invariant of the logical content after `n` valid calls -/
structure Inv (l : NewSsi) (n : Nat) : Prop where
  internal : l.external = false
  notWritten : l.written = false
  nprimary : l.nprimary = l.pkeys.length
  nsecondary : l.nsecondary = l.skeys.length
  nfiles : l.files.length ≤ 32767
  fname : ∀ f ∈ l.files, (0 : UInt8) ∉ f.name ∧ f.name.length < l.flen ∧ f.fmt < 2^32 ∧ f.bpl < 2^32 ∧ f.rpl < 2^32
  pkey : ∀ k ∈ l.pkeys, k.key ≠ [] ∧ KeyChars k.key ∧ k.key.length < l.plen ∧ k.fnum < 65536 ∧
            k.roff < 2^64 ∧ k.doff < 2^64 ∧ k.len < 2^64
  skey : ∀ a ∈ l.skeys, a.key ≠ [] ∧ KeyChars a.key ∧ a.key.length < l.slen ∧ a.pkey ≠ [] ∧ KeyChars a.pkey
  flen_le : l.flen ≤ 65535
  plen_le : l.plen ≤ 65535
  slen_le : l.slen ≤ 65535
  np_le : l.pkeys.length ≤ n
  nsec_le : l.skeys.length ≤ n

theorem inv_init : Inv {} 0 :=
  { internal := rfl, notWritten := rfl, nprimary := rfl, nsecondary := rfl, nfiles := (by simp),
    fname := (by intro f hf; cases hf), pkey := (by intro f hf; cases hf), skey := (by intro f hf; cases hf),
    flen_le := (by decide), plen_le := (by decide), slen_le := (by decide), np_le := (by simp), nsec_le := (by simp) }

theorem inv_step (l : NewSsi) (n : Nat) (op : Op) (hv : op.Valid) (h : Inv l n) : Inv (stepL l op) (n + 1) := by
  cases op with
  | addFile name fmt =>
    obtain ⟨v1, v2, v3⟩ := hv
    by_cases hc : l.files.length ≥ MAXFILES
    · simp only [stepL, NewSsi.nfiles, hc, ↓reduceIte]
      exact { h with np_le := (by have := h.np_le; dom), nsec_le := (by have := h.nsec_le; dom) }
    · simp only [stepL, NewSsi.nfiles, hc, ↓reduceIte]
      have hfl := h.flen_le
      refine { internal := h.internal, notWritten := h.notWritten, nprimary := h.nprimary, nsecondary := h.nsecondary,
               nfiles := ?_, fname := ?_, pkey := h.pkey, skey := h.skey, flen_le := ?_, plen_le := h.plen_le,
               slen_le := h.slen_le, np_le := (by have := h.np_le; dom), nsec_le := (by have := h.nsec_le; dom) }
      · simp only [MAXFILES] at hc; simp; omega
      · intro f hf
        simp only [List.mem_append, List.mem_singleton] at hf
        rcases hf with hf | rfl
        · have := h.fname f hf
          refine ⟨this.1, ?_, this.2.2⟩
          split <;> dom
        · refine ⟨fun h0 => v1 (fileTail_mem name 0 h0), ?_, v3, by dom, by dom⟩
          have := fileTail_length name
          simp only
          split <;> dom
      · simp only; split <;> dom
  | setSubseq fh bpl rpl =>
    obtain ⟨v1, v2⟩ := hv
    by_cases hc : fh ≥ l.files.length
    · simp only [stepL, NewSsi.nfiles, hc, ↓reduceIte]
      exact { h with np_le := (by have := h.np_le; dom), nsec_le := (by have := h.nsec_le; dom) }
    · by_cases hc2 : bpl = 0 ∨ rpl = 0
      · simp only [stepL, NewSsi.nfiles, hc, hc2, ↓reduceIte]
        exact { h with np_le := (by have := h.np_le; dom), nsec_le := (by have := h.nsec_le; dom) }
      · simp only [stepL, NewSsi.nfiles, hc, hc2, ↓reduceIte]
        refine { internal := h.internal, notWritten := h.notWritten, nprimary := h.nprimary, nsecondary := h.nsecondary,
                 nfiles := ?_, fname := ?_, pkey := h.pkey, skey := h.skey, flen_le := h.flen_le, plen_le := h.plen_le,
                 slen_le := h.slen_le, np_le := (by have := h.np_le; dom), nsec_le := (by have := h.nsec_le; dom) }
        · simp; exact h.nfiles
        · intro f hf
          rcases mem_modify _ _ _ f hf with hf | ⟨g, hg, rfl⟩
          · exact h.fname f hf
          · have := h.fname g hg
            exact ⟨this.1, this.2.1, this.2.2.1, v1, v2⟩
  | addKey key fh r d len =>
    obtain ⟨v1, v2, v3, v4, v5, v6⟩ := hv
    by_cases hc : fh ≥ MAXFILES
    · simp only [stepL, hc, ↓reduceIte]
      exact { h with np_le := (by have := h.np_le; dom), nsec_le := (by have := h.nsec_le; dom) }
    · by_cases hc2 : l.nprimary ≥ MAXKEYS
      · simp only [stepL, hc, hc2, ↓reduceIte]
        exact { h with np_le := (by have := h.np_le; dom), nsec_le := (by have := h.nsec_le; dom) }
      · simp only [stepL, hc, hc2, ↓reduceIte]
        have hpl := h.plen_le
        refine { internal := h.internal, notWritten := h.notWritten, nprimary := ?_, nsecondary := h.nsecondary,
                 nfiles := h.nfiles, fname := h.fname, pkey := ?_, skey := h.skey, flen_le := h.flen_le, plen_le := ?_,
                 slen_le := h.slen_le, np_le := ?_, nsec_le := (by have := h.nsec_le; dom) }
        · simp [h.nprimary]
        · intro k hk
          simp only [List.mem_append, List.mem_singleton] at hk
          rcases hk with hk | rfl
          · have := h.pkey k hk
            refine ⟨this.1, this.2.1, ?_, this.2.2.2⟩
            split <;> dom
          · simp only [MAXFILES] at hc
            refine ⟨v1, v2, ?_, by dom, v4, v5, v6⟩
            simp only; split <;> dom
        · simp only; split <;> dom
        · have := h.np_le; simp; omega
  | addAlias a k =>
    obtain ⟨v1, v2, v3, v4, v5⟩ := hv
    by_cases hc2 : l.nsecondary ≥ MAXKEYS
    · simp only [stepL, hc2, ↓reduceIte]
      exact { h with np_le := (by have := h.np_le; dom), nsec_le := (by have := h.nsec_le; dom) }
    · simp only [stepL, hc2, ↓reduceIte]
      have hsl := h.slen_le
      refine { internal := h.internal, notWritten := h.notWritten, nprimary := h.nprimary, nsecondary := ?_,
               nfiles := h.nfiles, fname := h.fname, pkey := h.pkey, skey := ?_, flen_le := h.flen_le, plen_le := h.plen_le,
               slen_le := ?_, np_le := (by have := h.np_le; dom), nsec_le := ?_ }
      · simp [h.nsecondary]
      · intro x hx
        simp only [List.mem_append, List.mem_singleton] at hx
        rcases hx with hx | rfl
        · have := h.skey x hx
          refine ⟨this.1, this.2.1, ?_, this.2.2.2⟩
          split <;> dom
        · refine ⟨v1, v2, ?_, v4, v5⟩
          simp only; split <;> dom
      · simp only; split <;> dom
      · have := h.nsec_le; simp; omega
  | setMaxRam m =>
    simp only [stepL]
    exact { h with np_le := (by have := h.np_le; dom), nsec_le := (by have := h.nsec_le; dom) }

theorem inv_logical (ops : List Op) (hv : ∀ op ∈ ops, op.Valid) : Inv (logical ops) ops.length := by
  unfold logical
  suffices ∀ l n, Inv l n → Inv (ops.foldl stepL l) (n + ops.length) by
    have := this _ _ inv_init
    simpa using this
  induction ops with
  | nil => intro l n h; exact h
  | cons op ops ih =>
    intro l n h
    have := ih (fun o ho => hv o (by simp [ho])) _ _ (inv_step l n op (hv op (by simp)) h)
    simp only [List.foldl_cons, List.length_cons]
    have e : n + (ops.length + 1) = n + 1 + ops.length := by omega
    rw [e]; exact this

theorem Inv.wf {l : NewSsi} {n : Nat} (h : Inv l n) (hf : l.files ≠ []) (hn : n < 2^40) : l.WF :=
  { internal := h.internal, notWritten := h.notWritten, nprimary := h.nprimary, nsecondary := h.nsecondary,
    files_ne := hf, nfiles := (by have := h.nfiles; omega), fname := h.fname,
    pkey := fun k hk => ⟨(h.pkey k hk).1, (h.pkey k hk).2.1.no_nul, (h.pkey k hk).2.2⟩,
    skey := fun a ha => ⟨(h.skey a ha).1, (h.skey a ha).2.1.no_nul, (h.skey a ha).2.2.1⟩,
    flen_lt := (by have := h.flen_le; omega), plen_lt := (by have := h.plen_le; omega), slen_lt := (by have := h.slen_le; omega),
    np_lt := (by have := h.np_le; omega), nsec_lt := (by have := h.nsec_le; omega) }

theorem Inv.extOK {l : NewSsi} {n : Nat} (h : Inv l n) : l.ExtOK :=
  { pchars := fun k hk => (h.pkey k hk).2.1,
    schars := fun a ha => ⟨(h.skey a ha).2.1, (h.skey a ha).2.2.2.1, (h.skey a ha).2.2.2.2.noDelim⟩ }

/-- **every history**: whatever the order of the calls and wherever the switch to the external sort happens, `Write`
    returns the status and leaves the file that `Write` of the in-memory logical content does -/
theorem run_write_eq_logical (ops : List Op) (hv : ∀ op ∈ ops, op.Valid) (hf : (logical ops).files ≠ [])
    (hn : ops.length < 2^40) (cur : Option Bytes) :
    (logical ops).WF ∧ ((run ops).write cur).2 = ((logical ops).write cur).2 := by
  have hi := inv_logical ops hv
  have hwf := hi.wf hf hn
  exact ⟨hwf, rep_write _ _ (rep_run ops) (fun _ => writeBytes_toExternal _ hwf hi.extOK) cur⟩

end EaselModel.Ssi
