import EaselModel.Ssi.Lemmas
/-! # Lemmas about the SSI model, part 2: reading back what was laid out (files as byte lists, fixed-width records). -/
namespace EaselModel.Ssi

theorem readAt_toArray (l : Bytes) (off n : Nat) (hn : 0 < n) (h : off + n ≤ l.length) :
    readAt l.toArray off n = some ((l.drop off).take n) := by
  unfold readAt
  have : n ≠ 0 := by omega
  simp [this, h]

/-- reading exactly the segment `x` of `pre ++ x ++ post` -/
theorem readAt_locate (data pre x post : Bytes) (off : Nat) (hd : data = pre ++ x ++ post) (hoff : off = pre.length)
    (hx : x ≠ []) : readAt data.toArray off x.length = some x := by
  subst hd hoff
  have hpos : 0 < x.length := List.length_pos_iff.mpr hx
  rw [readAt_toArray _ _ _ hpos (by simp)]
  simp [List.append_assoc]

theorem readAt_zero (d : Array UInt8) (off : Nat) : readAt d off 0 = some [] := by simp [readAt]

/-- `fields` laid out one after the other -/
def encAll : List Nat → List Nat → Bytes
  | w :: ws, v :: vs => hton w v ++ encAll ws vs
  | _, _ => []

def Widths (ws : List Nat) : Prop := ∀ w ∈ ws, w = 2 ∨ w = 4 ∨ w = 8

theorem hton_ne_nil (k n : Nat) (hk : k = 2 ∨ k = 4 ∨ k = 8) : hton k n ≠ [] := by
  intro h
  have := hton_length k n hk
  rw [h] at this
  simp at this
  omega

theorem readFields_encAll (ws vs : List Nat) (hlen : ws.length = vs.length) (hw : Widths ws) (pre post : Bytes) :
    readFields (pre ++ encAll ws vs ++ post).toArray pre.length ws
      = some (List.zipWith (fun w v => v % 256 ^ w) ws vs) := by
  induction ws generalizing vs pre with
  | nil => simp [readFields]
  | cons w ws ih =>
    cases vs with
    | nil => simp at hlen
    | cons v vs =>
      have hwk : w = 2 ∨ w = 4 ∨ w = 8 := hw w (by simp)
      have hl := hton_length w v hwk
      simp only [readFields, encAll, readU]
      have h1 : readAt (pre ++ (hton w v ++ encAll ws vs) ++ post).toArray pre.length w = some (hton w v) := by
        have := readAt_locate (pre ++ (hton w v ++ encAll ws vs) ++ post) pre (hton w v) (encAll ws vs ++ post) pre.length
          (by simp [List.append_assoc]) rfl (hton_ne_nil w v hwk)
        rwa [hl] at this
      rw [h1]
      simp only [Option.map_some, ntoh_hton w v hwk]
      have h2 := ih vs (by simpa using hlen) (fun x hx => hw x (by simp [hx])) (pre ++ hton w v)
      have h3 : pre ++ (hton w v ++ encAll ws vs) ++ post = pre ++ hton w v ++ encAll ws vs ++ post := by
        simp [List.append_assoc]
      have h4 : (pre ++ hton w v).length = pre.length + w := by simp [hl]
      rw [h3, ← h4, h2]
      simp

theorem readFields_locate (data pre post : Bytes) (ws vs : List Nat) (off : Nat)
    (hd : data = pre ++ encAll ws vs ++ post) (hoff : off = pre.length) (hlen : ws.length = vs.length) (hw : Widths ws) :
    readFields data.toArray off ws = some (List.zipWith (fun w v => v % 256 ^ w) ws vs) := by
  subst hd hoff
  exact readFields_encAll ws vs hlen hw pre post

/-! ## arrays of fixed-width records -/

theorem flatten_length_uniform (chunks : List Bytes) (r : Nat) (h : ∀ c ∈ chunks, c.length = r) :
    chunks.flatten.length = chunks.length * r := by
  induction chunks with
  | nil => simp
  | cons c cs ih =>
    simp only [List.flatten_cons, List.length_append, List.length_cons]
    rw [ih (fun c hc => h c (by simp [hc])), h c (by simp), Nat.succ_mul]
    omega

theorem chunk_split (chunks : List Bytes) (i : Nat) (hi : i < chunks.length) :
    chunks.flatten = (chunks.take i).flatten ++ chunks[i] ++ (chunks.drop (i + 1)).flatten := by
  have h1 : chunks = chunks.take i ++ chunks[i] :: chunks.drop (i + 1) := by
    rw [← List.drop_eq_getElem_cons hi, List.take_append_drop]
  calc chunks.flatten = (chunks.take i ++ chunks[i] :: chunks.drop (i + 1)).flatten := by rw [← h1]
    _ = _ := by rw [List.flatten_append, List.flatten_cons, List.append_assoc]

theorem take_flatten_length (chunks : List Bytes) (r i : Nat) (h : ∀ c ∈ chunks, c.length = r) (hi : i ≤ chunks.length) :
    (chunks.take i).flatten.length = i * r := by
  rw [flatten_length_uniform (chunks.take i) r (fun c hc => h c (List.mem_of_mem_take hc))]
  simp [Nat.min_eq_left hi]

end EaselModel.Ssi

namespace EaselModel.Ssi

/-- a segment `x` of record `i` of an array of `r`-byte records sits at `pre.length + i*r + a.length` -/
theorem locate_in_chunk (pre post : Bytes) (chunks : List Bytes) (r i : Nat) (hr : ∀ c ∈ chunks, c.length = r)
    (hi : i < chunks.length) (a x b : Bytes) (hc : chunks[i] = a ++ x ++ b) :
    ∃ pre' post', pre ++ chunks.flatten ++ post = pre' ++ x ++ post' ∧ pre'.length = pre.length + i * r + a.length := by
  refine ⟨pre ++ (chunks.take i).flatten ++ a, b ++ (chunks.drop (i + 1)).flatten ++ post, ?_, ?_⟩
  · rw [chunk_split chunks i hi, hc]
    simp [List.append_assoc]
  · simp [take_flatten_length chunks r i hr (by omega)]; omega

theorem readAt_in_chunk (pre post : Bytes) (chunks : List Bytes) (r i : Nat) (hr : ∀ c ∈ chunks, c.length = r)
    (hi : i < chunks.length) (a x b : Bytes) (hc : chunks[i] = a ++ x ++ b) (hx : x ≠ []) (off n : Nat)
    (hoff : off = pre.length + i * r + a.length) (hn : n = x.length) :
    readAt (pre ++ chunks.flatten ++ post).toArray off n = some x := by
  obtain ⟨pre', post', h1, h2⟩ := locate_in_chunk pre post chunks r i hr hi a x b hc
  subst hn
  exact readAt_locate _ pre' x post' off h1 (by omega) hx

theorem readFields_in_chunk (pre post : Bytes) (chunks : List Bytes) (r i : Nat) (hr : ∀ c ∈ chunks, c.length = r)
    (hi : i < chunks.length) (a b : Bytes) (ws vs : List Nat) (hc : chunks[i] = a ++ encAll ws vs ++ b)
    (hlen : ws.length = vs.length) (hw : Widths ws) (off : Nat) (hoff : off = pre.length + i * r + a.length) :
    readFields (pre ++ chunks.flatten ++ post).toArray off ws = some (List.zipWith (fun w v => v % 256 ^ w) ws vs) := by
  obtain ⟨pre', post', h1, h2⟩ := locate_in_chunk pre post chunks r i hr hi a (encAll ws vs) b hc
  exact readFields_locate _ pre' post' ws vs off h1 (by omega) hlen hw

end EaselModel.Ssi
