/-! # Executable model of esl_ssi.c (C06). Core Lean only (no Mathlib): the driver links this file.

Mirrors, function by function:
* portable integers: `esl_byteswap`, `esl_hton16/32/64`, `esl_ntoh16/32/64`, `esl_fwrite_u16/u32/u64/i64/offset`,
  `esl_fread_u16/u32/u64/i64/offset` (little-endian host, `sizeof(off_t) = 8`);
* writer: `esl_newssi_Open/AddFile/SetSubseq/AddKey/AddAlias/Write/Close`, `current_newssi_size`,
  `activate_external_sort`, `parse_pkey`, `parse_skey`, `pkeysort`, `skeysort`, `cross_duplicate`; from easel.c `esl_FileTail`,
  `esl_strtok`, `strncpy`/`strcmp`/`strtoull`/`atoi` on NUL-free strings;
* reader: `esl_ssi_Open`, `binary_search`, `esl_ssi_FindName`, `esl_ssi_FindNumber`, `esl_ssi_FindSubseq`,
  `esl_ssi_FileInfo`.

Modelled, not verified: `qsort` (= a sort by the comparison function; `List.mergeSort`), `sort(1)` in the POSIX locale
(= bytewise sort of the lines), `system()`, `fopen/fseeko/fread/fwrite/remove` (a file is its byte string; a read past
the end is a short read). Allocation never fails except for the `size <= 0` test of `ESL_ALLOC`. -/
namespace EaselModel.Ssi

abbrev Bytes := List UInt8

/-- statuses that can come out of the modelled functions (names as printed by `h_status`) -/
inductive St where
  | enotfound | eformat | erange | edup | einval | esys | emem | eincompat
  | fault     -- read outside an object (only `files[fh]` of an `Ssi` whose file list is shorter than `nfiles`: never after `Open`)
  | nohalt    -- recursion of `esl_ssi_FindName` did not end within the fuel (stack overflow in C)
  deriving DecidableEq, Repr, Inhabited

def St.name : St → String
  | .enotfound => "enotfound" | .eformat => "eformat" | .erange => "erange" | .edup => "edup"
  | .einval => "einval" | .esys => "esys" | .emem => "emem" | .eincompat => "eincompat"
  | .fault => "fault" | .nohalt => "nohalt"

/-! ## C strings -/

/-- `strcmp` on NUL-free byte strings: bytes compare as `unsigned char`, the end of a string is smaller than any byte -/
def strcmp : Bytes → Bytes → Ordering
  | [], [] => .eq
  | [], _ :: _ => .lt
  | _ :: _, [] => .gt
  | a :: as, b :: bs =>
    if a.toNat < b.toNat then .lt else if b.toNat < a.toNat then .gt else strcmp as bs

/-- the C string held in a buffer (bytes before the first NUL) -/
def cstr (buf : Bytes) : Bytes := buf.takeWhile (· != 0)

/-- the C string held in a fixed-width buffer *read from a file*; `none` = no terminator inside the buffer, i.e.
    `strcmp`/`strlen` would run off the allocation -/
def cstr? (buf : Bytes) : Option Bytes := if buf.contains 0 then some (cstr buf) else none

/-- `strncpy(dst, s, n)` for NUL-free `s`: the `n`-byte buffer contents (truncated, or padded with NULs) -/
def strncpy (n : Nat) (s : Bytes) : Bytes := s.take n ++ List.replicate (n - s.length) 0

/-- `esl_FileTail(path, FALSE)`: what follows the last `/` -/
def fileTail (path : Bytes) : Bytes :=
  (path.foldl (fun (acc : Bytes) c => if c == 47 then [] else c :: acc) []).reverse

/-! ## decimal text (`printf("%llu")`, `strtoull`, `atoi`) -/

def decimal (n : Nat) : Bytes :=
  if h : n < 10 then [UInt8.ofNat (48 + n)] else decimal (n / 10) ++ [UInt8.ofNat (48 + n % 10)]
termination_by n
decreasing_by omega

def isDigit (c : UInt8) : Bool := 48 ≤ c.toNat && c.toNat ≤ 57

/-- value of the leading run of decimal digits (no sign, no blanks: the tmp-file lines never contain any) -/
def parseDecAux : Nat → Bytes → Nat
  | acc, [] => acc
  | acc, c :: cs => if isDigit c then parseDecAux (acc * 10 + (c.toNat - 48)) cs else acc

/-- `strtoull(tok, NULL, 10)`: saturates at `ULLONG_MAX` -/
def strtoull (tok : Bytes) : Nat := min (parseDecAux 0 tok) (2^64 - 1)

/-- `(uint16_t) atoi(tok)` for a non-negative decimal below `2^31` -/
def atoiU16 (tok : Bytes) : Nat := parseDecAux 0 tok % 65536

/-- `esl_strtok(&s, "\t\n", &tok)`: skip leading delimiters; token = up to the next delimiter (which is consumed) -/
def isDelim (c : UInt8) : Bool := c == 9 || c == 10

def strtok (s : Bytes) : Option (Bytes × Bytes) :=
  let s1 := s.dropWhile isDelim
  if s1.isEmpty then none
  else
    let tok := s1.takeWhile (fun c => !isDelim c)
    some (tok, (s1.dropWhile (fun c => !isDelim c)).drop 1)

/-! ## portable binary integers -/

/-- the `k` bytes of the host (little-endian) representation of `n mod 256^k` -/
def leBytes : Nat → Nat → Bytes
  | 0, _ => []
  | k+1, n => UInt8.ofNat (n % 256) :: leBytes k (n / 256)

/-- value of a little-endian byte string -/
def leVal : Bytes → Nat
  | [] => 0
  | b :: bs => b.toNat + 256 * leVal bs

/-- `esl_byteswap(swap, nbytes)`: `for (x = 0; x < nbytes/2; x++) swap(swap[nbytes-x-1], swap[x])` -/
def byteswap (bs : Bytes) : Bytes :=
  let n := bs.length
  ((List.range (n / 2)).foldl (fun (a : Array UInt8) x =>
      let byte := a.getD (n - x - 1) 0
      let a := a.setIfInBounds (n - x - 1) (a.getD x 0)
      a.setIfInBounds x byte) bs.toArray).toList

/-- `esl_hton16/32/64` followed by `fwrite` of the object representation: the bytes that reach the file -/
def hton (k n : Nat) : Bytes := byteswap (leBytes k n)
/-- `fread` into an integer object followed by `esl_ntoh16/32/64` -/
def ntoh (bs : Bytes) : Nat := leVal (byteswap bs)

def enc16 (n : Nat) : Bytes := hton 2 n
def enc32 (n : Nat) : Bytes := hton 4 n
def enc64 (n : Nat) : Bytes := hton 8 n

/-! ## writer -/

structure FileRec where
  name : Bytes      -- `esl_FileTail` of the name given to `AddFile`
  fmt  : Nat
  bpl  : Nat
  rpl  : Nat
  deriving Repr, Inhabited, DecidableEq

structure PKey where
  key  : Bytes
  fnum : Nat
  roff : Nat
  doff : Nat
  len  : Nat
  deriving Repr, Inhabited, DecidableEq

structure SKey where
  key  : Bytes
  pkey : Bytes
  deriving Repr, Inhabited, DecidableEq

/-- `ESL_NEWSSI` (the tmp files are the lists of their lines, without the newline) -/
structure NewSsi where
  external   : Bool := false
  maxRam     : Int := 2048
  files      : List FileRec := []
  flen       : Nat := 0
  pkeys      : List PKey := []
  plen       : Nat := 0
  nprimary   : Nat := 0
  ptmp       : List Bytes := []
  skeys      : List SKey := []
  slen       : Nat := 0
  nsecondary : Nat := 0
  stmp       : List Bytes := []
  written    : Bool := false        -- `ssifp == NULL`
  deriving Repr, Inhabited

def MAXFILES : Nat := 32767
def MAXKEYS : Nat := 2^63 - 1

def NewSsi.nfiles (ns : NewSsi) : Nat := ns.files.length

def frecsizeOf (flen : Nat) : Nat := 16 + flen
def precsizeOf (plen : Nat) : Nat := 26 + plen
def HDRSIZE : Nat := 78    -- 9*4 + 2*8 + 2 + 3*8

/-- `current_newssi_size`, in MB -/
def NewSsi.currentSize (ns : NewSsi) : Nat :=
  (HDRSIZE + frecsizeOf ns.flen * ns.nfiles + precsizeOf ns.plen * ns.nprimary
    + (ns.slen + ns.plen) * ns.nsecondary) / 1048576

/-- `esl_newssi_AddFile` -/
def NewSsi.addFile (ns : NewSsi) (filename : Bytes) (fmt : Nat) : Except St (NewSsi × Nat) :=
  if ns.nfiles ≥ MAXFILES then .error .erange
  else
    let n := filename.length
    let flen := if n + 1 > ns.flen then n + 1 else ns.flen
    .ok ({ ns with flen := flen, files := ns.files ++ [{ name := fileTail filename, fmt := fmt, bpl := 0, rpl := 0 }] },
         ns.nfiles)

/-- `esl_newssi_SetSubseq` -/
def NewSsi.setSubseq (ns : NewSsi) (fh bpl rpl : Nat) : Except St NewSsi :=
  if fh ≥ ns.nfiles then .error .einval
  else if bpl = 0 ∨ rpl = 0 then .error .einval
  else .ok { ns with files := ns.files.modify fh (fun f => { f with bpl := bpl, rpl := rpl }) }

/-- a line of the primary-key tmp file: `"%s\t%u\t%llu\t%llu\t%lu\n"` without the newline -/
def pkeyLine (k : PKey) : Bytes :=
  k.key ++ [9] ++ decimal k.fnum ++ [9] ++ decimal k.roff ++ [9] ++ decimal k.doff ++ [9] ++ decimal k.len

/-- a line of the secondary-key tmp file: `"%s\t%s\n"` without the newline -/
def skeyLine (k : SKey) : Bytes := k.key ++ [9] ++ k.pkey

/-- `activate_external_sort` -/
def NewSsi.activateExternal (ns : NewSsi) : NewSsi :=
  if ns.external then ns
  else { ns with ptmp := ns.pkeys.map pkeyLine, stmp := ns.skeys.map skeyLine, pkeys := [], skeys := [], external := true }

/-- the test `!ns->external && current_newssi_size(ns) >= ns->max_ram` followed by the activation -/
def NewSsi.maybeExternal (ns : NewSsi) : NewSsi :=
  if !ns.external && decide ((ns.currentSize : Int) ≥ ns.maxRam) then ns.activateExternal else ns

/-- the part of `esl_newssi_AddKey` after the size test: update `plen`, append to memory or to the tmp file -/
def NewSsi.appendKey (ns : NewSsi) (k : PKey) : NewSsi :=
  let n := k.key.length + 1
  let ns := if n > ns.plen then { ns with plen := n } else ns
  if ns.external then { ns with ptmp := ns.ptmp ++ [pkeyLine k], nprimary := ns.nprimary + 1 }
  else { ns with pkeys := ns.pkeys ++ [k], nprimary := ns.nprimary + 1 }

/-- `esl_newssi_AddKey` -/
def NewSsi.addKey (ns : NewSsi) (key : Bytes) (fh roff doff len : Nat) : Except St NewSsi :=
  if fh ≥ MAXFILES then .error .einval
  else if ns.nprimary ≥ MAXKEYS then .error .erange
  else .ok (ns.maybeExternal.appendKey { key := key, fnum := fh, roff := roff, doff := doff, len := len })

/-- the part of `esl_newssi_AddAlias` after the size test -/
def NewSsi.appendAlias (ns : NewSsi) (k : SKey) : NewSsi :=
  let n := k.key.length + 1
  let ns := if n > ns.slen then { ns with slen := n } else ns
  if ns.external then { ns with stmp := ns.stmp ++ [skeyLine k], nsecondary := ns.nsecondary + 1 }
  else { ns with skeys := ns.skeys ++ [k], nsecondary := ns.nsecondary + 1 }

/-- `esl_newssi_AddAlias` -/
def NewSsi.addAlias (ns : NewSsi) (alias key : Bytes) : Except St NewSsi :=
  if ns.nsecondary ≥ MAXKEYS then .error .erange
  else .ok (ns.maybeExternal.appendAlias { key := alias, pkey := key })

/-- `parse_pkey` -/
def parsePKey (line : Bytes) : Except St PKey :=
  match strtok line with
  | none => .error .eformat
  | some (key, s) =>
  match strtok s with
  | none => .error .eformat
  | some (t1, s) =>
  match strtok s with
  | none => .error .eformat
  | some (t2, s) =>
  match strtok s with
  | none => .error .eformat
  | some (t3, s) =>
  match strtok s with
  | none => .error .eformat
  | some (t4, _) =>
    .ok { key := key, fnum := atoiU16 t1, roff := strtoull t2, doff := strtoull t3, len := strtoull t4 }

/-- `parse_skey` -/
def parseSKey (line : Bytes) : Except St SKey :=
  match strtok line with
  | none => .error .eformat
  | some (key, s) =>
  match strtok s with
  | none => .error .eformat
  | some (pkey, _) => .ok { key := key, pkey := pkey }

/-- `pkeysort`/`skeysort` as a `≤` test -/
def keyLe (a b : Bytes) : Bool := strcmp a b != .gt

/-- the order `sort(1)` uses in the POSIX locale: `memcmp`, a proper prefix first -/
def lineLe (a b : Bytes) : Bool := strcmp a b != .gt

/-- `qsort(ns->pkeys, …, pkeysort)` -/
def sortPKeys (l : List PKey) : List PKey := l.mergeSort (fun a b => keyLe a.key b.key)
def sortSKeys (l : List SKey) : List SKey := l.mergeSort (fun a b => keyLe a.key b.key)
/-- `system("env LC_ALL=POSIX sort -o f f")` -/
def sortLines (l : List Bytes) : List Bytes := l.mergeSort lineLe

def pkeyRecord (pk : Bytes) (k : PKey) : Bytes :=
  pk ++ enc16 k.fnum ++ enc64 k.roff ++ enc64 k.doff ++ enc64 k.len

/-- the primary-key loop of `esl_newssi_Write`: `pk` is the fixed-width buffer that holds the previous key.
    `get` is the identity in internal mode and `parse_pkey` (failure → `eslESYS`) in external mode. -/
def writePKeys {α : Type} (get : α → Except St PKey) (plen : Nat) : Bytes → List α → Except St Bytes
  | _, [] => .ok []
  | pk, x :: rest =>
    match get x with
    | .error _ => .error .esys
    | .ok k =>
      if strcmp (cstr pk) k.key == .eq then .error .edup
      else
        let pk := strncpy plen k.key
        match writePKeys get plen pk rest with
        | .error e => .error e
        | .ok out => .ok (pkeyRecord pk k ++ out)

/-- the secondary-key loop of `esl_newssi_Write` -/
def writeSKeys {α : Type} (get : α → Except St SKey) (plen slen : Nat) : Bytes → List α → Except St Bytes
  | _, [] => .ok []
  | sk, x :: rest =>
    match get x with
    | .error _ => .error .esys
    | .ok k =>
      if strcmp (cstr sk) k.key == .eq then .error .edup
      else
        let sk := strncpy slen k.key
        let pk := strncpy plen k.pkey
        match writeSKeys get plen slen sk rest with
        | .error e => .error e
        | .ok out => .ok (sk ++ pk ++ out)

/-- `cross_duplicate`: after both key classes are sorted, one merge pass over the two sorted streams looks for a key
    that is both a primary key and an alias (`eslEDUP`). `getP`/`getS` are the identity in internal mode and
    `parse_pkey`/`parse_skey` on the current tmp-file line in external mode (a failure is `eslESYS`); the C loop reads
    only the stream it just advanced in, the model parses the (unchanged) current line of the other one again. -/
def crossDup {α β : Type} (getP : α → Except St PKey) (getS : β → Except St SKey) : List α → List β → Except St Unit
  | [], _ => .ok ()
  | _ :: _, [] => .ok ()
  | x :: xs, y :: ys =>
    match getP x with
    | .error _ => .error .esys
    | .ok p =>
      match getS y with
      | .error _ => .error .esys
      | .ok s =>
        match strcmp p.key s.key with
        | .eq => .error .edup
        | .lt => crossDup getP getS xs (y :: ys)
        | .gt => crossDup getP getS (x :: xs) ys
termination_by l1 l2 => l1.length + l2.length

def fileRecord (flen : Nat) (f : FileRec) : Bytes :=
  strncpy flen f.name ++ enc32 f.fmt ++ enc32 (if f.bpl > 0 ∧ f.rpl > 0 then 1 else 0) ++ enc32 f.bpl ++ enc32 f.rpl

def V30MAGIC : Nat := 0xd3d3c9b3
def V30SWAP : Nat := 0xb3c9d3d3

def NewSsi.header (ns : NewSsi) : Bytes :=
  let frecsize := frecsizeOf ns.flen
  let precsize := precsizeOf ns.plen
  let srecsize := ns.slen + ns.plen
  let foffset := HDRSIZE
  let poffset := foffset + frecsize * ns.nfiles
  let soffset := poffset + precsize * ns.nprimary
  enc32 V30MAGIC ++ enc32 0 ++ enc32 8 ++ enc16 ns.nfiles ++ enc64 ns.nprimary ++ enc64 ns.nsecondary
    ++ enc32 ns.flen ++ enc32 ns.plen ++ enc32 ns.slen ++ enc32 frecsize ++ enc32 precsize ++ enc32 srecsize
    ++ enc64 foffset ++ enc64 poffset ++ enc64 soffset

/-- the part of `esl_newssi_Write` after the argument checks: `Except` status or the bytes of the index file -/
def NewSsi.writeBytes (ns : NewSsi) : Except St Bytes :=
  if ns.flen = 0 then .error .emem            -- ESL_ALLOC(fk, 0)
  else
    let cross :=
      if ns.external then crossDup parsePKey parseSKey (sortLines ns.ptmp) (sortLines ns.stmp)
      else crossDup (fun k => .ok k) (fun k => .ok k) (sortPKeys ns.pkeys) (sortSKeys ns.skeys)
    match cross with
    | .error e => .error e
    | .ok () =>
    let hdr := ns.header
    let fsec := (ns.files.map (fileRecord ns.flen)).flatten
    let psec :=
      if ns.external then writePKeys parsePKey ns.plen (strncpy ns.plen []) (sortLines ns.ptmp)
      else writePKeys (fun k => .ok k) ns.plen (strncpy ns.plen []) (sortPKeys ns.pkeys)
    match psec with
    | .error e => .error e
    | .ok psec =>
      let ssec :=
        if ns.external then writeSKeys parseSKey ns.plen ns.slen (strncpy ns.slen []) (sortLines ns.stmp)
        else writeSKeys (fun k => .ok k) ns.plen ns.slen (strncpy ns.slen []) (sortSKeys ns.skeys)
      match ssec with
      | .error e => .error e
      | .ok ssec => .ok (hdr ++ fsec ++ psec ++ ssec)

/-- `esl_newssi_Write`: status and the index file left on disk (`none`: no file; on any error it is removed).
    `cur` is the file before the call (`esl_newssi_Open` created it empty). -/
def NewSsi.write (ns : NewSsi) (cur : Option Bytes := some []) : NewSsi × Option St × Option Bytes :=
  if ns.nsecondary > 0 ∧ ns.slen = 0 then (ns, some .einval, cur)      -- ESL_EXCEPTION: returns at once, nothing removed
  else if ns.written then (ns, some .einval, cur)
  else
    match ns.writeBytes with
    | .error e => ({ ns with written := true }, some e, none)
    | .ok b => ({ ns with written := true }, none, some b)

/-! ## reader -/

/-- `fseeko(off); fread(buf, 1, n)`: the `n` bytes at `off`, `none` on a short read -/
def readAt (d : Array UInt8) (off n : Nat) : Option Bytes :=
  if n = 0 then some []
  else if off + n ≤ d.size then some (d.extract off (off + n)).toList else none

/-- `esl_fread_u16/u32/u64` at `off` -/
def readU (d : Array UInt8) (off k : Nat) : Option Nat := (readAt d off k).map ntoh

/-- consecutive `esl_fread_u16/u32/u64/offset` calls starting at file position `pos`: the values, `none` as soon as
    one of them hits the end of the file -/
def readFields (d : Array UInt8) : Nat → List Nat → Option (List Nat)
  | _, [] => some []
  | pos, k :: ks =>
    match readU d pos k with
    | none => none
    | some v => (readFields d (pos + k) ks).map (v :: ·)

structure SsiFile where
  name   : Bytes     -- the `flen`-byte buffer
  format : Nat
  flags  : Nat
  bpl    : Nat
  rpl    : Nat
  deriving Repr, Inhabited, DecidableEq

/-- `ESL_SSI` -/
structure Ssi where
  data : Array UInt8
  flags : Nat
  offsz : Nat
  nfiles : Nat
  nprimary : Nat
  nsecondary : Nat
  flen : Nat
  plen : Nat
  slen : Nat
  frecsize : Nat
  precsize : Nat
  srecsize : Nat
  foffset : Nat
  poffset : Nat
  soffset : Nat
  files : List SsiFile
  deriving Inhabited

def rd (d : Array UInt8) (off k : Nat) (e : St) : Except St Nat :=
  match readU d off k with
  | some v => .ok v
  | none => .error e

/-- the per-file loop of `esl_ssi_Open` -/
def openFiles (d : Array UInt8) (flen frecsize foffset : Nat) : Nat → Nat → Except St (List SsiFile)
  | 0, _ => .ok []
  | n+1, i =>
    -- the name buffer is `flen + 1` bytes, the last one set to NUL: `name` is the `flen` bytes read from the file
    let off := foffset + (i * frecsize) % 4294967296      -- `i * ssi->frecsize` is a 32-bit product
    match readAt d off flen with
    | none => .error .eformat
    | some name =>
    match readFields d (off + flen) [4, 4, 4, 4] with
    | some [fmt, fl, bpl, rpl] =>
      match openFiles d flen frecsize foffset n (i+1) with
      | .error e => .error e
      | .ok rest => .ok ({ name := name, format := fmt, flags := fl, bpl := bpl, rpl := rpl } :: rest)
    | _ => .error .eformat

/-- `esl_ssi_Open` on the contents of the file -/
def Ssi.open (d : Array UInt8) : Except St Ssi :=
  match readFields d 0 [4, 4, 4] with
  | some [magic, flags, offsz] =>
    if magic ≠ V30MAGIC ∧ magic ≠ V30SWAP then .error .eformat
    else if offsz ≠ 4 ∧ offsz ≠ 8 then .error .erange
    else
      match readFields d 12 [2, 8, 8, 4, 4, 4, 4, 4, 4, offsz, offsz, offsz] with
      | some [nfiles, nprimary, nsecondary, flen, plen, slen, frecsize, precsize, srecsize, foffset, poffset, soffset] =>
        if nfiles = 0 then .error .eformat
        else
          match openFiles d flen frecsize foffset nfiles 0 with
          | .error e => .error e
          | .ok files =>
            .ok { data := d, flags, offsz, nfiles, nprimary, nsecondary, flen, plen, slen, frecsize, precsize, srecsize,
                  foffset, poffset, soffset, files }
      | _ => .error .eformat
  | _ => .error .eformat     -- a short read of magic/flags/offsz: every one of them is eslEFORMAT

/-- the loop of `binary_search`. `rdName mid` = the C string in the `klen` bytes of record `mid`. Returns `mid`. -/
def bsearchLoop (rdName : Nat → Except St Bytes) (key : Bytes) (left right : Nat) : Except St Nat :=
  let mid := (left + right) / 2
  match rdName mid with
  | .error e => .error e
  | .ok name =>
    match strcmp name key with
    | .eq => .ok mid
    | .lt => if h : left ≥ right then .error .enotfound else bsearchLoop rdName key (mid + 1) right
    | .gt =>
      if h : left ≥ right then .error .enotfound
      else if h0 : mid = 0 then .error .enotfound
      else bsearchLoop rdName key left (mid - 1)
termination_by right + 1 - left
decreasing_by all_goals omega

/-- `fseeko(base + recsize*mid); fread(name, klen)` into the `klen + 1`-byte buffer whose last byte is NUL: the C string
    that `strcmp(name, key)` sees is the field up to its first NUL, or the whole field when it has none -/
def rdNameAt (d : Array UInt8) (klen base recsize : Nat) (mid : Nat) : Except St Bytes :=
  match readAt d (base + recsize * mid) klen with
  | none => .error .eformat
  | some buf => .ok (cstr buf)

/-- `binary_search`: on success the file position just after the key field of the record found -/
def bsearch (d : Array UInt8) (key : Bytes) (klen base recsize maxidx : Nat) : Except St Nat :=
  if maxidx = 0 then .error .enotfound
  else
    match bsearchLoop (rdNameAt d klen base recsize) key 0 (maxidx - 1) with
    | .error e => .error e
    | .ok mid => .ok (base + recsize * mid + klen)

structure Hit where
  fh : Nat
  roff : Nat
  doff : Nat
  len : Nat
  deriving Repr, DecidableEq, Inhabited

/-- the four reads that follow a primary-key hit -/
def readHit (s : Ssi) (pos : Nat) : Except St Hit :=
  match readFields s.data pos [2, s.offsz, s.offsz, 8] with
  | some [fh, roff, doff, len] => .ok { fh, roff, doff, len }
  | _ => .error .eformat

/-- `esl_ssi_FindName`; `fuel` bounds the depth of the alias → primary key recursion -/
def Ssi.findNameAux (s : Ssi) : Nat → Bytes → Except St Hit
  | 0, _ => .error .nohalt
  | fuel+1, key =>
    match bsearch s.data key s.plen s.poffset s.precsize s.nprimary with
    | .ok pos => readHit s pos
    | .error .enotfound =>
      if s.nsecondary > 0 then
        match bsearch s.data key s.slen s.soffset s.srecsize s.nsecondary with
        | .error e => .error e
        | .ok pos =>
          -- `pkey` is a `plen + 1`-byte buffer ending in NUL
          match readAt s.data pos s.plen with
          | none => .error .eformat
          | some buf => s.findNameAux fuel (cstr buf)
      else .error .enotfound
    | .error e => .error e

def FUEL : Nat := 100000
def Ssi.findName (s : Ssi) (key : Bytes) : Except St Hit := s.findNameAux FUEL key

/-- `esl_ssi_FindNumber` (`nkey` is an `int64_t` compared as unsigned) -/
def Ssi.findNumber (s : Ssi) (nkey : Int) : Except St (Hit × Bytes) :=
  let u : Nat := if nkey < 0 then (nkey + 18446744073709551616).toNat else nkey.toNat
  if u ≥ s.nprimary then .error .enotfound
  else
    let pos := s.poffset + s.precsize * u
    match readAt s.data pos s.plen with
    | none => .error .eformat
    | some buf =>
      match readHit s (pos + s.plen) with
      | .error e => .error e
      | .ok h => .ok (h, buf)

/-- a 64-bit pattern read as `int64_t` -/
def toSigned (n : Nat) : Int := if n ≥ 2^63 then (n : Int) - (18446744073709551616 : Int) else (n : Int)

structure SubHit where
  hit : Hit
  doff : Nat       -- as a 64-bit pattern
  actual : Nat
  deriving Repr, DecidableEq, Inhabited

/-- `esl_ssi_FindSubseq` (with the repaired tests: `requested_start < 1`; a stored file handle that is not a file of the
    index is `eslEFORMAT`; `r == 0 || b == 0` is tested before the division) -/
def Ssi.findSubseq (s : Ssi) (key : Bytes) (start : Int) : Except St SubHit :=
  match s.findName key with
  | .error e => .error e
  | .ok h =>
    if start < 1 ∨ start > toSigned h.len then .error .erange
    else if h.fh ≥ s.nfiles then .error .eformat
    else
      match s.files[h.fh]? with
      | none => .error .fault
      | some f =>
        if h.doff = 0 ∨ f.flags % 2 = 0 then .ok { hit := h, doff := h.doff, actual := 1 }
        else
          let r := f.rpl
          let b := f.bpl
          let i := start.toNat
          if r = 0 ∨ b = 0 then .error .einval
          else
            let l := (i - 1) / r
            if b = r + 1 then .ok { hit := h, doff := (h.doff + l * b + (i - 1) % r) % 2^64, actual := i }
            else .ok { hit := h, doff := (h.doff + l * b) % 2^64, actual := (1 + l * r) % 2^64 }

/-- `esl_ssi_FileInfo` (+ the public per-file arrays) -/
def Ssi.fileInfo (s : Ssi) (fh : Nat) : Except St SsiFile :=
  if fh ≥ s.nfiles then .error .einval
  else match s.files[fh]? with
    | some f => .ok f
    | none => .error .fault

end EaselModel.Ssi
