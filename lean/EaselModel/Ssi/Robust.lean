import EaselModel.Ssi.Reader
/-! # Lemmas about the SSI model, part 7: the reader on ANY file contents (truncated, corrupted, unsorted).

Nothing here assumes that the bytes were produced by `esl_newssi_Write`: `d : Array UInt8` / `s : Ssi` are arbitrary.
* `binary_search` never returns another key's record: whatever it returns holds exactly the probe key
  (`bsearchLoop_sound`), and it only ever touches records `0 .. maxidx-1` (`bsearchLoop_bound`).
* `esl_ssi_FindName` returns either a record of the primary section whose key field is the probe, or one reached from
  the probe through records of the secondary section (`findName_sound`).
* the statuses that can come out (`open_status`, `findName_status`, `findNumber_status`, `findSubseq_status`): the
  documented ones only — no read leaves a buffer (`fault` never comes out of an opened index), and the alias recursion
  ends (`nohalt` excluded) when no stored alias names another stored alias. -/
namespace EaselModel.Ssi

/-! ## binary search on an arbitrary record array -/

/-- whatever index the loop returns holds exactly `key` — on sorted, unsorted or unreadable arrays alike -/
theorem bsearchLoop_sound (rdName : Nat → Except St Bytes) (key : Bytes) (left right j : Nat)
    (h : bsearchLoop rdName key left right = .ok j) : rdName j = .ok key ∧ j ≤ max left right := by
  induction hm : right + 1 - left using Nat.strongRecOn generalizing left right with
  | _ m ih =>
    rw [bsearchLoop] at h
    cases hr : rdName ((left + right) / 2) with
    | error e => simp [hr] at h
    | ok name =>
      simp only [hr] at h
      cases hc : strcmp name key with
      | eq =>
        simp only [hc] at h
        have hj : (left + right) / 2 = j := by injection h
        subst hj
        rw [strcmp_eq_iff.mp hc] at hr
        exact ⟨hr, by omega⟩
      | lt =>
        simp only [hc] at h
        by_cases hge : left ≥ right
        · simp [hge] at h
        · simp only [hge, ↓reduceDIte] at h
          have := ih (right + 1 - ((left + right) / 2 + 1)) (by omega) ((left + right) / 2 + 1) right h rfl
          exact ⟨this.1, by omega⟩
      | gt =>
        simp only [hc] at h
        by_cases hge : left ≥ right
        · simp [hge] at h
        · by_cases h0 : (left + right) / 2 = 0
          · simp [hge, h0] at h
          · simp only [hge, h0, ↓reduceDIte] at h
            have := ih ((left + right) / 2 - 1 + 1 - left) (by omega) left ((left + right) / 2 - 1) h rfl
            exact ⟨this.1, by omega⟩

/-- the loop fails with `eslENOTFOUND` or with the failure of one of its reads — nothing else -/
theorem bsearchLoop_error (rdName : Nat → Except St Bytes) (key : Bytes) (left right : Nat) (e : St)
    (h : bsearchLoop rdName key left right = .error e) : e = .enotfound ∨ ∃ m, m ≤ max left right ∧ rdName m = .error e := by
  induction hm : right + 1 - left using Nat.strongRecOn generalizing left right with
  | _ m ih =>
    rw [bsearchLoop] at h
    cases hr : rdName ((left + right) / 2) with
    | error e' =>
      simp only [hr] at h
      have : e' = e := by injection h
      subst this
      exact .inr ⟨_, by omega, hr⟩
    | ok name =>
      simp only [hr] at h
      cases hc : strcmp name key with
      | eq => simp [hc] at h
      | lt =>
        simp only [hc] at h
        by_cases hge : left ≥ right
        · simp only [hge, ↓reduceDIte] at h
          left; injection h with h; exact h.symm
        · simp only [hge, ↓reduceDIte] at h
          rcases ih (right + 1 - ((left + right) / 2 + 1)) (by omega) ((left + right) / 2 + 1) right h rfl with h1 | ⟨m', hm1, hm2⟩
          · exact .inl h1
          · exact .inr ⟨m', by omega, hm2⟩
      | gt =>
        simp only [hc] at h
        by_cases hge : left ≥ right
        · simp only [hge, ↓reduceDIte] at h
          left; injection h with h; exact h.symm
        · by_cases h0 : (left + right) / 2 = 0
          · simp only [hge, h0, ↓reduceDIte] at h
            left; injection h with h; exact h.symm
          · simp only [hge, h0, ↓reduceDIte] at h
            rcases ih ((left + right) / 2 - 1 + 1 - left) (by omega) left ((left + right) / 2 - 1) h rfl with h1 | ⟨m', hm1, hm2⟩
            · exact .inl h1
            · exact .inr ⟨m', by omega, hm2⟩

/-- a read of a key field fails only by a short read, `eslEFORMAT` -/
theorem rdNameAt_error (d : Array UInt8) (klen base recsize mid : Nat) (e : St)
    (h : rdNameAt d klen base recsize mid = .error e) : e = .eformat ∧ readAt d (base + recsize * mid) klen = none := by
  unfold rdNameAt at h
  cases hr : readAt d (base + recsize * mid) klen with
  | none =>
    simp only [hr] at h
    injection h with h; exact ⟨h.symm, rfl⟩
  | some buf => simp [hr] at h

/-- `binary_search` on arbitrary bytes: on success the record found is one of records `0..maxidx-1` of the section and
    its key field holds exactly `key`; the position returned is just behind that field -/
theorem bsearch_sound (d : Array UInt8) (key : Bytes) (klen base recsize maxidx pos : Nat)
    (h : bsearch d key klen base recsize maxidx = .ok pos) :
    ∃ j, j < maxidx ∧ rdNameAt d klen base recsize j = .ok key ∧ pos = base + recsize * j + klen := by
  unfold bsearch at h
  by_cases h0 : maxidx = 0
  · simp [h0] at h
  · simp only [h0, ↓reduceIte] at h
    cases hl : bsearchLoop (rdNameAt d klen base recsize) key 0 (maxidx - 1) with
    | error e => simp [hl] at h
    | ok mid =>
      simp only [hl] at h
      have := bsearchLoop_sound _ key 0 (maxidx - 1) mid hl
      injection h with h
      exact ⟨mid, by omega, this.1, h.symm⟩

/-- `binary_search` fails with `eslENOTFOUND`, or with `eslEFORMAT` when one of records `0..maxidx-1` lies (partly) beyond
    the end of the file — nothing else -/
theorem bsearch_error (d : Array UInt8) (key : Bytes) (klen base recsize maxidx : Nat) (e : St)
    (h : bsearch d key klen base recsize maxidx = .error e) :
    e = .enotfound ∨ (e = .eformat ∧ ∃ j, j < maxidx ∧ readAt d (base + recsize * j) klen = none) := by
  unfold bsearch at h
  by_cases h0 : maxidx = 0
  · simp only [h0, ↓reduceIte] at h
    left; injection h with h; exact h.symm
  · simp only [h0, ↓reduceIte] at h
    cases hl : bsearchLoop (rdNameAt d klen base recsize) key 0 (maxidx - 1) with
    | ok mid => simp [hl] at h
    | error e' =>
      simp only [hl] at h
      have he : e' = e := by injection h
      subst he
      rcases bsearchLoop_error _ key 0 (maxidx - 1) e' hl with h1 | ⟨m, hm1, hm2⟩
      · exact .inl h1
      · have := rdNameAt_error d klen base recsize m e' hm2
        exact .inr ⟨this.1, m, by omega, this.2⟩

/-! ## `esl_ssi_FindName` on an arbitrary index -/

/-- record `j` of the primary section holds the key `key` and the numbers `hit` -/
def Ssi.PrimaryRec (s : Ssi) (j : Nat) (key : Bytes) (hit : Hit) : Prop :=
  j < s.nprimary ∧ rdNameAt s.data s.plen s.poffset s.precsize j = .ok key ∧
    readHit s (s.poffset + s.precsize * j + s.plen) = .ok hit

/-- record `j` of the secondary section holds the alias `alias` and names the primary key `target` -/
def Ssi.AliasRec (s : Ssi) (j : Nat) (alias target : Bytes) : Prop :=
  j < s.nsecondary ∧ rdNameAt s.data s.slen s.soffset s.srecsize j = .ok alias ∧
    ∃ buf, readAt s.data (s.soffset + s.srecsize * j + s.slen) s.plen = some buf ∧ cstr buf = target

/-- `key` leads to the numbers `hit` through stored records only: a primary record carrying `key`, or an alias record
    carrying `key` whose target does -/
inductive Ssi.Resolves (s : Ssi) : Bytes → Hit → Prop
  | primary (j : Nat) (key : Bytes) (hit : Hit) : s.PrimaryRec j key hit → Ssi.Resolves s key hit
  | alias (j : Nat) (key target : Bytes) (hit : Hit) : s.AliasRec j key target → Ssi.Resolves s target hit →
      Ssi.Resolves s key hit

/-- **only for those**, on ANY index (sections unsorted, counts/offsets arbitrary, file truncated): whenever
    `esl_ssi_FindName` answers `eslOK`, the numbers come from a stored record whose key field is exactly the probe
    (directly, or through stored alias records) — never from another key's record. -/
theorem findName_sound (s : Ssi) (fuel : Nat) (key : Bytes) (hit : Hit) (h : s.findNameAux fuel key = .ok hit) :
    s.Resolves key hit := by
  induction fuel generalizing key with
  | zero => simp [Ssi.findNameAux] at h
  | succ fuel ih =>
    rw [Ssi.findNameAux] at h
    cases hb : bsearch s.data key s.plen s.poffset s.precsize s.nprimary with
    | ok pos =>
      simp only [hb] at h
      obtain ⟨j, hj, hrd, rfl⟩ := bsearch_sound _ _ _ _ _ _ _ hb
      exact .primary j key hit ⟨hj, hrd, h⟩
    | error e =>
      simp only [hb] at h
      rcases bsearch_error _ _ _ _ _ _ _ hb with rfl | ⟨rfl, _⟩
      · simp only [] at h
        by_cases hn : s.nsecondary > 0
        · simp only [hn, ↓reduceIte] at h
          cases hb2 : bsearch s.data key s.slen s.soffset s.srecsize s.nsecondary with
          | error e2 => simp [hb2] at h
          | ok pos =>
            simp only [hb2] at h
            obtain ⟨j, hj, hrd, rfl⟩ := bsearch_sound _ _ _ _ _ _ _ hb2
            cases hra : readAt s.data (s.soffset + s.srecsize * j + s.slen) s.plen with
            | none => simp [hra] at h
            | some buf =>
              simp only [hra] at h
              exact .alias j key (cstr buf) hit ⟨hj, hrd, buf, hra, rfl⟩ (ih _ h)
        · simp [hn] at h
      · simp at h

theorem readHit_error (s : Ssi) (pos : Nat) (e : St) (h : readHit s pos = .error e) : e = .eformat := by
  unfold readHit at h
  split at h
  · cases h
  · injection h with h; exact h.symm

/-- the statuses `esl_ssi_FindName` can return on ANY index: the documented `eslENOTFOUND` and `eslEFORMAT`, and `nohalt`
    (the recursion through alias records did not end within the fuel). No read leaves a buffer. -/
theorem findName_status (s : Ssi) (fuel : Nat) (key : Bytes) (e : St) (h : s.findNameAux fuel key = .error e) :
    e = .enotfound ∨ e = .eformat ∨ e = .nohalt := by
  induction fuel generalizing key with
  | zero =>
    simp only [Ssi.findNameAux] at h
    injection h with h; simp [← h]
  | succ fuel ih =>
    rw [Ssi.findNameAux] at h
    cases hb : bsearch s.data key s.plen s.poffset s.precsize s.nprimary with
    | ok pos =>
      simp only [hb] at h
      have := readHit_error s pos e h
      simp [this]
    | error e1 =>
      simp only [hb] at h
      rcases bsearch_error _ _ _ _ _ _ _ hb with rfl | ⟨rfl, _⟩
      · simp only [] at h
        by_cases hn : s.nsecondary > 0
        · simp only [hn, ↓reduceIte] at h
          cases hb2 : bsearch s.data key s.slen s.soffset s.srecsize s.nsecondary with
          | error e2 =>
            simp only [hb2] at h
            injection h with h
            subst h
            rcases bsearch_error _ _ _ _ _ _ _ hb2 with h1 | ⟨h1, _⟩ <;> simp [h1]
          | ok pos =>
            simp only [hb2] at h
            cases hra : readAt s.data pos s.plen with
            | none =>
              simp only [hra] at h
              injection h with h; simp [← h]
            | some buf =>
              simp only [hra] at h
              exact ih _ h
        · simp only [hn, ↓reduceIte] at h
          injection h with h; simp [← h]
      · simp only [] at h
        injection h with h; simp [← h]

/-- no stored alias names another stored alias (the documented precondition of `AddAlias`, read off the bytes) -/
def Ssi.NoAliasChain (s : Ssi) : Prop :=
  ∀ j a t, s.AliasRec j a t → ∀ j' t', ¬ s.AliasRec j' t t'

/-- **termination**: when no stored alias names another stored alias, the recursion of `esl_ssi_FindName` is at most
    one level deep — two units of fuel are enough, whatever else the bytes are -/
theorem findName_halts (s : Ssi) (hc : s.NoAliasChain) (fuel : Nat) (key : Bytes) :
    s.findNameAux (fuel + 2) key ≠ .error .nohalt := by
  intro h
  rw [Ssi.findNameAux] at h
  cases hb : bsearch s.data key s.plen s.poffset s.precsize s.nprimary with
  | ok pos =>
    simp only [hb] at h
    have := readHit_error s pos _ h
    cases this
  | error e1 =>
    simp only [hb] at h
    rcases bsearch_error _ _ _ _ _ _ _ hb with rfl | ⟨rfl, _⟩
    · simp only [] at h
      by_cases hn : s.nsecondary > 0
      · simp only [hn, ↓reduceIte] at h
        cases hb2 : bsearch s.data key s.slen s.soffset s.srecsize s.nsecondary with
        | error e2 =>
          simp only [hb2] at h
          injection h with h
          subst h
          rcases bsearch_error _ _ _ _ _ _ _ hb2 with h1 | ⟨h1, _⟩ <;> cases h1
        | ok pos =>
          simp only [hb2] at h
          obtain ⟨j, hj, hrd, rfl⟩ := bsearch_sound _ _ _ _ _ _ _ hb2
          cases hra : readAt s.data (s.soffset + s.srecsize * j + s.slen) s.plen with
          | none => simp [hra] at h
          | some buf =>
            simp only [hra] at h
            have hrec : s.AliasRec j key (cstr buf) := ⟨hj, hrd, buf, hra, rfl⟩
            -- second level: the target is looked up; a second alias hit would be a chain
            rw [Ssi.findNameAux] at h
            cases hb3 : bsearch s.data (cstr buf) s.plen s.poffset s.precsize s.nprimary with
            | ok pos3 =>
              simp only [hb3] at h
              have := readHit_error s pos3 _ h
              cases this
            | error e3 =>
              simp only [hb3] at h
              rcases bsearch_error _ _ _ _ _ _ _ hb3 with rfl | ⟨rfl, _⟩
              · simp only [hn, ↓reduceIte] at h
                cases hb4 : bsearch s.data (cstr buf) s.slen s.soffset s.srecsize s.nsecondary with
                | error e4 =>
                  simp only [hb4] at h
                  injection h with h
                  subst h
                  rcases bsearch_error _ _ _ _ _ _ _ hb4 with h1 | ⟨h1, _⟩ <;> cases h1
                | ok pos4 =>
                  simp only [hb4] at h
                  obtain ⟨j', hj', hrd', rfl⟩ := bsearch_sound _ _ _ _ _ _ _ hb4
                  cases hra' : readAt s.data (s.soffset + s.srecsize * j' + s.slen) s.plen with
                  | none => simp [hra'] at h
                  | some buf' => exact hc j key (cstr buf) hrec j' (cstr buf') ⟨hj', hrd', buf', hra', rfl⟩
              · simp at h
      · simp [hn] at h
    · simp at h

/-! ## `esl_ssi_Open`, `esl_ssi_FindNumber`, `esl_ssi_FileInfo`, `esl_ssi_FindSubseq` on arbitrary bytes -/

theorem openFiles_status (d : Array UInt8) (flen frecsize foffset n i : Nat) (e : St)
    (h : openFiles d flen frecsize foffset n i = .error e) : e = .eformat := by
  induction n generalizing i with
  | zero => simp [openFiles] at h
  | succ n ih =>
    rw [openFiles] at h
    split at h
    · injection h with h; exact h.symm
    · split at h
      · split at h
        · rename_i e' he
          injection h with h
          subst h
          exact ih _ he
        · cases h
      · injection h with h; exact h.symm

theorem openFiles_length (d : Array UInt8) (flen frecsize foffset n i : Nat) (l : List SsiFile)
    (h : openFiles d flen frecsize foffset n i = .ok l) : l.length = n := by
  induction n generalizing i l with
  | zero => simp [openFiles] at h; simp [← h]
  | succ n ih =>
    rw [openFiles] at h
    split at h
    · cases h
    · split at h
      · split at h
        · cases h
        · rename_i rest hrest
          injection h with h
          subst h
          simp [ih _ _ hrest]
      · cases h

/-- `esl_ssi_Open` on ANY byte string: it succeeds, or fails with `eslEFORMAT` / `eslERANGE` (the documented statuses);
    it never reads outside the file, and on success it holds exactly `nfiles ≥ 1` file records -/
theorem open_status (d : Array UInt8) :
    (∀ e, Ssi.open d = .error e → e = .eformat ∨ e = .erange) ∧
    (∀ s, Ssi.open d = .ok s → s.data = d ∧ 0 < s.nfiles ∧ s.files.length = s.nfiles ∧ (s.offsz = 4 ∨ s.offsz = 8)) := by
  constructor
  · intro e h
    unfold Ssi.open at h
    split at h
    · split at h
      · injection h with h; simp [← h]
      · split at h
        · injection h with h; simp [← h]
        · split at h
          · split at h
            · injection h with h; simp [← h]
            · split at h
              · rename_i e' he
                injection h with h
                subst h
                simp [openFiles_status _ _ _ _ _ _ _ he]
              · cases h
          · injection h with h; simp [← h]
    · injection h with h; simp [← h]
  · intro s h
    unfold Ssi.open at h
    split at h
    · split at h
      · cases h
      · split at h
        · cases h
        · rename_i hoff
          split at h
          · split at h
            · cases h
            · rename_i hnf
              split at h
              · cases h
              · rename_i files hfiles
                injection h with h
                subst h
                refine ⟨rfl, by simp only; omega, openFiles_length _ _ _ _ _ _ _ hfiles, ?_⟩
                simp only
                omega
          · cases h
    · cases h

/-- `esl_ssi_FindNumber` on ANY index: `eslENOTFOUND` exactly for numbers outside `0..nprimary-1`; otherwise the
    record at that slot, or `eslEFORMAT` when the file ends before the record does -/
theorem findNumber_status (s : Ssi) (i : Int) (hlo : -(2:Int)^63 ≤ i) (hhi : i < (2:Int)^63) (hn : s.nprimary < 2^63) :
    (s.findNumber i = .error .enotfound ↔ (i < 0 ∨ (s.nprimary : Int) ≤ i)) ∧
    (∀ e, s.findNumber i = .error e → e = .enotfound ∨ e = .eformat) := by
  unfold Ssi.findNumber
  by_cases hneg : i < 0
  · have : (i + 18446744073709551616).toNat ≥ s.nprimary := by omega
    simp [hneg, this]
  · simp only [hneg, ↓reduceIte, false_or]
    by_cases hge : i.toNat ≥ s.nprimary
    · have : (s.nprimary : Int) ≤ i := by omega
      simp [hge, this]
    · have hlt : ¬ ((s.nprimary : Int) ≤ i) := by omega
      simp only [hge, ↓reduceIte, hlt, iff_false]
      cases hra : readAt s.data (s.poffset + s.precsize * i.toNat) s.plen with
      | none => simp
      | some buf =>
        simp only []
        cases hh : readHit s (s.poffset + s.precsize * i.toNat + s.plen) with
        | ok hit => simp
        | error e' =>
          have := readHit_error s _ e' hh
          subst this
          simp

/-- `esl_ssi_FileInfo` on ANY opened index: every handle below `nfiles` has a record, every other one is `eslEINVAL` -/
theorem fileInfo_total (d : Array UInt8) (s : Ssi) (h : Ssi.open d = .ok s) (fh : Nat) :
    (fh < s.nfiles → ∃ f, s.fileInfo fh = .ok f ∧ s.files[fh]? = some f) ∧
    (s.nfiles ≤ fh → s.fileInfo fh = .error .einval) := by
  obtain ⟨_, _, hlen, _⟩ := (open_status d).2 s h
  unfold Ssi.fileInfo
  constructor
  · intro hlt
    have h1 : ¬ (fh ≥ s.nfiles) := by omega
    have h2 : fh < s.files.length := by omega
    simp [h1, List.getElem?_eq_getElem h2]
  · intro hge
    simp [hge]

/-- the statuses `esl_ssi_FindSubseq` can return on ANY opened index: `FindName`'s, `eslERANGE`, `eslEFORMAT` (the file
    handle stored with the key is not a file of the index), `eslEINVAL` (fast-subseq flag with `rpl = 0` or `bpl = 0`).
    It never reads outside the per-file arrays and never divides by zero. -/
theorem findSubseq_status (s : Ssi) (hfl : s.files.length = s.nfiles) (key : Bytes) (start : Int) (e : St)
    (h : s.findSubseq key start = .error e) :
    (s.findName key = .error e) ∨ e = .erange ∨ e = .eformat ∨ e = .einval := by
  unfold Ssi.findSubseq at h
  cases hf : s.findName key with
  | error e' =>
    simp only [hf] at h
    injection h with h
    subst h
    exact .inl rfl
  | ok hit =>
    simp only [hf] at h
    split at h
    · injection h with h; simp [← h]
    · split at h
      · injection h with h; simp [← h]
      · rename_i hfh
        cases hfile : s.files[hit.fh]? with
        | none =>
          have : s.files.length ≤ hit.fh := List.getElem?_eq_none_iff.mp hfile
          omega
        | some f =>
          simp only [hfile] at h
          split at h
          · cases h
          · split at h
            · injection h with h; simp [← h]
            · split at h <;> cases h

/-! ## every written index satisfies the termination condition -/

/-- the image of a well-formed index with all keys distinct whose alias targets are registered primary keys
    (`AddAlias`'s documented precondition): no stored alias names another stored alias -/
theorem image_noAliasChain {ns : NewSsi} (h : ns.WF) (hd : ns.Distinct)
    (htg : ∀ a ∈ ns.skeys, ∃ k ∈ ns.pkeys, a.pkey = k.key) : ns.opened.NoAliasChain := by
  intro j a t hrec j' t' hrec'
  obtain ⟨hj, hrd, buf, hbuf, hcs⟩ := hrec
  obtain ⟨hj', hrd', _⟩ := hrec'
  simp only [NewSsi.opened] at hj hrd hbuf hj' hrd'
  have hjs : j < (sortSKeys ns.skeys).length := by rw [sortS_len h]; exact hj
  have hjs' : j' < (sortSKeys ns.skeys).length := by rw [sortS_len h]; exact hj'
  -- the target of record j is a registered primary key
  obtain ⟨k, hk, hak⟩ := htg _ (sortS_mem h (List.getElem_mem hjs))
  have hpk := h.pkey k hk
  have hpl : ns.plen ≠ 0 := by omega
  rw [read_spkey h j hjs hpl] at hbuf
  injection hbuf with hbuf
  rw [← hbuf, hak, cstr_strncpy _ _ hpk.2.1 hpk.2.2.1] at hcs
  -- record j' carries the alias t
  have hr := reads_skeys h j' (by simpa using hjs')
  rw [hr] at hrd'
  injection hrd' with hrd'
  have hmem : (sortSKeys ns.skeys)[j'] ∈ ns.skeys := sortS_mem h (List.getElem_mem hjs')
  have : k.key ≠ ((sortSKeys ns.skeys)[j']).key := hd.2.2 k hk _ hmem
  apply this
  rw [hcs]
  simpa using hrd'.symm

end EaselModel.Ssi
