import EaselModel.Ssi.Reader
/-! # Lemmas about the SSI model, part 7: the reader on ANY file contents (truncated, corrupted, unsorted).

Nothing here assumes that the bytes were produced by `esl_newssi_Write`: `d : Array UInt8` / `s : Ssi` are arbitrary.
* `binary_search` never returns another key's record: whatever it returns holds exactly the probe key
  (`bsearchLoop_sound`), and it only ever touches records `0 .. maxidx-1` (`bsearchLoop_bound`).
* `esl_ssi_FindName` returns either a record of the primary section whose key field is the probe, or one reached from
  the probe through records of the secondary section (`findName_sound`).
* the statuses that can come out (`open_status`, `findName_status`, `findNumber_status`, `findSubseq_status`) and the
  exact conditions under which the model's fault outcomes (`fault`: `strcmp` on a key field without terminator, file
  handle beyond the per-file arrays, division by `rpl = 0`; `nohalt`: unbounded alias recursion) are excluded. -/
namespace EaselModel.Ssi

/-! ## binary search on an arbitrary record array -/

/-- whatever index the loop returns holds exactly `key` — on sorted, unsorted or unreadable arrays alike -/
theorem bsearchLoop_sound (rdName : Nat → Except St Bytes) (key : Bytes) (left right j : Nat)
    (h : bsearchLoop rdName key left right = .ok j) : rdName j = .ok key ∧ j ≤ max left right := by
  induction hm : right + 1 - left using Nat.strongRecOn generalizing left right with
  | _ m ih =>
    rw [bsearchLoop] at h
    cases hr : rdName ((left + right) / 2) with
    | error e => simp [hr] at h
    | ok name =>
      simp only [hr] at h
      cases hc : strcmp name key with
      | eq =>
        simp only [hc] at h
        have hj : (left + right) / 2 = j := by injection h
        subst hj
        rw [strcmp_eq_iff.mp hc] at hr
        exact ⟨hr, by omega⟩
      | lt =>
        simp only [hc] at h
        by_cases hge : left ≥ right
        · simp [hge] at h
        · simp only [hge, ↓reduceDIte] at h
          have := ih (right + 1 - ((left + right) / 2 + 1)) (by omega) ((left + right) / 2 + 1) right h rfl
          exact ⟨this.1, by omega⟩
      | gt =>
        simp only [hc] at h
        by_cases hge : left ≥ right
        · simp [hge] at h
        · by_cases h0 : (left + right) / 2 = 0
          · simp [hge, h0] at h
          · simp only [hge, h0, ↓reduceDIte] at h
            have := ih ((left + right) / 2 - 1 + 1 - left) (by omega) left ((left + right) / 2 - 1) h rfl
            exact ⟨this.1, by omega⟩

/-- the loop fails with `eslENOTFOUND` or with the failure of one of its reads — nothing else -/
theorem bsearchLoop_error (rdName : Nat → Except St Bytes) (key : Bytes) (left right : Nat) (e : St)
    (h : bsearchLoop rdName key left right = .error e) : e = .enotfound ∨ ∃ m, m ≤ max left right ∧ rdName m = .error e := by
  induction hm : right + 1 - left using Nat.strongRecOn generalizing left right with
  | _ m ih =>
    rw [bsearchLoop] at h
    cases hr : rdName ((left + right) / 2) with
    | error e' =>
      simp only [hr] at h
      have : e' = e := by injection h
      subst this
      exact .inr ⟨_, by omega, hr⟩
    | ok name =>
      simp only [hr] at h
      cases hc : strcmp name key with
      | eq => simp [hc] at h
      | lt =>
        simp only [hc] at h
        by_cases hge : left ≥ right
        · simp only [hge, ↓reduceDIte] at h
          left; injection h with h; exact h.symm
        · simp only [hge, ↓reduceDIte] at h
          rcases ih (right + 1 - ((left + right) / 2 + 1)) (by omega) ((left + right) / 2 + 1) right h rfl with h1 | ⟨m', hm1, hm2⟩
          · exact .inl h1
          · exact .inr ⟨m', by omega, hm2⟩
      | gt =>
        simp only [hc] at h
        by_cases hge : left ≥ right
        · simp only [hge, ↓reduceDIte] at h
          left; injection h with h; exact h.symm
        · by_cases h0 : (left + right) / 2 = 0
          · simp only [hge, h0, ↓reduceDIte] at h
            left; injection h with h; exact h.symm
          · simp only [hge, h0, ↓reduceDIte] at h
            rcases ih ((left + right) / 2 - 1 + 1 - left) (by omega) left ((left + right) / 2 - 1) h rfl with h1 | ⟨m', hm1, hm2⟩
            · exact .inl h1
            · exact .inr ⟨m', by omega, hm2⟩

/-- a read of a key field fails with `eslEFORMAT` (short read) or `fault` (no terminator inside the field) -/
theorem rdNameAt_error (d : Array UInt8) (klen base recsize mid : Nat) (e : St)
    (h : rdNameAt d klen base recsize mid = .error e) :
    (e = .eformat ∧ readAt d (base + recsize * mid) klen = none) ∨
    (e = .fault ∧ ∃ buf, readAt d (base + recsize * mid) klen = some buf ∧ (0 : UInt8) ∉ buf) := by
  unfold rdNameAt at h
  cases hr : readAt d (base + recsize * mid) klen with
  | none =>
    simp only [hr] at h
    left; injection h with h; exact ⟨h.symm, rfl⟩
  | some buf =>
    simp only [hr] at h
    by_cases h0 : (0 : UInt8) ∈ buf
    · have hc : cstr? buf = some (cstr buf) := by simp [cstr?, h0]
      rw [hc] at h
      cases h
    · have hc : cstr? buf = none := by simp [cstr?, h0]
      rw [hc] at h
      right
      injection h with h
      exact ⟨h.symm, buf, rfl, h0⟩

/-- `binary_search` on arbitrary bytes: on success the record found is one of records `0..maxidx-1` of the section and
    its key field holds exactly `key`; the position returned is just behind that field -/
theorem bsearch_sound (d : Array UInt8) (key : Bytes) (klen base recsize maxidx pos : Nat)
    (h : bsearch d key klen base recsize maxidx = .ok pos) :
    ∃ j, j < maxidx ∧ rdNameAt d klen base recsize j = .ok key ∧ pos = base + recsize * j + klen := by
  unfold bsearch at h
  by_cases h0 : maxidx = 0
  · simp [h0] at h
  · by_cases hk : klen = 0
    · simp [h0, hk] at h
    · simp only [h0, hk, ↓reduceIte] at h
      cases hl : bsearchLoop (rdNameAt d klen base recsize) key 0 (maxidx - 1) with
      | error e => simp [hl] at h
      | ok mid =>
        simp only [hl] at h
        have := bsearchLoop_sound _ key 0 (maxidx - 1) mid hl
        injection h with h
        exact ⟨mid, by omega, this.1, h.symm⟩

/-- the statuses `binary_search` can fail with, and when -/
theorem bsearch_error (d : Array UInt8) (key : Bytes) (klen base recsize maxidx : Nat) (e : St)
    (h : bsearch d key klen base recsize maxidx = .error e) :
    e = .enotfound ∨ (e = .emem ∧ klen = 0) ∨
    (∃ j, j < maxidx ∧ ((e = .eformat ∧ readAt d (base + recsize * j) klen = none) ∨
       (e = .fault ∧ ∃ buf, readAt d (base + recsize * j) klen = some buf ∧ (0 : UInt8) ∉ buf))) := by
  unfold bsearch at h
  by_cases h0 : maxidx = 0
  · simp only [h0, ↓reduceIte] at h
    left; injection h with h; exact h.symm
  · by_cases hk : klen = 0
    · simp only [h0, hk, ↓reduceIte] at h
      right; left; injection h with h; exact ⟨h.symm, hk⟩
    · simp only [h0, hk, ↓reduceIte] at h
      cases hl : bsearchLoop (rdNameAt d klen base recsize) key 0 (maxidx - 1) with
      | ok mid => simp [hl] at h
      | error e' =>
        simp only [hl] at h
        have he : e' = e := by injection h
        subst he
        rcases bsearchLoop_error _ key 0 (maxidx - 1) e' hl with h1 | ⟨m, hm1, hm2⟩
        · exact .inl h1
        · exact .inr (.inr ⟨m, by omega, rdNameAt_error d klen base recsize m e' hm2⟩)

/-! ## `esl_ssi_FindName` on an arbitrary index -/

/-- record `j` of the primary section holds the key `key` and the numbers `hit` -/
def Ssi.PrimaryRec (s : Ssi) (j : Nat) (key : Bytes) (hit : Hit) : Prop :=
  j < s.nprimary ∧ rdNameAt s.data s.plen s.poffset s.precsize j = .ok key ∧
    readHit s (s.poffset + s.precsize * j + s.plen) = .ok hit

/-- record `j` of the secondary section holds the alias `alias` and names the primary key `target` -/
def Ssi.AliasRec (s : Ssi) (j : Nat) (alias target : Bytes) : Prop :=
  j < s.nsecondary ∧ rdNameAt s.data s.slen s.soffset s.srecsize j = .ok alias ∧
    ∃ buf, readAt s.data (s.soffset + s.srecsize * j + s.slen) s.plen = some buf ∧ cstr? buf = some target

/-- `key` leads to the numbers `hit` through stored records only: a primary record carrying `key`, or an alias record
    carrying `key` whose target does -/
inductive Ssi.Resolves (s : Ssi) : Bytes → Hit → Prop
  | primary (j : Nat) (key : Bytes) (hit : Hit) : s.PrimaryRec j key hit → Ssi.Resolves s key hit
  | alias (j : Nat) (key target : Bytes) (hit : Hit) : s.AliasRec j key target → Ssi.Resolves s target hit →
      Ssi.Resolves s key hit

/-- **only for those**, on ANY index (sections unsorted, counts/offsets arbitrary, file truncated): whenever
    `esl_ssi_FindName` answers `eslOK`, the numbers come from a stored record whose key field is exactly the probe
    (directly, or through stored alias records) — never from another key's record. -/
theorem findName_sound (s : Ssi) (fuel : Nat) (key : Bytes) (hit : Hit) (h : s.findNameAux fuel key = .ok hit) :
    s.Resolves key hit := by
  induction fuel generalizing key with
  | zero => simp [Ssi.findNameAux] at h
  | succ fuel ih =>
    rw [Ssi.findNameAux] at h
    cases hb : bsearch s.data key s.plen s.poffset s.precsize s.nprimary with
    | ok pos =>
      simp only [hb] at h
      obtain ⟨j, hj, hrd, rfl⟩ := bsearch_sound _ _ _ _ _ _ _ hb
      exact .primary j key hit ⟨hj, hrd, h⟩
    | error e =>
      simp only [hb] at h
      cases e with
      | enotfound =>
        simp only [] at h
        by_cases hn : s.nsecondary > 0
        · simp only [hn, ↓reduceIte] at h
          cases hb2 : bsearch s.data key s.slen s.soffset s.srecsize s.nsecondary with
          | error e2 => simp [hb2] at h
          | ok pos =>
            simp only [hb2] at h
            obtain ⟨j, hj, hrd, rfl⟩ := bsearch_sound _ _ _ _ _ _ _ hb2
            by_cases hpl : s.plen = 0
            · simp [hpl] at h
            · simp only [hpl, ↓reduceIte] at h
              cases hra : readAt s.data (s.soffset + s.srecsize * j + s.slen) s.plen with
              | none => simp [hra] at h
              | some buf =>
                simp only [hra] at h
                cases hcs : cstr? buf with
                | none => simp [hcs] at h
                | some pkey =>
                  simp only [hcs] at h
                  exact .alias j key pkey hit ⟨hj, hrd, buf, hra, hcs⟩ (ih pkey h)
        · simp [hn] at h
      | eformat => simp at h
      | erange => simp at h
      | edup => simp at h
      | einval => simp at h
      | esys => simp at h
      | emem => simp at h
      | eincompat => simp at h
      | fault => simp at h
      | nohalt => simp at h

/-- the statuses `esl_ssi_FindName` can return on ANY index: the documented `eslENOTFOUND`, `eslEFORMAT`, (`eslEMEM`
    for a zero-width key field), and the model's two fault outcomes -/
theorem findName_status (s : Ssi) (fuel : Nat) (key : Bytes) (e : St) (h : s.findNameAux fuel key = .error e) :
    e = .enotfound ∨ e = .eformat ∨ e = .emem ∨ e = .fault ∨ e = .nohalt := by
  induction fuel generalizing key with
  | zero =>
    simp only [Ssi.findNameAux] at h
    injection h with h; simp [← h]
  | succ fuel ih =>
    have bs : ∀ klen base recsize maxidx e', bsearch s.data key klen base recsize maxidx = .error e' →
        e' = .enotfound ∨ e' = .eformat ∨ e' = .emem ∨ e' = .fault ∨ e' = .nohalt := by
      intro klen base recsize maxidx e' hb
      rcases bsearch_error _ _ _ _ _ _ _ hb with h1 | ⟨h1, _⟩ | ⟨j, _, ⟨h1, _⟩ | ⟨h1, _⟩⟩ <;> simp [h1]
    rw [Ssi.findNameAux] at h
    cases hb : bsearch s.data key s.plen s.poffset s.precsize s.nprimary with
    | ok pos =>
      simp only [hb] at h
      unfold readHit at h
      split at h
      · cases h
      · injection h with h; simp [← h]
    | error e1 =>
      have h1 := bs _ _ _ _ _ hb
      simp only [hb] at h
      rcases h1 with rfl | rfl | rfl | rfl | rfl
      · simp only [] at h
        by_cases hn : s.nsecondary > 0
        · simp only [hn, ↓reduceIte] at h
          cases hb2 : bsearch s.data key s.slen s.soffset s.srecsize s.nsecondary with
          | error e2 =>
            simp only [hb2] at h
            injection h with h
            subst h
            exact bs _ _ _ _ _ hb2
          | ok pos =>
            simp only [hb2] at h
            by_cases hpl : s.plen = 0
            · simp only [hpl, ↓reduceIte] at h
              injection h with h; simp [← h]
            · simp only [hpl, ↓reduceIte] at h
              cases hra : readAt s.data pos s.plen with
              | none =>
                simp only [hra] at h
                injection h with h; simp [← h]
              | some buf =>
                simp only [hra] at h
                cases hcs : cstr? buf with
                | none =>
                  simp only [hcs] at h
                  injection h with h; simp [← h]
                | some pkey =>
                  simp only [hcs] at h
                  exact ih pkey h
        · simp only [hn, ↓reduceIte] at h
          injection h with h; simp [← h]
      all_goals (simp only [] at h; injection h with h; simp [← h])

/-- every key field of the two key sections that can be read at all holds a terminated string (true of every written
    index: the fields are one byte wider than the longest key) -/
def Ssi.Terminated (s : Ssi) : Prop :=
  (∀ j buf, j < s.nprimary → readAt s.data (s.poffset + s.precsize * j) s.plen = some buf → (0 : UInt8) ∈ buf) ∧
  (∀ j buf, j < s.nsecondary → readAt s.data (s.soffset + s.srecsize * j) s.slen = some buf → (0 : UInt8) ∈ buf) ∧
  (∀ j buf, j < s.nsecondary → readAt s.data (s.soffset + s.srecsize * j + s.slen) s.plen = some buf → (0 : UInt8) ∈ buf)

/-- no stored alias names another stored alias as its target (the documented precondition of `AddAlias`, read off
    the bytes) -/
def Ssi.NoAliasChain (s : Ssi) : Prop :=
  ∀ j a t, s.AliasRec j a t → ∀ j' t', ¬ s.AliasRec j' t t'

/-- **no fault** on an index whose key fields are terminated — however truncated, unsorted or inconsistent it is
    otherwise: `strcmp` never leaves a buffer -/
theorem findName_no_fault (s : Ssi) (ht : s.Terminated) (fuel : Nat) (key : Bytes) :
    s.findNameAux fuel key ≠ .error .fault := by
  induction fuel generalizing key with
  | zero => simp [Ssi.findNameAux]
  | succ fuel ih =>
    intro h
    rw [Ssi.findNameAux] at h
    cases hb : bsearch s.data key s.plen s.poffset s.precsize s.nprimary with
    | ok pos =>
      simp only [hb] at h
      unfold readHit at h
      split at h <;> cases h
    | error e1 =>
      simp only [hb] at h
      cases e1 with
      | enotfound =>
        simp only [] at h
        by_cases hn : s.nsecondary > 0
        · simp only [hn, ↓reduceIte] at h
          cases hb2 : bsearch s.data key s.slen s.soffset s.srecsize s.nsecondary with
          | error e2 =>
            simp only [hb2] at h
            injection h with h
            subst h
            rcases bsearch_error _ _ _ _ _ _ _ hb2 with h1 | ⟨h1, _⟩ | ⟨j, hj, ⟨h1, _⟩ | ⟨_, buf, hbuf, hno⟩⟩
            · cases h1
            · cases h1
            · cases h1
            · exact hno (ht.2.1 j buf hj hbuf)
          | ok pos =>
            simp only [hb2] at h
            obtain ⟨j, hj, _, rfl⟩ := bsearch_sound _ _ _ _ _ _ _ hb2
            by_cases hpl : s.plen = 0
            · simp [hpl] at h
            · simp only [hpl, ↓reduceIte] at h
              cases hra : readAt s.data (s.soffset + s.srecsize * j + s.slen) s.plen with
              | none => simp [hra] at h
              | some buf =>
                simp only [hra] at h
                have hz := ht.2.2 j buf hj hra
                have hc : cstr? buf = some (cstr buf) := by simp [cstr?, hz]
                simp only [hc] at h
                exact ih _ h
        · simp [hn] at h
      | fault =>
        rcases bsearch_error _ _ _ _ _ _ _ hb with h1 | ⟨h1, _⟩ | ⟨j, hj, ⟨h1, _⟩ | ⟨_, buf, hbuf, hno⟩⟩
        · cases h1
        · cases h1
        · cases h1
        · exact hno (ht.1 j buf hj hbuf)
      | eformat => simp at h
      | erange => simp at h
      | edup => simp at h
      | einval => simp at h
      | esys => simp at h
      | emem => simp at h
      | eincompat => simp at h
      | nohalt => simp at h

/-- **termination**: when no stored alias names another stored alias, the recursion of `esl_ssi_FindName` is at most
    one level deep — two units of fuel are enough, whatever else the bytes are -/
theorem findName_halts (s : Ssi) (hc : s.NoAliasChain) (fuel : Nat) (key : Bytes) :
    s.findNameAux (fuel + 2) key ≠ .error .nohalt := by
  intro h
  rw [Ssi.findNameAux] at h
  cases hb : bsearch s.data key s.plen s.poffset s.precsize s.nprimary with
  | ok pos =>
    simp only [hb] at h
    unfold readHit at h
    split at h <;> cases h
  | error e1 =>
    simp only [hb] at h
    have hb1 := bsearch_error _ _ _ _ _ _ _ hb
    cases e1 with
    | enotfound =>
      simp only [] at h
      by_cases hn : s.nsecondary > 0
      · simp only [hn, ↓reduceIte] at h
        cases hb2 : bsearch s.data key s.slen s.soffset s.srecsize s.nsecondary with
        | error e2 =>
          simp only [hb2] at h
          injection h with h
          subst h
          rcases bsearch_error _ _ _ _ _ _ _ hb2 with h1 | ⟨h1, _⟩ | ⟨j, hj, ⟨h1, _⟩ | ⟨h1, _⟩⟩ <;> cases h1
        | ok pos =>
          simp only [hb2] at h
          obtain ⟨j, hj, hrd, rfl⟩ := bsearch_sound _ _ _ _ _ _ _ hb2
          by_cases hpl : s.plen = 0
          · simp [hpl] at h
          · simp only [hpl, ↓reduceIte] at h
            cases hra : readAt s.data (s.soffset + s.srecsize * j + s.slen) s.plen with
            | none => simp [hra] at h
            | some buf =>
              simp only [hra] at h
              cases hcs : cstr? buf with
              | none => simp [hcs] at h
              | some pkey =>
                simp only [hcs] at h
                have hrec : s.AliasRec j key pkey := ⟨hj, hrd, buf, hra, hcs⟩
                -- second level: the target is looked up; a second alias hit would be a chain
                rw [Ssi.findNameAux] at h
                cases hb3 : bsearch s.data pkey s.plen s.poffset s.precsize s.nprimary with
                | ok pos3 =>
                  simp only [hb3] at h
                  unfold readHit at h
                  split at h <;> cases h
                | error e3 =>
                  simp only [hb3] at h
                  have hb3' := bsearch_error _ _ _ _ _ _ _ hb3
                  cases e3 with
                  | enotfound =>
                    simp only [hn, ↓reduceIte] at h
                    cases hb4 : bsearch s.data pkey s.slen s.soffset s.srecsize s.nsecondary with
                    | error e4 =>
                      simp only [hb4] at h
                      injection h with h
                      subst h
                      rcases bsearch_error _ _ _ _ _ _ _ hb4 with h1 | ⟨h1, _⟩ | ⟨j, hj, ⟨h1, _⟩ | ⟨h1, _⟩⟩ <;> cases h1
                    | ok pos4 =>
                      simp only [hb4] at h
                      obtain ⟨j', hj', hrd', rfl⟩ := bsearch_sound _ _ _ _ _ _ _ hb4
                      simp only [hpl, ↓reduceIte] at h
                      cases hra' : readAt s.data (s.soffset + s.srecsize * j' + s.slen) s.plen with
                      | none => simp [hra'] at h
                      | some buf' =>
                        simp only [hra'] at h
                        cases hcs' : cstr? buf' with
                        | none => simp [hcs'] at h
                        | some t' => exact hc j key pkey hrec j' t' ⟨hj', hrd', buf', hra', hcs'⟩
                  | nohalt =>
                    rcases hb3' with h1 | ⟨h1, _⟩ | ⟨j, hj, ⟨h1, _⟩ | ⟨h1, _⟩⟩ <;> cases h1
                  | eformat => simp at h
                  | erange => simp at h
                  | edup => simp at h
                  | einval => simp at h
                  | esys => simp at h
                  | emem => simp at h
                  | eincompat => simp at h
                  | fault => simp at h
      · simp [hn] at h
    | nohalt =>
      rcases hb1 with h1 | ⟨h1, _⟩ | ⟨j, hj, ⟨h1, _⟩ | ⟨h1, _⟩⟩ <;> cases h1
    | eformat => simp at h
    | erange => simp at h
    | edup => simp at h
    | einval => simp at h
    | esys => simp at h
    | emem => simp at h
    | eincompat => simp at h
    | fault => simp at h

theorem readHit_error (s : Ssi) (pos : Nat) (e : St) (h : readHit s pos = .error e) : e = .eformat := by
  unfold readHit at h
  split at h
  · cases h
  · injection h with h; exact h.symm

/-! ## `esl_ssi_Open`, `esl_ssi_FindNumber`, `esl_ssi_FileInfo`, `esl_ssi_FindSubseq` on arbitrary bytes -/

theorem openFiles_status (d : Array UInt8) (flen frecsize foffset n i : Nat) (e : St)
    (h : openFiles d flen frecsize foffset n i = .error e) : e = .eformat ∨ e = .emem := by
  induction n generalizing i with
  | zero => simp [openFiles] at h
  | succ n ih =>
    rw [openFiles] at h
    by_cases hf : flen = 0
    · simp only [hf, ↓reduceIte] at h
      injection h with h; simp [← h]
    · simp only [hf, ↓reduceIte] at h
      split at h
      · injection h with h; simp [← h]
      · split at h
        · split at h
          · rename_i e' he
            injection h with h
            subst h
            exact ih _ he
          · cases h
        · injection h with h; simp [← h]

theorem openFiles_length (d : Array UInt8) (flen frecsize foffset n i : Nat) (l : List SsiFile)
    (h : openFiles d flen frecsize foffset n i = .ok l) : l.length = n := by
  induction n generalizing i l with
  | zero => simp [openFiles] at h; simp [← h]
  | succ n ih =>
    rw [openFiles] at h
    by_cases hf : flen = 0
    · simp [hf] at h
    · simp only [hf, ↓reduceIte] at h
      split at h
      · cases h
      · split at h
        · split at h
          · cases h
          · rename_i rest hrest
            injection h with h
            subst h
            simp [ih _ _ hrest]
        · cases h

/-- `esl_ssi_Open` on ANY byte string: it succeeds, or fails with `eslEFORMAT` / `eslERANGE` (documented) or
    `eslEMEM` (a zero file-name width); it never faults, and on success it holds exactly `nfiles ≥ 1` file records -/
theorem open_status (d : Array UInt8) :
    (∀ e, Ssi.open d = .error e → e = .eformat ∨ e = .erange ∨ e = .emem) ∧
    (∀ s, Ssi.open d = .ok s → s.data = d ∧ 0 < s.nfiles ∧ s.files.length = s.nfiles ∧ (s.offsz = 4 ∨ s.offsz = 8)) := by
  constructor
  · intro e h
    unfold Ssi.open at h
    split at h
    · split at h
      · injection h with h; simp [← h]
      · split at h
        · injection h with h; simp [← h]
        · split at h
          · split at h
            · injection h with h; simp [← h]
            · split at h
              · rename_i e' he
                injection h with h
                subst h
                rcases openFiles_status _ _ _ _ _ _ _ he with h1 | h1 <;> simp [h1]
              · cases h
          · injection h with h; simp [← h]
    · injection h with h; simp [← h]
  · intro s h
    unfold Ssi.open at h
    split at h
    · split at h
      · cases h
      · split at h
        · cases h
        · rename_i hoff
          split at h
          · split at h
            · cases h
            · rename_i hnf
              split at h
              · cases h
              · rename_i files hfiles
                injection h with h
                subst h
                refine ⟨rfl, by simp only; omega, openFiles_length _ _ _ _ _ _ _ hfiles, ?_⟩
                simp only
                omega
          · cases h
    · cases h

/-- `esl_ssi_FindNumber` on ANY index: `eslENOTFOUND` exactly for numbers outside `0..nprimary-1`; otherwise the
    record at that slot, `eslEFORMAT` when the file ends before it does (`eslEMEM` for a zero-width key field) -/
theorem findNumber_status (s : Ssi) (i : Int) (hlo : -(2:Int)^63 ≤ i) (hhi : i < (2:Int)^63) (hn : s.nprimary < 2^63) :
    (s.findNumber i = .error .enotfound ↔ (i < 0 ∨ (s.nprimary : Int) ≤ i)) ∧
    (∀ e, s.findNumber i = .error e → e = .enotfound ∨ e = .eformat ∨ e = .emem) := by
  unfold Ssi.findNumber
  by_cases hneg : i < 0
  · have : (i + 18446744073709551616).toNat ≥ s.nprimary := by omega
    simp [hneg, this]
  · simp only [hneg, ↓reduceIte, false_or]
    by_cases hge : i.toNat ≥ s.nprimary
    · have : (s.nprimary : Int) ≤ i := by omega
      simp [hge, this]
    · have hlt : ¬ ((s.nprimary : Int) ≤ i) := by omega
      simp only [hge, ↓reduceIte, hlt, iff_false]
      by_cases hpl : s.plen = 0
      · simp [hpl]
      · simp only [hpl, ↓reduceIte]
        cases hra : readAt s.data (s.poffset + s.precsize * i.toNat) s.plen with
        | none => simp
        | some buf =>
          simp only []
          cases hh : readHit s (s.poffset + s.precsize * i.toNat + s.plen) with
          | ok hit => simp
          | error e' =>
            have := readHit_error s _ e' hh
            subst this
            simp

/-- `esl_ssi_FileInfo` on ANY opened index: every handle below `nfiles` has a record, every other one is `eslEINVAL` -/
theorem fileInfo_total (d : Array UInt8) (s : Ssi) (h : Ssi.open d = .ok s) (fh : Nat) :
    (fh < s.nfiles → ∃ f, s.fileInfo fh = .ok f ∧ s.files[fh]? = some f) ∧
    (s.nfiles ≤ fh → s.fileInfo fh = .error .einval) := by
  obtain ⟨_, _, hlen, _⟩ := (open_status d).2 s h
  unfold Ssi.fileInfo
  constructor
  · intro hlt
    have h1 : ¬ (fh ≥ s.nfiles) := by omega
    have h2 : fh < s.files.length := by omega
    simp [h1, List.getElem?_eq_getElem h2]
  · intro hge
    simp [hge]

/-- the statuses `esl_ssi_FindSubseq` can return on ANY index, and the exact conditions of its two own fault outcomes:
    the file handle stored with the key is not a file of the index (`fileflags[fh]` is read outside the array), or the
    file claims fast-subseq geometry with `rpl = 0` (integer division by zero, evaluated before the test) -/
theorem findSubseq_status (s : Ssi) (key : Bytes) (start : Int) (e : St) (h : s.findSubseq key start = .error e) :
    (s.findName key = .error e) ∨ e = .erange ∨ e = .einval ∨
    (e = .fault ∧ ∃ hit, s.findName key = .ok hit ∧
      (s.files[hit.fh]? = none ∨ ∃ f, s.files[hit.fh]? = some f ∧ f.flags % 2 = 1 ∧ f.rpl = 0)) := by
  unfold Ssi.findSubseq at h
  cases hf : s.findName key with
  | error e' =>
    simp only [hf] at h
    injection h with h
    subst h
    exact .inl rfl
  | ok hit =>
    simp only [hf] at h
    split at h
    · injection h with h; simp [← h]
    · cases hfile : s.files[hit.fh]? with
      | none =>
        simp only [hfile] at h
        injection h with h
        exact .inr (.inr (.inr ⟨h.symm, hit, rfl, .inl hfile⟩))
      | some f =>
        simp only [hfile] at h
        split at h
        · cases h
        · rename_i hfast
          split at h
          · rename_i hr
            injection h with h
            refine .inr (.inr (.inr ⟨h.symm, hit, rfl, .inr ⟨f, hfile, by omega, hr⟩⟩))
          · split at h
            · injection h with h; simp [← h]
            · split at h <;> cases h

/-! ## `esl_ssi_FindSubseq` of any name that `FindName` resolves (primary key or alias) on a written index -/

/-- whatever name `FindName` resolves to the record of the stored key `k`: `FindSubseq` computes the documented outcome
    from `k`'s record and the line geometry of `k`'s file -/
theorem findSubseq_of_hit {ns : NewSsi} (key : Bytes) (k : PKey) (hfind : ns.opened.findName key = .ok (hitOf k))
    (hfh : k.fnum < ns.files.length) (start : Nat) (h1 : 1 ≤ start) (h2 : start ≤ k.len) (hL : k.len < 2^63) :
    ns.opened.findSubseq key (start : Int) = .ok (subseqSpec k ns.files[k.fnum] start) := by
  have hsg : toSigned k.len = (k.len : Int) := by
    unfold toSigned
    have : ¬ (k.len ≥ 2^63) := by omega
    simp [this]
  have hrange : ¬ ((start : Int) < 1 ∨ (start : Int) > toSigned k.len) := by
    rw [hsg]; omega
  have hfile : ns.opened.files[(hitOf k).fh]? = some (toSsiFile ns.flen ns.files[k.fnum]) := by
    simp [NewSsi.opened, hitOf, hfh]
  unfold Ssi.findSubseq
  rw [hfind]
  simp only [hitOf] at hrange hfile ⊢
  simp only [hrange, ↓reduceIte, hfile, toSsiFile, Int.toNat_natCast]
  unfold subseqSpec
  by_cases hfast : ns.files[k.fnum].bpl > 0 ∧ ns.files[k.fnum].rpl > 0
  · have hr : ns.files[k.fnum].rpl ≠ 0 := by omega
    have hb : ns.files[k.fnum].bpl ≠ 0 := by omega
    by_cases hdo : k.doff = 0
    · simp [hdo, hitOf]
    · by_cases hbr : ns.files[k.fnum].bpl = ns.files[k.fnum].rpl + 1
      · simp [hfast, hdo, hr, hbr, hitOf]
      · simp [hfast, hdo, hr, hb, hbr, hitOf]
  · simp [hfast, hitOf]

theorem findSubseq_range_of_hit {ns : NewSsi} (key : Bytes) (k : PKey) (hfind : ns.opened.findName key = .ok (hitOf k))
    (start : Int) (hr : start < 1 ∨ start > (k.len : Int)) (hL : k.len < 2^63) :
    ns.opened.findSubseq key start = .error .erange := by
  have hsg : toSigned k.len = (k.len : Int) := by
    unfold toSigned
    have : ¬ (k.len ≥ 2^63) := by omega
    simp [this]
  unfold Ssi.findSubseq
  rw [hfind]
  simp only [hitOf, hsg, hr, ↓reduceIte]

/-- a name that `FindName` does not resolve is not resolved by `FindSubseq` either (same status) -/
theorem findSubseq_of_error (s : Ssi) (key : Bytes) (start : Int) (e : St) (hfind : s.findName key = .error e) :
    s.findSubseq key start = .error e := by
  unfold Ssi.findSubseq
  rw [hfind]

/-! ## every written index satisfies the two no-fault conditions -/

theorem zero_mem_strncpy (n : Nat) (k : Bytes) (hl : k.length < n) : (0 : UInt8) ∈ strncpy n k := by
  obtain ⟨m, hm⟩ : ∃ m, n - k.length = m + 1 := ⟨n - k.length - 1, by omega⟩
  unfold strncpy
  rw [hm, List.replicate_succ]
  simp

/-- the image of a well-formed index whose alias targets are registered primary keys (`AddAlias`'s documented
    precondition): every key field is terminated -/
theorem image_terminated {ns : NewSsi} (h : ns.WF) (htg : ∀ a ∈ ns.skeys, ∃ k ∈ ns.pkeys, a.pkey = k.key) :
    ns.opened.Terminated := by
  refine ⟨?_, ?_, ?_⟩
  · intro j buf hj hrd
    have hj' : j < (sortPKeys ns.pkeys).length := by rw [sortP_len h]; exact hj
    have hk := h.pkey _ (sortP_mem h (List.getElem_mem hj'))
    have := read_pname h j hj'
    simp only [NewSsi.opened] at hrd
    rw [this] at hrd
    injection hrd with hrd
    rw [← hrd]
    exact zero_mem_strncpy _ _ hk.2.2.1
  · intro j buf hj hrd
    have hj' : j < (sortSKeys ns.skeys).length := by rw [sortS_len h]; exact hj
    have hk := h.skey _ (sortS_mem h (List.getElem_mem hj'))
    have := read_sname h j hj'
    simp only [NewSsi.opened] at hrd
    rw [this] at hrd
    injection hrd with hrd
    rw [← hrd]
    exact zero_mem_strncpy _ _ hk.2.2
  · intro j buf hj hrd
    have hj' : j < (sortSKeys ns.skeys).length := by rw [sortS_len h]; exact hj
    obtain ⟨k, hk, hak⟩ := htg _ (sortS_mem h (List.getElem_mem hj'))
    have hpk := h.pkey k hk
    have hpl : ns.plen ≠ 0 := by omega
    have := read_spkey h j hj' hpl
    simp only [NewSsi.opened] at hrd
    rw [this] at hrd
    injection hrd with hrd
    rw [← hrd, hak]
    exact zero_mem_strncpy _ _ hpk.2.2.1

/-- ... and, its keys being all distinct, no stored alias names another stored alias -/
theorem image_noAliasChain {ns : NewSsi} (h : ns.WF) (hd : ns.Distinct)
    (htg : ∀ a ∈ ns.skeys, ∃ k ∈ ns.pkeys, a.pkey = k.key) : ns.opened.NoAliasChain := by
  intro j a t hrec j' t' hrec'
  obtain ⟨hj, hrd, buf, hbuf, hcs⟩ := hrec
  obtain ⟨hj', hrd', _⟩ := hrec'
  simp only [NewSsi.opened] at hj hrd hbuf hj' hrd'
  have hjs : j < (sortSKeys ns.skeys).length := by rw [sortS_len h]; exact hj
  have hjs' : j' < (sortSKeys ns.skeys).length := by rw [sortS_len h]; exact hj'
  -- the target of record j is a registered primary key
  obtain ⟨k, hk, hak⟩ := htg _ (sortS_mem h (List.getElem_mem hjs))
  have hpk := h.pkey k hk
  have hpl : ns.plen ≠ 0 := by omega
  rw [read_spkey h j hjs hpl] at hbuf
  injection hbuf with hbuf
  rw [← hbuf, hak, cstr?_strncpy _ _ hpk.2.1 hpk.2.2.1] at hcs
  injection hcs with hcs
  -- record j' carries the alias t
  have hr := reads_skeys h j' (by simpa using hjs')
  rw [hr] at hrd'
  injection hrd' with hrd'
  have hmem : (sortSKeys ns.skeys)[j'] ∈ ns.skeys := sortS_mem h (List.getElem_mem hjs')
  have : k.key ≠ ((sortSKeys ns.skeys)[j']).key := hd.2.2 k hk _ hmem
  apply this
  rw [hcs]
  simpa using hrd'.symm

end EaselModel.Ssi
