import EaselModel.Ssi.Layout
/-! # Lemmas about the SSI model, part 3: what `esl_newssi_Write` emits (sorting, duplicate detection, record bytes). -/
namespace EaselModel.Ssi

/-! ## fixed-width string buffers -/

theorem strncpy_length (n : Nat) (k : Bytes) : (strncpy n k).length = n := by
  simp [strncpy]; omega

theorem cstr_strncpy (n : Nat) (k : Bytes) (h0 : (0 : UInt8) ∉ k) (hl : k.length < n) : cstr (strncpy n k) = k := by
  unfold cstr strncpy
  rw [List.take_of_length_le (by omega)]
  have hall : ∀ a ∈ k, (a != 0) = true := by
    intro a ha
    simp only [bne_iff_ne, ne_eq]
    rintro rfl; exact h0 ha
  rw [List.takeWhile_append_of_pos hall]
  obtain ⟨m, hm⟩ : ∃ m, n - k.length = m + 1 := ⟨n - k.length - 1, by omega⟩
  simp [hm, List.replicate_succ]

theorem cstr?_strncpy (n : Nat) (k : Bytes) (h0 : (0 : UInt8) ∉ k) (hl : k.length < n) : cstr? (strncpy n k) = some k := by
  have hmem : (0 : UInt8) ∈ strncpy n k := by
    obtain ⟨m, hm⟩ : ∃ m, n - k.length = m + 1 := ⟨n - k.length - 1, by omega⟩
    unfold strncpy
    rw [hm, List.replicate_succ]
    simp
  simp [cstr?, hmem, cstr_strncpy n k h0 hl]

theorem cstr_strncpy_nil (n : Nat) : cstr (strncpy n []) = [] := by
  cases n <;> simp [cstr, strncpy, List.replicate_succ]

/-! ## the order used by qsort -/

theorem keyLe_total (a b : Bytes) : (keyLe a b || keyLe b a) = true := by
  unfold keyLe
  rcases strcmp_cases a b with h | h | h
  · simp [h]
  · subst h; simp [strcmp_self]
  · simp [h]

theorem keyLe_iff {a b : Bytes} : keyLe a b = true ↔ strcmp a b = .lt ∨ a = b := by
  unfold keyLe
  rcases strcmp_cases a b with h | h | h
  · simp [h]
  · subst h; simp [strcmp_self]
  · have hgt : strcmp a b = .gt := strcmp_gt_iff.mpr h
    constructor
    · intro hk; simp [hgt] at hk
    · rintro (h' | rfl)
      · rw [hgt] at h'; cases h'
      · simp [strcmp_self] at h

theorem keyLe_trans {a b c : Bytes} (h1 : keyLe a b = true) (h2 : keyLe b c = true) : keyLe a c = true := by
  rw [keyLe_iff] at *
  rcases h1 with h1 | rfl
  · rcases h2 with h2 | rfl
    · exact .inl (strcmp_lt_trans h1 h2)
    · exact .inl h1
  · exact h2

theorem lt_of_keyLe_ne {a b : Bytes} (h : keyLe a b = true) (hne : a ≠ b) : strcmp a b = .lt := by
  rcases keyLe_iff.mp h with h | h
  · exact h
  · exact absurd h hne

/-! ## duplicate detection on the sorted stream -/

/-- no key equals its predecessor (`p` = the string in the `pk` buffer before the loop) -/
def NoAdjDup : Bytes → List Bytes → Prop
  | _, [] => True
  | p, k :: ks => p ≠ k ∧ NoAdjDup k ks

instance : ∀ p l, Decidable (NoAdjDup p l)
  | _, [] => isTrue trivial
  | p, k :: ks => by
    unfold NoAdjDup
    have := instDecidableNoAdjDup k ks
    exact inferInstance

theorem strictSorted_of_noAdjDup (p : Bytes) (l : List Bytes) (hs : l.Pairwise (fun a b => keyLe a b = true))
    (h : NoAdjDup p l) : StrictSorted l := by
  induction l generalizing p with
  | nil => exact List.Pairwise.nil
  | cons k ks ih =>
    obtain ⟨_, h2⟩ := h
    rw [List.pairwise_cons] at hs
    have ihk := ih k hs.2 h2
    refine List.Pairwise.cons ?_ ihk
    intro x hx
    cases ks with
    | nil => simp at hx
    | cons k' ks' =>
      have hkk' : strcmp k k' = .lt := lt_of_keyLe_ne (hs.1 k' (by simp)) h2.1
      rcases List.mem_cons.mp hx with rfl | hx'
      · exact hkk'
      · exact strcmp_lt_trans hkk' ((List.pairwise_cons.mp ihk).1 x hx')

theorem noAdjDup_of_strictSorted (p : Bytes) (l : List Bytes) (hs : StrictSorted l) (hp : ∀ k ∈ l, p ≠ k) : NoAdjDup p l := by
  induction l generalizing p with
  | nil => trivial
  | cons k ks ih =>
    have hs' := List.pairwise_cons.mp hs
    exact ⟨hp k (by simp), ih k hs'.2 (fun x hx => strcmp_lt_ne (hs'.1 x hx))⟩

theorem strictSorted_iff_nodup (l : List Bytes) (hs : l.Pairwise (fun a b => keyLe a b = true)) :
    StrictSorted l ↔ l.Nodup := by
  constructor
  · exact StrictSorted.nodup
  · intro hn
    have := (List.nodup_iff_pairwise_ne.mp hn)
    exact (hs.and this).imp (fun ⟨h1, h2⟩ => lt_of_keyLe_ne h1 h2)

/-- on a `qsort`ed stream of non-empty keys the neighbour test of `Write` sees a duplicate iff there is one -/
theorem noAdjDup_iff_nodup (l : List Bytes) (hs : l.Pairwise (fun a b => keyLe a b = true)) (hne : ∀ k ∈ l, k ≠ []) :
    NoAdjDup [] l ↔ l.Nodup := by
  rw [← strictSorted_iff_nodup l hs]
  exact ⟨strictSorted_of_noAdjDup [] l hs, fun h => noAdjDup_of_strictSorted [] l h (fun k hk => (hne k hk).symm)⟩

/-! ## the record loops -/

def precOf (plen : Nat) (k : PKey) : Bytes := pkeyRecord (strncpy plen k.key) k
def srecOf (plen slen : Nat) (k : SKey) : Bytes := strncpy slen k.key ++ strncpy plen k.pkey

theorem writePKeys_spec (plen : Nat) (pk : Bytes) (l : List PKey)
    (hk : ∀ k ∈ l, (0 : UInt8) ∉ k.key ∧ k.key.length < plen) :
    writePKeys (fun k => Except.ok k) plen pk l =
      if NoAdjDup (cstr pk) (l.map (·.key)) then .ok (l.map (precOf plen)).flatten else .error .edup := by
  induction l generalizing pk with
  | nil => simp [writePKeys, NoAdjDup]
  | cons k ks ih =>
    have hk1 := hk k (by simp)
    simp only [writePKeys, List.map_cons, NoAdjDup, List.flatten_cons]
    by_cases heq : cstr pk = k.key
    · simp [heq, strcmp_self]
    · have hne : (strcmp (cstr pk) k.key == Ordering.eq) = false := by
        simp only [beq_eq_false_iff_ne, ne_eq]
        intro h; exact heq (strcmp_eq_iff.mp h)
      rw [hne]
      simp only [Bool.false_eq_true, ↓reduceIte]
      rw [ih (strncpy plen k.key) (fun x hx => hk x (by simp [hx])), cstr_strncpy plen k.key hk1.1 hk1.2]
      by_cases hn : NoAdjDup k.key (ks.map (·.key)) <;> simp [hn, heq, precOf]

theorem writeSKeys_spec (plen slen : Nat) (sk : Bytes) (l : List SKey)
    (hk : ∀ k ∈ l, (0 : UInt8) ∉ k.key ∧ k.key.length < slen) :
    writeSKeys (fun k => Except.ok k) plen slen sk l =
      if NoAdjDup (cstr sk) (l.map (·.key)) then .ok (l.map (srecOf plen slen)).flatten else .error .edup := by
  induction l generalizing sk with
  | nil => simp [writeSKeys, NoAdjDup]
  | cons k ks ih =>
    have hk1 := hk k (by simp)
    simp only [writeSKeys, List.map_cons, NoAdjDup, List.flatten_cons]
    by_cases heq : cstr sk = k.key
    · simp [heq, strcmp_self]
    · have hne : (strcmp (cstr sk) k.key == Ordering.eq) = false := by
        simp only [beq_eq_false_iff_ne, ne_eq]
        intro h; exact heq (strcmp_eq_iff.mp h)
      rw [hne]
      simp only [Bool.false_eq_true, ↓reduceIte]
      rw [ih (strncpy slen k.key) (fun x hx => hk x (by simp [hx])), cstr_strncpy slen k.key hk1.1 hk1.2]
      by_cases hn : NoAdjDup k.key (ks.map (·.key)) <;> simp [hn, heq, srecOf, List.append_assoc]

/-! ## the cross-class merge pass (`cross_duplicate`) -/

/-- no primary key is also an alias -/
def NoCommon (P : List PKey) (S : List SKey) : Prop := ∀ p ∈ P, ∀ s ∈ S, p.key ≠ s.key

instance (P : List PKey) (S : List SKey) : Decidable (NoCommon P S) := by unfold NoCommon; exact inferInstance

theorem NoCommon.perm {P P' : List PKey} {S S' : List SKey} (hp : P'.Perm P) (hs : S'.Perm S) :
    NoCommon P' S' ↔ NoCommon P S := by
  unfold NoCommon
  constructor
  · intro h p hpm s hsm; exact h p (hp.mem_iff.mpr hpm) s (hs.mem_iff.mpr hsm)
  · intro h p hpm s hsm; exact h p (hp.mem_iff.mp hpm) s (hs.mem_iff.mp hsm)

/-- the merge pass over two `strcmp`-sorted streams (repeated keys allowed) reports `eslEDUP` iff some key occurs in
    both -/
theorem crossDup_spec (P : List PKey) (S : List SKey)
    (hP : P.Pairwise (fun a b => keyLe a.key b.key = true)) (hS : S.Pairwise (fun a b => keyLe a.key b.key = true)) :
    crossDup (fun k => Except.ok k) (fun k => Except.ok k) P S = if NoCommon P S then .ok () else .error .edup := by
  generalize hn : P.length + S.length = n
  induction n using Nat.strongRecOn generalizing P S with
  | _ n ih =>
    cases P with
    | nil => simp [crossDup, NoCommon]
    | cons x xs =>
      cases S with
      | nil => simp [crossDup, NoCommon]
      | cons y ys =>
        have hP' := List.pairwise_cons.mp hP
        have hS' := List.pairwise_cons.mp hS
        rw [crossDup]
        simp only []
        rcases hc : strcmp x.key y.key with _ | _ | _
        · -- x < y: x is below every remaining alias
          simp only []
          rw [ih (xs.length + (y :: ys).length) (by subst hn; simp) xs (y :: ys) hP'.2 hS rfl]
          have hx : ∀ s ∈ y :: ys, x.key ≠ s.key := by
            intro s hs
            rcases List.mem_cons.mp hs with rfl | hs
            · exact strcmp_lt_ne hc
            · rcases keyLe_iff.mp (hS'.1 s hs) with h1 | h1
              · exact strcmp_lt_ne (strcmp_lt_trans hc h1)
              · rw [← h1]; exact strcmp_lt_ne hc
          have e : NoCommon (x :: xs) (y :: ys) ↔ NoCommon xs (y :: ys) := by
            unfold NoCommon
            constructor
            · intro h p hp; exact h p (by simp [hp])
            · intro h p hp
              rcases List.mem_cons.mp hp with rfl | hp
              · exact hx
              · exact h p hp
          by_cases hh : NoCommon xs (y :: ys) <;> simp [hh, e]
        · -- equal
          have : x.key = y.key := strcmp_eq_iff.mp hc
          have hno : ¬ NoCommon (x :: xs) (y :: ys) := fun h => h x (by simp) y (by simp) this
          simp [hno]
        · -- x > y: y is below every remaining primary key
          simp only []
          have hc' : strcmp y.key x.key = .lt := strcmp_gt_iff.mp hc
          rw [ih ((x :: xs).length + ys.length) (by subst hn; simp) (x :: xs) ys hP hS'.2 rfl]
          have hy : ∀ p ∈ x :: xs, p.key ≠ y.key := by
            intro p hp
            rcases List.mem_cons.mp hp with rfl | hp
            · exact (strcmp_lt_ne hc').symm
            · rcases keyLe_iff.mp (hP'.1 p hp) with h1 | h1
              · exact (strcmp_lt_ne (strcmp_lt_trans hc' h1)).symm
              · rw [← h1]; exact (strcmp_lt_ne hc').symm
          have e : NoCommon (x :: xs) (y :: ys) ↔ NoCommon (x :: xs) ys := by
            unfold NoCommon
            constructor
            · intro h p hp s hs; exact h p hp s (by simp [hs])
            · intro h p hp s hs
              rcases List.mem_cons.mp hs with rfl | hs
              · exact hy p hp
              · exact h p hp s hs
          by_cases hh : NoCommon (x :: xs) ys <;> simp [hh, e]

/-! ## sorting -/

theorem sortPKeys_sorted (l : List PKey) : (sortPKeys l).Pairwise (fun a b => keyLe a.key b.key = true) :=
  List.pairwise_mergeSort (le := fun (a b : PKey) => keyLe a.key b.key)
    (fun _ _ _ h1 h2 => keyLe_trans h1 h2) (fun a b => keyLe_total a.key b.key) l

theorem sortSKeys_sorted (l : List SKey) : (sortSKeys l).Pairwise (fun a b => keyLe a.key b.key = true) :=
  List.pairwise_mergeSort (le := fun (a b : SKey) => keyLe a.key b.key)
    (fun _ _ _ h1 h2 => keyLe_trans h1 h2) (fun a b => keyLe_total a.key b.key) l

theorem sortPKeys_perm (l : List PKey) : (sortPKeys l).Perm l := List.mergeSort_perm l _
theorem sortSKeys_perm (l : List SKey) : (sortSKeys l).Perm l := List.mergeSort_perm l _

end EaselModel.Ssi

namespace EaselModel.Ssi

/-- Well-formed index under construction, in-memory form: what `AddFile/SetSubseq/AddKey/AddAlias` build from
    non-empty NUL-free keys and in-range numbers (`reachable_wf`), with generous size bounds
    (names and keys shorter than 64 KB, fewer than 2^40 keys). -/
structure NewSsi.WF (ns : NewSsi) : Prop where
  internal : ns.external = false
  notWritten : ns.written = false
  nprimary : ns.nprimary = ns.pkeys.length
  nsecondary : ns.nsecondary = ns.skeys.length
  files_ne : ns.files ≠ []
  nfiles : ns.files.length < 32768
  fname : ∀ f ∈ ns.files, (0 : UInt8) ∉ f.name ∧ f.name.length < ns.flen ∧ f.fmt < 2^32 ∧ f.bpl < 2^32 ∧ f.rpl < 2^32
  pkey : ∀ k ∈ ns.pkeys, k.key ≠ [] ∧ (0 : UInt8) ∉ k.key ∧ k.key.length < ns.plen ∧ k.fnum < 65536 ∧
            k.roff < 2^64 ∧ k.doff < 2^64 ∧ k.len < 2^64
  skey : ∀ a ∈ ns.skeys, a.key ≠ [] ∧ (0 : UInt8) ∉ a.key ∧ a.key.length < ns.slen
  flen_lt : ns.flen < 65536
  plen_lt : ns.plen < 65536
  slen_lt : ns.slen < 65536
  np_lt : ns.pkeys.length < 2^40
  nsec_lt : ns.skeys.length < 2^40

def NewSsi.fsec (ns : NewSsi) : Bytes := (ns.files.map (fileRecord ns.flen)).flatten
def NewSsi.psec (ns : NewSsi) : Bytes := ((sortPKeys ns.pkeys).map (precOf ns.plen)).flatten
def NewSsi.ssec (ns : NewSsi) : Bytes := ((sortSKeys ns.skeys).map (srecOf ns.plen ns.slen)).flatten
/-- the index file of a well-formed index with distinct keys -/
def NewSsi.image (ns : NewSsi) : Bytes := ns.header ++ ns.fsec ++ ns.psec ++ ns.ssec

/-- all keys of the index are distinct: no repeated primary key, no repeated alias, no alias that is also a primary key -/
def NewSsi.Distinct (ns : NewSsi) : Prop :=
  (ns.pkeys.map (·.key)).Nodup ∧ (ns.skeys.map (·.key)).Nodup ∧ NoCommon ns.pkeys ns.skeys

theorem NewSsi.distinct_iff_nodup (ns : NewSsi) :
    ns.Distinct ↔ (ns.pkeys.map (·.key) ++ ns.skeys.map (·.key)).Nodup := by
  unfold NewSsi.Distinct NoCommon
  rw [List.nodup_append]
  constructor
  · rintro ⟨h1, h2, h3⟩
    refine ⟨h1, h2, ?_⟩
    intro a ha b hb
    obtain ⟨p, hp, rfl⟩ := List.mem_map.mp ha
    obtain ⟨s, hs, rfl⟩ := List.mem_map.mp hb
    exact h3 p hp s hs
  · rintro ⟨h1, h2, h3⟩
    exact ⟨h1, h2, fun p hp s hs => h3 _ (List.mem_map.mpr ⟨p, hp, rfl⟩) _ (List.mem_map.mpr ⟨s, hs, rfl⟩)⟩

theorem WF.flen_pos {ns : NewSsi} (h : ns.WF) : 0 < ns.flen := by
  obtain ⟨f, hf⟩ := List.exists_mem_of_ne_nil _ h.files_ne
  have := (h.fname f hf).2.1
  omega

theorem pkeys_noAdjDup_iff {ns : NewSsi} (h : ns.WF) :
    NoAdjDup [] ((sortPKeys ns.pkeys).map (·.key)) ↔ (ns.pkeys.map (·.key)).Nodup := by
  rw [noAdjDup_iff_nodup _ (List.pairwise_map.mpr (sortPKeys_sorted ns.pkeys))]
  · exact ((sortPKeys_perm ns.pkeys).map _).nodup_iff
  · intro k hk
    obtain ⟨x, hx, rfl⟩ := List.mem_map.mp hk
    exact (h.pkey x ((sortPKeys_perm ns.pkeys).mem_iff.mp hx)).1

theorem skeys_noAdjDup_iff {ns : NewSsi} (h : ns.WF) :
    NoAdjDup [] ((sortSKeys ns.skeys).map (·.key)) ↔ (ns.skeys.map (·.key)).Nodup := by
  rw [noAdjDup_iff_nodup _ (List.pairwise_map.mpr (sortSKeys_sorted ns.skeys))]
  · exact ((sortSKeys_perm ns.skeys).map _).nodup_iff
  · intro k hk
    obtain ⟨x, hx, rfl⟩ := List.mem_map.mp hk
    exact (h.skey x ((sortSKeys_perm ns.skeys).mem_iff.mp hx)).1

theorem cross_internal (ns : NewSsi) :
    crossDup (fun k => Except.ok k) (fun k => Except.ok k) (sortPKeys ns.pkeys) (sortSKeys ns.skeys)
      = if NoCommon ns.pkeys ns.skeys then .ok () else .error .edup := by
  rw [crossDup_spec _ _ (sortPKeys_sorted ns.pkeys) (sortSKeys_sorted ns.skeys)]
  have := NoCommon.perm (sortPKeys_perm ns.pkeys) (sortSKeys_perm ns.skeys)
  by_cases hh : NoCommon ns.pkeys ns.skeys <;> simp [hh, this]

/-- what `esl_newssi_Write` does with an in-memory index: `eslEDUP` iff some key occurs twice (within a class, or as a
    primary key and as an alias), else the image -/
theorem writeBytes_internal (ns : NewSsi) (h : ns.WF) [Decidable ns.Distinct] :
    ns.writeBytes = if ns.Distinct then .ok ns.image else .error .edup := by
  have hfl : ns.flen ≠ 0 := by have := WF.flen_pos h; omega
  have hp : ∀ k ∈ sortPKeys ns.pkeys, (0 : UInt8) ∉ k.key ∧ k.key.length < ns.plen := by
    intro k hk
    have := h.pkey k ((sortPKeys_perm ns.pkeys).mem_iff.mp hk)
    exact ⟨this.2.1, this.2.2.1⟩
  have hs : ∀ k ∈ sortSKeys ns.skeys, (0 : UInt8) ∉ k.key ∧ k.key.length < ns.slen := by
    intro k hk
    have := h.skey k ((sortSKeys_perm ns.skeys).mem_iff.mp hk)
    exact ⟨this.2.1, this.2.2⟩
  unfold NewSsi.writeBytes
  simp only [hfl, ↓reduceIte, h.internal, Bool.false_eq_true, cross_internal]
  by_cases h0 : NoCommon ns.pkeys ns.skeys
  · simp only [h0, ↓reduceIte]
    rw [writePKeys_spec ns.plen _ _ hp, writeSKeys_spec ns.plen ns.slen _ _ hs, cstr_strncpy_nil, cstr_strncpy_nil]
    by_cases h1 : (ns.pkeys.map (·.key)).Nodup
    · by_cases h2 : (ns.skeys.map (·.key)).Nodup
      · have hd : ns.Distinct := ⟨h1, h2, h0⟩
        simp only [(pkeys_noAdjDup_iff h).mpr h1, (skeys_noAdjDup_iff h).mpr h2, hd, ↓reduceIte]
        rfl
      · have hd : ¬ ns.Distinct := fun hd => h2 hd.2.1
        have h2' : ¬ NoAdjDup [] ((sortSKeys ns.skeys).map (·.key)) := fun x => h2 ((skeys_noAdjDup_iff h).mp x)
        simp only [(pkeys_noAdjDup_iff h).mpr h1, h2', hd, ↓reduceIte]
    · have hd : ¬ ns.Distinct := fun hd => h1 hd.1
      have h1' : ¬ NoAdjDup [] ((sortPKeys ns.pkeys).map (·.key)) := fun x => h1 ((pkeys_noAdjDup_iff h).mp x)
      simp only [h1', hd, ↓reduceIte]
  · have hd : ¬ ns.Distinct := fun hd => h0 hd.2.2
    simp only [h0, hd, ↓reduceIte]

end EaselModel.Ssi
