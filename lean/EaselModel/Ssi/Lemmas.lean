import EaselModel.Ssi.Model
/-! # Lemmas about the SSI model, part 1: `strcmp` is a strict total order, integer codecs, `binary_search`. -/
namespace EaselModel.Ssi

/-! ## strcmp -/

theorem strcmp_self (a : Bytes) : strcmp a a = .eq := by
  induction a with
  | nil => rfl
  | cons x xs ih => simp [strcmp, ih]

theorem strcmp_eq_iff {a b : Bytes} : strcmp a b = .eq ↔ a = b := by
  constructor
  · intro h
    induction a generalizing b with
    | nil => cases b <;> simp_all [strcmp]
    | cons x xs ih =>
      cases b with
      | nil => simp [strcmp] at h
      | cons y ys =>
        simp only [strcmp] at h
        split at h
        · cases h
        · split at h
          · cases h
          · have : x = y := UInt8.toNat_inj.mp (by omega)
            rw [this, ih h]
  · rintro rfl; exact strcmp_self a

theorem strcmp_gt_iff {a b : Bytes} : strcmp a b = .gt ↔ strcmp b a = .lt := by
  induction a generalizing b with
  | nil => cases b <;> simp [strcmp]
  | cons x xs ih =>
    cases b with
    | nil => simp [strcmp]
    | cons y ys =>
      simp only [strcmp]
      by_cases h1 : x.toNat < y.toNat
      · have : ¬ y.toNat < x.toNat := by omega
        simp [h1, this]
      · by_cases h2 : y.toNat < x.toNat
        · simp [h1, h2]
        · simp [h1, h2, ih]

theorem strcmp_lt_trans {a b c : Bytes} (h1 : strcmp a b = .lt) (h2 : strcmp b c = .lt) : strcmp a c = .lt := by
  induction a generalizing b c with
  | nil =>
    cases c with
    | nil => cases b <;> simp [strcmp] at h1 h2
    | cons z zs => simp [strcmp]
  | cons x xs ih =>
    cases b with
    | nil => simp [strcmp] at h1
    | cons y ys =>
      cases c with
      | nil => simp [strcmp] at h2
      | cons z zs =>
        simp only [strcmp] at h1 h2 ⊢
        by_cases hxy : x.toNat < y.toNat
        · by_cases hyz : y.toNat < z.toNat
          · have : x.toNat < z.toNat := by omega
            simp [this]
          · by_cases hzy : z.toNat < y.toNat
            · simp [hyz, hzy] at h2
            · have : x.toNat < z.toNat := by omega
              simp [this]
        · by_cases hyx : y.toNat < x.toNat
          · simp [hxy, hyx] at h1
          · simp only [hxy, hyx, ↓reduceIte] at h1
            by_cases hyz : y.toNat < z.toNat
            · have : x.toNat < z.toNat := by omega
              simp [this]
            · by_cases hzy : z.toNat < y.toNat
              · simp [hyz, hzy] at h2
              · simp only [hyz, hzy, ↓reduceIte] at h2
                have h3 : ¬ x.toNat < z.toNat := by omega
                have h4 : ¬ z.toNat < x.toNat := by omega
                simp only [h3, h4, ↓reduceIte]
                exact ih h1 h2

theorem strcmp_lt_irrefl (a : Bytes) : strcmp a a ≠ .lt := by simp [strcmp_self]

theorem strcmp_lt_ne {a b : Bytes} (h : strcmp a b = .lt) : a ≠ b := by
  rintro rfl; simp [strcmp_self] at h

theorem strcmp_lt_asymm {a b : Bytes} (h : strcmp a b = .lt) : strcmp b a ≠ .lt := by
  intro h2; exact strcmp_lt_irrefl a (strcmp_lt_trans h h2)

/-- trichotomy -/
theorem strcmp_cases (a b : Bytes) : strcmp a b = .lt ∨ a = b ∨ strcmp b a = .lt := by
  cases h : strcmp a b with
  | lt => exact .inl rfl
  | eq => exact .inr (.inl (strcmp_eq_iff.mp h))
  | gt => exact .inr (.inr (strcmp_gt_iff.mp h))

/-! ## integer codecs -/

theorem leBytes_length (k n : Nat) : (leBytes k n).length = k := by
  induction k generalizing n with
  | zero => rfl
  | succ k ih => simp [leBytes, ih]

theorem leVal_leBytes (k n : Nat) : leVal (leBytes k n) = n % 256 ^ k := by
  induction k generalizing n with
  | zero => simp [leBytes, leVal, Nat.mod_one]
  | succ k ih =>
    simp only [leBytes, leVal, ih]
    have h1 : (UInt8.ofNat (n % 256)).toNat = n % 256 := by
      simp [UInt8.toNat_ofNat']
    rw [h1, Nat.pow_succ, Nat.mul_comm (256 ^ k) 256, Nat.mod_mul]

theorem byteswap2 (a b : UInt8) : byteswap [a, b] = [b, a] := by
  simp [byteswap, List.range, List.range.loop]
theorem byteswap4 (a b c d : UInt8) : byteswap [a, b, c, d] = [d, c, b, a] := by
  simp [byteswap, List.range, List.range.loop]
theorem byteswap8 (a b c d e f g h : UInt8) : byteswap [a, b, c, d, e, f, g, h] = [h, g, f, e, d, c, b, a] := by
  simp [byteswap, List.range, List.range.loop]

/-- on 2-, 4- and 8-byte objects `esl_byteswap` reverses the bytes -/
theorem byteswap_eq_reverse (bs : Bytes) (h : bs.length = 2 ∨ bs.length = 4 ∨ bs.length = 8) : byteswap bs = bs.reverse := by
  rcases h with h | h | h
  · match bs, h with
    | [a, b], _ => simp [byteswap2]
  · match bs, h with
    | [a, b, c, d], _ => simp [byteswap4]
  · match bs, h with
    | [a, b, c, d, e, f, g, i], _ => simp [byteswap8]

theorem hton_length (k n : Nat) (hk : k = 2 ∨ k = 4 ∨ k = 8) : (hton k n).length = k := by
  unfold hton
  rw [byteswap_eq_reverse _ (by simpa [leBytes_length] using hk)]
  simp [leBytes_length]

/-- what `esl_fread_uNN` returns for the bytes `esl_fwrite_uNN` wrote -/
theorem ntoh_hton (k n : Nat) (hk : k = 2 ∨ k = 4 ∨ k = 8) : ntoh (hton k n) = n % 256 ^ k := by
  unfold ntoh hton
  have hl : (leBytes k n).length = 2 ∨ (leBytes k n).length = 4 ∨ (leBytes k n).length = 8 := by
    simpa [leBytes_length] using hk
  rw [byteswap_eq_reverse _ hl, byteswap_eq_reverse _ (by simpa using hl), List.reverse_reverse, leVal_leBytes]

/-- the bytes on disk are the big-endian digits -/
theorem hton_eq_be (k n : Nat) (hk : k = 2 ∨ k = 4 ∨ k = 8) : hton k n = (leBytes k n).reverse := by
  unfold hton
  exact byteswap_eq_reverse _ (by simpa [leBytes_length] using hk)

/-! ## binary_search -/

/-- what the loop of `binary_search` sees: record `i` holds `keys[i]` -/
def ReadsKeys (rdName : Nat → Except St Bytes) (keys : List Bytes) : Prop :=
  ∀ i (h : i < keys.length), rdName i = .ok keys[i]

/-- strictly increasing in `strcmp` order -/
def StrictSorted (keys : List Bytes) : Prop := keys.Pairwise (fun a b => strcmp a b = .lt)

theorem StrictSorted.lt_of_lt {keys : List Bytes} (hs : StrictSorted keys) {i j : Nat} (hi : i < keys.length)
    (hj : j < keys.length) (hij : i < j) : strcmp keys[i] keys[j] = .lt :=
  (List.pairwise_iff_getElem.mp hs) i j hi hj hij

theorem StrictSorted.nodup {keys : List Bytes} (hs : StrictSorted keys) : keys.Nodup :=
  List.nodup_iff_pairwise_ne.mpr (hs.imp strcmp_lt_ne)

/-- The loop invariant of `binary_search`: everything left of `left` is smaller than `key`, everything right of
    `right` is larger. Under it the loop returns the position of `key`, or `eslENOTFOUND` when `key` is absent. -/
theorem bsearchLoop_spec (rdName : Nat → Except St Bytes) (keys : List Bytes) (key : Bytes)
    (hr : ReadsKeys rdName keys) (hs : StrictSorted keys) (left right : Nat)
    (hlr : left ≤ right + 1) (hrn : right < keys.length)
    (hL : ∀ i (h : i < keys.length), i < left → strcmp keys[i] key = .lt)
    (hR : ∀ i (h : i < keys.length), right < i → strcmp key keys[i] = .lt) :
    (∃ j, ∃ h : j < keys.length, keys[j] = key ∧ bsearchLoop rdName key left right = .ok j) ∨
    (key ∉ keys ∧ bsearchLoop rdName key left right = .error .enotfound) := by
  induction hm : right + 1 - left using Nat.strongRecOn generalizing left right with
  | _ m ih =>
    have hmid : (left + right) / 2 < keys.length := by omega
    have absent_of (hlt : ∀ i (h : i < keys.length), strcmp keys[i] key = .lt ∨ strcmp key keys[i] = .lt) : key ∉ keys := by
      intro hmem
      obtain ⟨i, hi, rfl⟩ := List.getElem_of_mem hmem
      rcases hlt i hi with h | h <;> simp [strcmp_self] at h
    rw [bsearchLoop]
    simp only [hr _ hmid]
    cases hc : strcmp keys[(left + right) / 2] key with
    | eq =>
      left
      exact ⟨_, hmid, strcmp_eq_iff.mp hc, rfl⟩
    | lt =>
      simp only []
      by_cases hge : left ≥ right
      · right
        refine ⟨absent_of ?_, by simp [hge]⟩
        intro i hi
        by_cases h1 : i ≤ (left + right) / 2
        · left
          by_cases h2 : i = (left + right) / 2
          · subst h2; exact hc
          · exact strcmp_lt_trans (hs.lt_of_lt hi hmid (by omega)) hc
        · right; exact hR i hi (by omega)
      · simp only [hge, ↓reduceDIte]
        apply ih (right + 1 - ((left + right) / 2 + 1)) (by omega) ((left + right) / 2 + 1) right (by omega) hrn
        · intro i hi hlt
          by_cases h2 : i = (left + right) / 2
          · subst h2; exact hc
          · exact strcmp_lt_trans (hs.lt_of_lt hi hmid (by omega)) hc
        · exact hR
        · rfl
    | gt =>
      have hc' := strcmp_gt_iff.mp hc
      simp only []
      have habs : (left ≥ right ∨ (left + right) / 2 = 0) → key ∉ keys := by
        intro hcase
        apply absent_of
        intro i hi
        by_cases h1 : i < (left + right) / 2
        · left; exact hL i hi (by omega)
        · right
          by_cases h2 : i = (left + right) / 2
          · subst h2; exact hc'
          · exact strcmp_lt_trans hc' (hs.lt_of_lt hmid hi (by omega))
      by_cases hge : left ≥ right
      · right
        exact ⟨habs (.inl hge), by simp [hge]⟩
      · by_cases h0 : (left + right) / 2 = 0
        · right
          exact ⟨habs (.inr h0), by simp [hge, h0]⟩
        · simp only [hge, h0, ↓reduceDIte]
          apply ih ((left + right) / 2 - 1 + 1 - left) (by omega) left ((left + right) / 2 - 1) (by omega) (by omega)
          · exact hL
          · intro i hi hlt
            by_cases h2 : i = (left + right) / 2
            · subst h2; exact hc'
            · exact strcmp_lt_trans hc' (hs.lt_of_lt hmid hi (by omega))
          · rfl

/-- `binary_search` over a non-empty strictly sorted record array: finds exactly the stored keys. -/
theorem bsearchLoop_correct (rdName : Nat → Except St Bytes) (keys : List Bytes) (key : Bytes)
    (hr : ReadsKeys rdName keys) (hs : StrictSorted keys) (hne : 0 < keys.length) :
    (∃ j, ∃ h : j < keys.length, keys[j] = key ∧ bsearchLoop rdName key 0 (keys.length - 1) = .ok j) ∨
    (key ∉ keys ∧ bsearchLoop rdName key 0 (keys.length - 1) = .error .enotfound) :=
  bsearchLoop_spec rdName keys key hr hs 0 (keys.length - 1) (by omega) (by omega)
    (by intro i _ h; omega) (by intro i hi h; omega)

end EaselModel.Ssi
