import EaselModel.Ssi.Writer
/-! # Lemmas about the SSI model, part 5: the external (on-disk) sort path emits the same bytes as the in-memory path. -/
namespace EaselModel.Ssi

/-! ## decimal text round trip (`printf("%llu")` then `strtoull`) -/

theorem ofNat_digit_toNat (d : Nat) (h : d < 10) : (UInt8.ofNat (48 + d)).toNat = 48 + d := by
  simp [UInt8.toNat_ofNat']; omega

theorem isDigit_ofNat (d : Nat) (h : d < 10) : isDigit (UInt8.ofNat (48 + d)) = true := by
  unfold isDigit
  rw [ofNat_digit_toNat d h]
  simp; omega

theorem parseDecAux_decimal (n : Nat) : ∀ acc rest,
    parseDecAux acc (decimal n ++ rest) = parseDecAux (acc * 10 ^ (decimal n).length + n) rest := by
  induction n using Nat.strongRecOn with
  | _ n ih =>
    intro acc rest
    rw [decimal]
    by_cases h : n < 10
    · simp only [h, ↓reduceDIte, List.singleton_append, parseDecAux, isDigit_ofNat n h, ↓reduceIte,
        ofNat_digit_toNat n h, List.length_singleton, Nat.pow_one]
      congr 1; omega
    · simp only [h, ↓reduceDIte, List.append_assoc, List.singleton_append, List.length_append, List.length_singleton]
      rw [ih (n / 10) (by omega)]
      have hd : n % 10 < 10 := Nat.mod_lt _ (by omega)
      simp only [parseDecAux, isDigit_ofNat _ hd, ↓reduceIte, ofNat_digit_toNat _ hd]
      congr 1
      rw [Nat.pow_succ]
      have := Nat.div_add_mod n 10
      have e : acc * (10 ^ (decimal (n / 10)).length * 10) = acc * 10 ^ (decimal (n / 10)).length * 10 := by
        rw [Nat.mul_assoc]
      omega

theorem parseDec_decimal (n : Nat) : parseDecAux 0 (decimal n) = n := by
  have := parseDecAux_decimal n 0 []
  simpa [parseDecAux] using this

theorem decimal_ne_nil (n : Nat) : decimal n ≠ [] := by
  rw [decimal]; split <;> simp

theorem decimal_digits (n : Nat) : ∀ c ∈ decimal n, isDigit c = true := by
  induction n using Nat.strongRecOn with
  | _ n ih =>
    intro c hc
    rw [decimal] at hc
    by_cases h : n < 10
    · simp only [h, ↓reduceDIte, List.mem_singleton] at hc
      subst hc; exact isDigit_ofNat n h
    · simp only [h, ↓reduceDIte, List.mem_append, List.mem_singleton] at hc
      rcases hc with hc | hc
      · exact ih (n / 10) (by omega) c hc
      · subst hc; exact isDigit_ofNat _ (Nat.mod_lt _ (by omega))

theorem not_delim_of_digit {c : UInt8} (h : isDigit c = true) : isDelim c = false := by
  simp only [isDigit, Bool.and_eq_true, decide_eq_true_eq] at h
  simp only [isDelim, Bool.or_eq_false_iff, beq_eq_false_iff_ne, ne_eq]
  constructor <;> (intro hc; subst hc; simp at h)

/-! ## `esl_strtok` on a tmp-file line -/

def NoDelim (t : Bytes) : Prop := ∀ c ∈ t, isDelim c = false

theorem strtok_mid (tok rest : Bytes) (hne : tok ≠ []) (hnd : NoDelim tok) : strtok (tok ++ 9 :: rest) = some (tok, rest) := by
  obtain ⟨c, cs, rfl⟩ := List.exists_cons_of_ne_nil hne
  have hc : isDelim c = false := hnd c (by simp)
  have hall : ∀ a ∈ c :: cs, (!isDelim a) = true := by
    intro a ha; simp [hnd a ha]
  have h0 : List.dropWhile isDelim ((c :: cs) ++ 9 :: rest) = (c :: cs) ++ 9 :: rest := by
    simp [List.dropWhile_cons, hc]
  have h1 : List.takeWhile (fun c => !isDelim c) ((c :: cs) ++ 9 :: rest) = c :: cs := by
    rw [List.takeWhile_append_of_pos hall]
    simp [isDelim]
  have h2 : List.dropWhile (fun c => !isDelim c) ((c :: cs) ++ 9 :: rest) = 9 :: rest := by
    rw [List.dropWhile_append_of_pos hall]
    simp [isDelim]
  unfold strtok
  rw [h0]
  simp only [h1, h2]
  simp

theorem strtok_last (tok : Bytes) (hne : tok ≠ []) (hnd : NoDelim tok) : strtok tok = some (tok, []) := by
  obtain ⟨c, cs, rfl⟩ := List.exists_cons_of_ne_nil hne
  have hc : isDelim c = false := hnd c (by simp)
  have hall : ∀ a ∈ c :: cs, (!isDelim a) = true := by
    intro a ha; simp [hnd a ha]
  have h0 : List.dropWhile isDelim (c :: cs) = c :: cs := by
    simp [List.dropWhile_cons, hc]
  have h1 : List.takeWhile (fun c => !isDelim c) (c :: cs) = c :: cs := by
    have := List.takeWhile_append_of_pos (l₂ := []) hall
    simpa using this
  have h2 : List.dropWhile (fun c => !isDelim c) (c :: cs) = [] := by
    have := List.dropWhile_append_of_pos (l₂ := []) hall
    simpa using this
  unfold strtok
  rw [h0]
  simp only [h1, h2]
  simp

theorem noDelim_decimal (n : Nat) : NoDelim (decimal n) := fun c hc => not_delim_of_digit (decimal_digits n c hc)

/-- `parse_pkey` recovers what `AddKey`/`activate_external_sort` printed -/
theorem parsePKey_line (k : PKey) (hne : k.key ≠ []) (hnd : NoDelim k.key) (hf : k.fnum < 65536)
    (hr : k.roff < 2^64) (hdo : k.doff < 2^64) (hl : k.len < 2^64) : parsePKey (pkeyLine k) = .ok k := by
  have e : pkeyLine k = k.key ++ 9 :: (decimal k.fnum ++ 9 :: (decimal k.roff ++ 9 :: (decimal k.doff ++ 9 :: decimal k.len))) := by
    simp [pkeyLine, List.append_assoc]
  unfold parsePKey
  rw [e]
  simp only [strtok_mid _ _ hne hnd, strtok_mid _ _ (decimal_ne_nil _) (noDelim_decimal _),
    strtok_last _ (decimal_ne_nil _) (noDelim_decimal _)]
  simp only [atoiU16, strtoull, parseDec_decimal]
  have h1 : k.fnum % 65536 = k.fnum := Nat.mod_eq_of_lt hf
  have h2 : min k.roff (2^64 - 1) = k.roff := Nat.min_eq_left (by omega)
  have h3 : min k.doff (2^64 - 1) = k.doff := Nat.min_eq_left (by omega)
  have h4 : min k.len (2^64 - 1) = k.len := Nat.min_eq_left (by omega)
  rw [h1, h2, h3, h4]

/-- `parse_skey` recovers what `AddAlias` printed -/
theorem parseSKey_line (k : SKey) (hne : k.key ≠ []) (hnd : NoDelim k.key) (hne2 : k.pkey ≠ []) (hnd2 : NoDelim k.pkey) :
    parseSKey (skeyLine k) = .ok k := by
  have e : skeyLine k = k.key ++ 9 :: k.pkey := by simp [skeyLine]
  unfold parseSKey
  rw [e]
  simp only [strtok_mid _ _ hne hnd, strtok_last _ hne2 hnd2]

/-! ## bytewise order of the lines = `strcmp` order of the keys -/

/-- every byte sorts above TAB and is not a newline (printable non-blank characters do) -/
def KeyChars (t : Bytes) : Prop := ∀ c ∈ t, 10 < c.toNat

theorem KeyChars.noDelim {t : Bytes} (h : KeyChars t) : NoDelim t := by
  intro c hc
  have := h c hc
  simp only [isDelim, Bool.or_eq_false_iff, beq_eq_false_iff_ne, ne_eq]
  constructor <;> (intro h9; subst h9; simp at this)

/-- if `a < b` as keys then `a ++ TAB ++ x < b ++ TAB ++ y` as lines, whatever follows the TAB -/
theorem line_lt_of_key_lt (a b x y : Bytes) (hb : KeyChars b) (h : strcmp a b = .lt) :
    strcmp (a ++ 9 :: x) (b ++ 9 :: y) = .lt := by
  induction a generalizing b with
  | nil =>
    cases b with
    | nil => simp [strcmp] at h
    | cons c cs =>
      have := hb c (by simp)
      simp only [List.nil_append, List.cons_append, strcmp]
      have h9 : (9 : UInt8).toNat = 9 := rfl
      rw [h9]
      simp [show 9 < c.toNat by omega]
  | cons p ps ih =>
    cases b with
    | nil => simp [strcmp] at h
    | cons c cs =>
      simp only [List.cons_append, strcmp] at h ⊢
      by_cases h1 : p.toNat < c.toNat
      · simp [h1]
      · by_cases h2 : c.toNat < p.toNat
        · simp [h1, h2] at h
        · simp only [h1, h2, ↓reduceIte] at h ⊢
          exact ih cs (fun z hz => hb z (by simp [hz])) h

/-- line order implies key order -/
theorem keyLe_of_lineLe (a b x y : Bytes) (ha : KeyChars a) (h : lineLe (a ++ 9 :: x) (b ++ 9 :: y) = true) :
    keyLe a b = true := by
  rcases strcmp_cases a b with h1 | h1 | h1
  · exact keyLe_iff.mpr (.inl h1)
  · exact keyLe_iff.mpr (.inr h1)
  · have := line_lt_of_key_lt b a y x ha h1
    have hgt : strcmp (a ++ 9 :: x) (b ++ 9 :: y) = .gt := strcmp_gt_iff.mpr this
    simp [lineLe, hgt] at h

end EaselModel.Ssi

namespace EaselModel.Ssi

/-! ## the two paths feed the same record stream to the write loops -/

theorem eq_of_nodup_map' {α β : Type} (f : α → β) (l : List α) (hn : (l.map f).Nodup) {x y : α} (hx : x ∈ l) (hy : y ∈ l)
    (hxy : f x = f y) : x = y := by
  induction l with
  | nil => cases hx
  | cons a as ih =>
    rw [List.map_cons, List.nodup_cons] at hn
    rcases List.mem_cons.mp hx with rfl | hx' <;> rcases List.mem_cons.mp hy with rfl | hy'
    · rfl
    · exact absurd (List.mem_map.mpr ⟨y, hy', hxy.symm⟩) hn.1
    · exact absurd (List.mem_map.mpr ⟨x, hx', hxy⟩) hn.1
    · exact ih hn.2 hx' hy'

theorem writePKeys_map {α : Type} (get : α → Except St PKey) (g : α → PKey) (plen : Nat) (pk : Bytes) (l : List α)
    (hg : ∀ x ∈ l, get x = .ok (g x)) :
    writePKeys get plen pk l = writePKeys (fun k => Except.ok k) plen pk (l.map g) := by
  induction l generalizing pk with
  | nil => simp [writePKeys]
  | cons x xs ih =>
    simp only [writePKeys, List.map_cons, hg x (by simp)]
    split
    · rfl
    · rw [ih _ (fun y hy => hg y (by simp [hy]))]

theorem writeSKeys_map {α : Type} (get : α → Except St SKey) (g : α → SKey) (plen slen : Nat) (sk : Bytes) (l : List α)
    (hg : ∀ x ∈ l, get x = .ok (g x)) :
    writeSKeys get plen slen sk l = writeSKeys (fun k => Except.ok k) plen slen sk (l.map g) := by
  induction l generalizing sk with
  | nil => simp [writeSKeys]
  | cons x xs ih =>
    simp only [writeSKeys, List.map_cons, hg x (by simp)]
    split
    · rfl
    · rw [ih _ (fun y hy => hg y (by simp [hy]))]

theorem crossDup_map {α β : Type} (getP : α → Except St PKey) (gP : α → PKey) (getS : β → Except St SKey) (gS : β → SKey)
    (lp : List α) (ls : List β) (hP : ∀ x ∈ lp, getP x = .ok (gP x)) (hS : ∀ y ∈ ls, getS y = .ok (gS y)) :
    crossDup getP getS lp ls = crossDup (fun k => Except.ok k) (fun k => Except.ok k) (lp.map gP) (ls.map gS) := by
  generalize hn : lp.length + ls.length = n
  induction n using Nat.strongRecOn generalizing lp ls with
  | _ n ih =>
    cases lp with
    | nil => simp [crossDup]
    | cons x xs =>
      cases ls with
      | nil => simp [crossDup]
      | cons y ys =>
        rw [List.map_cons, List.map_cons, crossDup, crossDup]
        simp only [hP x (by simp), hS y (by simp)]
        rcases hc : strcmp (gP x).key (gS y).key with _ | _ | _
        · simp only []
          rw [ih (xs.length + (y :: ys).length) (by subst hn; simp) xs (y :: ys)
            (fun a ha => hP a (by simp [ha])) hS rfl, List.map_cons]
        · rfl
        · simp only []
          rw [ih ((x :: xs).length + ys.length) (by subst hn; simp) (x :: xs) ys hP
            (fun a ha => hS a (by simp [ha])) rfl, List.map_cons]

/-- any `strcmp`-sorted arrangements of the two key classes give the merge pass the same answer -/
theorem crossDup_any_sorted (P L : List PKey) (S M : List SKey) (hp : L.Perm P) (hs : M.Perm S)
    (hL : L.Pairwise (fun a b => keyLe a.key b.key = true)) (hM : M.Pairwise (fun a b => keyLe a.key b.key = true)) :
    crossDup (fun k => Except.ok k) (fun k => Except.ok k) L M
      = crossDup (fun k => Except.ok k) (fun k => Except.ok k) (sortPKeys P) (sortSKeys S) := by
  rw [crossDup_spec L M hL hM, crossDup_spec _ _ (sortPKeys_sorted P) (sortSKeys_sorted S)]
  have e1 := NoCommon.perm hp hs
  have e2 := NoCommon.perm (sortPKeys_perm P) (sortSKeys_perm S)
  by_cases hh : NoCommon P S <;> simp [hh, e1, e2]

/-- any `strcmp`-sorted arrangement of the keys gives the same result as the `qsort`ed one -/
theorem writePKeys_any_sorted (plen : Nat) (P L : List PKey) (hperm : L.Perm P)
    (hsorted : L.Pairwise (fun a b => keyLe a.key b.key = true))
    (hgood : ∀ k ∈ P, k.key ≠ [] ∧ (0 : UInt8) ∉ k.key ∧ k.key.length < plen) :
    writePKeys (fun k => Except.ok k) plen (strncpy plen []) L
      = writePKeys (fun k => Except.ok k) plen (strncpy plen []) (sortPKeys P) := by
  have hgL : ∀ k ∈ L, (0 : UInt8) ∉ k.key ∧ k.key.length < plen := fun k hk => (hgood k (hperm.mem_iff.mp hk)).2
  have hgS : ∀ k ∈ sortPKeys P, (0 : UInt8) ∉ k.key ∧ k.key.length < plen :=
    fun k hk => (hgood k ((sortPKeys_perm P).mem_iff.mp hk)).2
  rw [writePKeys_spec plen _ L hgL, writePKeys_spec plen _ _ hgS, cstr_strncpy_nil]
  have hneL : ∀ k ∈ L.map (·.key), k ≠ [] := by
    intro k hk; obtain ⟨x, hx, rfl⟩ := List.mem_map.mp hk; exact (hgood x (hperm.mem_iff.mp hx)).1
  have hneS : ∀ k ∈ (sortPKeys P).map (·.key), k ≠ [] := by
    intro k hk; obtain ⟨x, hx, rfl⟩ := List.mem_map.mp hk; exact (hgood x ((sortPKeys_perm P).mem_iff.mp hx)).1
  have e1 := noAdjDup_iff_nodup (L.map (·.key)) (List.pairwise_map.mpr hsorted) hneL
  have e2 := noAdjDup_iff_nodup ((sortPKeys P).map (·.key)) (List.pairwise_map.mpr (sortPKeys_sorted P)) hneS
  have e3 : (L.map (·.key)).Nodup ↔ (P.map (·.key)).Nodup := (hperm.map _).nodup_iff
  have e4 : ((sortPKeys P).map (·.key)).Nodup ↔ (P.map (·.key)).Nodup := ((sortPKeys_perm P).map _).nodup_iff
  by_cases hn : (P.map (·.key)).Nodup
  · have hL : L = sortPKeys P := by
      apply List.Perm.eq_of_pairwise (le := fun a b => keyLe a.key b.key = true) _ hsorted (sortPKeys_sorted P)
        (hperm.trans (sortPKeys_perm P).symm)
      intro a b ha hb hab hba
      have hkey : a.key = b.key := by
        rcases keyLe_iff.mp hab with h1 | h1
        · rcases keyLe_iff.mp hba with h2 | h2
          · exact absurd h2 (strcmp_lt_asymm h1)
          · exact h2.symm
        · exact h1
      exact eq_of_nodup_map' (·.key) P hn (hperm.mem_iff.mp ha) ((sortPKeys_perm P).mem_iff.mp hb) hkey
    rw [hL]
  · have n1 : ¬ NoAdjDup [] (L.map (·.key)) := fun x => hn (e3.mp (e1.mp x))
    have n2 : ¬ NoAdjDup [] ((sortPKeys P).map (·.key)) := fun x => hn (e4.mp (e2.mp x))
    simp [n1, n2]

theorem writeSKeys_any_sorted (plen slen : Nat) (P L : List SKey) (hperm : L.Perm P)
    (hsorted : L.Pairwise (fun a b => keyLe a.key b.key = true))
    (hgood : ∀ k ∈ P, k.key ≠ [] ∧ (0 : UInt8) ∉ k.key ∧ k.key.length < slen) :
    writeSKeys (fun k => Except.ok k) plen slen (strncpy slen []) L
      = writeSKeys (fun k => Except.ok k) plen slen (strncpy slen []) (sortSKeys P) := by
  have hgL : ∀ k ∈ L, (0 : UInt8) ∉ k.key ∧ k.key.length < slen := fun k hk => (hgood k (hperm.mem_iff.mp hk)).2
  have hgS : ∀ k ∈ sortSKeys P, (0 : UInt8) ∉ k.key ∧ k.key.length < slen :=
    fun k hk => (hgood k ((sortSKeys_perm P).mem_iff.mp hk)).2
  rw [writeSKeys_spec plen slen _ L hgL, writeSKeys_spec plen slen _ _ hgS, cstr_strncpy_nil]
  have hneL : ∀ k ∈ L.map (·.key), k ≠ [] := by
    intro k hk; obtain ⟨x, hx, rfl⟩ := List.mem_map.mp hk; exact (hgood x (hperm.mem_iff.mp hx)).1
  have hneS : ∀ k ∈ (sortSKeys P).map (·.key), k ≠ [] := by
    intro k hk; obtain ⟨x, hx, rfl⟩ := List.mem_map.mp hk; exact (hgood x ((sortSKeys_perm P).mem_iff.mp hx)).1
  have e1 := noAdjDup_iff_nodup (L.map (·.key)) (List.pairwise_map.mpr hsorted) hneL
  have e2 := noAdjDup_iff_nodup ((sortSKeys P).map (·.key)) (List.pairwise_map.mpr (sortSKeys_sorted P)) hneS
  have e3 : (L.map (·.key)).Nodup ↔ (P.map (·.key)).Nodup := (hperm.map _).nodup_iff
  have e4 : ((sortSKeys P).map (·.key)).Nodup ↔ (P.map (·.key)).Nodup := ((sortSKeys_perm P).map _).nodup_iff
  by_cases hn : (P.map (·.key)).Nodup
  · have hL : L = sortSKeys P := by
      apply List.Perm.eq_of_pairwise (le := fun a b => keyLe a.key b.key = true) _ hsorted (sortSKeys_sorted P)
        (hperm.trans (sortSKeys_perm P).symm)
      intro a b ha hb hab hba
      have hkey : a.key = b.key := by
        rcases keyLe_iff.mp hab with h1 | h1
        · rcases keyLe_iff.mp hba with h2 | h2
          · exact absurd h2 (strcmp_lt_asymm h1)
          · exact h2.symm
        · exact h1
      exact eq_of_nodup_map' (·.key) P hn (hperm.mem_iff.mp ha) ((sortSKeys_perm P).mem_iff.mp hb) hkey
    rw [hL]
  · have n1 : ¬ NoAdjDup [] (L.map (·.key)) := fun x => hn (e3.mp (e1.mp x))
    have n2 : ¬ NoAdjDup [] ((sortSKeys P).map (·.key)) := fun x => hn (e4.mp (e2.mp x))
    simp [n1, n2]

end EaselModel.Ssi

namespace EaselModel.Ssi

/-- the same index after `activate_external_sort`: keys live in the tmp files -/
def NewSsi.toExternal (ns : NewSsi) : NewSsi :=
  { ns with ptmp := ns.pkeys.map pkeyLine, stmp := ns.skeys.map skeyLine, pkeys := [], skeys := [], external := true }

/-- what the external path additionally needs: key bytes sort above TAB and are not newlines (printable non-blank
    characters), alias targets are non-empty words without TAB/newline -/
structure NewSsi.ExtOK (ns : NewSsi) : Prop where
  pchars : ∀ k ∈ ns.pkeys, KeyChars k.key
  schars : ∀ a ∈ ns.skeys, KeyChars a.key ∧ a.pkey ≠ [] ∧ NoDelim a.pkey

theorem lineLe_eq_keyLe : lineLe = keyLe := rfl

theorem sortLines_sorted (l : List Bytes) : (sortLines l).Pairwise (fun a b => lineLe a b = true) :=
  List.pairwise_mergeSort (le := lineLe) (fun _ _ _ h1 h2 => by rw [lineLe_eq_keyLe] at *; exact keyLe_trans h1 h2)
    (fun a b => by rw [lineLe_eq_keyLe]; exact keyLe_total a b) l

theorem sortLines_perm (l : List Bytes) : (sortLines l).Perm l := List.mergeSort_perm l _

def unP (line : Bytes) : PKey := match parsePKey line with | .ok k => k | .error _ => default
def unS (line : Bytes) : SKey := match parseSKey line with | .ok k => k | .error _ => default

theorem pkeyLine_split (k : PKey) : ∃ x, pkeyLine k = k.key ++ 9 :: x :=
  ⟨decimal k.fnum ++ 9 :: (decimal k.roff ++ 9 :: (decimal k.doff ++ 9 :: decimal k.len)), by simp [pkeyLine, List.append_assoc]⟩

theorem skeyLine_split (k : SKey) : skeyLine k = k.key ++ 9 :: k.pkey := by simp [skeyLine]

theorem ext_psec {ns : NewSsi} (h : ns.WF) (hx : ns.ExtOK) :
    writePKeys parsePKey ns.plen (strncpy ns.plen []) (sortLines (ns.pkeys.map pkeyLine))
      = writePKeys (fun k => Except.ok k) ns.plen (strncpy ns.plen []) (sortPKeys ns.pkeys) := by
  have hline : ∀ k ∈ ns.pkeys, parsePKey (pkeyLine k) = .ok k := by
    intro k hk
    have w := h.pkey k hk
    exact parsePKey_line k w.1 (hx.pchars k hk).noDelim w.2.2.2.1 w.2.2.2.2.1 w.2.2.2.2.2.1 w.2.2.2.2.2.2
  have hun : ∀ k ∈ ns.pkeys, unP (pkeyLine k) = k := by
    intro k hk; simp [unP, hline k hk]
  have hmemS : ∀ x ∈ sortLines (ns.pkeys.map pkeyLine), ∃ k ∈ ns.pkeys, x = pkeyLine k := by
    intro x hxm
    have := (sortLines_perm _).mem_iff.mp hxm
    obtain ⟨k, hk, rfl⟩ := List.mem_map.mp this
    exact ⟨k, hk, rfl⟩
  have hget : ∀ x ∈ sortLines (ns.pkeys.map pkeyLine), parsePKey x = .ok (unP x) := by
    intro x hxm
    obtain ⟨k, hk, rfl⟩ := hmemS x hxm
    rw [hun k hk, hline k hk]
  rw [writePKeys_map parsePKey unP _ _ _ hget]
  apply writePKeys_any_sorted ns.plen ns.pkeys
  · have p1 : ((sortLines (ns.pkeys.map pkeyLine)).map unP).Perm ((ns.pkeys.map pkeyLine).map unP) :=
      (sortLines_perm _).map unP
    have p2 : (ns.pkeys.map pkeyLine).map unP = ns.pkeys := by
      rw [List.map_map]
      conv => rhs; rw [← List.map_id ns.pkeys]
      exact List.map_congr_left (fun k hk => by simp [hun k hk])
    rw [p2] at p1
    exact p1
  · rw [List.pairwise_map]
    apply List.Pairwise.imp_of_mem _ (sortLines_sorted _)
    intro a b ha hb hab
    obtain ⟨ka, hka, rfl⟩ := hmemS a ha
    obtain ⟨kb, hkb, rfl⟩ := hmemS b hb
    rw [hun ka hka, hun kb hkb]
    obtain ⟨xa, ea⟩ := pkeyLine_split ka
    obtain ⟨xb, eb⟩ := pkeyLine_split kb
    rw [ea, eb] at hab
    exact keyLe_of_lineLe _ _ _ _ (hx.pchars ka hka) hab
  · intro k hk
    have w := h.pkey k hk
    exact ⟨w.1, w.2.1, w.2.2.1⟩

theorem ext_ssec {ns : NewSsi} (h : ns.WF) (hx : ns.ExtOK) :
    writeSKeys parseSKey ns.plen ns.slen (strncpy ns.slen []) (sortLines (ns.skeys.map skeyLine))
      = writeSKeys (fun k => Except.ok k) ns.plen ns.slen (strncpy ns.slen []) (sortSKeys ns.skeys) := by
  have hline : ∀ k ∈ ns.skeys, parseSKey (skeyLine k) = .ok k := by
    intro k hk
    have w := h.skey k hk
    have c := hx.schars k hk
    exact parseSKey_line k w.1 c.1.noDelim c.2.1 c.2.2
  have hun : ∀ k ∈ ns.skeys, unS (skeyLine k) = k := by
    intro k hk; simp [unS, hline k hk]
  have hmemS : ∀ x ∈ sortLines (ns.skeys.map skeyLine), ∃ k ∈ ns.skeys, x = skeyLine k := by
    intro x hxm
    have := (sortLines_perm _).mem_iff.mp hxm
    obtain ⟨k, hk, rfl⟩ := List.mem_map.mp this
    exact ⟨k, hk, rfl⟩
  have hget : ∀ x ∈ sortLines (ns.skeys.map skeyLine), parseSKey x = .ok (unS x) := by
    intro x hxm
    obtain ⟨k, hk, rfl⟩ := hmemS x hxm
    rw [hun k hk, hline k hk]
  rw [writeSKeys_map parseSKey unS _ _ _ _ hget]
  apply writeSKeys_any_sorted ns.plen ns.slen ns.skeys
  · have p1 : ((sortLines (ns.skeys.map skeyLine)).map unS).Perm ((ns.skeys.map skeyLine).map unS) :=
      (sortLines_perm _).map unS
    have p2 : (ns.skeys.map skeyLine).map unS = ns.skeys := by
      rw [List.map_map]
      conv => rhs; rw [← List.map_id ns.skeys]
      exact List.map_congr_left (fun k hk => by simp [hun k hk])
    rw [p2] at p1
    exact p1
  · rw [List.pairwise_map]
    apply List.Pairwise.imp_of_mem _ (sortLines_sorted _)
    intro a b ha hb hab
    obtain ⟨ka, hka, rfl⟩ := hmemS a ha
    obtain ⟨kb, hkb, rfl⟩ := hmemS b hb
    rw [hun ka hka, hun kb hkb]
    rw [skeyLine_split ka, skeyLine_split kb] at hab
    exact keyLe_of_lineLe _ _ _ _ (hx.schars ka hka).1 hab
  · intro k hk
    exact h.skey k hk

/-- the sorted primary-key tmp file, parsed line by line: every line parses, and the parsed stream is a `strcmp`-sorted
    rearrangement of the keys -/
theorem ext_plines {ns : NewSsi} (h : ns.WF) (hx : ns.ExtOK) :
    (∀ x ∈ sortLines (ns.pkeys.map pkeyLine), parsePKey x = .ok (unP x)) ∧
    ((sortLines (ns.pkeys.map pkeyLine)).map unP).Perm ns.pkeys ∧
    ((sortLines (ns.pkeys.map pkeyLine)).map unP).Pairwise (fun a b => keyLe a.key b.key = true) := by
  have hline : ∀ k ∈ ns.pkeys, parsePKey (pkeyLine k) = .ok k := by
    intro k hk
    have w := h.pkey k hk
    exact parsePKey_line k w.1 (hx.pchars k hk).noDelim w.2.2.2.1 w.2.2.2.2.1 w.2.2.2.2.2.1 w.2.2.2.2.2.2
  have hun : ∀ k ∈ ns.pkeys, unP (pkeyLine k) = k := by
    intro k hk; simp [unP, hline k hk]
  have hmemS : ∀ x ∈ sortLines (ns.pkeys.map pkeyLine), ∃ k ∈ ns.pkeys, x = pkeyLine k := by
    intro x hxm
    have := (sortLines_perm _).mem_iff.mp hxm
    obtain ⟨k, hk, rfl⟩ := List.mem_map.mp this
    exact ⟨k, hk, rfl⟩
  refine ⟨?_, ?_, ?_⟩
  · intro x hxm
    obtain ⟨k, hk, rfl⟩ := hmemS x hxm
    rw [hun k hk, hline k hk]
  · have p1 : ((sortLines (ns.pkeys.map pkeyLine)).map unP).Perm ((ns.pkeys.map pkeyLine).map unP) :=
      (sortLines_perm _).map unP
    have p2 : (ns.pkeys.map pkeyLine).map unP = ns.pkeys := by
      rw [List.map_map]
      conv => rhs; rw [← List.map_id ns.pkeys]
      exact List.map_congr_left (fun k hk => by simp [hun k hk])
    rw [p2] at p1
    exact p1
  · rw [List.pairwise_map]
    apply List.Pairwise.imp_of_mem _ (sortLines_sorted _)
    intro a b ha hb hab
    obtain ⟨ka, hka, rfl⟩ := hmemS a ha
    obtain ⟨kb, hkb, rfl⟩ := hmemS b hb
    rw [hun ka hka, hun kb hkb]
    obtain ⟨xa, ea⟩ := pkeyLine_split ka
    obtain ⟨xb, eb⟩ := pkeyLine_split kb
    rw [ea, eb] at hab
    exact keyLe_of_lineLe _ _ _ _ (hx.pchars ka hka) hab

/-- the same for the alias tmp file -/
theorem ext_slines {ns : NewSsi} (h : ns.WF) (hx : ns.ExtOK) :
    (∀ x ∈ sortLines (ns.skeys.map skeyLine), parseSKey x = .ok (unS x)) ∧
    ((sortLines (ns.skeys.map skeyLine)).map unS).Perm ns.skeys ∧
    ((sortLines (ns.skeys.map skeyLine)).map unS).Pairwise (fun a b => keyLe a.key b.key = true) := by
  have hline : ∀ k ∈ ns.skeys, parseSKey (skeyLine k) = .ok k := by
    intro k hk
    have w := h.skey k hk
    have c := hx.schars k hk
    exact parseSKey_line k w.1 c.1.noDelim c.2.1 c.2.2
  have hun : ∀ k ∈ ns.skeys, unS (skeyLine k) = k := by
    intro k hk; simp [unS, hline k hk]
  have hmemS : ∀ x ∈ sortLines (ns.skeys.map skeyLine), ∃ k ∈ ns.skeys, x = skeyLine k := by
    intro x hxm
    have := (sortLines_perm _).mem_iff.mp hxm
    obtain ⟨k, hk, rfl⟩ := List.mem_map.mp this
    exact ⟨k, hk, rfl⟩
  refine ⟨?_, ?_, ?_⟩
  · intro x hxm
    obtain ⟨k, hk, rfl⟩ := hmemS x hxm
    rw [hun k hk, hline k hk]
  · have p1 : ((sortLines (ns.skeys.map skeyLine)).map unS).Perm ((ns.skeys.map skeyLine).map unS) :=
      (sortLines_perm _).map unS
    have p2 : (ns.skeys.map skeyLine).map unS = ns.skeys := by
      rw [List.map_map]
      conv => rhs; rw [← List.map_id ns.skeys]
      exact List.map_congr_left (fun k hk => by simp [hun k hk])
    rw [p2] at p1
    exact p1
  · rw [List.pairwise_map]
    apply List.Pairwise.imp_of_mem _ (sortLines_sorted _)
    intro a b ha hb hab
    obtain ⟨ka, hka, rfl⟩ := hmemS a ha
    obtain ⟨kb, hkb, rfl⟩ := hmemS b hb
    rw [hun ka hka, hun kb hkb]
    rw [skeyLine_split ka, skeyLine_split kb] at hab
    exact keyLe_of_lineLe _ _ _ _ (hx.schars ka hka).1 hab

/-- the merge pass over the two sorted tmp files answers like the merge pass over the two `qsort`ed arrays -/
theorem ext_cross {ns : NewSsi} (h : ns.WF) (hx : ns.ExtOK) :
    crossDup parsePKey parseSKey (sortLines (ns.pkeys.map pkeyLine)) (sortLines (ns.skeys.map skeyLine))
      = crossDup (fun k => Except.ok k) (fun k => Except.ok k) (sortPKeys ns.pkeys) (sortSKeys ns.skeys) := by
  obtain ⟨p1, p2, p3⟩ := ext_plines h hx
  obtain ⟨s1, s2, s3⟩ := ext_slines h hx
  rw [crossDup_map parsePKey unP parseSKey unS _ _ p1 s1]
  exact crossDup_any_sorted ns.pkeys _ ns.skeys _ p2 s2 p3 s3

/-- **internal bytes = external bytes**: `Write` after the switch to the on-disk sort returns the same status and
    emits the same file as `Write` of the in-memory index, duplicates included -/
theorem writeBytes_toExternal (ns : NewSsi) (h : ns.WF) (hx : ns.ExtOK) : ns.toExternal.writeBytes = ns.writeBytes := by
  unfold NewSsi.writeBytes
  simp only [NewSsi.toExternal, h.internal, ↓reduceIte, Bool.false_eq_true, ext_psec h hx, ext_ssec h hx, ext_cross h hx]
  rfl

/-- status and file left by `Write` are the same after the switch -/
theorem write_toExternal (ns : NewSsi) (h : ns.WF) (hx : ns.ExtOK) (cur : Option Bytes) :
    (ns.toExternal.write cur).2 = (ns.write cur).2 := by
  have hw := writeBytes_toExternal ns h hx
  unfold NewSsi.write
  rw [hw]
  simp only [NewSsi.toExternal]
  by_cases c1 : ns.nsecondary > 0 ∧ ns.slen = 0
  · simp only [c1, and_self, ↓reduceIte]
  · by_cases c2 : ns.written = true
    · simp only [c1, c2, ↓reduceIte]
    · simp only [c1, c2, ↓reduceIte]
      cases ns.writeBytes <;> rfl

end EaselModel.Ssi
