import EaselModel.Ssi.Writer
/-! # Lemmas about the SSI model, part 4: reopening the written image (`esl_ssi_Open`, lookups). -/
namespace EaselModel.Ssi

@[simp] theorem enc16_length (n : Nat) : (enc16 n).length = 2 := hton_length 2 n (by simp)
@[simp] theorem enc32_length (n : Nat) : (enc32 n).length = 4 := hton_length 4 n (by simp)
@[simp] theorem enc64_length (n : Nat) : (enc64 n).length = 8 := hton_length 8 n (by simp)

theorem header_eq (ns : NewSsi) :
    ns.header = encAll [4, 4, 4] [V30MAGIC, 0, 8] ++
      encAll [2, 8, 8, 4, 4, 4, 4, 4, 4, 8, 8, 8]
        [ns.nfiles, ns.nprimary, ns.nsecondary, ns.flen, ns.plen, ns.slen, frecsizeOf ns.flen, precsizeOf ns.plen,
         ns.slen + ns.plen, HDRSIZE, HDRSIZE + frecsizeOf ns.flen * ns.nfiles,
         HDRSIZE + frecsizeOf ns.flen * ns.nfiles + precsizeOf ns.plen * ns.nprimary] := by
  simp [NewSsi.header, encAll, enc16, enc32, enc64, List.append_assoc]

theorem header_length (ns : NewSsi) : ns.header.length = 78 := by
  simp [NewSsi.header]

theorem fileRecord_eq (flen : Nat) (f : FileRec) :
    fileRecord flen f = strncpy flen f.name ++ encAll [4, 4, 4, 4] [f.fmt, if f.bpl > 0 ∧ f.rpl > 0 then 1 else 0, f.bpl, f.rpl] ++ [] := by
  simp [fileRecord, encAll, enc32, List.append_assoc]

theorem fileRecord_length (flen : Nat) (f : FileRec) (h : f.name.length ≤ flen) : (fileRecord flen f).length = 16 + flen := by
  simp [fileRecord, strncpy_length flen f.name]; omega

theorem precOf_eq (plen : Nat) (k : PKey) :
    precOf plen k = strncpy plen k.key ++ encAll [2, 8, 8, 8] [k.fnum, k.roff, k.doff, k.len] ++ [] := by
  simp [precOf, pkeyRecord, encAll, enc16, enc64, List.append_assoc]

theorem precOf_length (plen : Nat) (k : PKey) (h : k.key.length ≤ plen) : (precOf plen k).length = 26 + plen := by
  simp [precOf, pkeyRecord, strncpy_length plen k.key]; omega

theorem srecOf_length (plen slen : Nat) (k : SKey) :
    (srecOf plen slen k).length = slen + plen := by
  simp [srecOf, strncpy_length slen k.key, strncpy_length plen k.pkey]

def toSsiFile (flen : Nat) (f : FileRec) : SsiFile :=
  { name := strncpy flen f.name, format := f.fmt, flags := if f.bpl > 0 ∧ f.rpl > 0 then 1 else 0, bpl := f.bpl, rpl := f.rpl }

/-- the `ESL_SSI` that `esl_ssi_Open` builds from the image of `ns` -/
def NewSsi.opened (ns : NewSsi) : Ssi :=
  { data := ns.image.toArray, flags := 0, offsz := 8, nfiles := ns.files.length, nprimary := ns.pkeys.length,
    nsecondary := ns.skeys.length, flen := ns.flen, plen := ns.plen, slen := ns.slen,
    frecsize := 16 + ns.flen, precsize := 26 + ns.plen, srecsize := ns.slen + ns.plen,
    foffset := 78, poffset := 78 + (16 + ns.flen) * ns.files.length,
    soffset := 78 + (16 + ns.flen) * ns.files.length + (26 + ns.plen) * ns.pkeys.length,
    files := ns.files.map (toSsiFile ns.flen) }

theorem fchunks_len {ns : NewSsi} (h : ns.WF) : ∀ c ∈ ns.files.map (fileRecord ns.flen), c.length = 16 + ns.flen := by
  intro c hc
  obtain ⟨f, hf, rfl⟩ := List.mem_map.mp hc
  exact fileRecord_length _ _ (by have := (h.fname f hf).2.1; omega)

theorem pchunks_len {ns : NewSsi} (h : ns.WF) : ∀ c ∈ (sortPKeys ns.pkeys).map (precOf ns.plen), c.length = 26 + ns.plen := by
  intro c hc
  obtain ⟨k, hk, rfl⟩ := List.mem_map.mp hc
  have := h.pkey k ((sortPKeys_perm ns.pkeys).mem_iff.mp hk)
  exact precOf_length _ _ (by omega)

theorem schunks_len {ns : NewSsi} (h : ns.WF) :
    ∀ c ∈ (sortSKeys ns.skeys).map (srecOf ns.plen ns.slen), c.length = ns.slen + ns.plen := by
  intro c hc
  obtain ⟨k, hk, rfl⟩ := List.mem_map.mp hc
  exact srecOf_length _ _ _

theorem fsec_length {ns : NewSsi} (h : ns.WF) : ns.fsec.length = (16 + ns.flen) * ns.files.length := by
  unfold NewSsi.fsec
  rw [flatten_length_uniform _ _ (fchunks_len h)]
  simp [Nat.mul_comm]

theorem psec_length {ns : NewSsi} (h : ns.WF) : ns.psec.length = (26 + ns.plen) * ns.pkeys.length := by
  unfold NewSsi.psec
  rw [flatten_length_uniform _ _ (pchunks_len h)]
  simp [Nat.mul_comm, (sortPKeys_perm ns.pkeys).length_eq]

/-- the file records of the image, as `esl_ssi_Open` reads them -/
theorem openFiles_image {ns : NewSsi} (h : ns.WF) (n i : Nat) (hni : i + n = ns.files.length) :
    openFiles ns.image.toArray ns.flen (16 + ns.flen) 78 n i = .ok ((ns.files.drop i).map (toSsiFile ns.flen)) := by
  induction n generalizing i with
  | zero =>
    have : ns.files.length ≤ i := by omega
    simp [openFiles, List.drop_of_length_le this]
  | succ n ih =>
    have hi : i < ns.files.length := by omega
    have hfl : ns.flen ≠ 0 := by have := WF.flen_pos h; omega
    have hfl2 := h.flen_lt
    have hnf := h.nfiles
    have hmod : (i * (16 + ns.flen)) % 4294967296 = i * (16 + ns.flen) := by
      apply Nat.mod_eq_of_lt
      calc i * (16 + ns.flen) < 32768 * 65552 := by
            apply Nat.mul_lt_mul'' <;> omega
        _ < 4294967296 := by decide
    have himg : ns.image = ns.header ++ (ns.files.map (fileRecord ns.flen)).flatten ++ (ns.psec ++ ns.ssec) := by
      simp [NewSsi.image, NewSsi.fsec, List.append_assoc]
    have hi' : i < (ns.files.map (fileRecord ns.flen)).length := by simpa using hi
    have hci : (ns.files.map (fileRecord ns.flen))[i] = fileRecord ns.flen ns.files[i] := by simp
    have hfi := h.fname ns.files[i] (List.getElem_mem hi)
    have hnl : (strncpy ns.flen ns.files[i].name).length = ns.flen := strncpy_length _ _
    have hname : readAt ns.image.toArray (78 + i * (16 + ns.flen)) ns.flen = some (strncpy ns.flen ns.files[i].name) := by
      rw [himg]
      apply readAt_in_chunk ns.header _ _ (16 + ns.flen) i (fchunks_len h) hi' [] (strncpy ns.flen ns.files[i].name)
        (encAll [4, 4, 4, 4] [ns.files[i].fmt, if ns.files[i].bpl > 0 ∧ ns.files[i].rpl > 0 then 1 else 0, ns.files[i].bpl, ns.files[i].rpl] ++ [])
      · rw [hci, fileRecord_eq]; simp [List.append_assoc]
      · intro hnil; rw [hnil] at hnl; simp at hnl; omega
      · simp [header_length]
      · exact hnl.symm
    have hflds : readFields ns.image.toArray (78 + i * (16 + ns.flen) + ns.flen) [4, 4, 4, 4]
        = some [ns.files[i].fmt, if ns.files[i].bpl > 0 ∧ ns.files[i].rpl > 0 then 1 else 0, ns.files[i].bpl, ns.files[i].rpl] := by
      rw [himg]
      rw [readFields_in_chunk ns.header _ _ (16 + ns.flen) i (fchunks_len h) hi' (strncpy ns.flen ns.files[i].name) []
        [4, 4, 4, 4] [ns.files[i].fmt, if ns.files[i].bpl > 0 ∧ ns.files[i].rpl > 0 then 1 else 0, ns.files[i].bpl, ns.files[i].rpl]
        (by rw [hci, fileRecord_eq]) rfl (by intro w hw; simp at hw; omega) _ (by simp [header_length, hnl])]
      have h1 : ns.files[i].fmt % 256 ^ 4 = ns.files[i].fmt := Nat.mod_eq_of_lt (by have := hfi.2.2.1; omega)
      have h2 : ns.files[i].bpl % 256 ^ 4 = ns.files[i].bpl := Nat.mod_eq_of_lt (by have := hfi.2.2.2.1; omega)
      have h3 : ns.files[i].rpl % 256 ^ 4 = ns.files[i].rpl := Nat.mod_eq_of_lt (by have := hfi.2.2.2.2; omega)
      simp only [List.zipWith_cons_cons, List.zipWith_nil_left, h1, h2, h3]
      split <;> simp
    rw [openFiles]
    simp only [hfl, ↓reduceIte, hmod, hname, hflds]
    rw [ih (i + 1) (by omega)]
    simp only [List.drop_eq_getElem_cons hi, List.map_cons, toSsiFile]

end EaselModel.Ssi

namespace EaselModel.Ssi

theorem nfiles_eq (ns : NewSsi) : ns.nfiles = ns.files.length := rfl

/-- `esl_ssi_Open` of the written image succeeds and recovers the record geometry and the file table -/
theorem open_image {ns : NewSsi} (h : ns.WF) : Ssi.open ns.image.toArray = .ok ns.opened := by
  have hnf := h.nfiles
  have hfl := h.flen_lt
  have hpl := h.plen_lt
  have hsl := h.slen_lt
  have hnp := h.np_lt
  have hns := h.nsec_lt
  have hfne : ns.files.length ≠ 0 := by
    intro h0; exact h.files_ne (List.length_eq_zero_iff.mp h0)
  have himg : ns.image = [] ++ encAll [4, 4, 4] [V30MAGIC, 0, 8] ++
      (encAll [2, 8, 8, 4, 4, 4, 4, 4, 4, 8, 8, 8]
        [ns.nfiles, ns.nprimary, ns.nsecondary, ns.flen, ns.plen, ns.slen, frecsizeOf ns.flen, precsizeOf ns.plen,
         ns.slen + ns.plen, HDRSIZE, HDRSIZE + frecsizeOf ns.flen * ns.nfiles,
         HDRSIZE + frecsizeOf ns.flen * ns.nfiles + precsizeOf ns.plen * ns.nprimary] ++ ns.fsec ++ ns.psec ++ ns.ssec) := by
    simp [NewSsi.image, header_eq, List.append_assoc]
  have himg2 : ns.image = encAll [4, 4, 4] [V30MAGIC, 0, 8] ++
      encAll [2, 8, 8, 4, 4, 4, 4, 4, 4, 8, 8, 8]
        [ns.nfiles, ns.nprimary, ns.nsecondary, ns.flen, ns.plen, ns.slen, frecsizeOf ns.flen, precsizeOf ns.plen,
         ns.slen + ns.plen, HDRSIZE, HDRSIZE + frecsizeOf ns.flen * ns.nfiles,
         HDRSIZE + frecsizeOf ns.flen * ns.nfiles + precsizeOf ns.plen * ns.nprimary] ++ (ns.fsec ++ ns.psec ++ ns.ssec) := by
    simp [NewSsi.image, header_eq, List.append_assoc]
  have h1 : readFields ns.image.toArray 0 [4, 4, 4] = some [V30MAGIC, 0, 8] := by
    rw [readFields_locate ns.image [] _ [4, 4, 4] [V30MAGIC, 0, 8] 0 himg rfl rfl (by intro w hw; simp at hw; omega)]
    simp [V30MAGIC]
  have hpre : (encAll [4, 4, 4] [V30MAGIC, 0, 8]).length = 12 := by
    simp [encAll, hton_length]
  have hprod1 : (16 + ns.flen) * ns.files.length < 32768 * 65552 := by
    rw [Nat.mul_comm]; apply Nat.mul_lt_mul'' <;> omega
  have hprod2 : (26 + ns.plen) * ns.pkeys.length < 65562 * 2 ^ 40 := by
    apply Nat.mul_lt_mul'' <;> omega
  have h2 : readFields ns.image.toArray 12 [2, 8, 8, 4, 4, 4, 4, 4, 4, 8, 8, 8] =
      some [ns.files.length, ns.pkeys.length, ns.skeys.length, ns.flen, ns.plen, ns.slen, 16 + ns.flen, 26 + ns.plen,
            ns.slen + ns.plen, 78, 78 + (16 + ns.flen) * ns.files.length,
            78 + (16 + ns.flen) * ns.files.length + (26 + ns.plen) * ns.pkeys.length] := by
    rw [readFields_locate ns.image _ _ _ _ 12 himg2 hpre.symm rfl (by intro w hw; simp at hw; omega)]
    simp only [List.zipWith_cons_cons, List.zipWith_nil_left, nfiles_eq, h.nprimary, h.nsecondary, frecsizeOf,
      precsizeOf, HDRSIZE]
    have e1 : ns.files.length % 256 ^ 2 = ns.files.length := Nat.mod_eq_of_lt (by omega)
    have e2 : ns.pkeys.length % 256 ^ 8 = ns.pkeys.length := Nat.mod_eq_of_lt (by omega)
    have e3 : ns.skeys.length % 256 ^ 8 = ns.skeys.length := Nat.mod_eq_of_lt (by omega)
    have e4 : ns.flen % 256 ^ 4 = ns.flen := Nat.mod_eq_of_lt (by omega)
    have e5 : ns.plen % 256 ^ 4 = ns.plen := Nat.mod_eq_of_lt (by omega)
    have e6 : ns.slen % 256 ^ 4 = ns.slen := Nat.mod_eq_of_lt (by omega)
    have e7 : (16 + ns.flen) % 256 ^ 4 = 16 + ns.flen := Nat.mod_eq_of_lt (by omega)
    have e8 : (26 + ns.plen) % 256 ^ 4 = 26 + ns.plen := Nat.mod_eq_of_lt (by omega)
    have e9 : (ns.slen + ns.plen) % 256 ^ 4 = ns.slen + ns.plen := Nat.mod_eq_of_lt (by omega)
    have e10 : 78 % 256 ^ 8 = 78 := by decide
    have e11 : (78 + (16 + ns.flen) * ns.files.length) % 256 ^ 8 = 78 + (16 + ns.flen) * ns.files.length :=
      Nat.mod_eq_of_lt (by omega)
    have e12 : (78 + (16 + ns.flen) * ns.files.length + (26 + ns.plen) * ns.pkeys.length) % 256 ^ 8
        = 78 + (16 + ns.flen) * ns.files.length + (26 + ns.plen) * ns.pkeys.length :=
      Nat.mod_eq_of_lt (by omega)
    rw [e1, e2, e3, e4, e5, e6, e7, e8, e9, e10, e11, e12]
  have h3 := openFiles_image h ns.files.length 0 (by omega)
  unfold Ssi.open
  simp only [h1, h2]
  simp [V30MAGIC, hfne, h3, NewSsi.opened]

end EaselModel.Ssi

namespace EaselModel.Ssi

theorem eq_of_nodup_map {α β : Type} (f : α → β) (l : List α) (hn : (l.map f).Nodup) {x y : α} (hx : x ∈ l) (hy : y ∈ l)
    (hxy : f x = f y) : x = y := by
  induction l with
  | nil => cases hx
  | cons a as ih =>
    rw [List.map_cons, List.nodup_cons] at hn
    rcases List.mem_cons.mp hx with rfl | hx' <;> rcases List.mem_cons.mp hy with rfl | hy'
    · rfl
    · exact absurd (List.mem_map.mpr ⟨y, hy', hxy.symm⟩) hn.1
    · exact absurd (List.mem_map.mpr ⟨x, hx', hxy⟩) hn.1
    · exact ih hn.2 hx' hy'

/-- `binary_search` over a section of fixed-width records that holds the strictly sorted `keys` -/
theorem bsearch_section (d : Array UInt8) (keys : List Bytes) (klen base recsize : Nat)
    (hr : ReadsKeys (rdNameAt d klen base recsize) keys) (hs : StrictSorted keys) (hk : keys ≠ [] → klen ≠ 0) (key : Bytes) :
    (∃ j, ∃ h : j < keys.length, keys[j] = key ∧
        bsearch d key klen base recsize keys.length = .ok (base + recsize * j + klen)) ∨
    (key ∉ keys ∧ bsearch d key klen base recsize keys.length = .error .enotfound) := by
  unfold bsearch
  by_cases h0 : keys.length = 0
  · right
    have : keys = [] := List.length_eq_zero_iff.mp h0
    subst this
    simp
  · have hne : keys ≠ [] := fun h => h0 (by simp [h])
    simp only [h0, ↓reduceIte, hk hne]
    rcases bsearchLoop_correct _ keys key hr hs (by omega) with ⟨j, hj, hkj, hres⟩ | ⟨habs, hres⟩
    · left; exact ⟨j, hj, hkj, by simp [hres]⟩
    · right; exact ⟨habs, by simp [hres]⟩

section image
variable {ns : NewSsi} (h : ns.WF)
include h

theorem image_p : ns.image = (ns.header ++ ns.fsec) ++ ((sortPKeys ns.pkeys).map (precOf ns.plen)).flatten ++ ns.ssec := by
  simp [NewSsi.image, NewSsi.psec]

theorem image_s : ns.image = (ns.header ++ ns.fsec ++ ns.psec) ++ ((sortSKeys ns.skeys).map (srecOf ns.plen ns.slen)).flatten ++ [] := by
  simp [NewSsi.image, NewSsi.ssec]

theorem pre_p_length : (ns.header ++ ns.fsec).length = 78 + (16 + ns.flen) * ns.files.length := by
  simp [header_length, fsec_length h]

theorem pre_s_length : (ns.header ++ ns.fsec ++ ns.psec).length
    = 78 + (16 + ns.flen) * ns.files.length + (26 + ns.plen) * ns.pkeys.length := by
  simp [header_length, fsec_length h, psec_length h]; omega

theorem sortP_len : (sortPKeys ns.pkeys).length = ns.pkeys.length := (sortPKeys_perm ns.pkeys).length_eq
theorem sortS_len : (sortSKeys ns.skeys).length = ns.skeys.length := (sortSKeys_perm ns.skeys).length_eq

theorem sortP_mem {k : PKey} (hk : k ∈ sortPKeys ns.pkeys) : k ∈ ns.pkeys := (sortPKeys_perm ns.pkeys).mem_iff.mp hk
theorem sortS_mem {k : SKey} (hk : k ∈ sortSKeys ns.skeys) : k ∈ ns.skeys := (sortSKeys_perm ns.skeys).mem_iff.mp hk

/-- the key field of primary record `i` -/
theorem read_pname (i : Nat) (hi : i < (sortPKeys ns.pkeys).length) :
    readAt ns.image.toArray (78 + (16 + ns.flen) * ns.files.length + (26 + ns.plen) * i) ns.plen
      = some (strncpy ns.plen (sortPKeys ns.pkeys)[i].key) := by
  have hk := h.pkey _ (sortP_mem h (List.getElem_mem hi))
  have hnl : (strncpy ns.plen (sortPKeys ns.pkeys)[i].key).length = ns.plen := strncpy_length _ _
  rw [image_p h]
  apply readAt_in_chunk _ _ _ (26 + ns.plen) i (pchunks_len h) (by simpa using hi) []
    (strncpy ns.plen (sortPKeys ns.pkeys)[i].key)
    (encAll [2, 8, 8, 8] [(sortPKeys ns.pkeys)[i].fnum, (sortPKeys ns.pkeys)[i].roff, (sortPKeys ns.pkeys)[i].doff,
      (sortPKeys ns.pkeys)[i].len] ++ [])
  · rw [List.getElem_map, precOf_eq]; simp [List.append_assoc]
  · intro hnil; rw [hnil] at hnl; simp at hnl; omega
  · rw [pre_p_length h]; simp [Nat.mul_comm]
  · exact hnl.symm

/-- the four numbers of primary record `i` -/
theorem read_phit (i : Nat) (hi : i < (sortPKeys ns.pkeys).length) :
    readFields ns.image.toArray (78 + (16 + ns.flen) * ns.files.length + (26 + ns.plen) * i + ns.plen) [2, 8, 8, 8]
      = some [(sortPKeys ns.pkeys)[i].fnum, (sortPKeys ns.pkeys)[i].roff, (sortPKeys ns.pkeys)[i].doff,
              (sortPKeys ns.pkeys)[i].len] := by
  have hk := h.pkey _ (sortP_mem h (List.getElem_mem hi))
  have hnl : (strncpy ns.plen (sortPKeys ns.pkeys)[i].key).length = ns.plen := strncpy_length _ _
  rw [image_p h]
  rw [readFields_in_chunk _ _ _ (26 + ns.plen) i (pchunks_len h) (by simpa using hi)
    (strncpy ns.plen (sortPKeys ns.pkeys)[i].key) []
    [2, 8, 8, 8] [(sortPKeys ns.pkeys)[i].fnum, (sortPKeys ns.pkeys)[i].roff, (sortPKeys ns.pkeys)[i].doff,
      (sortPKeys ns.pkeys)[i].len]
    (by rw [List.getElem_map, precOf_eq]) rfl (by intro w hw; simp at hw; omega) _
    (by rw [pre_p_length h, hnl]; simp [Nat.mul_comm])]
  have e1 : (sortPKeys ns.pkeys)[i].fnum % 256 ^ 2 = (sortPKeys ns.pkeys)[i].fnum := Nat.mod_eq_of_lt (by omega)
  have e2 : (sortPKeys ns.pkeys)[i].roff % 256 ^ 8 = (sortPKeys ns.pkeys)[i].roff := Nat.mod_eq_of_lt (by omega)
  have e3 : (sortPKeys ns.pkeys)[i].doff % 256 ^ 8 = (sortPKeys ns.pkeys)[i].doff := Nat.mod_eq_of_lt (by omega)
  have e4 : (sortPKeys ns.pkeys)[i].len % 256 ^ 8 = (sortPKeys ns.pkeys)[i].len := Nat.mod_eq_of_lt (by omega)
  simp only [List.zipWith_cons_cons, List.zipWith_nil_left, e1, e2, e3, e4]

/-- the alias field of secondary record `i` -/
theorem read_sname (i : Nat) (hi : i < (sortSKeys ns.skeys).length) :
    readAt ns.image.toArray
      (78 + (16 + ns.flen) * ns.files.length + (26 + ns.plen) * ns.pkeys.length + (ns.slen + ns.plen) * i) ns.slen
      = some (strncpy ns.slen (sortSKeys ns.skeys)[i].key) := by
  have hk := h.skey _ (sortS_mem h (List.getElem_mem hi))
  have hnl : (strncpy ns.slen (sortSKeys ns.skeys)[i].key).length = ns.slen := strncpy_length _ _
  rw [image_s h]
  apply readAt_in_chunk _ _ _ (ns.slen + ns.plen) i (schunks_len h) (by simpa using hi) []
    (strncpy ns.slen (sortSKeys ns.skeys)[i].key) (strncpy ns.plen (sortSKeys ns.skeys)[i].pkey)
  · rw [List.getElem_map]; simp [srecOf]
  · intro hnil; rw [hnil] at hnl; simp at hnl; omega
  · rw [pre_s_length h]; simp [Nat.mul_comm]
  · exact hnl.symm

/-- the primary-key field of secondary record `i` -/
theorem read_spkey (i : Nat) (hi : i < (sortSKeys ns.skeys).length) (hpl : ns.plen ≠ 0) :
    readAt ns.image.toArray
      (78 + (16 + ns.flen) * ns.files.length + (26 + ns.plen) * ns.pkeys.length + (ns.slen + ns.plen) * i + ns.slen) ns.plen
      = some (strncpy ns.plen (sortSKeys ns.skeys)[i].pkey) := by
  have hk := h.skey _ (sortS_mem h (List.getElem_mem hi))
  have hnl : (strncpy ns.slen (sortSKeys ns.skeys)[i].key).length = ns.slen := strncpy_length _ _
  have hnl2 : (strncpy ns.plen (sortSKeys ns.skeys)[i].pkey).length = ns.plen := strncpy_length _ _
  rw [image_s h]
  apply readAt_in_chunk _ _ _ (ns.slen + ns.plen) i (schunks_len h) (by simpa using hi)
    (strncpy ns.slen (sortSKeys ns.skeys)[i].key) (strncpy ns.plen (sortSKeys ns.skeys)[i].pkey) []
  · rw [List.getElem_map]; simp [srecOf]
  · intro hnil; rw [hnil] at hnl2; simp at hnl2; omega
  · rw [pre_s_length h, hnl]; simp [Nat.mul_comm]
  · exact hnl2.symm

end image

end EaselModel.Ssi

namespace EaselModel.Ssi

def hitOf (k : PKey) : Hit := { fh := k.fnum, roff := k.roff, doff := k.doff, len := k.len }

section lookups
variable {ns : NewSsi} (h : ns.WF) (hd : ns.Distinct)
include h hd

theorem pkeys_strict : StrictSorted ((sortPKeys ns.pkeys).map (·.key)) := by
  rw [strictSorted_iff_nodup _ (List.pairwise_map.mpr (sortPKeys_sorted ns.pkeys))]
  exact ((sortPKeys_perm ns.pkeys).map _).nodup_iff.mpr hd.1

theorem skeys_strict : StrictSorted ((sortSKeys ns.skeys).map (·.key)) := by
  rw [strictSorted_iff_nodup _ (List.pairwise_map.mpr (sortSKeys_sorted ns.skeys))]
  exact ((sortSKeys_perm ns.skeys).map _).nodup_iff.mpr hd.2.1

omit hd in
theorem reads_pkeys : ReadsKeys (rdNameAt ns.image.toArray ns.plen (78 + (16 + ns.flen) * ns.files.length) (26 + ns.plen))
    ((sortPKeys ns.pkeys).map (·.key)) := by
  intro i hi
  have hi' : i < (sortPKeys ns.pkeys).length := by simpa using hi
  have hk := h.pkey _ (sortP_mem h (List.getElem_mem hi'))
  unfold rdNameAt
  rw [read_pname h i hi']
  simp only [cstr_strncpy _ _ hk.2.1 hk.2.2.1]
  simp

omit hd in
theorem reads_skeys : ReadsKeys (rdNameAt ns.image.toArray ns.slen
      (78 + (16 + ns.flen) * ns.files.length + (26 + ns.plen) * ns.pkeys.length) (ns.slen + ns.plen))
    ((sortSKeys ns.skeys).map (·.key)) := by
  intro i hi
  have hi' : i < (sortSKeys ns.skeys).length := by simpa using hi
  have hk := h.skey _ (sortS_mem h (List.getElem_mem hi'))
  unfold rdNameAt
  rw [read_sname h i hi']
  simp only [cstr_strncpy _ _ hk.2.1 hk.2.2]
  simp

/-- the primary-key search of `FindName` on the image -/
theorem bsearch_primary (key : Bytes) :
    (∃ k ∈ ns.pkeys, k.key = key ∧ ∃ pos,
        bsearch ns.image.toArray key ns.plen (78 + (16 + ns.flen) * ns.files.length) (26 + ns.plen) ns.pkeys.length = .ok pos ∧
        readHit ns.opened pos = .ok (hitOf k)) ∨
    ((∀ k ∈ ns.pkeys, k.key ≠ key) ∧
        bsearch ns.image.toArray key ns.plen (78 + (16 + ns.flen) * ns.files.length) (26 + ns.plen) ns.pkeys.length
          = .error .enotfound) := by
  have hkl : (sortPKeys ns.pkeys).map (·.key) ≠ [] → ns.plen ≠ 0 := by
    intro hne
    obtain ⟨x, hx⟩ := List.exists_mem_of_ne_nil _ hne
    obtain ⟨k, hk, _⟩ := List.mem_map.mp hx
    have := (h.pkey k (sortP_mem h hk)).2.2.1
    omega
  have hlen : ((sortPKeys ns.pkeys).map (·.key)).length = ns.pkeys.length := by simp [sortP_len h]
  have := bsearch_section ns.image.toArray _ ns.plen (78 + (16 + ns.flen) * ns.files.length) (26 + ns.plen)
    (reads_pkeys h) (pkeys_strict h hd) hkl key
  rcases this with ⟨j, hj, hkj, hres⟩ | ⟨habs, hres⟩ <;> rw [hlen] at hres
  · left
    have hj' : j < (sortPKeys ns.pkeys).length := by simpa using hj
    refine ⟨(sortPKeys ns.pkeys)[j], sortP_mem h (List.getElem_mem hj'), by simpa using hkj, _, hres, ?_⟩
    unfold readHit
    simp only [NewSsi.opened]
    rw [read_phit h j hj']
    rfl
  · right
    refine ⟨?_, hres⟩
    intro k hk hkey
    apply habs
    exact List.mem_map.mpr ⟨k, (sortPKeys_perm ns.pkeys).mem_iff.mpr hk, hkey⟩

/-- the secondary-key search of `FindName` on the image -/
theorem bsearch_secondary (key : Bytes) :
    (∃ a ∈ ns.skeys, a.key = key ∧ ∃ pos,
        bsearch ns.image.toArray key ns.slen (78 + (16 + ns.flen) * ns.files.length + (26 + ns.plen) * ns.pkeys.length)
          (ns.slen + ns.plen) ns.skeys.length = .ok pos ∧
        (ns.plen ≠ 0 → readAt ns.image.toArray pos ns.plen = some (strncpy ns.plen a.pkey))) ∨
    ((∀ a ∈ ns.skeys, a.key ≠ key) ∧
        bsearch ns.image.toArray key ns.slen (78 + (16 + ns.flen) * ns.files.length + (26 + ns.plen) * ns.pkeys.length)
          (ns.slen + ns.plen) ns.skeys.length = .error .enotfound) := by
  have hkl : (sortSKeys ns.skeys).map (·.key) ≠ [] → ns.slen ≠ 0 := by
    intro hne
    obtain ⟨x, hx⟩ := List.exists_mem_of_ne_nil _ hne
    obtain ⟨k, hk, _⟩ := List.mem_map.mp hx
    have := (h.skey k (sortS_mem h hk)).2.2
    omega
  have hlen : ((sortSKeys ns.skeys).map (·.key)).length = ns.skeys.length := by simp [sortS_len h]
  have := bsearch_section ns.image.toArray _ ns.slen
    (78 + (16 + ns.flen) * ns.files.length + (26 + ns.plen) * ns.pkeys.length) (ns.slen + ns.plen)
    (reads_skeys h) (skeys_strict h hd) hkl key
  rcases this with ⟨j, hj, hkj, hres⟩ | ⟨habs, hres⟩ <;> rw [hlen] at hres
  · left
    have hj' : j < (sortSKeys ns.skeys).length := by simpa using hj
    exact ⟨(sortSKeys ns.skeys)[j], sortS_mem h (List.getElem_mem hj'), by simpa using hkj, _, hres,
      fun hpl => read_spkey h j hj' hpl⟩
  · right
    refine ⟨?_, hres⟩
    intro k hk hkey
    apply habs
    exact List.mem_map.mpr ⟨k, (sortSKeys_perm ns.skeys).mem_iff.mpr hk, hkey⟩

/-- `FindName` of a stored primary key returns its record (any fuel ≥ 1) -/
theorem findName_primary (k : PKey) (hk : k ∈ ns.pkeys) (fuel : Nat) :
    ns.opened.findNameAux (fuel + 1) k.key = .ok (hitOf k) := by
  rcases bsearch_primary h hd k.key with ⟨k', hk', hkey, pos, hb, hr⟩ | ⟨habs, _⟩
  · have : k' = k := eq_of_nodup_map (·.key) ns.pkeys hd.1 hk' hk hkey
    subst this
    simp only [Ssi.findNameAux, NewSsi.opened] at hb ⊢
    rw [hb]
    exact hr
  · exact absurd rfl (habs k hk)

/-- `FindName` of a string that is neither a primary key nor an alias: `eslENOTFOUND` -/
theorem findName_absent (key : Bytes) (hp : ∀ k ∈ ns.pkeys, k.key ≠ key) (hs : ∀ a ∈ ns.skeys, a.key ≠ key) (fuel : Nat) :
    ns.opened.findNameAux (fuel + 1) key = .error .enotfound := by
  rcases bsearch_primary h hd key with ⟨k', hk', hkey, _⟩ | ⟨_, hb⟩
  · exact absurd hkey (hp k' hk')
  · simp only [Ssi.findNameAux, NewSsi.opened] at hb ⊢
    rw [hb]
    by_cases hn : ns.skeys.length > 0
    · simp only [hn, ↓reduceIte]
      rcases bsearch_secondary h hd key with ⟨a, ha, hkey, _⟩ | ⟨_, hb2⟩
      · exact absurd hkey (hs a ha)
      · rw [hb2]
    · simp [hn]

/-- `FindName` of an alias whose target is a stored primary key returns the target's record (the alias is not itself
    a primary key: `Write` reports that as a duplicate) -/
theorem findName_alias (a : SKey) (ha : a ∈ ns.skeys)
    (k : PKey) (hk : k ∈ ns.pkeys) (hak : a.pkey = k.key) (fuel : Nat) :
    ns.opened.findNameAux (fuel + 2) a.key = .ok (hitOf k) := by
  have hnp : ∀ k ∈ ns.pkeys, k.key ≠ a.key := fun k' hk' => hd.2.2 k' hk' a ha
  rcases bsearch_primary h hd a.key with ⟨k', hk', hkey, _⟩ | ⟨_, hb⟩
  · exact absurd hkey (hnp k' hk')
  · have hrec := findName_primary h hd k hk fuel
    simp only [Ssi.findNameAux, NewSsi.opened] at hb hrec ⊢
    rw [hb]
    have hn : ns.skeys.length > 0 := List.length_pos_of_mem ha
    simp only [hn, ↓reduceIte]
    rcases bsearch_secondary h hd a.key with ⟨a', ha', hkey, pos, hb2, hrd⟩ | ⟨habs, _⟩
    · have : a' = a := eq_of_nodup_map (·.key) ns.skeys hd.2.1 ha' ha hkey
      subst this
      have hpk := h.pkey k hk
      have hpl : ns.plen ≠ 0 := by omega
      rw [hb2]
      simp only [hrd hpl, hak, cstr_strncpy _ _ hpk.2.1 hpk.2.2.1]
      simp only [hn, ↓reduceIte] at hrec
      exact hrec
    · exact absurd rfl (habs a ha)

end lookups

end EaselModel.Ssi

namespace EaselModel.Ssi

/-- `FindNumber i` on the image: record `i` of the sorted primary keys -/
theorem findNumber_image {ns : NewSsi} (h : ns.WF) (i : Nat) (hi : i < (sortPKeys ns.pkeys).length) :
    ns.opened.findNumber (i : Int) =
      .ok (hitOf (sortPKeys ns.pkeys)[i], strncpy ns.plen (sortPKeys ns.pkeys)[i].key) := by
  have hk := h.pkey _ (sortP_mem h (List.getElem_mem hi))
  have hpl : ns.plen ≠ 0 := by omega
  have hlt : ¬ (i ≥ ns.pkeys.length) := by rw [sortP_len h] at hi; omega
  have hneg : ¬ ((i : Int) < 0) := by omega
  unfold Ssi.findNumber
  simp only [hneg, ↓reduceIte, Int.toNat_natCast, NewSsi.opened, hlt, hpl, read_pname h i hi]
  unfold readHit
  simp only [read_phit h i hi]
  rfl

theorem findNumber_out_of_range {ns : NewSsi} (h : ns.WF) (i : Int) (hi : i < 0 ∨ i ≥ ns.pkeys.length)
    (hi2 : -(2:Int)^63 ≤ i) : ns.opened.findNumber i = .error .enotfound := by
  have hnp := h.np_lt
  unfold Ssi.findNumber
  by_cases hneg : i < 0
  · have : (i + 18446744073709551616).toNat ≥ ns.pkeys.length := by omega
    simp [hneg, NewSsi.opened, this]
  · have : i.toNat ≥ ns.pkeys.length := by omega
    simp [hneg, NewSsi.opened, this]

theorem fileInfo_image {ns : NewSsi} (fh : Nat) (hfh : fh < ns.files.length) :
    ns.opened.fileInfo fh = .ok (toSsiFile ns.flen ns.files[fh]) := by
  unfold Ssi.fileInfo
  have : ¬ (fh ≥ ns.files.length) := by omega
  simp [NewSsi.opened, this, hfh]

theorem fileInfo_bad {ns : NewSsi} (fh : Nat) (hfh : fh ≥ ns.files.length) :
    ns.opened.fileInfo fh = .error .einval := by
  unfold Ssi.fileInfo
  simp [NewSsi.opened, hfh]

end EaselModel.Ssi

namespace EaselModel.Ssi

/-- the documented outcome of `esl_ssi_FindSubseq` for a record `(fh, roff, doff, L)` in a file with line geometry
    `(bpl, rpl)`: case 4/3 (no data offset, or no fast-subseq geometry): start of the data, residue 1; case 1
    (`bpl = rpl+1`): the exact byte of residue `start`; case 2: the start of the line that holds residue `start`. -/
def subseqSpec (k : PKey) (f : FileRec) (start : Nat) : SubHit :=
  if k.doff = 0 ∨ ¬ (f.bpl > 0 ∧ f.rpl > 0) then { hit := hitOf k, doff := k.doff, actual := 1 }
  else
    let l := (start - 1) / f.rpl
    if f.bpl = f.rpl + 1 then { hit := hitOf k, doff := (k.doff + l * f.bpl + (start - 1) % f.rpl) % 2^64, actual := start }
    else { hit := hitOf k, doff := (k.doff + l * f.bpl) % 2^64, actual := (1 + l * f.rpl) % 2^64 }

/-- whatever name `FindName` resolves to the record of the stored key `k`: `FindSubseq` computes the documented outcome
    from `k`'s record and the line geometry of `k`'s file -/
theorem findSubseq_of_hit {ns : NewSsi} (key : Bytes) (k : PKey) (hfind : ns.opened.findName key = .ok (hitOf k))
    (hfh : k.fnum < ns.files.length) (start : Nat) (h1 : 1 ≤ start) (h2 : start ≤ k.len) (hL : k.len < 2^63) :
    ns.opened.findSubseq key (start : Int) = .ok (subseqSpec k ns.files[k.fnum] start) := by
  have hsg : toSigned k.len = (k.len : Int) := by
    unfold toSigned
    have : ¬ (k.len ≥ 2^63) := by omega
    simp [this]
  have hrange : ¬ ((start : Int) < 1 ∨ (start : Int) > toSigned k.len) := by
    rw [hsg]; omega
  have hfile : ns.opened.files[(hitOf k).fh]? = some (toSsiFile ns.flen ns.files[k.fnum]) := by
    simp [NewSsi.opened, hitOf, hfh]
  have hnf : ¬ ((hitOf k).fh ≥ ns.opened.nfiles) := by
    simp only [NewSsi.opened, hitOf]; omega
  unfold Ssi.findSubseq
  rw [hfind]
  simp only [hitOf] at hrange hfile hnf ⊢
  simp only [hrange, hnf, ↓reduceIte, hfile, toSsiFile, Int.toNat_natCast]
  unfold subseqSpec
  by_cases hfast : ns.files[k.fnum].bpl > 0 ∧ ns.files[k.fnum].rpl > 0
  · have hr : ns.files[k.fnum].rpl ≠ 0 := by omega
    have hb : ns.files[k.fnum].bpl ≠ 0 := by omega
    by_cases hdo : k.doff = 0
    · simp [hdo, hitOf]
    · by_cases hbr : ns.files[k.fnum].bpl = ns.files[k.fnum].rpl + 1
      · simp [hfast, hdo, hr, hbr, hitOf]
      · simp [hfast, hdo, hr, hb, hbr, hitOf]
  · simp [hfast, hitOf]

theorem findSubseq_range_of_hit {ns : NewSsi} (key : Bytes) (k : PKey) (hfind : ns.opened.findName key = .ok (hitOf k))
    (start : Int) (hr : start < 1 ∨ start > (k.len : Int)) (hL : k.len < 2^63) :
    ns.opened.findSubseq key start = .error .erange := by
  have hsg : toSigned k.len = (k.len : Int) := by
    unfold toSigned
    have : ¬ (k.len ≥ 2^63) := by omega
    simp [this]
  unfold Ssi.findSubseq
  rw [hfind]
  simp only [hitOf, hsg, hr, ↓reduceIte]

/-- a name that `FindName` does not resolve is not resolved by `FindSubseq` either (same status) -/
theorem findSubseq_of_error (s : Ssi) (key : Bytes) (start : Int) (e : St) (hfind : s.findName key = .error e) :
    s.findSubseq key start = .error e := by
  unfold Ssi.findSubseq
  rw [hfind]

theorem findSubseq_primary {ns : NewSsi} (h : ns.WF) (hd : ns.Distinct) (k : PKey) (hk : k ∈ ns.pkeys)
    (hfh : k.fnum < ns.files.length) (start : Nat) (h1 : 1 ≤ start) (h2 : start ≤ k.len) (hL : k.len < 2^63) :
    ns.opened.findSubseq k.key (start : Int) = .ok (subseqSpec k ns.files[k.fnum] start) :=
  findSubseq_of_hit k.key k (findName_primary h hd k hk (FUEL - 1)) hfh start h1 h2 hL

end EaselModel.Ssi

namespace EaselModel.Ssi

theorem findSubseq_range {ns : NewSsi} (h : ns.WF) (hd : ns.Distinct) (k : PKey) (hk : k ∈ ns.pkeys)
    (start : Int) (hr : start < 1 ∨ start > (k.len : Int)) (hL : k.len < 2^63) :
    ns.opened.findSubseq k.key start = .error .erange :=
  findSubseq_range_of_hit k.key k (findName_primary h hd k hk (FUEL - 1)) start hr hL

end EaselModel.Ssi
