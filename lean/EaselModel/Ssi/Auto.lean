import EaselModel.Ssi.History
/-! # Lemmas about the SSI model, part 7: the automatic switch to the external sort
    (`!ns->external && current_newssi_size(ns) >= ns->max_ram` at the start of every `AddKey`/`AddAlias`). -/
namespace EaselModel.Ssi

theorem maybeExternal_external (ns : NewSsi) :
    ns.maybeExternal.external = (ns.external || decide ((ns.currentSize : Int) ≥ ns.maxRam)) := by
  unfold NewSsi.maybeExternal NewSsi.activateExternal
  cases he : ns.external <;> by_cases hs : (ns.currentSize : Int) ≥ ns.maxRam <;> simp [he, hs]

theorem appendKey_external (ns : NewSsi) (k : PKey) : (ns.appendKey k).external = ns.external := by
  unfold NewSsi.appendKey
  by_cases hc : k.key.length + 1 > ns.plen <;> cases he : ns.external <;> simp [hc, he]

theorem appendAlias_external (ns : NewSsi) (k : SKey) : (ns.appendAlias k).external = ns.external := by
  unfold NewSsi.appendAlias
  by_cases hc : k.key.length + 1 > ns.slen <;> cases he : ns.external <;> simp [hc, he]

/-- after a successful `AddKey` the index is on disk iff it already was, or its size in MB (computed from the counts
    and field widths BEFORE this key) had reached `max_ram` -/
theorem addKey_external (ns ns' : NewSsi) (key : Bytes) (fh r d l : Nat) (h : ns.addKey key fh r d l = .ok ns') :
    ns'.external = (ns.external || decide ((ns.currentSize : Int) ≥ ns.maxRam)) := by
  unfold NewSsi.addKey at h
  split at h
  · cases h
  · split at h
    · cases h
    · cases h
      rw [appendKey_external, maybeExternal_external]

theorem addAlias_external (ns ns' : NewSsi) (a k : Bytes) (h : ns.addAlias a k = .ok ns') :
    ns'.external = (ns.external || decide ((ns.currentSize : Int) ≥ ns.maxRam)) := by
  unfold NewSsi.addAlias at h
  split at h
  · cases h
  · cases h
    rw [appendAlias_external, maybeExternal_external]

/-- `current_newssi_size`: the size of the index file that would be written now, in whole MB -/
theorem currentSize_eq (ns : NewSsi) :
    ns.currentSize = (78 + (16 + ns.flen) * ns.files.length + (26 + ns.plen) * ns.nprimary
                        + (ns.slen + ns.plen) * ns.nsecondary) / 1048576 := rfl

/-- once external, always external; `AddFile`/`SetSubseq` never switch -/
theorem step_external_mono (ns : NewSsi) (op : Op) (h : ns.external = true) : (step ns op).external = true := by
  cases op with
  | addFile name fmt =>
    by_cases hc : ns.nfiles ≥ MAXFILES <;> simp [step, NewSsi.addFile, hc, h]
  | setSubseq fh bpl rpl =>
    by_cases hc : fh ≥ ns.nfiles
    · simp [step, NewSsi.setSubseq, hc, h]
    · by_cases hc2 : bpl = 0 ∨ rpl = 0 <;> simp [step, NewSsi.setSubseq, hc, hc2, h]
  | addKey key fh r d l =>
    simp only [step]
    cases hk : ns.addKey key fh r d l with
    | error e => simpa using h
    | ok ns' => simp [addKey_external ns ns' key fh r d l hk, h]
  | addAlias a k =>
    simp only [step]
    cases hk : ns.addAlias a k with
    | error e => simpa using h
    | ok ns' => simp [addAlias_external ns ns' a k hk, h]
  | setMaxRam m => simpa [step] using h

end EaselModel.Ssi

namespace EaselModel.Ssi

/-! ## `esl_ssi_Open`'s documented failure cases -/

theorem open_short (d : Array UInt8) (h : d.size < 12) : Ssi.open d = .error .eformat := by
  have hnone : readFields d 0 [4, 4, 4] = none := by
    simp only [readFields, readU, readAt]
    by_cases h1 : 0 + 4 ≤ d.size
    · by_cases h2 : 0 + 4 + 4 ≤ d.size
      · have h3 : ¬ (0 + 4 + 4 + 4 ≤ d.size) := by omega
        simp [h1, h2, h3]
      · simp [h1, h2]
    · simp [h1]
  unfold Ssi.open
  rw [hnone]

theorem open_bad_magic (d : Array UInt8) (magic flags offsz : Nat) (h : readFields d 0 [4, 4, 4] = some [magic, flags, offsz])
    (hm : magic ≠ V30MAGIC ∧ magic ≠ V30SWAP) : Ssi.open d = .error .eformat := by
  unfold Ssi.open
  rw [h]
  simp [hm]

theorem open_bad_offsz (d : Array UInt8) (magic flags offsz : Nat) (h : readFields d 0 [4, 4, 4] = some [magic, flags, offsz])
    (hm : magic = V30MAGIC ∨ magic = V30SWAP) (ho : offsz ≠ 4 ∧ offsz ≠ 8) : Ssi.open d = .error .erange := by
  have hm' : ¬ (magic ≠ V30MAGIC ∧ magic ≠ V30SWAP) := by
    rcases hm with h1 | h1 <;> simp [h1]
  unfold Ssi.open
  rw [h]
  simp only [hm', ↓reduceIte]
  rw [if_pos ho]

end EaselModel.Ssi
