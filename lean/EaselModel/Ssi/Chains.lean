import EaselModel.Ssi.Robust
/-! # Lemmas about the SSI model, part 9: what `esl_ssi_FindName` does on alias → alias chains and cycles (hand-made files).

`esl_ssi_FindName(key)` either answers without recursion (`direct`: a primary hit, `eslENOTFOUND`, `eslEFORMAT`) or finds
`key` in the secondary section and calls itself on the string stored there (`next`). The call tree is therefore a path
`key, next key, next (next key), …`:
* if the path ends after `d` links, the C recursion is exactly `d` levels deep and the answer is the direct answer for the
  last link (`findName_depth`), whatever the fuel above `d`;
* if it never ends — in particular on a cycle — the recursion never returns (`findName_diverges`): the model's `nohalt` for
  every fuel, a stack overflow in C. -/
namespace EaselModel.Ssi

/-- the string `FindName` recurses on: `key` is not a primary key but an alias record carrying it is found, and that
    record's target field can be read -/
def Ssi.next (s : Ssi) (key : Bytes) : Option Bytes :=
  match bsearch s.data key s.plen s.poffset s.precsize s.nprimary with
  | .error .enotfound =>
    if s.nsecondary > 0 then
      match bsearch s.data key s.slen s.soffset s.srecsize s.nsecondary with
      | .ok pos =>
        match readAt s.data pos s.plen with
        | some buf => some (cstr buf)
        | none => none
      | .error _ => none
    else none
  | _ => none

/-- the answer `FindName` gives when it does not recurse -/
def Ssi.direct (s : Ssi) (key : Bytes) : Except St Hit :=
  match bsearch s.data key s.plen s.poffset s.precsize s.nprimary with
  | .ok pos => readHit s pos
  | .error .enotfound =>
    if s.nsecondary > 0 then
      match bsearch s.data key s.slen s.soffset s.srecsize s.nsecondary with
      | .error e => .error e
      | .ok pos =>
        match readAt s.data pos s.plen with
        | none => .error .eformat
        | some _ => .error .nohalt      -- not used: `next` is `some` here
    else .error .enotfound
  | .error e => .error e

/-- one level of `esl_ssi_FindName`: recurse on `next`, or answer `direct` -/
theorem findNameAux_step (s : Ssi) (fuel : Nat) (key : Bytes) :
    s.findNameAux (fuel + 1) key = match s.next key with
      | some k' => s.findNameAux fuel k'
      | none => s.direct key := by
  rw [Ssi.findNameAux]
  unfold Ssi.next Ssi.direct
  cases hb : bsearch s.data key s.plen s.poffset s.precsize s.nprimary with
  | ok pos => rfl
  | error e =>
    cases e with
    | enotfound =>
      simp only []
      by_cases hn : s.nsecondary > 0
      · simp only [hn, ↓reduceIte]
        cases hb2 : bsearch s.data key s.slen s.soffset s.srecsize s.nsecondary with
        | error e2 => rfl
        | ok pos =>
          simp only []
          cases hr : readAt s.data pos s.plen with
          | none => rfl
          | some buf => rfl
      · simp only [hn, ↓reduceIte]
    | eformat => rfl
    | erange => rfl
    | edup => rfl
    | einval => rfl
    | esys => rfl
    | emem => rfl
    | eincompat => rfl
    | fault => rfl
    | nohalt => rfl

/-- the `d`-th link of the path that starts at `key` (`none`: the path has ended before) -/
def Ssi.link (s : Ssi) (key : Bytes) : Nat → Option Bytes
  | 0 => some key
  | d + 1 => (s.link key d).bind s.next

theorem link_succ_of_next (s : Ssi) (key k' : Bytes) (h : s.next key = some k') (d : Nat) :
    s.link key (d + 1) = s.link k' d := by
  induction d with
  | zero => simp [Ssi.link, h]
  | succ d ih => rw [Ssi.link, ih, Ssi.link]

/-- **recursion depth.** If the path `key, next key, …` ends at its `d`-th link `last` (`next last = none`), then
    `FindName key` recurses exactly `d` levels deep and answers what the non-recursive lookup of `last` answers: every fuel
    above `d` gives that answer, every fuel up to `d` is exhausted. -/
theorem findName_depth (s : Ssi) (d : Nat) (key last : Bytes) (hl : s.link key d = some last) (he : s.next last = none) :
    (∀ fuel, d < fuel → s.findNameAux fuel key = s.direct last) ∧
    (∀ fuel, fuel ≤ d → s.findNameAux fuel key = .error .nohalt) := by
  induction d generalizing key with
  | zero =>
    simp only [Ssi.link, Option.some.injEq] at hl
    subst hl
    constructor
    · intro fuel hf
      obtain ⟨f, rfl⟩ : ∃ f, fuel = f + 1 := ⟨fuel - 1, by omega⟩
      rw [findNameAux_step, he]
    · intro fuel hf
      have : fuel = 0 := by omega
      subst this
      rfl
  | succ d ih =>
    cases hn : s.next key with
    | none =>
      -- the path ended at once: there is no `d+1`-th link
      have : s.link key (d + 1) = none := by
        clear hl ih
        induction d with
        | zero => simp [Ssi.link, hn]
        | succ d ihd => rw [Ssi.link, ihd]; rfl
      rw [this] at hl
      cases hl
    | some k' =>
      rw [link_succ_of_next s key k' hn d] at hl
      obtain ⟨h1, h2⟩ := ih k' hl
      constructor
      · intro fuel hf
        obtain ⟨f, rfl⟩ : ∃ f, fuel = f + 1 := ⟨fuel - 1, by omega⟩
        rw [findNameAux_step, hn]
        exact h1 f (by omega)
      · intro fuel hf
        cases fuel with
        | zero => rfl
        | succ f =>
          rw [findNameAux_step, hn]
          exact h2 f (by omega)

/-- **divergence.** If the path never ends (every link has a successor), no amount of fuel is enough: the recursion of
    `esl_ssi_FindName` never returns. -/
theorem findName_diverges (s : Ssi) (key : Bytes) (h : ∀ d, ∃ k, s.link key d = some k ∧ (s.next k).isSome) (fuel : Nat) :
    s.findNameAux fuel key = .error .nohalt := by
  induction fuel generalizing key with
  | zero => rfl
  | succ f ih =>
    obtain ⟨k0, hk0, hs0⟩ := h 0
    simp only [Ssi.link, Option.some.injEq] at hk0
    subst hk0
    obtain ⟨k', hk'⟩ := Option.isSome_iff_exists.mp hs0
    rw [findNameAux_step, hk']
    apply ih k'
    intro d
    obtain ⟨k, hk, hs⟩ := h (d + 1)
    rw [link_succ_of_next s key k' hk' d] at hk
    exact ⟨k, hk, hs⟩

/-- a cycle: after `n ≥ 1` links the path is back at `key` -/
theorem link_add (s : Ssi) (key k : Bytes) (n : Nat) (hn : s.link key n = some k) (m : Nat) :
    s.link key (n + m) = s.link k m := by
  induction m with
  | zero => simpa [Ssi.link] using hn
  | succ m ih => rw [← Nat.add_assoc, Ssi.link, ih, Ssi.link]

theorem cycle_never_ends (s : Ssi) (key : Bytes) (n : Nat) (hpos : 0 < n) (hc : s.link key n = some key) :
    ∀ d, ∃ k, s.link key d = some k ∧ (s.next k).isSome := by
  -- every link of a cycle exists
  have hall : ∀ d, (s.link key d).isSome := by
    intro d
    induction d using Nat.strongRecOn with
    | _ d ih =>
      by_cases hd : d < n
      · -- a prefix of the path up to the `n`-th link, which exists
        have : ∀ j, j ≤ n → (s.link key (n - j)).isSome := by
          intro j hj
          induction j with
          | zero => simp [hc]
          | succ j ihj =>
            have hprev := ihj (by omega)
            have e : n - j = (n - (j + 1)) + 1 := by omega
            rw [e, Ssi.link] at hprev
            cases hx : s.link key (n - (j + 1)) with
            | none => simp [hx] at hprev
            | some _ => rfl
        have := this (n - d) (by omega)
        have e : n - (n - d) = d := by omega
        rwa [e] at this
      · have e : d = n + (d - n) := by omega
        rw [e, link_add s key key n hc]
        exact ih (d - n) (by omega)
  intro d
  have h1 := hall d
  have h2 := hall (d + 1)
  obtain ⟨k, hk⟩ := Option.isSome_iff_exists.mp h1
  refine ⟨k, hk, ?_⟩
  rw [Ssi.link, hk] at h2
  simpa using h2

end EaselModel.Ssi
