import EaselModel.Ssi.Robust
/-! # Lemmas about the SSI model, part 10: header offsets that point beyond the end of the file (63-bit and 64-bit patterns
included: an `off_t` ≥ 2^63 is negative, `fseeko` refuses it; the model reads beyond the end — both are `eslEFORMAT`). -/
namespace EaselModel.Ssi

theorem readAt_beyond (d : Array UInt8) (off k : Nat) (hk : 0 < k) (ho : d.size ≤ off) : readAt d off k = none := by
  unfold readAt
  have h1 : k ≠ 0 := by omega
  have h2 : ¬ (off + k ≤ d.size) := by omega
  simp [h1, h2]

/-- a key section that starts at or beyond the end of the file: the very first probe of `binary_search` is a failed read -/
theorem bsearch_beyond (d : Array UInt8) (key : Bytes) (klen base recsize maxidx : Nat) (hm : 0 < maxidx) (hk : 0 < klen)
    (hb : d.size ≤ base) : bsearch d key klen base recsize maxidx = .error .eformat := by
  have h0 : maxidx ≠ 0 := by omega
  have hr : rdNameAt d klen base recsize ((0 + (maxidx - 1)) / 2) = .error .eformat := by
    unfold rdNameAt
    rw [readAt_beyond d _ klen hk (by omega)]
  unfold bsearch
  simp only [h0, ↓reduceIte]
  rw [bsearchLoop]
  simp only [hr]

/-- `esl_ssi_FindName` on an index whose primary-key section offset points at or beyond the end of the file (any value up to
    2^64 − 1; ≥ 2^63 is a negative `off_t`): `eslEFORMAT` for every probe, when there is at least one primary key -/
theorem findName_poffset_beyond (s : Ssi) (hn : 0 < s.nprimary) (hp : 0 < s.plen) (hb : s.data.size ≤ s.poffset)
    (fuel : Nat) (key : Bytes) : s.findNameAux (fuel + 1) key = .error .eformat := by
  rw [Ssi.findNameAux, bsearch_beyond s.data key s.plen s.poffset s.precsize s.nprimary hn hp hb]

/-- likewise for the secondary section: a probe that is not a primary key and has to be looked up among the aliases is
    `eslEFORMAT` -/
theorem findName_soffset_beyond (s : Ssi) (hn : 0 < s.nsecondary) (hl : 0 < s.slen) (hb : s.data.size ≤ s.soffset)
    (fuel : Nat) (key : Bytes) (hnp : bsearch s.data key s.plen s.poffset s.precsize s.nprimary = .error .enotfound) :
    s.findNameAux (fuel + 1) key = .error .eformat := by
  rw [Ssi.findNameAux, hnp]
  simp only [hn, ↓reduceIte, bsearch_beyond s.data key s.slen s.soffset s.srecsize s.nsecondary hn hl hb]

/-- `esl_ssi_FindNumber` with the primary section beyond the end of the file: `eslEFORMAT` for every valid number -/
theorem findNumber_poffset_beyond (s : Ssi) (hp : 0 < s.plen) (hb : s.data.size ≤ s.poffset) (i : Nat) (hi : i < s.nprimary) :
    s.findNumber (i : Int) = .error .eformat := by
  unfold Ssi.findNumber
  have h1 : ¬ ((i : Int) < 0) := by omega
  have h2 : ¬ (i ≥ s.nprimary) := by omega
  simp only [h1, ↓reduceIte, Int.toNat_natCast, h2]
  rw [readAt_beyond s.data _ s.plen hp (by omega)]

end EaselModel.Ssi
