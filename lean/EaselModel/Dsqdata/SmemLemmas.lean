import EaselModel.Dsqdata.Smem
import EaselModel.Dsqdata.FormatLemmas
/-! # Unpacking in place inside `smem` computes the functional `unpackChunk` (byte level)

Invariant after `k` packets: the buffer still has `U` bytes; every packet `q ≥ k` is still intact at `psq + 4q`; the first
`W k` bytes are the leading sentinel followed by the blocks of packets `0 … k-1`. `unpack_in_place_safe` supplies
`W k ≤ psqOff + 4k`, which is exactly what keeps the write for packet `k` away from packet `k+1`. -/
namespace EaselModel.Dsqdata

theorem packetBlock_length (mode5 : Bool) (v : UInt32) : (packetBlock mode5 v).length = packetBytes mode5 v := by
  unfold packetBlock packetBytes
  split <;> simp

theorem poke_length (mem : List UInt8) (r : Nat) (b : List UInt8) (h : r + b.length ≤ mem.length) :
    (poke mem r b).length = mem.length := by
  simp only [poke, List.length_append, List.length_take, List.length_drop]; omega

theorem poke_take (mem : List UInt8) (r : Nat) (b : List UInt8) (h : r ≤ mem.length) :
    (poke mem r b).take (r + b.length) = mem.take r ++ b := by
  have h1 : (mem.take r).length = r := by simp; omega
  unfold poke
  rw [← List.append_assoc]
  have : r + b.length = (mem.take r ++ b).length := by simp [h1]
  rw [this, List.take_left']
  rfl

theorem poke_drop (mem : List UInt8) (r : Nat) (b : List UInt8) (k : Nat) (h : r + b.length ≤ k) (hr : r ≤ mem.length) :
    (poke mem r b).drop k = mem.drop k := by
  have h1 : (mem.take r).length = r := by simp; omega
  unfold poke
  rw [← List.append_assoc]
  have hl : (mem.take r ++ b).length = r + b.length := by simp [h1]
  have hk : k = (mem.take r ++ b).length + (k - (r + b.length)) := by omega
  rw [hk, List.drop_length_add_append, List.drop_drop]
  congr 1
  omega

theorem peek32_poke (mem : List UInt8) (r : Nat) (b : List UInt8) (off : Nat) (h : r + b.length ≤ off) (hr : r ≤ mem.length) :
    peek32 (poke mem r b) off = peek32 mem off := by
  unfold peek32; rw [poke_drop mem r b off h hr]

theorem drop_getD (l : List UInt32) (k : Nat) (h : k < l.length) : l.drop k = l.getD k 0 :: l.drop (k + 1) := by
  rw [List.drop_eq_getElem_cons h]; simp [List.getD_eq_getElem?_getD, List.getElem?_eq_getElem h]

theorem take_succ_getD (l : List UInt32) (k : Nat) (h : k < l.length) : l.take (k + 1) = l.take k ++ [l.getD k 0] := by
  rw [List.take_add_one]; simp [List.getD_eq_getElem?_getD, List.getElem?_eq_getElem h]

/-- the sequence unpacker of the mode -/
def unpackG (mode5 : Bool) (ps : List UInt32) : Option (List UInt8 × Nat) := if mode5 then unpack5 ps else unpack2 ps

theorem unpackG_nil (mode5 : Bool) : unpackG mode5 [] = none := by cases mode5 <;> rfl

theorem unpackG_eod (mode5 : Bool) (v : UInt32) (r : List UInt32) (h : (v &&& EOD != 0) = true) :
    unpackG mode5 (v :: r) = some (packetResidues mode5 v, 1) := by
  cases mode5
  · simp only [unpackG, Bool.false_eq_true, if_false]; exact (unpack_head_eod v r h).2
  · simp only [unpackG, if_true]; exact (unpack_head_eod v r h).1

theorem unpackG_more (mode5 : Bool) (v : UInt32) (r : List UInt32) (h : (v &&& EOD != 0) = false) :
    unpackG mode5 (v :: r) = match unpackG mode5 r with
      | some (d, p) => some (packetResidues mode5 v ++ d, p + 1)
      | none => none := by
  cases mode5
  · simp only [unpackG, Bool.false_eq_true, if_false, unpack2, h, packetResidues, Bool.false_or]
    cases unpack2 r with
    | none => rfl
    | some x => rfl
  · simp only [unpackG, if_true, unpack5, h, Bool.false_eq_true, if_false, packetResidues, Bool.true_or]
    cases unpack5 r with
    | none => rfl
    | some x => rfl

section run
variable (mode5 : Bool) (ps : List UInt32) (psqOff U : Nat)

/-- write position before packet `k` -/
def Wp (k : Nat) : Nat := writeFront mode5 (ps.take k) 1
/-- the unpacked bytes before packet `k` -/
def layoutP (k : Nat) : List UInt8 := 255 :: (ps.take k).flatMap (packetBlock mode5)

theorem layoutP_length (k : Nat) : (layoutP mode5 ps k).length = Wp mode5 ps k := by
  have : ∀ l : List UInt32, (l.flatMap (packetBlock mode5)).length = (l.map (packetBytes mode5)).sum := by
    intro l
    induction l with
    | nil => rfl
    | cons a l ih => simp [List.flatMap_cons, ih, packetBlock_length]
  simp only [layoutP, Wp, writeFront, List.length_cons, this]
  omega

theorem Wp_succ (k : Nat) (h : k < ps.length) :
    Wp mode5 ps (k + 1) = Wp mode5 ps k + (packetBlock mode5 (ps.getD k 0)).length := by
  simp only [Wp, writeFront, take_succ_getD ps k h, List.map_append, List.sum_append, List.map_cons, List.map_nil,
    List.sum_cons, List.sum_nil, packetBlock_length]
  omega

theorem layoutP_succ (k : Nat) (h : k < ps.length) :
    layoutP mode5 ps (k + 1) = layoutP mode5 ps k ++ packetBlock mode5 (ps.getD k 0) := by
  simp [layoutP, take_succ_getD ps k h, List.flatMap_append]

structure MInv (mem : List UInt8) (k : Nat) : Prop where
  len : mem.length = U
  tail : ∀ q, k ≤ q → q < ps.length → peek32 mem (psqOff + 4 * q) = ps.getD q 0
  pre : mem.take (Wp mode5 ps k) = layoutP mode5 ps k

structure Safe : Prop where
  front : ∀ p, p < ps.length → Wp mode5 ps p ≤ psqOff + 4 * p
  fin : Wp mode5 ps ps.length ≤ U
  fit : psqOff + 4 * ps.length ≤ U

theorem Wp_le_U (sf : Safe mode5 ps psqOff U) (k : Nat) (h : k ≤ ps.length) : Wp mode5 ps k ≤ U := by
  by_cases e : k < ps.length
  · have := sf.front k e; have := sf.fit; omega
  · have : k = ps.length := by omega
    subst this; exact sf.fin

theorem step_packet (sf : Safe mode5 ps psqOff U) (mem : List UInt8) (k : Nat) (h : k < ps.length)
    (i : MInv mode5 ps psqOff U mem k) :
    MInv mode5 ps psqOff U (poke mem (Wp mode5 ps k) (packetBlock mode5 (ps.getD k 0))) (k + 1) := by
  have hW := Wp_succ mode5 ps k h
  have hU := Wp_le_U mode5 ps psqOff U sf (k + 1) (by omega)
  have hle : Wp mode5 ps k ≤ mem.length := by rw [i.len]; omega
  refine ⟨by rw [poke_length _ _ _ (by rw [i.len]; omega)]; exact i.len, fun q hq hql => ?_, ?_⟩
  · rw [peek32_poke _ _ _ _ ?_ hle]
    · exact i.tail q (by omega) hql
    · have := sf.front (k + 1) (by omega); omega
  · rw [hW, poke_take _ _ _ hle, i.pre, layoutP_succ mode5 ps k h]

/-- one call of `dsqdata_unpack5` / `_unpack2` inside the buffer = the functional unpacker on the packets from `k` on -/
theorem unpackSeqMem_spec (sf : Safe mode5 ps psqOff U) :
    ∀ (fuel : Nat) (mem : List UInt8) (k L0 P0 : Nat) (d : List UInt8) (P : Nat),
      MInv mode5 ps psqOff U mem k → unpackG mode5 (ps.drop k) = some (d, P) → P ≤ fuel →
      ∃ mem', unpackSeqMem mode5 fuel mem (psqOff + 4 * k) (Wp mode5 ps k) L0 P0 = some (mem', L0 + d.length, P0 + P) ∧
        MInv mode5 ps psqOff U mem' (k + P) ∧ k + P ≤ ps.length ∧ 1 ≤ P ∧
        layoutP mode5 ps (k + P) = layoutP mode5 ps k ++ (d ++ [255]) := by
  intro fuel
  induction fuel with
  | zero =>
    intro mem k L0 P0 d P i hu hP
    have hk : k < ps.length := by
      apply Classical.byContradiction; intro hn
      rw [List.drop_eq_nil_of_le (by omega), unpackG_nil] at hu; cases hu
    rw [drop_getD ps k hk] at hu
    by_cases he : (ps.getD k 0 &&& EOD != 0) = true
    · rw [unpackG_eod mode5 _ _ he] at hu; cases hu; omega
    · have he' : (ps.getD k 0 &&& EOD != 0) = false := by simpa using he
      rw [unpackG_more mode5 _ _ he'] at hu
      cases hr : unpackG mode5 (ps.drop (k + 1)) with
      | none => rw [hr] at hu; cases hu
      | some x => rw [hr] at hu; cases hu; omega
  | succ fuel ih =>
    intro mem k L0 P0 d P i hu hP
    have hk : k < ps.length := by
      apply Classical.byContradiction; intro hn
      rw [List.drop_eq_nil_of_le (by omega), unpackG_nil] at hu; cases hu
    have hv : peek32 mem (psqOff + 4 * k) = ps.getD k 0 := i.tail k (Nat.le_refl _) hk
    have hW := Wp_succ mode5 ps k hk
    have hU := Wp_le_U mode5 ps psqOff U sf (k + 1) (by omega)
    have hb1 : ¬ (psqOff + 4 * k + 4 > mem.length) := by rw [i.len]; have := sf.fit; omega
    have hb2 : ¬ (Wp mode5 ps k + (packetBlock mode5 (ps.getD k 0)).length > mem.length) := by rw [i.len]; omega
    have i' := step_packet mode5 ps psqOff U sf mem k hk i
    rw [drop_getD ps k hk] at hu
    simp only [unpackSeqMem, hb1, if_false, hv, hb2]
    by_cases he : (ps.getD k 0 &&& EOD != 0) = true
    · rw [unpackG_eod mode5 _ _ he] at hu
      cases hu
      simp only [he, if_true]
      refine ⟨_, rfl, i', by omega, Nat.le_refl _, ?_⟩
      rw [layoutP_succ mode5 ps k hk]
      simp only [packetBlock, he, if_true]
    · have he' : (ps.getD k 0 &&& EOD != 0) = false := by simpa using he
      rw [unpackG_more mode5 _ _ he'] at hu
      cases hr : unpackG mode5 (ps.drop (k + 1)) with
      | none => rw [hr] at hu; cases hu
      | some x =>
        obtain ⟨d', p'⟩ := x
        rw [hr] at hu
        cases hu
        simp only [he', Bool.false_eq_true, if_false]
        obtain ⟨mem', h1, h2, h3, h4, h5⟩ := ih _ (k + 1) (L0 + (packetResidues mode5 (ps.getD k 0)).length) (P0 + 1) d' p' i' hr (by omega)
        have hpk : psqOff + 4 * k + 4 = psqOff + 4 * (k + 1) := by omega
        have e : k + 1 + p' = k + (p' + 1) := by omega
        rw [e] at h2 h3 h5
        rw [hpk, ← hW, h1]
        refine ⟨mem', ?_, h2, h3, by omega, ?_⟩
        · simp [List.length_append, Nat.add_assoc]; omega
        · rw [h5, layoutP_succ mode5 ps k hk]
          simp only [packetBlock, he', Bool.false_eq_true, if_false, List.append_nil, List.append_assoc]

/-- `(dsq[i] - smem, L[i])` for consecutive sequences starting at offset `r` -/
def segsOf : Nat → List (List UInt8) → List (Nat × Nat)
  | _, [] => []
  | r, d :: ds => (r, d.length) :: segsOf (r + d.length + 1) ds

theorem unpackChunkMemLoop_spec (sf : Safe mode5 ps psqOff U) (h4 : 4 * ps.length ≤ U) :
    ∀ (fuel : Nat) (mem : List UInt8) (k : Nat) (ds : List (List UInt8)),
      MInv mode5 ps psqOff U mem k → k ≤ ps.length →
      unpackChunkLoop mode5 fuel (ps.drop k) = some ds → ps.length - k ≤ fuel →
      ∃ mem', unpackChunkMemLoop mode5 psqOff ps.length fuel mem k (Wp mode5 ps k - 1)
            = some (mem', segsOf (Wp mode5 ps k - 1) ds) ∧
        MInv mode5 ps psqOff U mem' ps.length ∧
        layoutP mode5 ps ps.length = layoutP mode5 ps k ++ ds.flatMap (fun d => d ++ [255]) := by
  intro fuel
  induction fuel with
  | zero =>
    intro mem k ds i hk hl hf
    have : k = ps.length := by omega
    subst this
    simp only [unpackChunkLoop] at hl
    cases hl
    exact ⟨mem, rfl, i, by simp⟩
  | succ fuel ih =>
    intro mem k ds i hk hl hf
    have hWpos : 1 ≤ Wp mode5 ps k := by simp [Wp, writeFront]
    by_cases hge : k ≥ ps.length
    · have : k = ps.length := by omega
      subst this
      simp only [unpackChunkLoop, List.drop_length, List.isEmpty_nil, if_true] at hl
      cases hl
      refine ⟨mem, by simp [unpackChunkMemLoop, segsOf], i, by simp⟩
    · have hne : (ps.drop k).isEmpty = false := by
        rw [drop_getD ps k (by omega)]; rfl
      simp only [unpackChunkLoop, hne, Bool.false_eq_true, if_false] at hl
      have hg : (if mode5 = true then unpack5 (ps.drop k) else unpack2 (ps.drop k)) = unpackG mode5 (ps.drop k) := rfl
      rw [hg] at hl
      cases hr : unpackG mode5 (ps.drop k) with
      | none => rw [hr] at hl; cases hl
      | some x =>
        obtain ⟨d, P⟩ := x
        rw [hr] at hl
        simp only [List.drop_drop] at hl
        cases hrest : unpackChunkLoop mode5 fuel (ps.drop (k + P)) with
        | none => rw [hrest] at hl; cases hl
        | some ds' =>
          rw [hrest] at hl
          cases hl
          have hPb : P ≤ mem.length + 1 := by
            have hPle : P ≤ ps.length := by
              -- P ≤ ps.length - k follows from the spec below; a crude bound first: use the spec with fuel = ps.length + 1
              obtain ⟨_, _, _, h3, _, _⟩ := unpackSeqMem_spec mode5 ps psqOff U sf (P) mem k 0 0 d P i hr (Nat.le_refl _)
              omega
            rw [i.len]; omega
          obtain ⟨mem1, h1, h2, h3, h4', h5⟩ := unpackSeqMem_spec mode5 ps psqOff U sf (mem.length + 1) mem k 0 0 d P i hr hPb
          have hr1 : Wp mode5 ps k - 1 + 1 = Wp mode5 ps k := by omega
          have hWn : Wp mode5 ps (k + P) = Wp mode5 ps k + d.length + 1 := by
            have a := layoutP_length mode5 ps (k + P)
            have b := layoutP_length mode5 ps k
            rw [h5] at a
            simp only [List.length_append, List.length_cons, List.length_nil] at a
            omega
          have hnext : Wp mode5 ps k - 1 + d.length + 1 = Wp mode5 ps (k + P) - 1 := by omega
          obtain ⟨mem2, g1, g2, g3⟩ := ih mem1 (k + P) ds' h2 h3 hrest (by omega)
          refine ⟨mem2, ?_, g2, ?_⟩
          · simp only [unpackChunkMemLoop, hge, if_false, hr1, h1, Nat.zero_add, hnext, g1, segsOf]
          · rw [g3, h5]; simp [List.flatMap_cons, List.append_assoc]

end run

theorem chunkU_ge (mode5 : Bool) (maxpacket maxseq : Nat) :
    per mode5 * maxpacket + maxseq + 1 ≤ chunkU mode5 maxpacket maxseq ∧ chunkU mode5 maxpacket maxseq % 4 = 0 := by
  unfold chunkU
  constructor
  · have := Nat.div_add_mod (per mode5 * maxpacket + maxseq + 1 + 3) 4
    have := Nat.mod_lt (per mode5 * maxpacket + maxseq + 1 + 3) (by decide : 4 > 0)
    omega
  · exact Nat.mul_mod_left _ _

/-- the buffer layout `dsqdata_chunk_Create` sets up: `psq` is 4-byte aligned, at least one byte above `smem`, and
    `maxpacket` packets fit exactly between it and the end of the buffer -/
theorem chunk_layout (mode5 : Bool) (maxpacket maxseq : Nat) :
    chunkPsqOff mode5 maxpacket maxseq + 4 * maxpacket = chunkU mode5 maxpacket maxseq ∧
    chunkPsqOff mode5 maxpacket maxseq % 4 = 0 ∧ 1 ≤ chunkPsqOff mode5 maxpacket maxseq := by
  have h := chunkU_ge mode5 maxpacket maxseq
  have hper : per mode5 = 6 ∨ per mode5 = 15 := by unfold per; cases mode5 <;> simp
  unfold chunkPsqOff
  rcases hper with e | e <;> rw [e] at h <;> refine ⟨by omega, by omega, by omega⟩

theorem peek32_flat (ps : List UInt32) (pre post : List UInt8) (q : Nat) (h : q < ps.length) :
    peek32 (pre ++ (ps.flatMap enc32 ++ post)) (pre.length + 4 * q) = ps.getD q 0 := by
  unfold peek32
  rw [List.drop_length_add_append, List.drop_append_of_le_length (by
    rw [flatMap_const_length enc32 4 enc32_length]; omega)]
  rw [Nat.mul_comm 4 q, flatMap_drop_const enc32 4 enc32_length, drop_getD ps q h, List.flatMap_cons, List.append_assoc]
  have : (enc32 (ps.getD q 0) ++ (List.flatMap enc32 (List.drop (q + 1) ps) ++ post)).take 4 = enc32 (ps.getD q 0) := by
    rw [← enc32_length (ps.getD q 0), List.take_left']; rfl
  rw [this, dec32_enc32]

/-- **Unpacking in place, at byte level, is the functional unpacker.** In the buffer `dsqdata_chunk_Create` allocates for
    `(maxpacket, maxseq)` - whatever its previous contents `fill` - with the `pn ≤ maxpacket` packets of a chunk of
    `N ≤ maxseq` sequences where the loader `fread`s them, `dsqdata_unpack_chunk` never reads or writes outside the buffer,
    never overwrites a packet it has not read yet, and leaves in `smem[0 …]` exactly the leading sentinel followed by each
    sequence and its sentinel (`smemLayout ds`), `dsq[i]`/`L[i]` pointing at them (`segsOf 0 ds`) - `ds` being what the
    functional `unpackChunk` (and so, by `codec_unpack_chunk`, what was packed) yields. -/
theorem unpackChunkMem_correct (mode5 : Bool) (ps : List UInt32) (maxpacket maxseq : Nat) (fill : UInt8) (ds : List (List UInt8))
    (hpn : ps.length ≤ maxpacket) (hN : eodCount ps ≤ maxseq) (hds : unpackChunk mode5 ps = some ds) :
    ∃ mem', unpackChunkMem mode5 (loadedSmem mode5 maxpacket maxseq ps fill) (chunkPsqOff mode5 maxpacket maxseq) ps.length
        = some (mem', segsOf 0 ds) ∧
      mem'.length = chunkU mode5 maxpacket maxseq ∧ mem'.take (smemLayout ds).length = smemLayout ds := by
  have hU := chunkU_ge mode5 maxpacket maxseq
  have hlay := chunk_layout mode5 maxpacket maxseq
  have hsafe := unpack_in_place_safe mode5 ps maxpacket maxseq (chunkU mode5 maxpacket maxseq) hpn hN hU.1
  have hoff : chunkU mode5 maxpacket maxseq - 4 * maxpacket = chunkPsqOff mode5 maxpacket maxseq := rfl
  rw [hoff] at hsafe
  have sf : Safe mode5 ps (chunkPsqOff mode5 maxpacket maxseq) (chunkU mode5 maxpacket maxseq) :=
    ⟨fun p hp => hsafe.1 p hp, by simpa [Wp] using hsafe.2, by omega⟩
  -- the loaded buffer
  have hElen : (ps.flatMap enc32).length = ps.length * 4 := flatMap_const_length enc32 4 enc32_length ps
  have hrep : (List.replicate (chunkU mode5 maxpacket maxseq) fill).length = chunkU mode5 maxpacket maxseq := by simp
  have hL : (loadedSmem mode5 maxpacket maxseq ps fill).length = chunkU mode5 maxpacket maxseq := by
    unfold loadedSmem; rw [poke_length _ _ _ (by rw [hrep, hElen]; omega)]; exact hrep
  have hne : (loadedSmem mode5 maxpacket maxseq ps fill).isEmpty = false := by
    cases hm : loadedSmem mode5 maxpacket maxseq ps fill with
    | nil => rw [hm] at hL; simp at hL; omega
    | cons a as => rfl
  have hpeek : ∀ q, q < ps.length →
      peek32 (loadedSmem mode5 maxpacket maxseq ps fill) (chunkPsqOff mode5 maxpacket maxseq + 4 * q) = ps.getD q 0 := by
    intro q hq
    have hpre : ((List.replicate (chunkU mode5 maxpacket maxseq) fill).take (chunkPsqOff mode5 maxpacket maxseq)).length
        = chunkPsqOff mode5 maxpacket maxseq := by simp; omega
    have := peek32_flat ps ((List.replicate (chunkU mode5 maxpacket maxseq) fill).take (chunkPsqOff mode5 maxpacket maxseq))
      ((List.replicate (chunkU mode5 maxpacket maxseq) fill).drop (chunkPsqOff mode5 maxpacket maxseq + (ps.flatMap enc32).length)) q hq
    rw [hpre] at this
    exact this
  have i0 : MInv mode5 ps (chunkPsqOff mode5 maxpacket maxseq) (chunkU mode5 maxpacket maxseq)
      (poke (loadedSmem mode5 maxpacket maxseq ps fill) 0 [255]) 0 := by
    refine ⟨by rw [poke_length _ _ _ (by rw [hL]; simp; omega)]; exact hL, fun q _ hq => ?_, ?_⟩
    · rw [peek32_poke _ _ _ _ (by simp; omega) (Nat.zero_le _)]; exact hpeek q hq
    · have : Wp mode5 ps 0 = 0 + ([255] : List UInt8).length := by simp [Wp, writeFront]
      rw [this, poke_take _ _ _ (Nat.zero_le _)]
      simp [layoutP]
  have hds' : unpackChunkLoop mode5 ps.length (ps.drop 0) = some ds := by simpa [unpackChunk] using hds
  obtain ⟨mem', h1, h2, h3⟩ := unpackChunkMemLoop_spec mode5 ps (chunkPsqOff mode5 maxpacket maxseq) (chunkU mode5 maxpacket maxseq) sf
    (by omega) ps.length _ 0 ds i0 (Nat.zero_le _) hds' (by omega)
  have hW0 : Wp mode5 ps 0 - 1 = 0 := by simp [Wp, writeFront]
  rw [hW0] at h1
  refine ⟨mem', by simp only [unpackChunkMem, hne, Bool.false_eq_true, if_false]; exact h1, h2.len, ?_⟩
  have hlayout : layoutP mode5 ps ps.length = smemLayout ds := by
    rw [h3]; simp [layoutP, smemLayout]
  have := h2.pre
  rw [hlayout] at this
  have b := Wp_le_U mode5 ps _ _ sf ps.length (Nat.le_refl _)
  have hmin : min (Wp mode5 ps ps.length) mem'.length = Wp mode5 ps ps.length := by rw [h2.len]; omega
  rw [← this, List.length_take, hmin]

/-! ## the packets of a chunk that was packed: one EOD packet per sequence -/

theorem filter_last_only {α} (p : α → Bool) : ∀ (l : List α), l ≠ [] →
    (∀ i (hi : i < l.length), p l[i] = decide (i + 1 = l.length)) → (l.filter p).length = 1
  | [], hne, _ => absurd rfl hne
  | [a], _, h => by
    have := h 0 (by simp)
    simp at this
    simp [List.filter, this]
  | a :: b :: l, _, h => by
    have h0 := h 0 (by simp)
    have ha : p a = false := by simpa using h0
    have ht : ∀ i (hi : i < (b :: l).length), p (b :: l)[i] = decide (i + 1 = (b :: l).length) := by
      intro i hi
      have := h (i + 1) (by simpa using hi)
      simpa using this
    rw [List.filter_cons_of_neg (by simp [ha])]
    exact filter_last_only p (b :: l) (by simp) ht

theorem eodCount_append (a b : List UInt32) : eodCount (a ++ b) = eodCount a + eodCount b := by
  simp [eodCount, List.filter_append]

theorem eodCount_pk (amino : Bool) (d : List UInt8) (hd : ∀ x ∈ d, x ≤ 30) : eodCount (pk amino d) = 1 := by
  have hne : pk amino d ≠ [] := by
    have := pk_length_pos amino d
    intro e; rw [e] at this; simp at this
  unfold eodCount
  apply filter_last_only _ _ hne
  intro i hi
  unfold pk at hi ⊢
  split
  · rename_i h; simp only [h, if_true] at hi; exact pack5_eod_last d hd i hi
  · rename_i h; simp only [h, if_false] at hi; exact pack2_eod_last d hd i (by simpa using hi)

theorem eodCount_flatMap_pk (amino : Bool) : ∀ (ds : List (List UInt8)), (∀ d ∈ ds, ∀ x ∈ d, x ≤ 30) →
    eodCount (ds.flatMap (pk amino)) = ds.length
  | [], _ => rfl
  | d :: ds, h => by
    rw [List.flatMap_cons, eodCount_append, eodCount_pk amino d (h d (by simp)),
      eodCount_flatMap_pk amino ds (fun d' hd' => h d' (by simp [hd'])), List.length_cons]
    omega

/-- **Packed chunk → loader's buffer → unpacked in place = the sequences.** For every list of sequences `ds` (codes ≤ 30,
    empty ones included) whose packets fit the buffer limits (`Σ packets ≤ maxpacket`, `|ds| ≤ maxseq`): -/
theorem unpackChunkMem_packed (amino : Bool) (ds : List (List UInt8)) (maxpacket maxseq : Nat) (fill : UInt8)
    (hd : ∀ d ∈ ds, ∀ x ∈ d, x ≤ 30) (hpn : (ds.flatMap (pk amino)).length ≤ maxpacket) (hN : ds.length ≤ maxseq) :
    ∃ mem', unpackChunkMem amino (loadedSmem amino maxpacket maxseq (ds.flatMap (pk amino)) fill)
        (chunkPsqOff amino maxpacket maxseq) (ds.flatMap (pk amino)).length = some (mem', segsOf 0 ds) ∧
      mem'.length = chunkU amino maxpacket maxseq ∧ mem'.take (smemLayout ds).length = smemLayout ds :=
  unpackChunkMem_correct amino _ maxpacket maxseq fill ds hpn (by rw [eodCount_flatMap_pk amino ds hd]; exact hN)
    (unpackChunk_pk amino ds hd)

/-- every chunk the byte-level loader delivers (`Tiles`) unpacks IN PLACE, in the chunk buffer made for the reader's limits,
    to exactly the sequences of its records -/
theorem tiles_unpack_in_place (amino : Bool) (db : List SeqRec) (maxseq : Nat) (maxpacket : Int) (hwf : ∀ r ∈ db, r.Wf)
    (fill : UInt8) : ∀ (out : List (BChunk × List SeqRec)) (pos : Nat), Tiles amino db maxseq maxpacket pos out →
    ∀ c ∈ out, ∃ mem', unpackChunkMem amino (loadedSmem amino maxpacket.toNat maxseq c.1.psq fill)
          (chunkPsqOff amino maxpacket.toNat maxseq) c.1.pn = some (mem', segsOf 0 (c.2.map (·.dsq))) ∧
        mem'.take (smemLayout (c.2.map (·.dsq))).length = smemLayout (c.2.map (·.dsq))
  | [], _, _, c, hc => by cases hc
  | (c0, rs) :: rest, pos, h, c, hc => by
    obtain ⟨_, _, hn, hp, hle, hrs, hpsq, hpn, _, ht⟩ := h
    rcases List.mem_cons.mp hc with rfl | hc'
    · have hsub : ∀ r ∈ rs, r ∈ db := by
        intro r hr; rw [hrs] at hr
        exact List.mem_of_mem_drop (List.mem_of_mem_take hr)
      have hd : ∀ d ∈ rs.map (·.dsq), ∀ x ∈ d, x ≤ 30 := by
        intro d hd
        obtain ⟨r, hr, rfl⟩ := List.mem_map.mp hd
        exact (hwf r (hsub r hr)).2.2.2.2
      have hflat : (rs.map (·.dsq)).flatMap (pk amino) = rs.flatMap (PK amino) := by simp [List.flatMap_map]
      have hlen : rs.length ≤ maxseq := by
        have : rs.length ≤ c0.n := by rw [hrs]; simp [List.length_take]; omega
        omega
      have hpk : ((rs.map (·.dsq)).flatMap (pk amino)).length ≤ maxpacket.toNat := by
        rw [hflat, ← hpsq, ← hpn]; omega
      obtain ⟨mem', h1, _, h3⟩ := unpackChunkMem_packed amino (rs.map (·.dsq)) maxpacket.toNat maxseq fill hd hpk (by simpa using hlen)
      refine ⟨mem', ?_, h3⟩
      simp only
      rw [hpsq, hpn, hpsq, ← hflat]
      exact h1
    · exact tiles_unpack_in_place amino db maxseq maxpacket hwf fill rest _ ht c hc'

end EaselModel.Dsqdata
