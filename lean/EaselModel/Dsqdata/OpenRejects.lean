import EaselModel.Dsqdata.FormatLemmas
/-! # `esl_dsqdata_Open` refuses a database whose alphabet type or stub tag does not match (esl_dsqdata.c §1)

Complements `open_corrupt` (magic / tag of the three data files): the alphabet-type field of the `.dsqi` header, the caller's
expected alphabet, and the tag line of the stub file. Core Lean only. -/
namespace EaselModel.Dsqdata

/-- the alphabet-type field (bytes 8..11 of `.dsqi`) replaced by `a` -/
def patchType (f : Files) (a : Nat) : Files := { f with idx := f.idx.take 8 ++ (le32 a ++ f.idx.drop 12) }
/-- the stub file replaced by one whose tag line carries `t` (anything may follow) -/
def patchStub (f : Files) (t : Nat) (rest : List UInt8) : Files := { f with stub := stubLine1 t ++ rest }

theorem take8 (a b : Nat) (rest : List UInt8) : (le32 a ++ le32 b ++ rest).take 8 = le32 a ++ le32 b :=
  List.take_left' (by simp [le32])

theorem drop12 (a b c : Nat) (rest : List UInt8) : (le32 a ++ le32 b ++ (le32 c ++ rest)).drop 12 = rest := by
  rw [← List.append_assoc]
  exact List.drop_left' (by simp [le32])

/-- **wrong alphabet / foreign stub.** On the files written for any database of alphabet type `alphatype`:
    * a caller that passes an alphabet of another type `t` gets `eslEFORMAT` ("data files use a different alphabet", 20);
    * if the type field is overwritten by `a`: a caller with the right alphabet gets the same refusal; a caller without an
      alphabet gets `eslEFORMAT` "invalid alphabet type" (21) when `a` is `eslUNKNOWN` (0) or beyond `eslNONSTANDARD` (6);
    * a stub file carrying another tag than the index file gets `eslEFORMAT` "index file has bad tag" (18). -/
theorem open_rejects_lemma (tag alphatype : Nat) (fname fmt : List UInt8) (db : List SeqRec) (f : Files)
    (hty : alphatype = 1 ∨ alphatype = 2 ∨ alphatype = 3) (hw : writeDb tag alphatype fname fmt db = .ok f) :
    (∀ t, t ≠ alphatype → openDb (some t) f = .eformat 20) ∧
    (∀ a, a % 4294967296 ≠ alphatype → openDb (some alphatype) (patchType f a) = .eformat 20) ∧
    (∀ a, a % 4294967296 = 0 ∨ a % 4294967296 > 6 → openDb none (patchType f a) = .eformat 21) ∧
    (∀ t rest expect, t % 4294967296 ≠ tag % 4294967296 → openDb expect (patchStub f t rest) = .eformat 18) := by
  simp only [writeDb] at hw
  split at hw
  · cases hw
  split at hw
  · cases hw
  simp only [WriteResult.ok.injEq] at hw
  subst hw
  have hM : MAGIC % 4294967296 = MAGIC := by decide
  have hMS : ¬ (MAGIC = MAGIC_SWAP) := by decide
  have hA : alphatype % 4294967296 = alphatype := by omega
  refine ⟨?_, ?_, ?_, ?_⟩
  · intro t ht
    have ht' : ¬ (alphatype = t) := fun e => ht e.symm
    simp only [openDb, parseStub_stubLine1, rdFields_idx, List.getD_cons_zero, List.getD_cons_succ, hM, hMS, hA,
      ne_eq, not_true_eq_false, if_false, ht', not_false_eq_true, if_true]
  · intro a ha
    simp only [patchType, take8, drop12, openDb, parseStub_stubLine1, rdFields_idx, List.getD_cons_zero, List.getD_cons_succ,
      hM, hMS, ne_eq, not_true_eq_false, if_false, ha, not_false_eq_true, if_true]
  · intro a ha
    simp only [patchType, take8, drop12, openDb, parseStub_stubLine1, rdFields_idx, List.getD_cons_zero, List.getD_cons_succ,
      hM, hMS, ne_eq, not_true_eq_false, if_false, ha, if_true]
  · intro t rest expect ht
    have ht' : ¬ (tag % 4294967296 = t % 4294967296) := fun e => ht e.symm
    simp only [patchStub, openDb, parseStub_stubLine1, rdFields_idx, List.getD_cons_zero, List.getD_cons_succ,
      ne_eq, ht', not_false_eq_true, if_true]

end EaselModel.Dsqdata
