import EaselModel.Dsqdata.InPlace
import EaselModel.Dsqdata.Format
/-! # `dsqdata_unpack_chunk` at byte level: unpacking in place inside `smem` (esl_dsqdata.c §3, §5)

`dsqdata_chunk_Create` allocates one buffer `smem` of `U` bytes; the loader `fread`s the packets of a chunk to
`psq = smem + U - 4·maxpacket` (the END of the buffer, native byte order), and `dsqdata_unpack_chunk` unpacks them from byte
1 upwards INTO THE SAME BUFFER: the residues written for packet `p` may overwrite the bytes of packets `≤ p` (already read)
but must never reach packet `p+1`. Executable model on a byte list, every access bounds-checked (`none` = the C code reads
or writes outside `smem`); core Lean only. The theorem (SmemLemmas.lean) says the result is the functional `unpackChunk`. -/
namespace EaselModel.Dsqdata

/-- `U` and the byte offset of `psq` as `dsqdata_chunk_Create` computes them:
    `U = {6|15}·maxpacket + maxseq + 1`, rounded up to a multiple of 4; `psq = smem + U - 4·maxpacket` -/
def chunkU (mode5 : Bool) (maxpacket maxseq : Nat) : Nat := (per mode5 * maxpacket + maxseq + 1 + 3) / 4 * 4
def chunkPsqOff (mode5 : Bool) (maxpacket maxseq : Nat) : Nat := chunkU mode5 maxpacket maxseq - 4 * maxpacket

/-- `memcpy`-like store of the bytes `b` at offset `r` (the caller has checked `r + b.length ≤ mem.length`) -/
def poke (mem : List UInt8) (r : Nat) (b : List UInt8) : List UInt8 := mem.take r ++ (b ++ mem.drop (r + b.length))

/-- the `uint32_t` at byte offset `off` (`psq[pos]`) -/
def peek32 (mem : List UInt8) (off : Nat) : UInt32 := dec32 ((mem.drop off).take 4)

/-- what the unpackers store for packet `v`: its residues, and the trailing sentinel when it ends the sequence -/
def packetBlock (mode5 : Bool) (v : UInt32) : List UInt8 :=
  packetResidues mode5 v ++ (if v &&& EOD != 0 then [255] else [])

/-- `dsqdata_unpack5` / `dsqdata_unpack2` inside `smem`: packets from byte offset `pk`, residues to byte offset `w`
    (`dsq + r`), `L`/`P` counted so far. Returns the memory, `L`, `P`. -/
def unpackSeqMem (mode5 : Bool) : Nat → List UInt8 → Nat → Nat → Nat → Nat → Option (List UInt8 × Nat × Nat)
  | 0, _, _, _, _, _ => none
  | fuel + 1, mem, pk, w, L, P =>
    if pk + 4 > mem.length then none else          -- `v = psq[pos++]` outside the buffer
    let v := peek32 mem pk
    let b := packetBlock mode5 v
    if w + b.length > mem.length then none else    -- `dsq[r++] = …` outside the buffer
    if v &&& EOD != 0 then some (poke mem w b, L + (packetResidues mode5 v).length, P + 1)
    else unpackSeqMem mode5 fuel (poke mem w b) (pk + 4) (w + b.length) (L + (packetResidues mode5 v).length) (P + 1)

/-- the sequence loop of `dsqdata_unpack_chunk`: `while (pos < pn) { dsq[i] = smem + r; unpack; r += L+1; pos += P; L[i] = L; i++ }`;
    result: the memory and `(dsq[i] - smem, L[i])` for every sequence -/
def unpackChunkMemLoop (mode5 : Bool) (psqOff pn : Nat) : Nat → List UInt8 → Nat → Nat → Option (List UInt8 × List (Nat × Nat))
  | 0, mem, _, _ => some (mem, [])
  | fuel + 1, mem, pos, r =>
    if pos ≥ pn then some (mem, [])
    else match unpackSeqMem mode5 (mem.length + 1) mem (psqOff + 4 * pos) (r + 1) 0 0 with
      | none => none
      | some (mem', L, P) =>
        match unpackChunkMemLoop mode5 psqOff pn fuel mem' (pos + P) (r + L + 1) with
        | none => none
        | some (mem'', segs) => some (mem'', (r, L) :: segs)

/-- `dsqdata_unpack_chunk` (sequence part) on a buffer that holds `pn` packets at `psqOff`: `smem[0] = eslDSQ_SENTINEL`, then the loop -/
def unpackChunkMem (mode5 : Bool) (mem : List UInt8) (psqOff pn : Nat) : Option (List UInt8 × List (Nat × Nat)) :=
  if mem.isEmpty then none else
  unpackChunkMemLoop mode5 psqOff pn pn (poke mem 0 [255]) 0 0

/-- a chunk buffer as the loader leaves it: `U` bytes (`fill` wherever nothing has been stored), the packets at `psq` -/
def loadedSmem (mode5 : Bool) (maxpacket maxseq : Nat) (ps : List UInt32) (fill : UInt8) : List UInt8 :=
  poke (List.replicate (chunkU mode5 maxpacket maxseq) fill) (chunkPsqOff mode5 maxpacket maxseq) (ps.flatMap enc32)

end EaselModel.Dsqdata
