import EaselModel.Dsqdata.ShortRead
import EaselModel.Dsqdata.FormatLemmas
/-! # Cutting a data file short: what the byte-level loader does with `.dsqs` / `.dsqm` truncated at an arbitrary byte.

`cut_sfp_run` / `cut_mfp_run`: run the loader on the same index with the packet file (resp. the metadata file) cut after `m` bytes.
Either nothing changes (the cut lies behind everything the loader reads), or the loader delivers a PREFIX of the chunks of the
uncut run - byte for byte the same chunks - and then ends with the fatal short-read error. It never delivers a wrong or partial
chunk, and never ends with end-of-data earlier than the uncut run. -/
namespace EaselModel.Dsqdata

theorem freadItems_take (size n m : Nat) (hs : 0 < size) (bs : List UInt8) :
    ((freadItems size n (bs.take m)).2.1 = n →
        (freadItems size n bs).2.1 = n ∧ (freadItems size n (bs.take m)).1 = (freadItems size n bs).1 ∧
        (freadItems size n (bs.take m)).2.2 = (freadItems size n bs).2.2.take (m - n * size)) ∧
    (freadItems size n (bs.take m)).2.1 ≤ n := by
  simp only [freadItems, List.length_take]
  refine ⟨fun hk => ?_, Nat.min_le_left _ _⟩
  have h1 : n ≤ min m bs.length / size := by
    have := Nat.min_le_right n (min m bs.length / size); omega
  have h2 : n * size ≤ min m bs.length := (Nat.le_div_iff_mul_le hs).mp h1
  have h3 : n ≤ bs.length / size := (Nat.le_div_iff_mul_le hs).mpr (by omega)
  have hk2 : min n (bs.length / size) = n := by omega
  rw [hk, hk2]
  refine ⟨rfl, ?_, ?_⟩
  · rw [List.take_take]; congr 1; omega
  · simp only [Nat.lt_irrefl, if_false]
    rw [List.drop_take]

/-- how one iteration on the cut packet file relates to the same iteration on the uncut one -/
def cutS : LoadX → LoadX → Prop
  | .chunk c s1, .chunk c' s1' => c' = c ∧ ∃ m', s1' = { s1 with sfp := s1.sfp.take m' }
  | .chunk _ _, .fatalPackets w g => g < w
  | .eod _, .eod _ => True
  | .fatalPackets _ _, .fatalPackets w' g' => g' < w'
  | .fatalMeta w g, .fatalMeta w' g' => w' = w ∧ g' = g
  | .fatalMeta _ _, .fatalPackets w g => g < w
  | .fault, .fault => True
  | _, _ => False

theorem loaderIterX_cut_sfp (maxseq : Nat) (maxpacket : Int) (st : BState) (m : Nat) :
    cutS (loaderIterX maxseq maxpacket st) (loaderIterX maxseq maxpacket { st with sfp := st.sfp.take m }) := by
  unfold loaderIterX
  simp only
  generalize loaderIter maxseq maxpacket _ = r
  match r with
  | none => exact trivial
  | some (none, l') => exact trivial
  | some (some c, l') =>
    simp only
    by_cases h1 : c.nmeta < 0
    · simp only [h1, if_true]; exact trivial
    · simp only [h1, if_false]
      obtain ⟨ht, hle⟩ := freadItems_take 4 c.pn.toNat m (by decide) st.sfp
      by_cases h2' : (freadItems 4 c.pn.toNat (st.sfp.take m)).2.1 = c.pn.toNat
      · obtain ⟨h2, hd, hr⟩ := ht h2'
        simp only [h2', h2, ne_eq, not_true_eq_false, if_false]
        by_cases h3 : (freadItems 1 c.nmeta.toNat st.mfp).2.1 = c.nmeta.toNat
        · simp only [h3, not_true_eq_false, if_false]
          exact ⟨by rw [hd], ⟨m - c.pn.toNat * 4, by rw [hr]⟩⟩
        · simp only [h3, not_false_eq_true, if_true]
          exact ⟨rfl, rfl⟩
      · have hlt : (freadItems 4 c.pn.toNat (st.sfp.take m)).2.1 < c.pn.toNat := by omega
        simp only [ne_eq, h2', not_false_eq_true, if_true]
        by_cases h2 : (freadItems 4 c.pn.toNat st.sfp).2.1 = c.pn.toNat
        · simp only [h2, not_true_eq_false, if_false]
          by_cases h3 : (freadItems 1 c.nmeta.toNat st.mfp).2.1 = c.nmeta.toNat
          · simp only [h3, not_true_eq_false, if_false]; exact hlt
          · simp only [h3, not_false_eq_true, if_true]; exact hlt
        · simp only [h2, not_false_eq_true, if_true]; exact hlt

/-- **`.dsqs` cut after `m` bytes (behind whatever has been read already).** The loader's run on the cut file is the run on the uncut
    file, or a prefix of its chunks - the very same chunks - followed by the fatal short-read error on the packets. -/
theorem cut_sfp_run (maxseq : Nat) (maxpacket : Int) : ∀ (fuel : Nat) (st : BState) (m : Nat),
    loaderRunX maxseq maxpacket fuel { st with sfp := st.sfp.take m } = loaderRunX maxseq maxpacket fuel st ∨
    ∃ k w g, (loaderRunX maxseq maxpacket fuel { st with sfp := st.sfp.take m }).1 = (loaderRunX maxseq maxpacket fuel st).1.take k ∧
      (loaderRunX maxseq maxpacket fuel { st with sfp := st.sfp.take m }).2 = .fatalPackets w g ∧ g < w
  | 0, _, _ => Or.inl rfl
  | fuel + 1, st, m => by
    have hrel := loaderIterX_cut_sfp maxseq maxpacket st m
    unfold loaderRunX
    cases ha : loaderIterX maxseq maxpacket st with
    | fault =>
      cases hb : loaderIterX maxseq maxpacket { st with sfp := st.sfp.take m } with
      | fault => exact Or.inl rfl
      | _ => rw [ha, hb] at hrel; exact hrel.elim
    | eod s1 =>
      cases hb : loaderIterX maxseq maxpacket { st with sfp := st.sfp.take m } with
      | eod s1' => exact Or.inl rfl
      | _ => rw [ha, hb] at hrel; exact hrel.elim
    | fatalPackets w g =>
      cases hb : loaderIterX maxseq maxpacket { st with sfp := st.sfp.take m } with
      | fatalPackets w' g' =>
        rw [ha, hb] at hrel
        exact Or.inr ⟨0, w', g', rfl, rfl, hrel⟩
      | _ => rw [ha, hb] at hrel; exact hrel.elim
    | fatalMeta w g =>
      cases hb : loaderIterX maxseq maxpacket { st with sfp := st.sfp.take m } with
      | fatalMeta w' g' =>
        rw [ha, hb] at hrel
        obtain ⟨rfl, rfl⟩ := hrel
        exact Or.inl rfl
      | fatalPackets w' g' =>
        rw [ha, hb] at hrel
        exact Or.inr ⟨0, w', g', rfl, rfl, hrel⟩
      | _ => rw [ha, hb] at hrel; exact hrel.elim
    | chunk c s1 =>
      cases hb : loaderIterX maxseq maxpacket { st with sfp := st.sfp.take m } with
      | chunk c' s1' =>
        rw [ha, hb] at hrel
        obtain ⟨rfl, m', rfl⟩ := hrel
        simp only
        rcases cut_sfp_run maxseq maxpacket fuel s1 m' with he | ⟨k, w, g, h1, h2, h3⟩
        · exact Or.inl (by rw [he])
        · exact Or.inr ⟨k + 1, w, g, by rw [h1]; rfl, h2, h3⟩
      | fatalPackets w' g' =>
        rw [ha, hb] at hrel
        exact Or.inr ⟨0, w', g', rfl, rfl, hrel⟩
      | _ => rw [ha, hb] at hrel; exact hrel.elim

/-- the same for the metadata file -/
def cutM : LoadX → LoadX → Prop
  | .chunk c s1, .chunk c' s1' => c' = c ∧ ∃ m', s1' = { s1 with mfp := s1.mfp.take m' }
  | .chunk _ _, .fatalMeta w g => g < w
  | .eod _, .eod _ => True
  | .fatalPackets w g, .fatalPackets w' g' => w' = w ∧ g' = g
  | .fatalMeta _ _, .fatalMeta w' g' => g' < w'
  | .fault, .fault => True
  | _, _ => False

theorem loaderIterX_cut_mfp (maxseq : Nat) (maxpacket : Int) (st : BState) (m : Nat) :
    cutM (loaderIterX maxseq maxpacket st) (loaderIterX maxseq maxpacket { st with mfp := st.mfp.take m }) := by
  unfold loaderIterX
  simp only
  generalize loaderIter maxseq maxpacket _ = r
  match r with
  | none => exact trivial
  | some (none, l') => exact trivial
  | some (some c, l') =>
    simp only
    by_cases h1 : c.nmeta < 0
    · simp only [h1, if_true]; exact trivial
    · simp only [h1, if_false]
      by_cases h2 : (freadItems 4 c.pn.toNat st.sfp).2.1 = c.pn.toNat
      · simp only [h2, ne_eq, not_true_eq_false, if_false]
        obtain ⟨ht, hle⟩ := freadItems_take 1 c.nmeta.toNat m (by decide) st.mfp
        by_cases h3' : (freadItems 1 c.nmeta.toNat (st.mfp.take m)).2.1 = c.nmeta.toNat
        · obtain ⟨h3, hd, hr⟩ := ht h3'
          simp only [h3', h3, not_true_eq_false, if_false]
          exact ⟨by rw [hd], ⟨m - c.nmeta.toNat * 1, by rw [hr]⟩⟩
        · have hlt : (freadItems 1 c.nmeta.toNat (st.mfp.take m)).2.1 < c.nmeta.toNat := by omega
          simp only [h3', not_false_eq_true, if_true]
          by_cases h3 : (freadItems 1 c.nmeta.toNat st.mfp).2.1 = c.nmeta.toNat
          · simp only [h3, not_true_eq_false, if_false]; exact hlt
          · simp only [h3, not_false_eq_true, if_true]; exact hlt
      · simp only [ne_eq, h2, not_false_eq_true, if_true]
        exact ⟨rfl, rfl⟩

/-- **`.dsqm` cut after `m` bytes.** The loader's run on the cut file is the run on the uncut file, or a prefix of its chunks - the
    very same chunks - followed by the fatal short-read error on the metadata. -/
theorem cut_mfp_run (maxseq : Nat) (maxpacket : Int) : ∀ (fuel : Nat) (st : BState) (m : Nat),
    loaderRunX maxseq maxpacket fuel { st with mfp := st.mfp.take m } = loaderRunX maxseq maxpacket fuel st ∨
    ∃ k w g, (loaderRunX maxseq maxpacket fuel { st with mfp := st.mfp.take m }).1 = (loaderRunX maxseq maxpacket fuel st).1.take k ∧
      (loaderRunX maxseq maxpacket fuel { st with mfp := st.mfp.take m }).2 = .fatalMeta w g ∧ g < w
  | 0, _, _ => Or.inl rfl
  | fuel + 1, st, m => by
    have hrel := loaderIterX_cut_mfp maxseq maxpacket st m
    unfold loaderRunX
    cases ha : loaderIterX maxseq maxpacket st with
    | fault =>
      cases hb : loaderIterX maxseq maxpacket { st with mfp := st.mfp.take m } with
      | fault => exact Or.inl rfl
      | _ => rw [ha, hb] at hrel; exact hrel.elim
    | eod s1 =>
      cases hb : loaderIterX maxseq maxpacket { st with mfp := st.mfp.take m } with
      | eod s1' => exact Or.inl rfl
      | _ => rw [ha, hb] at hrel; exact hrel.elim
    | fatalMeta w g =>
      cases hb : loaderIterX maxseq maxpacket { st with mfp := st.mfp.take m } with
      | fatalMeta w' g' =>
        rw [ha, hb] at hrel
        exact Or.inr ⟨0, w', g', rfl, rfl, hrel⟩
      | _ => rw [ha, hb] at hrel; exact hrel.elim
    | fatalPackets w g =>
      cases hb : loaderIterX maxseq maxpacket { st with mfp := st.mfp.take m } with
      | fatalPackets w' g' =>
        rw [ha, hb] at hrel
        obtain ⟨rfl, rfl⟩ := hrel
        exact Or.inl rfl
      | _ => rw [ha, hb] at hrel; exact hrel.elim
    | chunk c s1 =>
      cases hb : loaderIterX maxseq maxpacket { st with mfp := st.mfp.take m } with
      | chunk c' s1' =>
        rw [ha, hb] at hrel
        obtain ⟨rfl, m', rfl⟩ := hrel
        simp only
        rcases cut_mfp_run maxseq maxpacket fuel s1 m' with he | ⟨k, w, g, h1, h2, h3⟩
        · exact Or.inl (by rw [he])
        · exact Or.inr ⟨k + 1, w, g, by rw [h1]; rfl, h2, h3⟩
      | fatalMeta w' g' =>
        rw [ha, hb] at hrel
        exact Or.inr ⟨0, w', g', rfl, rfl, hrel⟩
      | _ => rw [ha, hb] at hrel; exact hrel.elim

theorem unpackAll_fst (pack5 : Bool) : ∀ (cs : List BChunk) (out : List (BChunk × List SeqRec)),
    unpackAll pack5 cs = some out → out.map (·.1) = cs
  | [], out, h => by simp [unpackAll] at h; subst h; rfl
  | c :: cs, out, h => by
    simp only [unpackAll] at h
    split at h
    · rename_i r rs h1 h2
      cases h
      simp [unpackAll_fst pack5 cs rs h2]
    · cases h

/-- an uncut read that succeeds is a loader run that ends with end of data, with exactly those chunks -/
theorem readDb_runX (maxseq : Nat) (maxpacket : Int) (o : Opened) (out : List (BChunk × List SeqRec))
    (h : readDb maxseq maxpacket o = some out) :
    loaderRunX maxseq maxpacket (o.ifp.length / 16 + 2) (BState.init o) = (out.map (·.1), .eof) := by
  unfold readDb at h
  rw [loaderRunX_B] at h
  by_cases he : (loaderRunX maxseq maxpacket (o.ifp.length / 16 + 2) (BState.init o)).2 = .eof
  · rw [if_pos he] at h
    simp only at h
    have := unpackAll_fst o.pack5 _ out h
    rw [this]
    exact Prod.ext rfl he
  · rw [if_neg he] at h
    cases h

theorem take_hdr (a b : Nat) (rest : List UInt8) (m : Nat) :
    (le32 a ++ le32 b ++ rest).take (8 + m) = le32 a ++ le32 b ++ rest.take m := by
  have h8 : (le32 a ++ le32 b).length = 8 := by simp [le32]
  rw [← h8, List.take_length_add_append]

/-- **`esl_dsqdata_Open` on written files whose `.dsqs` (resp. `.dsqm`) was cut `m` bytes behind its 8-byte header**: accepted, with the
    same header values; only the unread part of that file is shorter -/
theorem openDb_cut (tag alphatype : Nat) (fname fmt : List UInt8) (db : List SeqRec)
    (hty : alphatype = 1 ∨ alphatype = 2 ∨ alphatype = 3) (hlen : ∀ r ∈ db, r.dsq.length < 6 * MAXPACKET)
    (expect : Option Nat) (hexp : expect = none ∨ expect = some alphatype) (m : Nat) :
    ∃ f, writeDb tag alphatype fname fmt db = .ok f ∧
      openDb expect { f with seq := f.seq.take (8 + m) } =
        .ok { writtenHeader tag alphatype (alphatype == 3) db with sfp := (writtenHeader tag alphatype (alphatype == 3) db).sfp.take m } ∧
      openDb expect { f with mdat := f.mdat.take (8 + m) } =
        .ok { writtenHeader tag alphatype (alphatype == 3) db with mfp := (writtenHeader tag alphatype (alphatype == 3) db).mfp.take m } := by
  have hany : db.any (fun r => decide (r.dsq.length ≥ 6 * MAXPACKET)) = false := by
    rw [List.any_eq_false]
    intro r hr
    have := hlen r hr
    simp only [ge_iff_le, decide_eq_true_eq]; omega
  have hne : ¬ (alphatype ≠ 3 ∧ alphatype ≠ 2 ∧ alphatype ≠ 1) := by omega
  refine ⟨_, by simp only [writeDb, hany, hne, Bool.false_eq_true, if_false]; rfl, ?_, ?_⟩
  all_goals
    have hM : MAGIC % 4294967296 = MAGIC := by decide
    have hMS : ¬ (MAGIC = MAGIC_SWAP) := by decide
    have hA : alphatype % 4294967296 = alphatype := by omega
    simp only [openDb, take_hdr, parseStub_stubLine1, rdFields_idx, rdFields_two, List.getD_cons_zero, List.getD_cons_succ, hM, hMS, hA,
      ne_eq, not_true_eq_false, if_false]
    rcases hexp with rfl | rfl
    · have h1 : ¬ (alphatype = 0 ∨ alphatype > 6) := by omega
      have h2 : ¬ (alphatype = 6) := by omega
      simp only [h1, h2, if_false, writtenHeader, Nat.zero_mod]
    · simp only [not_true_eq_false, if_false, writtenHeader, Nat.zero_mod]

/-- the chunks that tile a database from record `pos` on hold `db.length - pos` sequences -/
theorem tiles_count (amino : Bool) (db : List SeqRec) (maxseq : Nat) (maxpacket : Int) :
    ∀ (out : List (BChunk × List SeqRec)) (pos : Nat), Tiles amino db maxseq maxpacket pos out → pos ≤ db.length →
      pos + (out.map (·.1.n)).sum = db.length
  | [], pos, h, hp => by simp only [Tiles] at h; simp; omega
  | (c, rs) :: rest, pos, h, _ => by
    obtain ⟨_, _, _, _, hle, _, _, _, _, ht⟩ := h
    have := tiles_count amino db maxseq maxpacket rest (pos + c.n) ht hle
    simp only [List.map_cons, List.sum_cons]
    omega

/-- **The loader's end-of-data check passes on what `esl_dsqdata_Write` wrote**: the number of sequences in the chunks of the written
    database is the `nseq` of its index header (fewer than `2^64` sequences), so `readDbX` - the loader with the check - ends with
    end of data, not with `fatalIndex`. -/
theorem readDbX_written (tag alphatype : Nat) (db : List SeqRec) (maxseq : Nat) (maxpacket : Int)
    (hwf : ∀ r ∈ db, r.Wf) (hms : 1 ≤ maxseq)
    (hfit : ∀ r ∈ db, ((pk (alphatype == 3) r.dsq).length : Int) ≤ maxpacket)
    (h1 : (psOf (alphatype == 3) db).sum < 9223372036854775808) (h2 : (msOf db).sum < 9223372036854775808)
    (hn : db.length < 18446744073709551616) :
    (readDbX maxseq maxpacket (writtenHeader tag alphatype (alphatype == 3) db)).2 = .eof := by
  obtain ⟨out, hr, ht⟩ := readDb_written tag alphatype db maxseq maxpacket hwf hms hfit h1 h2
  have hrun := readDb_runX maxseq maxpacket _ out hr
  have hc := tiles_count (alphatype == 3) db maxseq maxpacket out 0 ht (Nat.zero_le _)
  have hnseq : (writtenHeader tag alphatype (alphatype == 3) db).nseq = db.length := by
    simp only [writtenHeader]; exact Nat.mod_eq_of_lt hn
  have hsum : (List.map ((fun x => x.n) ∘ fun x => x.fst) out).sum = db.length := by
    have e : ((fun (x : BChunk) => x.n) ∘ fun (x : BChunk × List SeqRec) => x.fst) = fun x => x.fst.n := rfl
    rw [e]; omega
  simp only [readDbX, hrun, List.map_map]
  simp [hnseq, hsum]

end EaselModel.Dsqdata
