import EaselModel.Dsqdata.Format
/-! # The loader's short-read branches (esl_dsqdata.c, `dsqdata_loader_thread`), executable model, core Lean only.

`Format.lean`'s `loaderIterB` folds every way an iteration of the loader can go wrong into `none`. Here the outcomes are kept
apart, as the C code has them:

* `nread != chu->pn`  → `ESL_XEXCEPTION(eslEOD, "dsqdata packet loader: expected %d, got %d")` → `ERROR:` → `esl_fatal(...)`
* `nread != nmeta`    → `ESL_XEXCEPTION(eslEOD, "dsqdata metadata loader: expected %d, got %d")` → `ERROR:` → `esl_fatal(...)`
  (the documented outcome: "we treat all exceptions as fatal" - the process ends with `exit(1)`; no consumer is left waiting)
* an index that makes the loader read outside `idx[]` / a negative or oversized count: undefined behaviour (`fault`)
* a short `fread` of the INDEX is not an error by itself (the records read so far are used, a partial one is dropped), but at end of
  data the loader compares the number of sequences it loaded with the header's `nseq` (fix 78cbf46): a `.dsqi` cut short behind its
  header ends in the same fatal branch (`fatalIndex`, applied by `readDbX`) instead of reading as a smaller database.

`loaderIterX` is `loaderIterB` with these outcomes (`loaderIterX_B`); `loaderRunX` is the loader's main loop. -/
namespace EaselModel.Dsqdata

inductive LoadX where
  | chunk (c : BChunk) (st : BState)
  | eod (st : BState)
  | fatalPackets (want got : Nat)
  | fatalMeta (want got : Nat)
  | fault

/-- one iteration of the loader's main loop, outcomes kept apart -/
def loaderIterX (maxseq : Nat) (maxpacket : Int) (st : BState) : LoadX :=
  let carried := st.l.window.drop st.l.nload
  let want := maxseq - carried.length
  let rd := freadItems 16 want st.ifp
  let recs := decodeItems 16 decRec rd.2.1 rd.1
  match loaderIter maxseq maxpacket { st.l with file := recs } with
  | none => .fault
  | some (none, l') => .eod { st with l := l', ifp := rd.2.2 }
  | some (some c, l') =>
    if c.nmeta < 0 then .fault else
    let rp := freadItems 4 c.pn.toNat st.sfp
    if rp.2.1 ≠ c.pn.toNat then .fatalPackets c.pn.toNat rp.2.1 else
    let rm := freadItems 1 c.nmeta.toNat st.mfp
    if rm.2.1 ≠ c.nmeta.toNat then .fatalMeta c.nmeta.toNat rm.2.1 else
    .chunk { i0 := c.i0, n := c.n, pn := c.pn.toNat, psq := decodeItems 4 dec32 c.pn.toNat rp.1, metadata := rm.1 }
           { l := l', ifp := rd.2.2, sfp := rp.2.2, mfp := rm.2.2 }

/-- `loaderIterB` is `loaderIterX` with the three failures folded into `none` -/
theorem loaderIterX_B (maxseq : Nat) (maxpacket : Int) (st : BState) :
    loaderIterB maxseq maxpacket st =
      match loaderIterX maxseq maxpacket st with
      | .chunk c st' => some (some c, st')
      | .eod st' => some (none, st')
      | _ => none := by
  unfold loaderIterB loaderIterX
  simp only
  generalize loaderIter maxseq maxpacket _ = r
  match r with
  | none => rfl
  | some (none, l') => rfl
  | some (some c, l') =>
    simp only
    by_cases h1 : c.nmeta < 0
    · simp [h1]
    · by_cases h2 : (freadItems 4 c.pn.toNat st.sfp).2.1 ≠ c.pn.toNat
      · simp [h1, h2]
      · by_cases h3 : (freadItems 1 c.nmeta.toNat st.mfp).2.1 ≠ c.nmeta.toNat
        · simp [h1, h2, h3]
        · simp [h1, h2, h3]

/-- how the loader thread ends -/
inductive ReadEnd where
  | eof                              -- `nidx == 0`: end of data, EOD flags set, clean exit
  | fatalPackets (want got : Nat)    -- `esl_fatal`: the process ends
  | fatalMeta (want got : Nat)
  | fatalIndex (want got : Nat)      -- end of data, but the number of sequences loaded is not the header's `nseq`
  | fault
deriving Repr, DecidableEq

def ReadEnd.isFatal : ReadEnd → Bool
  | .fatalPackets _ _ => true
  | .fatalMeta _ _ => true
  | .fatalIndex _ _ => true
  | _ => false

/-- the loader's main loop: the chunks it loads, in order, and how it ends (fuel as for `loaderChunksB`) -/
def loaderRunX (maxseq : Nat) (maxpacket : Int) : Nat → BState → List BChunk × ReadEnd
  | 0, _ => ([], .eof)
  | fuel + 1, st =>
    match loaderIterX maxseq maxpacket st with
    | .fault => ([], .fault)
    | .fatalPackets w g => ([], .fatalPackets w g)
    | .fatalMeta w g => ([], .fatalMeta w g)
    | .eod _ => ([], .eof)
    | .chunk c st' =>
      let r := loaderRunX maxseq maxpacket fuel st'
      (c :: r.1, r.2)

/-- `loaderChunksB` answers exactly when the loader ends with end of data, and with the same chunks -/
theorem loaderRunX_B (maxseq : Nat) (maxpacket : Int) : ∀ (fuel : Nat) (st : BState),
    loaderChunksB maxseq maxpacket fuel st =
      if (loaderRunX maxseq maxpacket fuel st).2 = .eof then some (loaderRunX maxseq maxpacket fuel st).1 else none
  | 0, _ => rfl
  | fuel + 1, st => by
    unfold loaderChunksB loaderRunX
    rw [loaderIterX_B]
    cases h : loaderIterX maxseq maxpacket st with
    | fault => simp
    | fatalPackets w g => simp
    | fatalMeta w g => simp
    | eod st' => simp
    | chunk c st' =>
      simp only
      rw [loaderRunX_B maxseq maxpacket fuel st']
      by_cases he : (loaderRunX maxseq maxpacket fuel st').2 = .eof <;> simp [he]

/-- reading an opened database with the outcomes kept apart: the chunks delivered before the end, each with the records the
    unpacker makes of it (`none`: `dsqdata_unpack_chunk` would walk off the chunk - cannot happen for chunks cut from intact
    files), and how the loader ended -/
def readDbX (maxseq : Nat) (maxpacket : Int) (o : Opened) : List (BChunk × Option (List SeqRec)) × ReadEnd :=
  let r := loaderRunX maxseq maxpacket (o.ifp.length / 16 + 2) (BState.init o)
  -- `if (nidx == 0) { if ((uint64_t) i0 != dd->nseq) ESL_XEXCEPTION(eslEFORMAT, …)`: at end of data the loaded count must be the header's
  let loaded := (r.1.map (·.n)).sum
  let fin := if r.2 == .eof && loaded != o.nseq then ReadEnd.fatalIndex o.nseq loaded else r.2
  (r.1.map fun c => (c, unpackB o.pack5 c), fin)

end EaselModel.Dsqdata
