import EaselModel.Dsqdata.Format
import EaselModel.Dsqdata.StubLemmas
/-! # Lemmas on the byte-level dsqdata format: encodings round-trip, the byte-level loader simulates the index-level one -/
namespace EaselModel.Dsqdata

theorem enc32_length (p : UInt32) : (enc32 p).length = 4 := by simp [enc32, le32]

theorem dec32_enc32 (p : UInt32) : dec32 (enc32 p) = p := by
  simp only [dec32, enc32, le32, leVal_leBytes]
  have h : p.toNat % 256 ^ 4 = p.toNat := Nat.mod_eq_of_lt (by have := p.toNat_lt; omega)
  rw [h]; exact UInt32.ofNat_toNat

theorem encRec_length (r : Rec) : (encRec r).length = 16 := by simp [encRec, leI64]

/-- the values an `int64_t` holds -/
def I64 (x : Int) : Prop := -9223372036854775808 ≤ x ∧ x < 9223372036854775808

theorem decRec_encRec (r : Rec) (h1 : I64 r.metaEnd) (h2 : I64 r.psqEnd) : decRec (encRec r) = r := by
  have e1 : (leI64 r.metaEnd ++ leI64 r.psqEnd).take 8 = leI64 r.metaEnd := by
    exact List.take_left' (by simp [leI64])
  have e2 : (leI64 r.metaEnd ++ leI64 r.psqEnd).drop 8 = leI64 r.psqEnd := by
    exact List.drop_left' (by simp [leI64])
  simp only [decRec, encRec, e1, e2, valI64_leI64 _ h1.1 h1.2, valI64_leI64 _ h2.1 h2.2]

theorem leVal_le32 (n : Nat) (h : n < 4294967296) : leVal (le32 n) = n := by
  simp only [le32, leVal_leBytes]
  exact Nat.mod_eq_of_lt (by omega)

/-- reading only the records the window can take gives the same chunk, and leaves no record behind in the state -/
theorem loaderIter_take (maxseq : Nat) (maxpacket : Int) (L : LState) :
    loaderIter maxseq maxpacket { L with file := L.file.take (maxseq - (L.window.drop L.nload).length) } =
      (loaderIter maxseq maxpacket L).map (fun x => (x.1, { x.2 with file := [] })) ∧
    ∀ o L', loaderIter maxseq maxpacket L = some (o, L') →
      L'.file = L.file.drop (maxseq - (L.window.drop L.nload).length) := by
  generalize hk : maxseq - (L.window.drop L.nload).length = k
  have h1 : (L.file.take k).take k = L.file.take k := by rw [List.take_take, Nat.min_self]
  have h2 : (L.file.take k).drop k = [] := by simp
  constructor
  · simp only [loaderIter, hk, h1, h2]
    cases hW : (L.window.drop L.nload ++ L.file.take k).isEmpty
    · simp only [Bool.false_eq_true, if_false]
      cases hc : chooseNload (L.window.drop L.nload ++ L.file.take k) L.psqLast maxpacket with
      | none => simp
      | some n =>
        simp only
        cases hr : getRec (L.window.drop L.nload ++ L.file.take k) (n - 1) with
        | none => simp
        | some r =>
          simp only
          split <;> simp
    · simp
  · intro o L' h
    simp only [loaderIter, hk] at h
    cases hW : (L.window.drop L.nload ++ L.file.take k).isEmpty
    · simp only [hW, Bool.false_eq_true, if_false] at h
      cases hc : chooseNload (L.window.drop L.nload ++ L.file.take k) L.psqLast maxpacket with
      | none => simp [hc] at h
      | some n =>
        simp only [hc] at h
        cases hr : getRec (L.window.drop L.nload ++ L.file.take k) (n - 1) with
        | none => simp [hr] at h
        | some r =>
          simp only [hr] at h
          split at h
          · simp at h
          · simp only [Option.some.injEq, Prod.mk.injEq] at h
            rw [← h.2]
    · simp only [hW, if_true, Option.some.injEq, Prod.mk.injEq] at h
      rw [← h.2]

/-! ## the byte-level loader on the files `esl_dsqdata_Write` produces -/

/-- packets of one record -/
abbrev PK (amino : Bool) (r : SeqRec) : List UInt32 := pk amino r.dsq
/-- metadata bytes of one record -/
abbrev EM (r : SeqRec) : List UInt8 := encodeMeta (metaOf r)

def SeqRec.Wf (r : SeqRec) : Prop :=
  (∀ x ∈ r.name, x ≠ 0) ∧ (∀ x ∈ r.acc, x ≠ 0) ∧ (∀ x ∈ r.desc, x ≠ 0) ∧ r.taxid < 4294967296 ∧ (∀ x ∈ r.dsq, x ≤ 30)

theorem metaOf_wf (r : SeqRec) (h : r.Wf) : (metaOf r).Wf :=
  ⟨h.1, h.2.1, h.2.2.1, by simp [metaOf, le32]⟩

/-- what `dsqdata_unpack_chunk` makes of the packets and metadata bytes of the records `rs` -/
theorem unpackB_records (amino : Bool) (rs : List SeqRec) (hwf : ∀ r ∈ rs, r.Wf) (i0 pn : Nat) :
    unpackB amino { i0 := i0, n := rs.length, pn := pn, psq := rs.flatMap (PK amino), metadata := rs.flatMap EM } = some rs := by
  have hm : parseMeta rs.length (rs.flatMap EM) = some (rs.map metaOf) := by
    have := parseMeta_encode (rs.map metaOf) (by
      intro m hm
      obtain ⟨r, hr, rfl⟩ := List.mem_map.mp hm
      exact metaOf_wf r (hwf r hr)) []
    simpa [List.flatMap_map, EM] using this
  have hd : unpackChunk amino (rs.flatMap (PK amino)) = some (rs.map (·.dsq)) := by
    have := unpackChunk_pk amino (rs.map (·.dsq)) (by
      intro d hd
      obtain ⟨r, hr, rfl⟩ := List.mem_map.mp hd
      exact (hwf r hr).2.2.2.2)
    simpa [List.flatMap_map, PK] using this
  simp only [unpackB, hm, hd, List.length_map, if_true]
  congr 1
  clear hm hd
  induction rs with
  | nil => rfl
  | cons r rs ih =>
    simp only [List.map_cons, List.zipWith_cons_cons]
    rw [ih (fun x hx => hwf x (by simp [hx]))]
    congr 1
    have := (hwf r (by simp)).2.2.2.1
    cases r
    simp only [metaOf, SeqRec.mk.injEq, true_and, and_true]
    exact leVal_le32 _ this

variable (amino : Bool) (db : List SeqRec) (maxseq : Nat) (maxpacket : Int)

/-- packets per record, metadata bytes per record, and the index `esl_dsqdata_Write` stores -/
abbrev psOf : List Nat := db.map fun r => (PK amino r).length
abbrev msOf : List Nat := db.map fun r => (EM r).length
abbrev idxOf : List Rec := indexOf ((psOf amino db).zip (msOf db)) 0 0

/-- byte-level loader state after `pos` records: positions of the three files, index window as in `LoaderInv` -/
def BInv (st : BState) (pos : Nat) : Prop :=
  ∃ L : LState, LoaderInv (idxOf amino db) (psOf amino db) (msOf db) maxseq L ∧ pos = L.i0 + L.nload ∧
    st.l = { L with file := [] } ∧ st.ifp = L.file.flatMap encRec ∧
    st.sfp = ((db.drop pos).flatMap (PK amino)).flatMap enc32 ∧ st.mfp = (db.drop pos).flatMap EM

theorem sum_take_le (l : List Nat) (k : Nat) : (l.take k).sum ≤ l.sum := by
  induction l generalizing k with
  | nil => simp
  | cons a l ih =>
    cases k with
    | zero => simp
    | succ k => simp only [List.take_succ_cons, List.sum_cons]; have := ih k; omega

/-- every index record holds values an `int64_t` can hold when the files are smaller than `2^63` packets / bytes -/
theorem idx_i64 (h1 : (psOf amino db).sum < 9223372036854775808) (h2 : (msOf db).sum < 9223372036854775808) :
    ∀ r ∈ idxOf amino db, I64 r.metaEnd ∧ I64 r.psqEnd := by
  intro r hr
  obtain ⟨i, hi, rfl⟩ := List.getElem_of_mem hr
  have hlen : (idxOf amino db).length = (psOf amino db).length := (idxOf_indexOf _ _ (by simp)).1
  obtain ⟨r', hr', hp, hm⟩ := (idxOf_indexOf (psOf amino db) (msOf db) (by simp)).2.2 i (by omega)
  rw [List.getElem?_eq_getElem hi] at hr'
  cases hr'
  have b1 := sum_take_le (psOf amino db) (i + 1)
  have b2 := sum_take_le (msOf db) (i + 1)
  simp only [pre] at hp hm
  simp only [I64]
  omega

theorem map_len_take_drop {α β} (f : α → List β) (l : List α) (pos n : Nat) :
    (((l.map fun r => (f r).length).drop pos).take n).sum = (((l.drop pos).take n).map fun x => (f x).length).sum := by
  rw [List.map_take, List.map_drop]

theorem loaderIterB_step (hms : 1 ≤ maxseq) (hfit : ∀ r ∈ db, ((PK amino r).length : Int) ≤ maxpacket)
    (hi64 : ∀ r ∈ idxOf amino db, I64 r.metaEnd ∧ I64 r.psqEnd)
    (st : BState) (pos : Nat) (hinv : BInv amino db maxseq st pos) (hlt : pos < db.length) :
    ∃ n st', loaderIterB maxseq maxpacket st =
        some (some { i0 := pos, n := n, pn := (((db.drop pos).take n).flatMap (PK amino)).length,
                     psq := ((db.drop pos).take n).flatMap (PK amino), metadata := ((db.drop pos).take n).flatMap EM }, st') ∧
      BInv amino db maxseq st' (pos + n) ∧ 1 ≤ n ∧ n ≤ maxseq ∧ pos + n ≤ db.length ∧
      ((((db.drop pos).take n).flatMap (PK amino)).length : Int) ≤ maxpacket := by
  obtain ⟨L, hL, hpos, hl, hifp, hsfp, hmfp⟩ := hinv
  have hidx := idxOf_indexOf (psOf amino db) (msOf db) (by simp)
  have hps : ∀ i (h : i < (psOf amino db).length), ((psOf amino db)[i] : Int) ≤ maxpacket := by
    intro i h
    simp only [List.getElem_map]
    exact hfit _ (List.getElem_mem _)
  obtain ⟨c, L', hiter, hL', hi0, hnl, hci0, hok⟩ := loaderIter_step (idxOf amino db) (psOf amino db) (msOf db) maxseq
    maxpacket L hidx hms hps hL (by rw [← hpos]; simpa using hlt)
  obtain ⟨hc1, hc2, hc3, hc4, hc5, hc6, hc7, _⟩ := hok
  obtain ⟨hA, hB⟩ := loaderIter_take maxseq maxpacket L
  generalize hk : maxseq - (L.window.drop L.nload).length = k at hA hB
  have hfile := hB _ _ hiter
  rw [hiter] at hA
  simp only [Option.map_some] at hA
  have hfr := freadItems_flatMap encRec 16 (by omega) encRec_length L.file k
  have hmem : ∀ x ∈ L.file.take k, decRec (encRec x) = x := by
    intro x hx
    have h1 : x ∈ L.window.drop L.nload ++ L.file := List.mem_append_right _ (List.mem_of_mem_take hx)
    rw [hL.hsplit] at h1
    have h2 := hi64 x (List.mem_of_mem_drop h1)
    exact decRec_encRec x h2.1 h2.2
  have hdecode : decodeItems 16 decRec (min k L.file.length) ((L.file.take k).flatMap encRec) = L.file.take k := by
    have := decodeItems_flatMap encRec decRec 16 encRec_length (L.file.take k) [] hmem
    rw [List.append_nil, List.length_take] at this; exact this
  -- the chunk's packets and metadata
  have hlen : db.length = (psOf amino db).length := by simp
  rw [← hpos] at hci0 hi0
  rw [hci0] at hc3 hc6 hc7
  have hpn : c.pn.toNat = ((((db.drop pos).take c.n).map fun x => (PK amino x).length)).sum := by
    rw [hc6, Int.toNat_natCast]; exact map_len_take_drop (PK amino) db pos c.n
  have hnm : c.nmeta.toNat = ((((db.drop pos).take c.n).map fun x => (EM x).length)).sum := by
    rw [hc7, Int.toNat_natCast]; exact map_len_take_drop EM db pos c.n
  have hpk_take : ((db.drop pos).flatMap (PK amino)).take c.pn.toNat = ((db.drop pos).take c.n).flatMap (PK amino) := by
    rw [hpn]; exact flatMap_take_prefix (PK amino) (db.drop pos) c.n
  have hpk_drop : ((db.drop pos).flatMap (PK amino)).drop c.pn.toNat = (db.drop (pos + c.n)).flatMap (PK amino) := by
    rw [hpn, flatMap_drop_prefix (PK amino) (db.drop pos) c.n, List.drop_drop]
  have hem_take : ((db.drop pos).flatMap EM).take c.nmeta.toNat = ((db.drop pos).take c.n).flatMap EM := by
    rw [hnm]; exact flatMap_take_prefix EM (db.drop pos) c.n
  have hem_drop : ((db.drop pos).flatMap EM).drop c.nmeta.toNat = (db.drop (pos + c.n)).flatMap EM := by
    rw [hnm, flatMap_drop_prefix EM (db.drop pos) c.n, List.drop_drop]
  have hXlen : c.pn.toNat ≤ ((db.drop pos).flatMap (PK amino)).length := by
    have := congrArg List.length hpk_take
    rw [List.length_take] at this
    have h2 : (((db.drop pos).take c.n).flatMap (PK amino)).length = c.pn.toNat := by
      rw [List.length_flatMap, hpn]
    omega
  have hMlen : c.nmeta.toNat ≤ ((db.drop pos).flatMap EM).length := by
    have := congrArg List.length hem_take
    rw [List.length_take] at this
    have h2 : (((db.drop pos).take c.n).flatMap EM).length = c.nmeta.toNat := by
      rw [List.length_flatMap, hnm]
    omega
  have hfp := freadItems_flatMap enc32 4 (by omega) enc32_length ((db.drop pos).flatMap (PK amino)) c.pn.toNat
  rw [hpk_take, hpk_drop, Nat.min_eq_left hXlen] at hfp
  have hfm := freadItems_one c.nmeta.toNat _ hMlen
  rw [hem_take, hem_drop] at hfm
  have hplen : (((db.drop pos).take c.n).flatMap (PK amino)).length = c.pn.toNat := by
    rw [List.length_flatMap, hpn]
  have hdp : decodeItems 4 dec32 c.pn.toNat ((((db.drop pos).take c.n).flatMap (PK amino)).flatMap enc32)
      = ((db.drop pos).take c.n).flatMap (PK amino) := by
    have := decodeItems_flatMap enc32 dec32 4 enc32_length (((db.drop pos).take c.n).flatMap (PK amino)) []
      (fun x _ => dec32_enc32 x)
    rw [List.append_nil, hplen] at this; exact this
  refine ⟨c.n, { l := { L' with file := [] }, ifp := (L.file.drop k).flatMap encRec,
                 sfp := ((db.drop (pos + c.n)).flatMap (PK amino)).flatMap enc32, mfp := (db.drop (pos + c.n)).flatMap EM },
          ?_, ?_, hc1, hc2, ?_, ?_⟩
  · have hnn : ¬ c.nmeta < 0 := by rw [hc7]; omega
    simp only [loaderIterB, hl, hifp, hsfp, hmfp, hk, hfr, hdecode, hA, hnn, if_false, hfp, hfm, hdp, ne_eq,
      not_true_eq_false, hci0, hplen]
  · exact ⟨L', hL', by rw [hi0, hnl], rfl, by rw [hfile], rfl, rfl⟩
  · rw [hlen]; exact hc3
  · rw [hplen, Int.toNat_of_nonneg hc4]; exact hc5

theorem loaderIterB_eod (st : BState) (pos : Nat) (hinv : BInv amino db maxseq st pos) (hge : db.length ≤ pos) :
    ∃ st', loaderIterB maxseq maxpacket st = some (none, st') := by
  obtain ⟨L, hL, hpos, hl, hifp, _, _⟩ := hinv
  have hnil : (idxOf amino db).drop (L.i0 + L.nload) = [] :=
    List.drop_eq_nil_of_le (by rw [(idxOf_indexOf (psOf amino db) (msOf db) (by simp)).1]; simp; omega)
  have hsp := hL.hsplit
  rw [hnil] at hsp
  obtain ⟨hw, hf⟩ := List.append_eq_nil_iff.mp hsp
  obtain ⟨st', hiter⟩ := loaderIter_eod maxseq maxpacket L hw hf
  have hLe : ({ L with file := [] } : LState) = L := by cases L; simp_all
  have h2 : loaderIter maxseq maxpacket { L with file := [] } = some (none, st') := by rw [hLe]; exact hiter
  simp only [loaderIterB, hl, hifp, hf, List.flatMap_nil, freadItems, List.length_nil, Nat.zero_div, Nat.min_zero,
    Nat.zero_mul, List.take_nil, decodeItems, h2]
  exact ⟨_, rfl⟩

/-- the chunks tile the database from record `pos` on: each holds the next `n ≥ 1` records, within the limits -/
def Tiles : Nat → List (BChunk × List SeqRec) → Prop
  | pos, [] => db.length ≤ pos
  | pos, (c, rs) :: rest => c.i0 = pos ∧ 1 ≤ c.n ∧ c.n ≤ maxseq ∧ (c.pn : Int) ≤ maxpacket ∧ pos + c.n ≤ db.length ∧
      rs = (db.drop pos).take c.n ∧ c.psq = rs.flatMap (PK amino) ∧ c.pn = c.psq.length ∧ c.metadata = rs.flatMap EM ∧
      Tiles (pos + c.n) rest

theorem tiles_flatten_db : ∀ (out : List (BChunk × List SeqRec)) (pos : Nat),
    Tiles amino db maxseq maxpacket pos out → out.flatMap (·.2) = db.drop pos
  | [], pos, h => by simp [Tiles] at h; simp [List.drop_eq_nil_of_le h]
  | (c, rs) :: rest, pos, h => by
    obtain ⟨_, _, _, _, _, hrs, _, _, _, ht⟩ := h
    simp only [List.flatMap_cons, tiles_flatten_db rest _ ht, hrs]
    rw [← List.drop_drop, List.take_append_drop]

theorem loaderChunksB_run (hms : 1 ≤ maxseq) (hfit : ∀ r ∈ db, ((PK amino r).length : Int) ≤ maxpacket)
    (hi64 : ∀ r ∈ idxOf amino db, I64 r.metaEnd ∧ I64 r.psqEnd) (hwf : ∀ r ∈ db, r.Wf) :
    ∀ fuel st pos, BInv amino db maxseq st pos → db.length - pos < fuel →
      ∃ cs out, loaderChunksB maxseq maxpacket fuel st = some cs ∧ unpackAll amino cs = some out ∧
        out.map (·.1) = cs ∧ Tiles amino db maxseq maxpacket pos out := by
  intro fuel
  induction fuel with
  | zero => intro st pos _ h; omega
  | succ fuel ih =>
    intro st pos hinv hfuel
    rcases Nat.lt_or_ge pos db.length with hlt | hge
    · obtain ⟨n, st', hiter, hinv', hn1, hn2, hle, hpm⟩ :=
        loaderIterB_step amino db maxseq maxpacket hms hfit hi64 st pos hinv hlt
      obtain ⟨cs, out, hcs, hout, hmap, htiles⟩ := ih st' (pos + n) hinv' (by omega)
      have hlen : ((db.drop pos).take n).length = n := by
        rw [List.length_take, List.length_drop]; omega
      have hu := unpackB_records amino ((db.drop pos).take n)
        (fun r hr => hwf r (List.mem_of_mem_drop (List.mem_of_mem_take hr))) pos
        (((db.drop pos).take n).flatMap (PK amino)).length
      rw [hlen] at hu
      obtain ⟨c, hc⟩ : ∃ c : BChunk, c = BChunk.mk pos n (((db.drop pos).take n).flatMap (PK amino)).length
          (((db.drop pos).take n).flatMap (PK amino)) (((db.drop pos).take n).flatMap EM) := ⟨_, rfl⟩
      rw [← hc] at hiter hu
      refine ⟨c :: cs, (c, (db.drop pos).take n) :: out, ?_, ?_, ?_, ?_⟩
      · simp only [loaderChunksB, hiter, hcs]
      · simp only [unpackAll, hu, hout]
      · simp only [List.map_cons, hmap]
      · subst hc
        exact ⟨rfl, hn1, hn2, hpm, hle, rfl, rfl, rfl, rfl, htiles⟩
    · obtain ⟨st', hiter⟩ := loaderIterB_eod amino db maxseq maxpacket st pos hinv hge
      exact ⟨[], [], by simp only [loaderChunksB, hiter], rfl, rfl, hge⟩

/-! ## `esl_dsqdata_Open` on what `esl_dsqdata_Write` wrote -/

theorem rdFields_cons_ok (k : Nat) (ks : List Nat) (v : Nat) (rest : List UInt8) (e : Nat) (vs : List Nat) (r : List UInt8)
    (h : rdFields ks rest (e + 1) = .ok (vs, r)) :
    rdFields (k :: ks) (leBytes k v ++ rest) e = .ok (v % 256 ^ k :: vs, r) := by
  have h1 : ¬ (leBytes k v ++ rest).length < k := by simp
  have h2 : (leBytes k v ++ rest).take k = leBytes k v := List.take_left' (by simp)
  have h3 : (leBytes k v ++ rest).drop k = rest := List.drop_left' (by simp)
  simp only [rdFields, h1, if_false, h2, h3, leVal_leBytes, h]

/-- two `uint32_t` header fields (the `.dsqm` and `.dsqs` headers) -/
theorem rdFields_two (a b : Nat) (rest : List UInt8) (e : Nat) :
    rdFields [4, 4] (le32 a ++ le32 b ++ rest) e = .ok ([a % 4294967296, b % 4294967296], rest) := by
  have h0 : rdFields [] rest (e + 1 + 1) = .ok ([], rest) := rfl
  have h1 := rdFields_cons_ok 4 [] b rest (e + 1) _ _ h0
  have h2 := rdFields_cons_ok 4 [4] a (leBytes 4 b ++ rest) e _ _ h1
  simpa [le32, List.append_assoc] using h2

/-- the ten fields of the `.dsqi` header -/
theorem rdFields_idx (a b c d e' f g h i j : Nat) (rest : List UInt8) :
    rdFields [4, 4, 4, 4, 4, 4, 4, 8, 8, 8] (le32 a ++ le32 b ++ (le32 c ++ (le32 d ++ (le32 e' ++ (le32 f ++ (le32 g ++
      (le64 h ++ (le64 i ++ (le64 j ++ rest))))))))) 8 =
    .ok ([a % 4294967296, b % 4294967296, c % 4294967296, d % 4294967296, e' % 4294967296, f % 4294967296, g % 4294967296,
          h % 18446744073709551616, i % 18446744073709551616, j % 18446744073709551616], rest) := by
  have h0 : rdFields [] rest 18 = .ok ([], rest) := rfl
  have h1 := rdFields_cons_ok 8 [] j rest 17 _ _ h0
  have h2 := rdFields_cons_ok 8 [8] i _ 16 _ _ h1
  have h3 := rdFields_cons_ok 8 [8, 8] h _ 15 _ _ h2
  have h4 := rdFields_cons_ok 4 [8, 8, 8] g _ 14 _ _ h3
  have h5 := rdFields_cons_ok 4 [4, 8, 8, 8] f _ 13 _ _ h4
  have h6 := rdFields_cons_ok 4 [4, 4, 8, 8, 8] e' _ 12 _ _ h5
  have h7 := rdFields_cons_ok 4 [4, 4, 4, 8, 8, 8] d _ 11 _ _ h6
  have h8 := rdFields_cons_ok 4 [4, 4, 4, 4, 8, 8, 8] c _ 10 _ _ h7
  have h9 := rdFields_cons_ok 4 [4, 4, 4, 4, 4, 8, 8, 8] b _ 9 _ _ h8
  have h10 := rdFields_cons_ok 4 [4, 4, 4, 4, 4, 4, 8, 8, 8] a _ 8 _ _ h9
  simpa [le32, le64, List.append_assoc] using h10

/-- the header `esl_dsqdata_Open` reads back from the files written for `db` -/
def writtenHeader (tag alphatype : Nat) (amino : Bool) (db : List SeqRec) : Opened :=
  { tag := tag % 4294967296, alphatype := alphatype, flags := 0,
    maxName := maxLen (db.map (·.name)) % 4294967296, maxAcc := maxLen (db.map (·.acc)) % 4294967296,
    maxDesc := maxLen (db.map (·.desc)) % 4294967296, maxSeqlen := maxLen (db.map (·.dsq)) % 18446744073709551616,
    nseq := db.length % 18446744073709551616, nres := (db.map fun r => r.dsq.length).sum % 18446744073709551616,
    pack5 := amino, ifp := (idxOf amino db).flatMap encRec, mfp := db.flatMap EM,
    sfp := (db.flatMap (PK amino)).flatMap enc32 }

theorem openDb_writeDb (tag alphatype : Nat) (fname fmt : List UInt8) (db : List SeqRec)
    (hty : alphatype = 1 ∨ alphatype = 2 ∨ alphatype = 3) (hlen : ∀ r ∈ db, r.dsq.length < 6 * MAXPACKET)
    (expect : Option Nat) (hexp : expect = none ∨ expect = some alphatype) :
    ∃ f, writeDb tag alphatype fname fmt db = .ok f ∧
      openDb expect f = .ok (writtenHeader tag alphatype (alphatype == 3) db) := by
  have hany : db.any (fun r => decide (r.dsq.length ≥ 6 * MAXPACKET)) = false := by
    rw [List.any_eq_false]
    intro r hr
    have := hlen r hr
    simp only [ge_iff_le, decide_eq_true_eq]; omega
  have hne : ¬ (alphatype ≠ 3 ∧ alphatype ≠ 2 ∧ alphatype ≠ 1) := by omega
  refine ⟨_, by simp only [writeDb, hany, hne, Bool.false_eq_true, if_false]; rfl, ?_⟩
  have hM : MAGIC % 4294967296 = MAGIC := by decide
  have hMS : ¬ (MAGIC = MAGIC_SWAP) := by decide
  have hA : alphatype % 4294967296 = alphatype := by omega
  simp only [openDb, parseStub_stubLine1, rdFields_idx, rdFields_two, List.getD_cons_zero, List.getD_cons_succ, hM, hMS, hA,
    ne_eq, not_true_eq_false, if_false]
  rcases hexp with rfl | rfl
  · have h1 : ¬ (alphatype = 0 ∨ alphatype > 6) := by omega
    have h2 : ¬ (alphatype = 6) := by omega
    simp only [h1, h2, if_false, writtenHeader, Nat.zero_mod]
  · simp only [not_true_eq_false, if_false, writtenHeader, Nat.zero_mod]

/-- **reading back what was written**: on the files written for `db`, the byte-level loader and unpacker deliver chunks
    that tile the database -/
theorem readDb_written (tag alphatype : Nat) (db : List SeqRec) (maxseq : Nat) (maxpacket : Int)
    (hwf : ∀ r ∈ db, r.Wf) (hms : 1 ≤ maxseq)
    (hfit : ∀ r ∈ db, ((pk (alphatype == 3) r.dsq).length : Int) ≤ maxpacket)
    (h1 : (psOf (alphatype == 3) db).sum < 9223372036854775808) (h2 : (msOf db).sum < 9223372036854775808) :
    ∃ out, readDb maxseq maxpacket (writtenHeader tag alphatype (alphatype == 3) db) = some out ∧
      Tiles (alphatype == 3) db maxseq maxpacket 0 out := by
  generalize (alphatype == 3) = amino at *
  have hinv : BInv amino db maxseq (BState.init (writtenHeader tag alphatype amino db)) 0 :=
    ⟨LState.init (idxOf amino db), inv_init _ _ _ _, rfl, rfl, rfl, by simp [BState.init, writtenHeader],
      by simp [BState.init, writtenHeader]⟩
  have hfuel : (writtenHeader tag alphatype amino db).ifp.length / 16 + 2 = db.length + 2 := by
    simp only [writtenHeader]
    rw [flatMap_const_length encRec 16 encRec_length, Nat.mul_div_cancel _ (by omega),
      (idxOf_indexOf (psOf amino db) (msOf db) (by simp)).1]
    simp
  obtain ⟨cs, out, hcs, hout, _, htiles⟩ := loaderChunksB_run amino db maxseq maxpacket hms hfit
    (idx_i64 amino db h1 h2) hwf (db.length + 2) _ 0 hinv (by omega)
  refine ⟨out, ?_, htiles⟩
  simp only [readDb, hfuel, hcs]
  exact hout

/-! ## corrupted magic / tag -/

/-- the first eight bytes (magic, tag) of one of the three data files replaced -/
def patchIdx (f : Files) (magic tag : Nat) : Files := { f with idx := le32 magic ++ le32 tag ++ f.idx.drop 8 }
def patchMdat (f : Files) (magic tag : Nat) : Files := { f with mdat := le32 magic ++ le32 tag ++ f.mdat.drop 8 }
def patchSeq (f : Files) (magic tag : Nat) : Files := { f with seq := le32 magic ++ le32 tag ++ f.seq.drop 8 }

theorem drop8 (a b : Nat) (rest : List UInt8) : (le32 a ++ le32 b ++ rest).drop 8 = rest :=
  List.drop_left' (by simp [le32])

theorem open_corrupt (tag alphatype : Nat) (fname fmt : List UInt8) (db : List SeqRec) (f : Files)
    (hty : alphatype = 1 ∨ alphatype = 2 ∨ alphatype = 3) (hw : writeDb tag alphatype fname fmt db = .ok f)
    (expect : Option Nat) (hexp : expect = none ∨ expect = some alphatype) (m t : Nat) :
    (t % 4294967296 ≠ tag % 4294967296 → openDb expect (patchIdx f m t) = .eformat 18) ∧
    (t % 4294967296 = tag % 4294967296 → m % 4294967296 = MAGIC_SWAP → openDb expect (patchIdx f m t) = .eunimplemented) ∧
    (t % 4294967296 = tag % 4294967296 → m % 4294967296 ≠ MAGIC_SWAP → m % 4294967296 ≠ MAGIC →
        openDb expect (patchIdx f m t) = .eformat 19) ∧
    (m % 4294967296 ≠ MAGIC → openDb expect (patchMdat f m t) = .eformat 24) ∧
    (m % 4294967296 = MAGIC → t % 4294967296 ≠ tag % 4294967296 → openDb expect (patchMdat f m t) = .eformat 25) ∧
    (m % 4294967296 ≠ MAGIC → openDb expect (patchSeq f m t) = .eformat 28) ∧
    (m % 4294967296 = MAGIC → t % 4294967296 ≠ tag % 4294967296 → openDb expect (patchSeq f m t) = .eformat 29) := by
  have hwd : writeDb tag alphatype fname fmt db = .ok f := hw
  simp only [writeDb] at hw
  split at hw
  · cases hw
  split at hw
  · cases hw
  simp only [WriteResult.ok.injEq] at hw
  subst hw
  have hM : MAGIC % 4294967296 = MAGIC := by decide
  have hMS : ¬ (MAGIC = MAGIC_SWAP) := by decide
  have hA : alphatype % 4294967296 = alphatype := by omega
  have h1 : ¬ (alphatype = 0 ∨ alphatype > 6) := by omega
  have h2 : ¬ (alphatype = 6) := by omega
  refine ⟨?_, ?_, ?_, ?_, ?_, ?_, ?_⟩
  all_goals intros
  all_goals rcases hexp with rfl | rfl
  all_goals simp only [patchIdx, patchMdat, patchSeq, drop8, openDb, parseStub_stubLine1, rdFields_idx, rdFields_two,
      List.getD_cons_zero, List.getD_cons_succ, hM, hMS, hA, h1, h2, ne_eq, not_true_eq_false, not_false_eq_true, if_false, if_true, *]

/-- placeholder for `getD` beyond the last chunk -/
def noChunk : BChunk × List SeqRec := ({ i0 := 0, n := 0, pn := 0, psq := [], metadata := [] }, [])

theorem range_flatMap_take {α β} (out : List (α × List β)) (d : α × List β) :
    ∀ n, n ≤ out.length → (List.range n).flatMap (fun k => (out.getD k d).2) = (out.take n).flatMap (·.2)
  | 0, _ => by simp
  | n + 1, h => by
    rw [List.range_succ, List.flatMap_append, range_flatMap_take out d n (by omega)]
    have hn : n < out.length := by omega
    rw [List.take_add_one, List.flatMap_append]
    simp [List.getD_eq_getElem?_getD, List.getElem?_eq_getElem hn]

end EaselModel.Dsqdata
