/-! # Metadata of a chunk (`dsqdata_unpack_chunk`, first loop): executable model + round trip, core Lean only

The `.dsqm` file stores, per sequence, `name\\0 acc\\0 desc\\0` followed by the 4 bytes of the `int32_t` taxonomy id
(`esl_dsqdata_Write`). The loader `fread`s the bytes of a chunk's `N` sequences; the unpacker walks them with
`strchr(ptr, '\\0')`. Walking off the end of the bytes read is the outcome `none` (`eslEFORMAT` / over-read). -/
namespace EaselModel.Dsqdata

structure MetaRec where
  name : List UInt8
  acc : List UInt8
  desc : List UInt8
  tax : List UInt8          -- the 4 bytes of the taxonomy id as stored
deriving Repr, DecidableEq

/-- what `esl_dsqdata_Write` appends to the metadata file for one sequence -/
def encodeMeta (r : MetaRec) : List UInt8 := r.name ++ [0] ++ (r.acc ++ [0] ++ (r.desc ++ [0] ++ r.tax))

/-- `s = ptr; ptr = 1 + strchr(ptr, '\\0')`: the string up to the NUL, and the bytes after it (`none`: no NUL) -/
def cstr (bs : List UInt8) : Option (List UInt8 × List UInt8) :=
  let s := bs.takeWhile (· != 0)
  match bs.drop s.length with
  | [] => none
  | _ :: rest => some (s, rest)

/-- the metadata loop of `dsqdata_unpack_chunk` for `n` sequences -/
def parseMeta : Nat → List UInt8 → Option (List MetaRec)
  | 0, _ => some []
  | n + 1, bs =>
    match cstr bs with
    | none => none
    | some (name, b1) =>
      match cstr b1 with
      | none => none
      | some (acc, b2) =>
        match cstr b2 with
        | none => none
        | some (desc, b3) =>
          if b3.length < 4 then none
          else match parseMeta n (b3.drop 4) with
            | none => none
            | some rs => some ({ name := name, acc := acc, desc := desc, tax := b3.take 4 } :: rs)

theorem cstr_append (s rest : List UInt8) (h : ∀ x ∈ s, x ≠ 0) : cstr (s ++ 0 :: rest) = some (s, rest) := by
  have h1 : (s ++ 0 :: rest).takeWhile (· != 0) = s := by
    rw [List.takeWhile_append_of_pos (by intro x hx; simpa using h x hx)]
    simp
  simp only [cstr, h1, List.drop_left']

/-- a record whose strings are C strings (no embedded NUL) and whose id has 4 bytes -/
def MetaRec.Wf (r : MetaRec) : Prop :=
  (∀ x ∈ r.name, x ≠ 0) ∧ (∀ x ∈ r.acc, x ≠ 0) ∧ (∀ x ∈ r.desc, x ≠ 0) ∧ r.tax.length = 4

/-- **metadata round trip**: the unpacker recovers name, accession, description and taxonomy id of every sequence
    of the chunk, in order, from the bytes the writer stored - whatever follows them -/
theorem parseMeta_encode (rs : List MetaRec) (h : ∀ r ∈ rs, r.Wf) (tail : List UInt8) :
    parseMeta rs.length (rs.flatMap encodeMeta ++ tail) = some rs := by
  induction rs with
  | nil => rfl
  | cons r rs ih =>
    obtain ⟨hn, ha, hd, ht⟩ := h r (by simp)
    have ih' := ih (fun x hx => h x (by simp [hx]))
    have hshape : List.flatMap encodeMeta (r :: rs) ++ tail
        = r.name ++ 0 :: (r.acc ++ 0 :: (r.desc ++ 0 :: (r.tax ++ (List.flatMap encodeMeta rs ++ tail)))) := by
      simp [encodeMeta, List.append_assoc]
    rw [hshape]
    simp only [List.length_cons, parseMeta]
    rw [cstr_append _ _ hn]
    simp only
    rw [cstr_append _ _ ha]
    simp only
    rw [cstr_append _ _ hd]
    simp only
    have hl : ¬ (r.tax ++ (List.flatMap encodeMeta rs ++ tail)).length < 4 := by simp; omega
    rw [if_neg hl]
    have hdrop : (r.tax ++ (List.flatMap encodeMeta rs ++ tail)).drop 4 = List.flatMap encodeMeta rs ++ tail := by
      rw [← ht]; simp
    have htake : (r.tax ++ (List.flatMap encodeMeta rs ++ tail)).take 4 = r.tax := by
      rw [← ht]; simp
    rw [hdrop, htake, ih']

end EaselModel.Dsqdata
