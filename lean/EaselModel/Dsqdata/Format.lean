import EaselModel.Dsqdata.Bytes
import EaselModel.Dsqdata.RoundTrip
import EaselModel.Dsqdata.Meta
import EaselModel.Dsqdata.Consts
/-! # The dsqdata on-disk format at byte level: `esl_dsqdata_Write`, `esl_dsqdata_Open`'s header validation, and the
loader's `fread`s (esl_dsqdata.c §1, §2, §4). Executable model, core Lean only.

`writeDb` is `esl_dsqdata_Write` as a function from the records the sequence file delivers to the BYTES of the four files
(stub, `.dsqi`, `.dsqm`, `.dsqs`); `openDb` is the validation part of `esl_dsqdata_Open` on four byte strings; `loaderIterB`
is one iteration of `dsqdata_loader_thread`'s main loop with its three `fread`s; `unpackB` is `dsqdata_unpack_chunk` on what
the loader read. Integers are stored in native byte order by `fwrite(&x, …)`: little-endian on the supported hosts. -/
namespace EaselModel.Dsqdata

/-- what `esl_sqio_Read` delivers for one sequence, as far as `esl_dsqdata_Write` looks at it -/
structure SeqRec where
  name : List UInt8
  acc : List UInt8
  desc : List UInt8
  taxid : Nat              -- `sq->tax_id` (int32_t) as its unsigned bit pattern, `< 2^32`
  dsq : List UInt8         -- `sq->dsq[1..n]`
deriving Repr, DecidableEq

structure Files where
  stub : List UInt8
  idx : List UInt8
  mdat : List UInt8
  seq : List UInt8
deriving Repr, DecidableEq

abbrev MAGIC : Nat := Consts.magic
abbrev MAGIC_SWAP : Nat := Consts.magicSwap
/-- `eslDSQDATA_CHUNK_MAXPACKET` -/
abbrev MAXPACKET : Nat := Consts.chunkMaxpacket
/-- `eslDSQDATA_CHUNK_MAXSEQ` -/
abbrev MAXSEQ : Nat := Consts.chunkMaxseq

/-- `"%u"` / `"%lu"`: decimal digits, at most `fuel` of them (10 for a `uint32_t`, 20 for a `uint64_t`) -/
def decDigits : Nat → Nat → List UInt8
  | 0, _ => []
  | f + 1, n => if n < 10 then [UInt8.ofNat (48 + n)] else decDigits f (n / 10) ++ [UInt8.ofNat (48 + n % 10)]

/-- `"Easel dsqdata v1 x"` -/
def stubPrefix : List UInt8 := [69, 97, 115, 101, 108, 32, 100, 115, 113, 100, 97, 116, 97, 32, 118, 49, 32, 120]

/-- first line of the stub file: `fprintf(stubfp, "Easel dsqdata v1 x%" PRIu32 "\n", uniquetag)` -/
def stubLine1 (tag : Nat) : List UInt8 := stubPrefix ++ (decDigits 10 (tag % 4294967296) ++ [10])

/-- `esl_abc_DecodeType` for the three alphabets the writer accepts -/
def typeName (alphatype : Nat) : String := if alphatype = 3 then "amino" else if alphatype = 2 then "DNA" else "RNA"

/-- the human-readable remainder of the stub file -/
def stubRest (alphatype : Nat) (fname fmt : List UInt8) (nseq nres : Nat) : List UInt8 :=
  [10] ++ "Original file:   ".toUTF8.toList ++ fname ++ [10]
       ++ "Original format: ".toUTF8.toList ++ fmt ++ [10]
       ++ "Type:            ".toUTF8.toList ++ (typeName alphatype).toUTF8.toList ++ [10]
       ++ "Sequences:       ".toUTF8.toList ++ decDigits 20 (nseq % 18446744073709551616) ++ [10]
       ++ "Residues:        ".toUTF8.toList ++ decDigits 20 (nres % 18446744073709551616) ++ [10]

def metaOf (r : SeqRec) : MetaRec := { name := r.name, acc := r.acc, desc := r.desc, tax := le32 r.taxid }

/-- one packet as `fwrite(psq, sizeof(uint32_t), plen, sfp)` stores it -/
def enc32 (p : UInt32) : List UInt8 := le32 p.toNat
def dec32 (bs : List UInt8) : UInt32 := UInt32.ofNat (leVal bs)
/-- `ESL_DSQDATA_RECORD { int64_t metadata_end; int64_t psq_end; }` -/
def encRec (r : Rec) : List UInt8 := leI64 r.metaEnd ++ leI64 r.psqEnd
def decRec (bs : List UInt8) : Rec := { metaEnd := valI64 (bs.take 8), psqEnd := valI64 (bs.drop 8) }

def maxLen (l : List (List UInt8)) : Nat := l.foldl (fun m x => max m x.length) 0

inductive WriteResult where
  | ok (f : Files)
  | eunimplemented          -- a sequence of `6 * eslDSQDATA_CHUNK_MAXPACKET` residues or more (first pass; no file is created)
  | einval                  -- alphabet neither protein nor nucleic
deriving Repr, DecidableEq

/-- `esl_dsqdata_Write`: the four files for the records `db`, the random `uniquetag` being `tag`.
    First pass: statistics (and the length limit); headers; second pass: per sequence the packets (`dsqdata_pack5` for
    protein, else `dsqdata_pack2`) to `.dsqs`, `name\0 acc\0 desc\0 taxid` to `.dsqm`, and `{mpos-1, spos-1}` to `.dsqi`. -/
def writeDb (tag alphatype : Nat) (fname fmt : List UInt8) (db : List SeqRec) : WriteResult :=
  if db.any (fun r => r.dsq.length ≥ 6 * MAXPACKET) then .eunimplemented
  else if alphatype ≠ 3 ∧ alphatype ≠ 2 ∧ alphatype ≠ 1 then .einval
  else
    let amino := alphatype == 3
    let nres := (db.map fun r => r.dsq.length).sum
    let ps := db.map fun r => (pk amino r.dsq).length
    let ms := db.map fun r => (encodeMeta (metaOf r)).length
    let hdr := le32 MAGIC ++ le32 tag
    .ok { stub := stubLine1 tag ++ stubRest alphatype fname fmt db.length nres,
          idx := hdr ++ (le32 alphatype ++ (le32 0 ++ (le32 (maxLen (db.map (·.name))) ++ (le32 (maxLen (db.map (·.acc)))
                  ++ (le32 (maxLen (db.map (·.desc))) ++ (le64 (maxLen (db.map (·.dsq))) ++ (le64 db.length ++ (le64 nres
                  ++ (indexOf (ps.zip ms) 0 0).flatMap encRec)))))))),
          mdat := hdr ++ db.flatMap (fun r => encodeMeta (metaOf r)),
          seq := hdr ++ (db.flatMap fun r => pk amino r.dsq).flatMap enc32 }

/-! ## `esl_dsqdata_Open`: the validation of the four files -/

def isDelim (b : UInt8) : Bool := b == 32 || b == 9 || b == 10 || b == 13
/-- C `isspace` -/
def isSpaceC (b : UInt8) : Bool := b == 32 || (9 ≤ b && b ≤ 13)
def isDigitC (b : UInt8) : Bool := 48 ≤ b && b ≤ 57

/-- `fgets(buf, n, fp)` at the start of a file: up to and including the first newline, at most `n-1` bytes; `none` at EOF -/
def fgetsLine (n : Nat) (bs : List UInt8) : Option (List UInt8) :=
  if bs.isEmpty then none
  else
    let pre := bs.takeWhile (· != 10)
    let line := if pre.length < bs.length then pre ++ [10] else pre
    some (line.take (n - 1))

/-- `strtok(s, " \t\n\r")` on the rest of a C string: the next token and the rest behind its terminator -/
def strtok (s : List UInt8) : Option (List UInt8 × List UInt8) :=
  let t := s.dropWhile isDelim
  if t.isEmpty then none
  else some (t.takeWhile (fun b => !isDelim b), (t.dropWhile (fun b => !isDelim b)).drop 1)

/-- what `strtol`/`strtoul` (base 10) scan: white space, an optional sign, digits: (negative, digits, rest) -/
def scanInt (s : List UInt8) : Bool × List UInt8 × List UInt8 :=
  let t := s.dropWhile isSpaceC
  let nt : Bool × List UInt8 := match t with
    | 45 :: t' => (true, t')
    | 43 :: t' => (false, t')
    | _ => (false, t)
  let ds := nt.2.takeWhile isDigitC
  (nt.1, ds, nt.2.drop ds.length)

/-- `esl_str_IsInteger` -/
def strIsInteger (s : List UInt8) : Bool :=
  let r := scanInt s
  !r.2.1.isEmpty && r.2.2.all isSpaceC

def parseDec (ds : List UInt8) : Nat := ds.foldl (fun a d => a * 10 + (d.toNat - 48)) 0

/-- `(uint32_t) strtoul(s, NULL, 10)` (glibc: saturates at `ULONG_MAX`, a minus sign negates modulo `2^64`) -/
def strtoul32 (s : List UInt8) : Nat :=
  let r := scanInt s
  let v := parseDec r.2.1
  let v := if v ≥ 18446744073709551616 then 18446744073709551615
           else if r.1 then (18446744073709551616 - v) % 18446744073709551616 else v
  v % 4294967296

/-- the tag line of the stub file: `Easel dsqdata v<int> x<int>`; error = which `ESL_XFAIL` fired (1..7) -/
def parseStub (stub : List UInt8) : Except Nat Nat :=
  match fgetsLine 4096 stub with
  | none => .error 1
  | some line =>
    let s := line.takeWhile (· != 0)
    match strtok s with
    | none => .error 2
    | some (t1, s1) =>
      if t1 != [69, 97, 115, 101, 108] then .error 3 else
      match strtok s1 with
      | none => .error 3
      | some (t2, s2) =>
        if t2 != [100, 115, 113, 100, 97, 116, 97] then .error 3 else
        match strtok s2 with
        | none => .error 3
        | some (t3, s3) =>
          if t3.head? != some 118 then .error 4 else
          if !strIsInteger (t3.drop 1) then .error 5 else
          match strtok s3 with
          | none => .error 3
          | some (t4, _) =>
            if t4.head? != some 120 then .error 6 else
            if !strIsInteger (t4.drop 1) then .error 7 else
            .ok (strtoul32 (t4.drop 1))

/-- consecutive `fread(&x, k, 1, fp) != 1 → XFAIL` for the field sizes `ks`; error code `e + (index of the failing read)` -/
def rdFields : List Nat → List UInt8 → Nat → Except Nat (List Nat × List UInt8)
  | [], bs, _ => .ok ([], bs)
  | k :: ks, bs, e =>
    if bs.length < k then .error e
    else match rdFields ks (bs.drop k) (e + 1) with
      | .ok (vs, r) => .ok (leVal (bs.take k) :: vs, r)
      | .error e' => .error e'

structure Opened where
  tag : Nat
  alphatype : Nat
  flags : Nat
  maxName : Nat
  maxAcc : Nat
  maxDesc : Nat
  maxSeqlen : Nat
  nseq : Nat
  nres : Nat
  pack5 : Bool
  ifp : List UInt8          -- the unread bytes of the three data files, positioned behind their headers
  mfp : List UInt8
  sfp : List UInt8
deriving Repr, DecidableEq

inductive OpenResult where
  | ok (o : Opened)
  | eformat (why : Nat)     -- normal error `eslEFORMAT`; `why` numbers the message (see the driver)
  | eunimplemented          -- exception: byteswapped magic
  | fatal                   -- `esl_alphabet_Create(eslNONSTANDARD)` aborts
deriving Repr, DecidableEq

/-- `esl_dsqdata_Open`, validation part. `expect`: the type of the caller's alphabet (`*byp_abc`), if any. -/
def openDb (expect : Option Nat) (f : Files) : OpenResult :=
  match parseStub f.stub with
  | .error e => .eformat e
  | .ok tag =>
    match rdFields [4, 4, 4, 4, 4, 4, 4, 8, 8, 8] f.idx 8 with
    | .error e => .eformat e
    | .ok (vs, ifp) =>
      let magic := vs.getD 0 0
      let alphatype := vs.getD 2 0
      if vs.getD 1 0 ≠ tag then .eformat 18
      else if magic = MAGIC_SWAP then .eunimplemented
      else if magic ≠ MAGIC then .eformat 19
      else
        -- `if (dd->abc_r) alphatype != abc_r->type → XFAIL; else esl_abc_ValidateType((int) alphatype), esl_alphabet_Create`
        let abcCheck : Option OpenResult := match expect with
          | some t => if alphatype ≠ t then some (.eformat 20) else none
          | none => if alphatype = 0 ∨ alphatype > 6 then some (.eformat 21)
                    else if alphatype = 6 then some .fatal else none
        match abcCheck with
        | some r => r
        | none =>
          match rdFields [4, 4] f.mdat 22 with
          | .error e => .eformat e
          | .ok (ws, mfp) =>
            if ws.getD 0 0 ≠ magic then .eformat 24
            else if ws.getD 1 0 ≠ tag then .eformat 25
            else
              match rdFields [4, 4] f.seq 26 with
              | .error e => .eformat e
              | .ok (xs, sfp) =>
                if xs.getD 0 0 ≠ magic then .eformat 28
                else if xs.getD 1 0 ≠ tag then .eformat 29
                else .ok { tag := tag, alphatype := alphatype, flags := vs.getD 3 0, maxName := vs.getD 4 0,
                           maxAcc := vs.getD 5 0, maxDesc := vs.getD 6 0, maxSeqlen := vs.getD 7 0, nseq := vs.getD 8 0,
                           nres := vs.getD 9 0, pack5 := alphatype == 3, ifp := ifp, mfp := mfp, sfp := sfp }

/-! ## the loader's three `fread`s and the unpacker, on bytes -/

structure BState where
  l : LState                -- `idx[]`, `nload`, `i0`, `psq_last`, `meta_last` (its `file` field holds the records just read)
  ifp : List UInt8
  sfp : List UInt8
  mfp : List UInt8

/-- a loaded chunk: `chu->i0`, `chu->N`, `chu->pn`, the packets at `chu->psq`, the bytes at `chu->metadata` -/
structure BChunk where
  i0 : Nat
  n : Nat
  pn : Nat
  psq : List UInt32
  metadata : List UInt8
deriving Repr, DecidableEq

def BState.init (o : Opened) : BState :=
  { l := LState.init [], ifp := o.ifp, sfp := o.sfp, mfp := o.mfp }

/-- one iteration of the loader's main loop: refill the index window from `.dsqi`, choose `nload` (`loaderIter`),
    `fread` `pn` packets from `.dsqs` and `nmeta` bytes from `.dsqm`.
    `none`: fault, or one of the loader's fatal exceptions (short read). `some (none, _)`: end of data. -/
def loaderIterB (maxseq : Nat) (maxpacket : Int) (st : BState) : Option (Option BChunk × BState) :=
  let carried := st.l.window.drop st.l.nload
  let want := maxseq - carried.length
  let rd := freadItems 16 want st.ifp        -- fread(idx + ncarried, sizeof(ESL_DSQDATA_RECORD), maxseq - ncarried, ifp)
  let recs := decodeItems 16 decRec rd.2.1 rd.1
  match loaderIter maxseq maxpacket { st.l with file := recs } with
  | none => none
  | some (none, l') => some (none, { st with l := l', ifp := rd.2.2 })
  | some (some c, l') =>
    if c.nmeta < 0 then none else
    let rp := freadItems 4 c.pn.toNat st.sfp    -- fread(chu->psq, sizeof(uint32_t), chu->pn, sfp)
    if rp.2.1 ≠ c.pn.toNat then none else       -- "dsqdata packet loader: expected %d, got %d"
    let rm := freadItems 1 c.nmeta.toNat st.mfp -- fread(chu->metadata, sizeof(char), nmeta, mfp)
    if rm.2.1 ≠ c.nmeta.toNat then none else    -- "dsqdata metadata loader: expected %d, got %d"
    some (some { i0 := c.i0, n := c.n, pn := c.pn.toNat, psq := decodeItems 4 dec32 c.pn.toNat rp.1, metadata := rm.1 },
          { l := l', ifp := rd.2.2, sfp := rp.2.2, mfp := rm.2.2 })

/-- all chunks the loader produces (every chunk loads at least one record, so `number of records + 1` is enough fuel) -/
def loaderChunksB (maxseq : Nat) (maxpacket : Int) : Nat → BState → Option (List BChunk)
  | 0, _ => some []
  | fuel + 1, st =>
    match loaderIterB maxseq maxpacket st with
    | none => none
    | some (none, _) => some []
    | some (some c, st') =>
      match loaderChunksB maxseq maxpacket fuel st' with
      | none => none
      | some cs => some (c :: cs)

/-- `dsqdata_unpack_chunk` on a loaded chunk: the metadata loop (`parseMeta`; the taxonomy id is `memcpy`ed from its four
    bytes) and the sequence loop (`unpackChunk`); `none`: a malformed chunk (walks off the data, or `i != N`) -/
def unpackB (pack5 : Bool) (c : BChunk) : Option (List SeqRec) :=
  match parseMeta c.n c.metadata, unpackChunk pack5 c.psq with
  | some ms, some ds =>
    if ds.length = c.n then
      some (List.zipWith (fun (m : MetaRec) d => { name := m.name, acc := m.acc, desc := m.desc, taxid := leVal m.tax, dsq := d }) ms ds)
    else none
  | _, _ => none

def unpackAll (pack5 : Bool) : List BChunk → Option (List (BChunk × List SeqRec))
  | [] => some []
  | c :: cs =>
    match unpackB pack5 c, unpackAll pack5 cs with
    | some r, some rs => some ((c, r) :: rs)
    | _, _ => none

/-- reading an opened database to its end: the chunks in chunk order, each with the records the unpacker delivers -/
def readDb (maxseq : Nat) (maxpacket : Int) (o : Opened) : Option (List (BChunk × List SeqRec)) :=
  match loaderChunksB maxseq maxpacket (o.ifp.length / 16 + 2) (BState.init o) with
  | none => none
  | some cs => unpackAll o.pack5 cs

end EaselModel.Dsqdata
