import EaselModel.Dsqdata.SmemLemmas
/-! # Packing in place at byte level (`esl_dsqdata_Write`: `dsqdata_pack5/2(sq->dsq, sq->n, (uint32_t *) sq->dsq, &P)`)

The buffer holds `dsq[0] = sentinel`, residue `i` in byte `i` (`1 ≤ i ≤ n`), the closing sentinel, and whatever lies behind
(`salloc ≥ max 4 (n+2)`); packet `j` is stored into bytes `4j … 4j+3` of the SAME buffer. The byte-level packers below re-read
the not yet packed residues `dsq[r … n]` from the CURRENT buffer contents in every iteration (`memRest`), so an overwritten
residue would corrupt the result; the theorems say it never happens: the stored packets are those of the functional packers. -/
namespace EaselModel.Dsqdata

/-- `dsq[r … n]` as the buffer holds it now -/
def memRest (mem : List UInt8) (n r : Nat) : List UInt8 := (mem.drop r).take (n + 1 - r)

/-- main loop of `dsqdata_pack5` with `psq == dsq` -/
def pack5Mem : Nat → List UInt8 → Nat → Nat → Nat → Option (List UInt8 × Nat)
  | 0, _, _, _, _ => none
  | fuel + 1, mem, n, r, pos =>
    if r > n then some (mem, pos) else
    let rest := memRest mem n r
    let v := packet5 (rest.take 6) (rest.drop 6).isEmpty
    if 4 * pos + 4 > mem.length then none else      -- `psq[pos++] = v` outside the buffer
    pack5Mem fuel (poke mem (4 * pos) (enc32 v)) n (r + min 6 rest.length) (pos + 1)

/-- main loop of `dsqdata_pack2` with `psq == dsq`; `k` as in `pack2Loop` -/
def pack2Mem : Nat → List UInt8 → Nat → Nat → Nat → Option Nat → Option (List UInt8 × Nat)
  | 0, _, _, _, _, _ => none
  | fuel + 1, mem, n, r, pos, k =>
    if r > n then some (mem, pos) else
    let rest := memRest mem n r
    let k := match k with
      | some k => k
      | none => rest.findIdx (fun x => x > 3)
    if 4 * pos + 4 > mem.length then none else
    if rest.length ≥ 15 ∧ k > 14 then
      pack2Mem fuel (poke mem (4 * pos) (enc32 (packet2 (rest.take 15) (rest.drop 15).isEmpty))) n (r + 15) (pos + 1) (some (k - 15))
    else
      let m := min 6 rest.length
      pack2Mem fuel (poke mem (4 * pos) (enc32 (packet5 (rest.take 6) (rest.drop 6).isEmpty))) n (r + m) (pos + 1)
        (if k ≥ m then some (k - m) else none)

/-- `dsqdata_pack5` / `dsqdata_pack2` in place, including the `n = 0` special case (one all-ones packet) -/
def packMem (amino : Bool) (mem : List UInt8) (n : Nat) : Option (List UInt8 × Nat) :=
  match (if amino then pack5Mem (n + 1) mem n 1 0 else pack2Mem (n + 1) mem n 1 0 none) with
  | none => none
  | some (mem', 0) => if 4 > mem'.length then none else some (poke mem' 0 (enc32 0xFFFFFFFF), 1)
  | some (mem', p) => some (mem', p)

/-- unread residues intact, packets so far stored, enough read to be ahead of the write position -/
structure PInv (d : List UInt8) (mem : List UInt8) (r pos : Nat) (done : List UInt32) : Prop where
  r1 : 1 ≤ r
  rn : r ≤ d.length + 1
  len : max 4 (d.length + 2) ≤ mem.length
  rest : memRest mem d.length r = d.drop (r - 1)
  pre : mem.take (4 * pos) = done.flatMap enc32
  npos : done.length = pos
  ahead : r ≤ d.length → 6 * pos + 1 ≤ r

theorem memRest_poke (mem : List UInt8) (n r w : Nat) (b : List UInt8) (h : w + b.length ≤ r) (hw : w ≤ mem.length) :
    memRest (poke mem w b) n r = memRest mem n r := by
  unfold memRest; rw [poke_drop mem w b r h hw]

theorem memRest_advance (mem : List UInt8) (n r m : Nat) : memRest mem n (r + m) = (memRest mem n r).drop m := by
  unfold memRest
  rw [List.drop_take, List.drop_drop]
  congr 1
  omega

theorem enc32_len4 (v : UInt32) : (enc32 v).length = 4 := enc32_length v

/-- one iteration: the packet `v` computed from the buffer's residues is stored, `seg` residues consumed -/
theorem pinv_step (d : List UInt8) (mem : List UInt8) (r pos seg : Nat) (done : List UInt32) (v : UInt32)
    (i : PInv d mem r pos done) (hr : r ≤ d.length) (hseg1 : seg ≤ (d.drop (r - 1)).length)
    (hseg : seg = (d.drop (r - 1)).length ∨ 6 ≤ seg) :
    4 * pos + 4 ≤ mem.length ∧ PInv d (poke mem (4 * pos) (enc32 v)) (r + seg) (pos + 1) (done ++ [v]) := by
  have hah := i.ahead hr
  have hl := i.len
  have hdl : (d.drop (r - 1)).length = d.length + 1 - r := by simp; omega
  have hb : 4 * pos + 4 ≤ mem.length := by
    by_cases hp : pos = 0
    · subst hp; omega
    · omega
  have hw : 4 * pos ≤ mem.length := by omega
  have hr1 := i.r1
  refine ⟨hb, ⟨by omega, by rw [hdl] at hseg1; omega, ?_, ?_, ?_, by simp [i.npos], ?_⟩⟩
  · rw [poke_length _ _ _ (by rw [enc32_len4]; omega)]; exact hl
  · by_cases hfin : r + seg > d.length
    · have e1 : memRest (poke mem (4 * pos) (enc32 v)) d.length (r + seg) = [] := by
        unfold memRest
        have : d.length + 1 - (r + seg) = 0 := by omega
        rw [this]; simp
      rw [e1, List.drop_eq_nil_of_le (by omega)]
    · have h6 : 6 ≤ seg := by
        rcases hseg with e | e
        · rw [e, hdl] at hfin; omega
        · exact e
      have hnext : 4 * pos + (enc32 v).length ≤ r + seg := by rw [enc32_len4]; omega
      rw [memRest_poke _ _ _ _ _ hnext hw, memRest_advance, i.rest, List.drop_drop]
      congr 1; omega
  · have := poke_take mem (4 * pos) (enc32 v) hw
    rw [enc32_len4] at this
    have e : 4 * (pos + 1) = 4 * pos + 4 := by omega
    rw [e, this, i.pre]; simp
  · intro hle
    rcases hseg with e | e
    · rw [e, hdl] at hle; omega
    · omega

theorem pack5Mem_spec (d : List UInt8) : ∀ (fuel : Nat) (mem : List UInt8) (r pos : Nat) (done : List UInt32),
    PInv d mem r pos done → d.length + 1 - r < fuel →
    ∃ mem', pack5Mem fuel mem d.length r pos = some (mem', pos + (pack5Loop (d.drop (r - 1))).length) ∧
      mem'.take (4 * (pos + (pack5Loop (d.drop (r - 1))).length)) = (done ++ pack5Loop (d.drop (r - 1))).flatMap enc32 ∧
      mem'.length = mem.length := by
  intro fuel
  induction fuel with
  | zero => intro mem r pos done i hf; omega
  | succ fuel ih =>
    intro mem r pos done i hf
    by_cases hr : r > d.length
    · have : d.drop (r - 1) = [] := List.drop_eq_nil_of_le (by omega)
      refine ⟨mem, ?_, ?_, rfl⟩
      · simp [pack5Mem, hr, this, pack5Loop]
      · simp [this, pack5Loop, i.pre]
    · have hr' : r ≤ d.length := by omega
      have hne : d.drop (r - 1) ≠ [] := by
        intro e; have := congrArg List.length e; simp at this; have := i.r1; omega
      obtain ⟨c, cs, hcs⟩ := List.exists_cons_of_ne_nil hne
      have hstep := pinv_step d mem r pos (min 6 (d.drop (r - 1)).length) done
        (packet5 ((d.drop (r - 1)).take 6) ((d.drop (r - 1)).drop 6).isEmpty) i hr' (Nat.min_le_right _ _) (by omega)
      obtain ⟨hb, i'⟩ := hstep
      have hb' : ¬ (4 * pos + 4 > mem.length) := by omega
      have hdrop : d.drop (r + min 6 (d.drop (r - 1)).length - 1) = (d.drop (r - 1)).drop 6 := by
        rw [List.drop_drop]
        have hr1 := i.r1
        by_cases h6 : 6 ≤ (d.drop (r - 1)).length
        · congr 1; omega
        · have hl : (d.drop (r - 1)).length = d.length + 1 - r := by simp; omega
          rw [List.drop_eq_nil_of_le (by omega), List.drop_eq_nil_of_le (by omega)]
      have hr1 := i.r1
      obtain ⟨mem', h1, h2, h3⟩ := ih _ _ _ _ i' (by
        have hl : (d.drop (r - 1)).length = d.length + 1 - r := by simp; omega
        have : 1 ≤ min 6 (d.drop (r - 1)).length := by rw [hcs]; simp; omega
        omega)
      rw [hdrop] at h1 h2
      have hloop : pack5Loop (d.drop (r - 1)) =
          packet5 ((d.drop (r - 1)).take 6) ((d.drop (r - 1)).drop 6).isEmpty :: pack5Loop ((d.drop (r - 1)).drop 6) := by
        rw [hcs, pack5Loop]
      refine ⟨mem', ?_, ?_, ?_⟩
      · simp only [pack5Mem, hr, if_false, i.rest, hb']
        rw [h1, hloop]; simp only [List.length_cons]; congr 2; omega
      · rw [hloop]; simp only [List.length_cons]
        have e : pos + ((pack5Loop ((d.drop (r - 1)).drop 6)).length + 1) = pos + 1 + (pack5Loop ((d.drop (r - 1)).drop 6)).length := by omega
        rw [e, h2]; simp
      · rw [h3, poke_length _ _ _ (by rw [enc32_len4]; omega)]

theorem pack2Loop_unfold (R : List UInt8) (k : Option Nat) (hne : R ≠ []) :
    pack2Loop R k =
      (let kk := match k with
        | some k => k
        | none => R.findIdx (fun x => x > 3)
       if R.length ≥ 15 ∧ kk > 14 then
         packet2 (R.take 15) (R.drop 15).isEmpty :: pack2Loop (R.drop 15) (some (kk - 15))
       else
         packet5 (R.take 6) (R.drop 6).isEmpty ::
           pack2Loop (R.drop 6) (if kk ≥ min 6 R.length then some (kk - min 6 R.length) else none)) := by
  obtain ⟨c, cs, rfl⟩ := List.exists_cons_of_ne_nil hne
  conv => lhs; unfold pack2Loop
  rfl

theorem pack2Mem_spec (d : List UInt8) : ∀ (fuel : Nat) (mem : List UInt8) (r pos : Nat) (done : List UInt32) (k : Option Nat),
    PInv d mem r pos done → d.length + 1 - r < fuel →
    ∃ mem', pack2Mem fuel mem d.length r pos k = some (mem', pos + (pack2Loop (d.drop (r - 1)) k).length) ∧
      mem'.take (4 * (pos + (pack2Loop (d.drop (r - 1)) k).length)) = (done ++ pack2Loop (d.drop (r - 1)) k).flatMap enc32 ∧
      mem'.length = mem.length := by
  intro fuel
  induction fuel with
  | zero => intro mem r pos done k i hf; omega
  | succ fuel ih =>
    intro mem r pos done k i hf
    have hr1 := i.r1
    by_cases hr : r > d.length
    · have : d.drop (r - 1) = [] := List.drop_eq_nil_of_le (by omega)
      refine ⟨mem, ?_, ?_, rfl⟩
      · simp [pack2Mem, hr, this, pack2Loop]
      · simp [this, pack2Loop, i.pre]
    · have hr' : r ≤ d.length := by omega
      have hl : (d.drop (r - 1)).length = d.length + 1 - r := by simp; omega
      have hne : d.drop (r - 1) ≠ [] := by
        intro e; have := congrArg List.length e; simp at this; omega
      have hloop := pack2Loop_unfold (d.drop (r - 1)) k hne
      simp only at hloop
      simp only [pack2Mem, hr, if_false, i.rest]
      generalize hkk : (match k with
        | some k => k
        | none => (d.drop (r - 1)).findIdx (fun x => x > 3)) = kk at hloop ⊢
      by_cases hc : (d.drop (r - 1)).length ≥ 15 ∧ kk > 14
      · obtain ⟨hb, i'⟩ := pinv_step d mem r pos 15 done (packet2 ((d.drop (r - 1)).take 15) ((d.drop (r - 1)).drop 15).isEmpty)
          i hr' hc.1 (Or.inr (by omega))
        have hb' : ¬ (4 * pos + 4 > mem.length) := by omega
        have hdrop : d.drop (r + 15 - 1) = (d.drop (r - 1)).drop 15 := by
          rw [List.drop_drop]; congr 1; omega
        obtain ⟨mem', h1, h2, h3⟩ := ih _ _ _ _ (some (kk - 15)) i' (by omega)
        rw [hdrop] at h1 h2
        rw [if_pos hc] at hloop
        refine ⟨mem', ?_, ?_, ?_⟩
        · simp only [hb', if_false, hc, and_self, if_true]
          rw [h1, hloop]; simp only [List.length_cons]; congr 2; omega
        · rw [hloop]; simp only [List.length_cons]
          have e : pos + ((pack2Loop ((d.drop (r - 1)).drop 15) (some (kk - 15))).length + 1)
              = pos + 1 + (pack2Loop ((d.drop (r - 1)).drop 15) (some (kk - 15))).length := by omega
          rw [e, h2]; simp
        · rw [h3, poke_length _ _ _ (by rw [enc32_len4]; omega)]
      · obtain ⟨hb, i'⟩ := pinv_step d mem r pos (min 6 (d.drop (r - 1)).length) done
          (packet5 ((d.drop (r - 1)).take 6) ((d.drop (r - 1)).drop 6).isEmpty) i hr' (Nat.min_le_right _ _) (by omega)
        have hb' : ¬ (4 * pos + 4 > mem.length) := by omega
        have hdrop : d.drop (r + min 6 (d.drop (r - 1)).length - 1) = (d.drop (r - 1)).drop 6 := by
          rw [List.drop_drop]
          by_cases h6 : 6 ≤ (d.drop (r - 1)).length
          · congr 1; omega
          · rw [List.drop_eq_nil_of_le (by omega), List.drop_eq_nil_of_le (by omega)]
        obtain ⟨mem', h1, h2, h3⟩ := ih _ _ _ _
          (if kk ≥ min 6 (d.drop (r - 1)).length then some (kk - min 6 (d.drop (r - 1)).length) else none) i' (by omega)
        rw [hdrop] at h1 h2
        rw [if_neg hc] at hloop
        refine ⟨mem', ?_, ?_, ?_⟩
        · simp only [hb', if_false, hc]
          rw [h1, hloop]; simp only [List.length_cons]; congr 2; omega
        · rw [hloop]; simp only [List.length_cons]
          generalize (pack2Loop ((d.drop (r - 1)).drop 6) _) = tl at h2 ⊢
          have e : pos + (tl.length + 1) = pos + 1 + tl.length := by omega
          rw [e, h2]; simp
        · rw [h3, poke_length _ _ _ (by rw [enc32_len4]; omega)]

/-- the buffer `esl_dsqdata_Write` packs in: `dsq[0 … n+1]` and whatever lies behind (`salloc` bytes in all) -/
def dsqBuffer (d slack : List UInt8) : List UInt8 := 255 :: (d ++ 255 :: slack)

theorem pinv_init (d slack : List UInt8) (h4 : 4 ≤ (dsqBuffer d slack).length) : PInv d (dsqBuffer d slack) 1 0 [] := by
  refine ⟨Nat.le_refl _, by omega, ?_, ?_, by simp, rfl, fun _ => by omega⟩
  · simp only [dsqBuffer, List.length_cons, List.length_append] at h4 ⊢; omega
  · simp [memRest, dsqBuffer]

/-- **Packing in place at byte level is the functional packer.** With `psq == dsq` (as `esl_dsqdata_Write` calls them) in a
    buffer of at least 4 bytes, `dsqdata_pack5` / `dsqdata_pack2` never store outside the buffer, never overwrite a residue
    they have not read yet, and leave in its first `4·P` bytes exactly the packets `pack5 d` / `pack2 d` (native byte order),
    `P` their number - for every sequence, `n = 0` included. -/
theorem packMem_correct (amino : Bool) (d slack : List UInt8) (h4 : 4 ≤ (dsqBuffer d slack).length) :
    ∃ mem', packMem amino (dsqBuffer d slack) d.length = some (mem', (pk amino d).length) ∧
      mem'.take (4 * (pk amino d).length) = (pk amino d).flatMap enc32 ∧ mem'.length = (dsqBuffer d slack).length := by
  have i := pinv_init d slack h4
  cases amino
  · obtain ⟨mem', h1, h2, h3⟩ := pack2Mem_spec d (d.length + 1) _ 1 0 [] none i (by omega)
    simp only [Nat.sub_self, List.drop_zero, Nat.zero_add, List.nil_append] at h1 h2
    simp only [packMem, Bool.false_eq_true, if_false, h1, pk, pack2]
    cases hp : pack2Loop d none with
    | nil =>
      simp only [List.length_nil, List.isEmpty_nil, if_true, List.length_cons]
      have hb : ¬ (4 > mem'.length) := by rw [h3]; omega
      simp only [hb, if_false]
      refine ⟨_, rfl, ?_, by rw [poke_length _ _ _ (by rw [enc32_len4]; omega), h3]⟩
      have := poke_take mem' 0 (enc32 0xFFFFFFFF) (Nat.zero_le _)
      rw [enc32_len4] at this
      simpa using this
    | cons v vs =>
      rw [hp] at h1 h2
      simp only [List.length_cons, List.isEmpty_cons, Bool.false_eq_true, if_false]
      exact ⟨mem', rfl, by simpa using h2, h3⟩
  · obtain ⟨mem', h1, h2, h3⟩ := pack5Mem_spec d (d.length + 1) _ 1 0 [] i (by omega)
    simp only [Nat.sub_self, List.drop_zero, Nat.zero_add, List.nil_append] at h1 h2
    simp only [packMem, if_true, h1, pk, pack5]
    cases hp : pack5Loop d with
    | nil =>
      simp only [List.length_nil, List.isEmpty_nil, if_true, List.length_cons]
      have hb : ¬ (4 > mem'.length) := by rw [h3]; omega
      simp only [hb, if_false]
      refine ⟨_, rfl, ?_, by rw [poke_length _ _ _ (by rw [enc32_len4]; omega), h3]⟩
      have := poke_take mem' 0 (enc32 0xFFFFFFFF) (Nat.zero_le _)
      rw [enc32_len4] at this
      simpa using this
    | cons v vs =>
      rw [hp] at h1 h2
      simp only [List.length_cons, List.isEmpty_cons, Bool.false_eq_true, if_false]
      exact ⟨mem', rfl, by simpa using h2, h3⟩

end EaselModel.Dsqdata
