import EaselModel.Dsqdata.Codec
/-! # Packing in place (`esl_dsqdata_Write`: `psq = (uint32_t *) sq->dsq`)

`dsqdata_pack5/pack2` store packet `j` into bytes `4j … 4j+3` of the very buffer that holds the residues
(`dsq[0]` = sentinel, residue `i` in byte `i`, `i = 1 … n`).  This is safe iff, at the moment packet `j` is stored,
every residue living in bytes `≤ 4j+3` has already been read into the packet being assembled or an earlier one.
`segs5` / `segs2` give the number of residues each packet consumes; they mirror the loops of `pack5Loop` / `pack2Loop`
branch by branch (same conditions), so packet `j` is stored after `((segs d).take (j+1)).sum` residues have been read. -/
namespace EaselModel.Dsqdata

def segs5 (rest : List UInt8) : List Nat :=
  match rest with
  | [] => []
  | c :: cs => min 6 (c :: cs).length :: segs5 ((c :: cs).drop 6)
termination_by rest.length
decreasing_by simp only [List.length_drop, List.length_cons]; omega

def segs2 (rest : List UInt8) (k : Option Nat) : List Nat :=
  match rest with
  | [] => []
  | c :: cs =>
    let k := match k with
      | some k => k
      | none => (c :: cs).findIdx (fun x => x > 3)
    if (c :: cs).length ≥ 15 ∧ k > 14 then
      15 :: segs2 ((c :: cs).drop 15) (some (k - 15))
    else
      let m := min 6 (c :: cs).length
      m :: segs2 ((c :: cs).drop 6) (if k ≥ m then some (k - m) else none)
termination_by rest.length
decreasing_by all_goals (simp only [List.length_drop, List.length_cons]; omega)

theorem segs5_length (d : List UInt8) : (segs5 d).length = (pack5Loop d).length := by
  fun_induction segs5 d with
  | case1 => simp [pack5Loop]
  | case2 c cs ih => rw [pack5Loop]; simpa using ih

theorem segs2_length (d : List UInt8) (k : Option Nat) : (segs2 d k).length = (pack2Loop d k).length := by
  fun_induction segs2 d k with
  | case1 => simp [pack2Loop]
  | case2 k0 c cs k h ih =>
    conv => rhs; unfold pack2Loop
    cases k0 <;> simp only [k, List.length_cons] at h ih ⊢ <;> (rw [if_pos h]; simp only [List.length_cons, ih])
  | case3 k0 c cs k h m ih =>
    conv => rhs; unfold pack2Loop
    cases k0 <;> simp only [k, m, List.length_cons, dite_eq_ite] at h ih ⊢ <;> (rw [if_neg h]; simp only [List.length_cons]; rw [ih])

/-- a segmentation of `n` residues in which every segment except possibly the last has at least 6 residues -/
def GoodSegs (n : Nat) (l : List Nat) : Prop :=
  l.sum = n ∧ ∀ j, j + 1 < l.length → 6 ≤ l.getD j 0

theorem goodSegs_cons (a n : Nat) (l : List Nat) (h : GoodSegs n l) (ha : 6 ≤ a ∨ l = []) : GoodSegs (a + n) (a :: l) := by
  refine ⟨by simp [h.1], ?_⟩
  intro j hj
  cases j with
  | zero =>
    rcases ha with ha | ha
    · simpa using ha
    · subst ha; simp at hj
  | succ j => simpa using h.2 j (by simpa using hj)

theorem segs5_good (d : List UInt8) : GoodSegs d.length (segs5 d) := by
  fun_induction segs5 d with
  | case1 => exact ⟨rfl, by intro j hj; simp at hj⟩
  | case2 c cs ih =>
    have hlen : (c :: cs).length = min 6 (c :: cs).length + ((c :: cs).drop 6).length := by
      simp only [List.length_drop]; omega
    have hg := goodSegs_cons (min 6 (c :: cs).length) _ _ ih (by
      by_cases h6 : 6 ≤ (c :: cs).length
      · left; omega
      · right
        have : (c :: cs).drop 6 = [] := List.drop_eq_nil_of_le (by omega)
        rw [this]; simp [segs5])
    rw [← hlen] at hg; exact hg

theorem segs2_good (d : List UInt8) (k : Option Nat) : GoodSegs d.length (segs2 d k) := by
  fun_induction segs2 d k with
  | case1 => exact ⟨rfl, by intro j hj; simp at hj⟩
  | case2 k0 c cs k h ih =>
    have hlen : (c :: cs).length = 15 + ((c :: cs).drop 15).length := by
      simp only [List.length_drop]; omega
    have hg := goodSegs_cons 15 _ _ ih (Or.inl (by omega))
    rw [← hlen] at hg; exact hg
  | case3 k0 c cs k h m ih =>
    have hlen : (c :: cs).length = m + ((c :: cs).drop 6).length := by
      simp only [List.length_drop, m]; omega
    have hg := goodSegs_cons m _ _ ih (by
      by_cases h6 : 6 ≤ (c :: cs).length
      · left; simp only [m]; omega
      · right
        have : (c :: cs).drop 6 = [] := List.drop_eq_nil_of_le (by omega)
        rw [this]; simp [segs2])
    rw [← hlen] at hg; exact hg

/-- in a good segmentation, after `j+1` segments either everything is consumed or at least `6 (j+1)` residues are -/
theorem goodSegs_prefix (n : Nat) (l : List Nat) (h : GoodSegs n l) (j : Nat) (hj : j < l.length) :
    (l.take (j + 1)).sum = n ∨ 6 * (j + 1) ≤ (l.take (j + 1)).sum := by
  induction l generalizing n j with
  | nil => simp at hj
  | cons a as ih =>
    cases j with
    | zero =>
      by_cases hl : as = []
      · left; subst hl; simpa using h.1
      · right
        have := h.2 0 (by
          have : 0 < as.length := List.length_pos_iff.mpr hl
          simp; omega)
        simpa using this
    | succ j =>
      have hj' : j < as.length := by simpa using hj
      have ha : 6 ≤ a := by
        have := h.2 0 (by simp; omega)
        simpa using this
      have hgood : GoodSegs (n - a) as := by
        refine ⟨by have := h.1; simp at this; omega, ?_⟩
        intro i hi
        have := h.2 (i + 1) (by simp; omega)
        simpa using this
      have hsum : a + as.sum = n := by simpa using h.1
      rcases ih (n - a) hgood j hj' with e | e
      · left; simp only [List.take_succ_cons, List.sum_cons]; omega
      · right; simp only [List.take_succ_cons, List.sum_cons]; omega

end EaselModel.Dsqdata
