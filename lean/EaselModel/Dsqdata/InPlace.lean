import EaselModel.Dsqdata.Codec
/-! # Packing in place (`esl_dsqdata_Write`: `psq = (uint32_t *) sq->dsq`)

`dsqdata_pack5/pack2` store packet `j` into bytes `4j … 4j+3` of the very buffer that holds the residues
(`dsq[0]` = sentinel, residue `i` in byte `i`, `i = 1 … n`).  This is safe iff, at the moment packet `j` is stored,
every residue living in bytes `≤ 4j+3` has already been read into the packet being assembled or an earlier one.
`segs5` / `segs2` give the number of residues each packet consumes; they mirror the loops of `pack5Loop` / `pack2Loop`
branch by branch (same conditions), so packet `j` is stored after `((segs d).take (j+1)).sum` residues have been read. -/
namespace EaselModel.Dsqdata

def segs5 (rest : List UInt8) : List Nat :=
  match rest with
  | [] => []
  | c :: cs => min 6 (c :: cs).length :: segs5 ((c :: cs).drop 6)
termination_by rest.length
decreasing_by simp only [List.length_drop, List.length_cons]; omega

def segs2 (rest : List UInt8) (k : Option Nat) : List Nat :=
  match rest with
  | [] => []
  | c :: cs =>
    let k := match k with
      | some k => k
      | none => (c :: cs).findIdx (fun x => x > 3)
    if (c :: cs).length ≥ 15 ∧ k > 14 then
      15 :: segs2 ((c :: cs).drop 15) (some (k - 15))
    else
      let m := min 6 (c :: cs).length
      m :: segs2 ((c :: cs).drop 6) (if k ≥ m then some (k - m) else none)
termination_by rest.length
decreasing_by all_goals (simp only [List.length_drop, List.length_cons]; omega)

theorem segs5_length (d : List UInt8) : (segs5 d).length = (pack5Loop d).length := by
  fun_induction segs5 d with
  | case1 => simp [pack5Loop]
  | case2 c cs ih => rw [pack5Loop]; simpa using ih

theorem segs2_length (d : List UInt8) (k : Option Nat) : (segs2 d k).length = (pack2Loop d k).length := by
  fun_induction segs2 d k with
  | case1 => simp [pack2Loop]
  | case2 k0 c cs k h ih =>
    conv => rhs; unfold pack2Loop
    cases k0 <;> simp only [k, List.length_cons] at h ih ⊢ <;> (rw [if_pos h]; simp only [List.length_cons, ih])
  | case3 k0 c cs k h m ih =>
    conv => rhs; unfold pack2Loop
    cases k0 <;> simp only [k, m, List.length_cons, dite_eq_ite] at h ih ⊢ <;> (rw [if_neg h]; simp only [List.length_cons]; rw [ih])

/-- a segmentation of `n` residues in which every segment except possibly the last has at least 6 residues -/
def GoodSegs (n : Nat) (l : List Nat) : Prop :=
  l.sum = n ∧ ∀ j, j + 1 < l.length → 6 ≤ l.getD j 0

theorem goodSegs_cons (a n : Nat) (l : List Nat) (h : GoodSegs n l) (ha : 6 ≤ a ∨ l = []) : GoodSegs (a + n) (a :: l) := by
  refine ⟨by simp [h.1], ?_⟩
  intro j hj
  cases j with
  | zero =>
    rcases ha with ha | ha
    · simpa using ha
    · subst ha; simp at hj
  | succ j => simpa using h.2 j (by simpa using hj)

theorem segs5_good (d : List UInt8) : GoodSegs d.length (segs5 d) := by
  fun_induction segs5 d with
  | case1 => exact ⟨rfl, by intro j hj; simp at hj⟩
  | case2 c cs ih =>
    have hlen : (c :: cs).length = min 6 (c :: cs).length + ((c :: cs).drop 6).length := by
      simp only [List.length_drop]; omega
    have hg := goodSegs_cons (min 6 (c :: cs).length) _ _ ih (by
      by_cases h6 : 6 ≤ (c :: cs).length
      · left; omega
      · right
        have : (c :: cs).drop 6 = [] := List.drop_eq_nil_of_le (by omega)
        rw [this]; simp [segs5])
    rw [← hlen] at hg; exact hg

theorem segs2_good (d : List UInt8) (k : Option Nat) : GoodSegs d.length (segs2 d k) := by
  fun_induction segs2 d k with
  | case1 => exact ⟨rfl, by intro j hj; simp at hj⟩
  | case2 k0 c cs k h ih =>
    have hlen : (c :: cs).length = 15 + ((c :: cs).drop 15).length := by
      simp only [List.length_drop]; omega
    have hg := goodSegs_cons 15 _ _ ih (Or.inl (by omega))
    rw [← hlen] at hg; exact hg
  | case3 k0 c cs k h m ih =>
    have hlen : (c :: cs).length = m + ((c :: cs).drop 6).length := by
      simp only [List.length_drop, m]; omega
    have hg := goodSegs_cons m _ _ ih (by
      by_cases h6 : 6 ≤ (c :: cs).length
      · left; simp only [m]; omega
      · right
        have : (c :: cs).drop 6 = [] := List.drop_eq_nil_of_le (by omega)
        rw [this]; simp [segs2])
    rw [← hlen] at hg; exact hg

/-- in a good segmentation, after `j+1` segments either everything is consumed or at least `6 (j+1)` residues are -/
theorem goodSegs_prefix (n : Nat) (l : List Nat) (h : GoodSegs n l) (j : Nat) (hj : j < l.length) :
    (l.take (j + 1)).sum = n ∨ 6 * (j + 1) ≤ (l.take (j + 1)).sum := by
  induction l generalizing n j with
  | nil => simp at hj
  | cons a as ih =>
    cases j with
    | zero =>
      by_cases hl : as = []
      · left; subst hl; simpa using h.1
      · right
        have := h.2 0 (by
          have : 0 < as.length := List.length_pos_iff.mpr hl
          simp; omega)
        simpa using this
    | succ j =>
      have hj' : j < as.length := by simpa using hj
      have ha : 6 ≤ a := by
        have := h.2 0 (by simp; omega)
        simpa using this
      have hgood : GoodSegs (n - a) as := by
        refine ⟨by have := h.1; simp at this; omega, ?_⟩
        intro i hi
        have := h.2 (i + 1) (by simp; omega)
        simpa using this
      have hsum : a + as.sum = n := by simpa using h.1
      rcases ih (n - a) hgood j hj' with e | e
      · left; simp only [List.take_succ_cons, List.sum_cons]; omega
      · right; simp only [List.take_succ_cons, List.sum_cons]; omega

end EaselModel.Dsqdata

/-! # Unpacking in place (`dsqdata_unpack_chunk` inside `smem`)

The loader `fread`s the `pn` packets of a chunk to `psq = smem + U - 4·maxpacket` (the END of `smem`); the unpacker reads
packet `p` from byte offset `U - 4·maxpacket + 4p` and writes residues (and a sentinel after each sequence) from byte 1
upwards. The unpacked data must never reach a packet that has not been read yet. -/
namespace EaselModel.Dsqdata

/-- residues a packet unpacks to, as `dsqdata_unpack5` (`mode5`) / `dsqdata_unpack2` read it -/
def packetResidues (mode5 : Bool) (v : UInt32) : List UInt8 :=
  if mode5 || (v &&& BIT5 != 0) then (if v &&& EOD != 0 then partial5 v else fields5 v) else fields2 v

/-- bytes the unpacker writes for one packet: its residues, plus the trailing sentinel when it ends a sequence -/
def packetBytes (mode5 : Bool) (v : UInt32) : Nat :=
  (packetResidues mode5 v).length + (if v &&& EOD != 0 then 1 else 0)

/-- write position (index into `smem`) after unpacking the packets `ps`, starting at `r` -/
def writeFront (mode5 : Bool) (ps : List UInt32) (r : Nat) : Nat := r + (ps.map (packetBytes mode5)).sum

/-- `packetResidues` is what the unpackers append for a packet: the final packet of a sequence … -/
theorem unpack_head_eod (v : UInt32) (ps : List UInt32) (h : (v &&& EOD != 0) = true) :
    unpack5 (v :: ps) = some (packetResidues true v, 1) ∧ unpack2 (v :: ps) = some (packetResidues false v, 1) := by
  constructor
  · simp [unpack5, packetResidues, h]
  · simp only [unpack2, h, ↓reduceIte, packetResidues, Bool.false_or]

/-- … and a non-final one -/
theorem unpack_head_more (v : UInt32) (ps : List UInt32) (h : (v &&& EOD != 0) = false) (d5 d2 : List UInt8) (p5 p2 : Nat)
    (h5 : unpack5 ps = some (d5, p5)) (h2 : unpack2 ps = some (d2, p2)) :
    unpack5 (v :: ps) = some (packetResidues true v ++ d5, p5 + 1) ∧ unpack2 (v :: ps) = some (packetResidues false v ++ d2, p2 + 1) := by
  constructor
  · simp [unpack5, packetResidues, h, h5]
  · simp only [unpack2, h, Bool.false_eq_true, ↓reduceIte, h2, packetResidues, Bool.false_or]

def per (mode5 : Bool) : Nat := if mode5 then 6 else 15

theorem packetResidues_le (mode5 : Bool) (v : UInt32) : (packetResidues mode5 v).length ≤ per mode5 ∨ (mode5 = false ∧ (packetResidues mode5 v).length ≤ 15) := by
  unfold packetResidues per
  have h5 : (fields5 v).length = 6 := by simp [fields5]
  have h2 : (fields2 v).length = 15 := by simp [fields2]
  have hp : (partial5 v).length ≤ 6 := by
    unfold partial5
    have := (List.takeWhile_prefix (fun c => c != 31) (l := fields5 v)).length_le
    omega
  cases mode5
  · right; refine ⟨rfl, ?_⟩
    simp only [Bool.false_or]
    split
    · split <;> omega
    · omega
  · left
    simp only [Bool.true_or, ↓reduceIte]
    split <;> omega

theorem packetBytes_le (mode5 : Bool) (v : UInt32) :
    packetBytes mode5 v ≤ per mode5 + (if v &&& EOD != 0 then 1 else 0) := by
  unfold packetBytes
  have := packetResidues_le mode5 v
  have hper : per mode5 = 6 ∨ per mode5 = 15 := by unfold per; cases mode5 <;> simp
  rcases this with h | ⟨hm, h⟩
  · omega
  · subst hm; simp only [per] at *; simp at *; omega

/-- number of sequences that end among the packets `ps` -/
def eodCount (ps : List UInt32) : Nat := (ps.filter fun v => v &&& EOD != 0).length

theorem writeFront_le (mode5 : Bool) (ps : List UInt32) (r : Nat) :
    writeFront mode5 ps r ≤ r + per mode5 * ps.length + eodCount ps := by
  induction ps generalizing r with
  | nil => simp [writeFront, eodCount]
  | cons v vs ih =>
    have h1 := packetBytes_le mode5 v
    have h2 := ih (r + packetBytes mode5 v)
    have hm : per mode5 * (vs.length + 1) = per mode5 * vs.length + per mode5 := Nat.mul_succ _ _
    have hw : writeFront mode5 (v :: vs) r = writeFront mode5 vs (r + packetBytes mode5 v) := by
      simp only [writeFront, List.map_cons, List.sum_cons]; omega
    have hc : eodCount (v :: vs) = eodCount vs + (if v &&& EOD != 0 then 1 else 0) := by
      simp only [eodCount, List.filter_cons]
      split <;> simp
    rw [hw, hc, List.length_cons]
    omega

/-- **Unpacking in place never overwrites an unread packet**, for every chunk within the limits the chunk buffer was
    created for (`pn ≤ maxpacket` packets, `N ≤ maxseq` sequences, `U ≥ per·maxpacket + maxseq + 1` bytes): when the
    unpacker is about to read packet `p`, everything it has written so far (the leading sentinel, the residues and
    sentinels of packets `0 … p-1`) lies strictly below that packet's first byte; and at the end everything fits `smem`. -/
theorem unpack_in_place_safe (mode5 : Bool) (ps : List UInt32) (maxpacket maxseq U : Nat)
    (hpn : ps.length ≤ maxpacket) (hN : eodCount ps ≤ maxseq) (hU : per mode5 * maxpacket + maxseq + 1 ≤ U) :
    (∀ p, p < ps.length → writeFront mode5 (ps.take p) 1 ≤ (U - 4 * maxpacket) + 4 * p) ∧
    writeFront mode5 ps 1 ≤ U := by
  have hper : per mode5 = 6 ∨ per mode5 = 15 := by unfold per; cases mode5 <;> simp
  have hcount : ∀ p, eodCount (ps.take p) ≤ eodCount ps := by
    intro p
    unfold eodCount
    have : (ps.take p).filter (fun v => v &&& EOD != 0) = ((ps.filter fun v => v &&& EOD != 0)).take ((ps.take p).filter (fun v => v &&& EOD != 0)).length := by
      have hsub : ((ps.take p).filter fun v => v &&& EOD != 0) <+: (ps.filter fun v => v &&& EOD != 0) := by
        exact List.IsPrefix.filter _ (List.take_prefix p ps)
      exact (List.prefix_iff_eq_take.mp hsub)
    have hsub : ((ps.take p).filter fun v => v &&& EOD != 0) <+: (ps.filter fun v => v &&& EOD != 0) :=
      List.IsPrefix.filter _ (List.take_prefix p ps)
    exact hsub.length_le
  refine ⟨?_, ?_⟩
  · intro p hp
    have h := writeFront_le mode5 (ps.take p) 1
    have hl : (ps.take p).length = p := by simp; omega
    have hc := hcount p
    rw [hl] at h
    rcases hper with e | e <;> rw [e] at h hU <;> omega
  · have h := writeFront_le mode5 ps 1
    rcases hper with e | e <;> rw [e] at h hU
    · have := Nat.mul_le_mul_left 6 hpn; omega
    · have := Nat.mul_le_mul_left 15 hpn; omega

end EaselModel.Dsqdata
