/-! # dsqdata loader arithmetic (esl_dsqdata.c: dsqdata_loader_thread, "Refill index" / "Figure out how many
sequences we're going to load"): executable model, core Lean only.

The index file is the list of records `(metadata_end, psq_end)` (cumulative end positions, `-1`-based as in the C
code: record `i` ends at packet number `psq_end`, the previous one at `psq_last`, initially `-1`).
Every array access `idx[k]` goes through `getRec`, whose failure is the outcome `none` (out-of-bounds read). -/
namespace EaselModel.Dsqdata

structure Rec where
  metaEnd : Int
  psqEnd : Int
deriving Repr, DecidableEq, Inhabited

/-- one loaded chunk as the loader describes it: `chu->i0`, `chu->N`, `chu->pn`, and the metadata byte count -/
structure ChunkDesc where
  i0 : Nat
  n : Nat
  pn : Int
  nmeta : Int
deriving Repr, DecidableEq

def getRec (idx : List Rec) (k : Nat) : Option Rec := idx[k]?

/-- the binary search `while (righti - nload > 1) { mid = nload + (righti - nload)/2; … }` -/
def bsearch (idx : List Rec) (psqLast maxpacket : Int) : Nat → Nat → Nat → Option Nat
  | 0, nload, _ => some nload
  | fuel + 1, nload, righti =>
    if righti - nload > 1 then
      let mid := nload + (righti - nload) / 2
      match getRec idx (mid - 1) with
      | none => none
      | some r =>
        if r.psqEnd - psqLast ≤ maxpacket then bsearch idx psqLast maxpacket fuel mid righti
        else bsearch idx psqLast maxpacket fuel nload mid
    else some nload

/-- `nload`: `if (idx[nidx-1].psq_end - psq_last <= maxpacket) nload = nidx; else binary search` (`nidx ≥ 1`) -/
def chooseNload (idx : List Rec) (psqLast maxpacket : Int) : Option Nat :=
  match getRec idx (idx.length - 1) with
  | none => none
  | some r =>
    if r.psqEnd - psqLast ≤ maxpacket then some idx.length
    else bsearch idx psqLast maxpacket idx.length 1 idx.length

/-- loader state between two iterations of the main loop -/
structure LState where
  file : List Rec          -- index records not yet `fread`
  window : List Rec        -- `idx[0..nidx)`
  nload : Nat              -- how many of them the previous iteration loaded
  i0 : Nat
  psqLast : Int
  metaLast : Int
deriving Repr

def LState.init (file : List Rec) : LState :=
  { file := file, window := [], nload := 0, i0 := 0, psqLast := -1, metaLast := -1 }

/-- one iteration of the loader's main loop: `none` = fault (out-of-bounds index, or more packets than the chunk
    buffer holds), `some (none, _)` = EOD (`nidx == 0`), `some (some chunk, st')` otherwise -/
def loaderIter (maxseq : Nat) (maxpacket : Int) (st : LState) : Option (Option ChunkDesc × LState) :=
  let i0 := st.i0 + st.nload
  let carried := st.window.drop st.nload                -- memmove(idx, idx + nload, ncarried)
  let nread := maxseq - carried.length                  -- fread(idx + ncarried, …, maxseq - ncarried, ifp)
  let window := carried ++ st.file.take nread
  let file := st.file.drop nread
  if window.isEmpty then some (none, { st with file := file, window := window, i0 := i0, nload := 0 })
  else
    match chooseNload window st.psqLast maxpacket with
    | none => none
    | some nload =>
      match getRec window (nload - 1) with
      | none => none
      | some r =>
        let pn := r.psqEnd - st.psqLast
        if pn > maxpacket ∨ pn < 0 then none             -- fread of pn packets into a buffer of maxpacket
        else
          some (some { i0 := i0, n := nload, pn := pn, nmeta := r.metaEnd - st.metaLast },
                { file := file, window := window, nload := nload, i0 := i0, psqLast := r.psqEnd, metaLast := r.metaEnd })

/-- all chunks the loader produces (fuel = number of records + 1 suffices: every chunk loads ≥ 1 sequence) -/
def loaderChunks (maxseq : Nat) (maxpacket : Int) : Nat → LState → Option (List ChunkDesc)
  | 0, _ => some []
  | fuel + 1, st =>
    match loaderIter maxseq maxpacket st with
    | none => none
    | some (none, _) => some []
    | some (some c, st') =>
      match loaderChunks maxseq maxpacket fuel st' with
      | none => none
      | some cs => some (c :: cs)

/-- index records written by `esl_dsqdata_Write` for sequences with packet counts `ps` and metadata sizes `ms`:
    `spos += plen; mpos += …; idx.psq_end = spos-1; idx.metadata_end = mpos-1` -/
def indexOf : List (Nat × Nat) → Int → Int → List Rec
  | [], _, _ => []
  | (p, m) :: rest, spos, mpos => { metaEnd := mpos + m - 1, psqEnd := spos + p - 1 } :: indexOf rest (spos + p) (mpos + m)

end EaselModel.Dsqdata
