/-! GENERATED from esl_dsqdata.h / esl_dsqdata.c of the working tree by props/c12.py (`SPEC.generated`) - do not edit.
The compile-time constants of the dsqdata format and reader. -/
namespace EaselModel.Dsqdata.Consts
/-- `eslDSQDATA_MAGIC_V1` -/
abbrev magic : Nat := 0xc4d3d1b1
/-- `eslDSQDATA_MAGIC_V1SWAP` -/
abbrev magicSwap : Nat := 0xb1d1d3c4
/-- `eslDSQDATA_CHUNK_MAXSEQ` -/
abbrev chunkMaxseq : Nat := 4096
/-- `eslDSQDATA_CHUNK_MAXPACKET` -/
abbrev chunkMaxpacket : Nat := 262144
/-- `eslDSQDATA_UNPACKERS` -/
abbrev unpackers : Nat := 4
/-- `eslDSQDATA_UMAX` -/
abbrev umax : Nat := 4
end EaselModel.Dsqdata.Consts
