/-! # dsqdata packet codec (esl_dsqdata.c §5): executable model, core Lean only

Mirrors `dsqdata_pack5`, `dsqdata_pack2`, `dsqdata_unpack5`, `dsqdata_unpack2`, `dsqdata_unpack_chunk`.

A digital sequence `dsq[1..n]` is represented by the list of its `n` residue codes (the two sentinel bytes are
implicit); a packed sequence by the list of its `uint32_t` packets.  Positions are kept *relative* to the
current read position `r`: the C variable `d` ("position of next degenerate residue", a cache that is only
recomputed when `d < r`) is the optional distance `d - r`.

Reading a packet past the end of the packet array is the outcome `none` (a memory fault of the C code). -/
namespace EaselModel.Dsqdata

/-- `eslDSQDATA_EOD  = 1 << 31` -/
abbrev EOD : UInt32 := 0x80000000
/-- `eslDSQDATA_5BIT = 1 << 30` -/
abbrev BIT5 : UInt32 := 0x40000000

/-- `for (b = b0; b >= 0 && r <= n; b -= w) v |= (uint32_t) dsq[r++] << b;` over the residues `cs` that the loop
    consumes (the caller passes at most `b0/w + 1` of them). -/
def orFields (w : Nat) : UInt32 → Nat → List UInt8 → UInt32
  | v, _, [] => v
  | v, b, c :: cs => orFields w (v ||| (c.toUInt32 <<< b.toUInt32)) (b - w) cs

/-- a 5-bit packet: flag, up to six residues, the remaining slots filled with 31, EOD bit when `eod`
    (`v = eslDSQDATA_5BIT; for … v |= dsq[r++] << b; for … v |= 31 << b; if (r > n) v |= eslDSQDATA_EOD`) -/
def packet5 (cs : List UInt8) (eod : Bool) : UInt32 :=
  let v := orFields 5 BIT5 25 cs
  let v := orFields 5 v (25 - 5 * cs.length) (List.replicate (6 - cs.length) 31)
  if eod then v ||| EOD else v

/-- a full 2-bit packet of fifteen residues (`v = 0; for (b = 28; b >= 0; b -= 2) v |= dsq[r++] << b`) -/
def packet2 (cs : List UInt8) (eod : Bool) : UInt32 :=
  let v := orFields 2 0 28 cs
  if eod then v ||| EOD else v

/-- main loop of `dsqdata_pack5` on the residues `r..n` still to be packed -/
def pack5Loop (rest : List UInt8) : List UInt32 :=
  match rest with
  | [] => []
  | c :: cs =>
    packet5 ((c :: cs).take 6) ((c :: cs).drop 6).isEmpty :: pack5Loop ((c :: cs).drop 6)
termination_by rest.length
decreasing_by simp only [List.length_drop, List.length_cons]; omega

/-- `dsqdata_pack5`: `n = 0` gives the single all-ones packet -/
def pack5 (d : List UInt8) : List UInt32 :=
  let p := pack5Loop d
  if p.isEmpty then [0xFFFFFFFF] else p

/-- main loop of `dsqdata_pack2`; `k = some (d - r)` when the cached `d ≥ r`, `none` when `d < r` -/
def pack2Loop (rest : List UInt8) (k : Option Nat) : List UInt32 :=
  match rest with
  | [] => []
  | c :: cs =>
    -- `if (d < r) for (d = r; d <= n; d++) if (dsq[d] > 3) break;`
    let k := match k with
      | some k => k
      | none => (c :: cs).findIdx (fun x => x > 3)
    -- `if (n-r+1 >= 15 && d > r+14)`
    if (c :: cs).length ≥ 15 ∧ k > 14 then
      packet2 ((c :: cs).take 15) ((c :: cs).drop 15).isEmpty :: pack2Loop ((c :: cs).drop 15) (some (k - 15))
    else
      let m := min 6 (c :: cs).length
      packet5 ((c :: cs).take 6) ((c :: cs).drop 6).isEmpty ::
        pack2Loop ((c :: cs).drop 6) (if k ≥ m then some (k - m) else none)
termination_by rest.length
decreasing_by all_goals (simp only [List.length_drop, List.length_cons]; omega)

/-- `dsqdata_pack2` (`d = 0 < r = 1` initially: cache invalid) -/
def pack2 (d : List UInt8) : List UInt32 :=
  let p := pack2Loop d none
  if p.isEmpty then [0xFFFFFFFF] else p

/-- the six 5-bit fields `(v >> 25) & 31, …, (v >> 0) & 31` -/
def fields5 (v : UInt32) : List UInt8 :=
  [25, 20, 15, 10, 5, 0].map fun (b : UInt32) => ((v >>> b) &&& 31).toUInt8

/-- the fifteen 2-bit fields `(v >> 28) & 3, …, (v >> 0) & 3` -/
def fields2 (v : UInt32) : List UInt8 :=
  [28, 26, 24, 22, 20, 18, 16, 14, 12, 10, 8, 6, 4, 2, 0].map fun (b : UInt32) => ((v >>> b) &&& 3).toUInt8

/-- `for (b = 25; b >= 0 && ((v >> b) & 31) != 31; b -= 5) dsq[r++] = (v >> b) & 31;` -/
def partial5 (v : UInt32) : List UInt8 := (fields5 v).takeWhile (fun c => c != 31)

/-- `dsqdata_unpack5(psq, dsq, &L, &P)` on the packet array starting at `psq`: residues and `P`.
    `none`: the loop ran off the end of the array without seeing an EOD packet. -/
def unpack5 : List UInt32 → Option (List UInt8 × Nat)
  | [] => none
  | v :: ps =>
    if v &&& EOD != 0 then some (partial5 v, 1)
    else match unpack5 ps with
      | some (d, p) => some (fields5 v ++ d, p + 1)
      | none => none

/-- `dsqdata_unpack2`: mixed 2-bit / 5-bit packets -/
def unpack2 : List UInt32 → Option (List UInt8 × Nat)
  | [] => none
  | v :: ps =>
    if v &&& EOD != 0 then
      some (if v &&& BIT5 != 0 then partial5 v else fields2 v, 1)
    else match unpack2 ps with
      | some (d, p) => some ((if v &&& BIT5 != 0 then fields5 v else fields2 v) ++ d, p + 1)
      | none => none

/-- sequence loop of `dsqdata_unpack_chunk`: `while (pos < pn) { unpack at psq+pos; r += L+1; pos += P; i++ }`.
    `fuel` bounds the number of iterations (`P ≥ 1`, so `pn` suffices). Result: the sequences in order. -/
def unpackChunkLoop (pack5mode : Bool) : Nat → List UInt32 → Option (List (List UInt8))
  | 0, _ => some []
  | fuel + 1, psq =>
    if psq.isEmpty then some []
    else match (if pack5mode then unpack5 psq else unpack2 psq) with
      | none => none
      | some (d, p) =>
        match unpackChunkLoop pack5mode fuel (psq.drop p) with
        | none => none
        | some ds => some (d :: ds)

def unpackChunk (pack5mode : Bool) (psq : List UInt32) : Option (List (List UInt8)) :=
  unpackChunkLoop pack5mode psq.length psq

/-- the `smem` byte layout produced by `dsqdata_unpack_chunk`: leading sentinel, then every sequence followed by
    one sentinel (the trailing sentinel of sequence `i` is the leading one of `i+1`) -/
def smemLayout (ds : List (List UInt8)) : List UInt8 :=
  255 :: ds.flatMap (fun d => d ++ [255])

end EaselModel.Dsqdata
