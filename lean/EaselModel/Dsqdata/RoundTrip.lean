import EaselModel.Dsqdata.CodecLemmas
import EaselModel.Dsqdata.LoaderLemmas
/-! # Capstone: database → index → loader chunks → unpacked chunks = the stored sequences

`esl_dsqdata_Write` packs sequence `i` into `pk dᵢ` (all packets concatenated in the `.dsqs` file) and writes the index;
the loader cuts the index into chunks and `fread`s, for each chunk, the next `pn` packets; an unpacker runs
`dsqdata_unpack_chunk` on them. The theorem composes the codec round trip with the loader arithmetic. -/
namespace EaselModel.Dsqdata

theorem flatMap_drop_prefix {α β} (f : α → List β) : ∀ (l : List α) (i : Nat),
    (l.flatMap f).drop (((l.take i).map fun x => (f x).length).sum) = (l.drop i).flatMap f
  | [], i => by simp
  | a :: as, 0 => by simp
  | a :: as, i + 1 => by
    simp only [List.take_succ_cons, List.map_cons, List.sum_cons, List.flatMap_cons, List.drop_succ_cons]
    rw [List.drop_length_add_append]
    exact flatMap_drop_prefix f as i

theorem flatMap_take_prefix {α β} (f : α → List β) : ∀ (l : List α) (n : Nat),
    (l.flatMap f).take (((l.take n).map fun x => (f x).length).sum) = (l.take n).flatMap f
  | [], n => by simp
  | a :: as, 0 => by simp
  | a :: as, n + 1 => by
    simp only [List.take_succ_cons, List.map_cons, List.sum_cons, List.flatMap_cons]
    rw [List.take_length_add_append]
    congr 1
    exact flatMap_take_prefix f as n

/-- consecutive ranges `[i0ⱼ, i0ⱼ + nⱼ)` that start at `off` and tile the list reassemble it -/
theorem tiles_flatten {α} (ds : List α) : ∀ (cs : List (Nat × Nat)) (off : Nat),
    (∀ j (hj : j < cs.length), (cs[j]).1 = off + ((cs.take j).map (·.2)).sum) →
    ((cs.map fun c => (ds.drop c.1).take c.2).flatten) = (ds.drop off).take ((cs.map (·.2)).sum)
  | [], off, _ => by simp
  | c :: cs, off, h => by
    have h0 := h 0 (by simp)
    simp only [List.getElem_cons_zero, List.take_zero, List.map_nil, List.sum_nil, Nat.add_zero] at h0
    have ih := tiles_flatten ds cs (off + c.2) (by
      intro j hj
      have := h (j + 1) (by simp; omega)
      simp only [List.getElem_cons_succ, List.take_succ_cons, List.map_cons, List.sum_cons] at this
      omega)
    simp only [List.map_cons, List.flatten_cons, List.sum_cons, ih, h0]
    rw [List.take_add, List.drop_drop]

/-- the packer chosen by the alphabet (`do_pack5`) -/
def pk (amino : Bool) (d : List UInt8) : List UInt32 := if amino then pack5 d else pack2 d

theorem pk_length_pos (amino : Bool) (d : List UInt8) : 1 ≤ (pk amino d).length := by
  unfold pk; split
  · rw [pack5_length]; omega
  · exact (pack2_length_le d).1

theorem unpackChunk_pk (amino : Bool) (ds : List (List UInt8)) (hd : ∀ d ∈ ds, ∀ x ∈ d, x ≤ 30) :
    unpackChunk amino (ds.flatMap (pk amino)) = some ds := by
  cases amino
  · have e : pk false = pack2 := by funext d; simp [pk]
    rw [e]; exact unpackChunk_pack2 ds hd
  · have e : pk true = pack5 := by funext d; simp [pk]
    rw [e]; exact unpackChunk_pack5 ds hd

/-- **Write → index → loader → unpack = identity**, for every database, every `maxseq ≥ 1`, every `maxpacket` that
    can hold the longest packed sequence: the loader produces chunks (no fault) such that
    (1) the packets it reads for a chunk - the next `pn` packets of the sequence file, i.e. those after the packets
        of all earlier sequences - unpack to exactly the sequences `i0 … i0+N-1`, and
    (2) the chunks in order tile the database: their concatenation is the list of stored sequences. -/
theorem chunks_unpack_to_database (amino : Bool) (ds : List (List UInt8)) (ms : List Nat) (maxseq : Nat) (maxpacket : Int)
    (hlen : ds.length = ms.length) (hd : ∀ d ∈ ds, ∀ x ∈ d, x ≤ 30) (hms : 1 ≤ maxseq)
    (hfit : ∀ d ∈ ds, ((pk amino d).length : Int) ≤ maxpacket) :
    let ps := ds.map fun d => (pk amino d).length
    ∃ cs, loaderChunks maxseq maxpacket (ds.length + 1) (LState.init (indexOf (ps.zip ms) 0 0)) = some cs ∧
      (∀ c ∈ cs, unpackChunk amino (((ds.flatMap (pk amino)).drop (pre ps c.i0)).take c.pn.toNat)
                  = some ((ds.drop c.i0).take c.n)) ∧
      (cs.map fun c => (ds.drop c.i0).take c.n).flatten = ds := by
  intro ps
  have hpslen : ps.length = ds.length := by simp [ps]
  obtain ⟨cs, hrun, hsum, hcont, hchunk, _⟩ := loaderChunks_spec ps ms maxseq maxpacket (by rw [hpslen, hlen])
    (by
      intro p hp
      obtain ⟨d, hdm, rfl⟩ := List.mem_map.mp hp
      exact ⟨pk_length_pos amino d, hfit d hdm⟩) hms
  refine ⟨cs, by rw [← hpslen]; exact hrun, ?_, ?_⟩
  · intro c hc
    obtain ⟨_, _, _, _, _, hpn, _⟩ := hchunk c hc
    have h1 : pre ps c.i0 = ((ds.take c.i0).map fun x => (pk amino x).length).sum := by
      simp [pre, ps, List.map_take]
    have h2 : c.pn.toNat = ((((ds.drop c.i0).take c.n)).map fun x => (pk amino x).length).sum := by
      rw [hpn]; simp [ps, List.map_take, List.map_drop]
    rw [h1, flatMap_drop_prefix, h2, flatMap_take_prefix]
    apply unpackChunk_pk
    intro d hdm
    exact hd d (List.mem_of_mem_drop (List.mem_of_mem_take hdm))
  · have := tiles_flatten ds (cs.map fun c => (c.i0, c.n)) 0 (by
      intro j hj
      have hj' : j < cs.length := by simpa using hj
      simp only [List.getElem_map, Nat.zero_add, ← List.map_take, List.map_map]
      exact hcont j hj')
    simp only [List.map_map, List.drop_zero] at this
    rw [show ((fun c : Nat × Nat => (ds.drop c.1).take c.2) ∘ fun c : ChunkDesc => (c.i0, c.n)) = fun c => (ds.drop c.i0).take c.n from rfl] at this
    rw [this]
    have hs : (cs.map ((fun x : Nat × Nat => x.2) ∘ fun c : ChunkDesc => (c.i0, c.n))).sum = ds.length := by
      rw [show ((fun x : Nat × Nat => x.2) ∘ fun c : ChunkDesc => (c.i0, c.n)) = fun c => c.n from rfl, hsum, hpslen]
    rw [hs, List.take_length]

end EaselModel.Dsqdata
