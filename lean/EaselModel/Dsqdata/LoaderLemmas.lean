import EaselModel.Dsqdata.Loader
/-! # dsqdata loader arithmetic: the `nload` binary search and the chunking of the whole database (core Lean only) -/
namespace EaselModel.Dsqdata

/-! ## Target 1: `chooseNload` -/

/-- record `k` exists and its packets (counted from `psqLast`) fit into `maxpacket` -/
def Fits (idx : List Rec) (psqLast maxpacket : Int) (k : Nat) : Prop :=
  ∃ r, idx[k]? = some r ∧ r.psqEnd - psqLast ≤ maxpacket

/-- record `k` exists and its packets (counted from `psqLast`) do not fit into `maxpacket` -/
def NoFit (idx : List Rec) (psqLast maxpacket : Int) (k : Nat) : Prop :=
  ∃ r, idx[k]? = some r ∧ ¬ (r.psqEnd - psqLast ≤ maxpacket)

theorem bsearch_spec (idx : List Rec) (psqLast maxpacket : Int) :
    ∀ fuel nload righti, 1 ≤ nload → nload < righti → righti ≤ idx.length → righti - nload ≤ fuel + 1 →
      Fits idx psqLast maxpacket (nload - 1) → NoFit idx psqLast maxpacket (righti - 1) →
      ∃ n, bsearch idx psqLast maxpacket fuel nload righti = some n ∧ 1 ≤ n ∧ n < idx.length ∧
        Fits idx psqLast maxpacket (n - 1) ∧ NoFit idx psqLast maxpacket n := by
  intro fuel
  induction fuel with
  | zero =>
    intro nload righti h1 hlt hr hf hfit hno
    have e : righti - 1 = nload := by omega
    rw [e] at hno
    exact ⟨nload, by simp [bsearch], h1, by omega, hfit, hno⟩
  | succ fuel ih =>
    intro nload righti h1 hlt hr hf hfit hno
    unfold bsearch
    by_cases hgap : righti - nload > 1
    · rw [if_pos hgap]
      have hmid : nload + (righti - nload) / 2 - 1 < idx.length := by omega
      have hget : getRec idx (nload + (righti - nload) / 2 - 1) = some (idx[nload + (righti - nload) / 2 - 1]) := by
        simp [getRec, List.getElem?_eq_getElem hmid]
      simp only [hget]
      by_cases hc : (idx[nload + (righti - nload) / 2 - 1]).psqEnd - psqLast ≤ maxpacket
      · rw [if_pos hc]
        exact ih _ _ (by omega) (by omega) hr (by omega)
          ⟨_, List.getElem?_eq_getElem hmid, hc⟩ hno
      · rw [if_neg hc]
        exact ih _ _ h1 (by omega) (by omega) (by omega) hfit
          ⟨_, List.getElem?_eq_getElem hmid, hc⟩
    · rw [if_neg hgap]
      have e : righti - 1 = nload := by omega
      rw [e] at hno
      exact ⟨nload, rfl, h1, by omega, hfit, hno⟩

/-- core of Target 1, in `[k]?` form, needing only that the first record fits: no fault, `1 ≤ n ≤ length`,
    record `n-1` fits, record `n` (if any) does not. -/
theorem chooseNload_core (idx : List Rec) (psqLast maxpacket : Int)
    (hfirst : Fits idx psqLast maxpacket 0) :
    ∃ n, chooseNload idx psqLast maxpacket = some n ∧ 1 ≤ n ∧ n ≤ idx.length ∧
      Fits idx psqLast maxpacket (n - 1) ∧ (n < idx.length → NoFit idx psqLast maxpacket n) := by
  obtain ⟨r0, hr0, hf0⟩ := hfirst
  have hlen : 0 < idx.length := by
    rcases Nat.eq_zero_or_pos idx.length with h | h
    · have : idx = [] := List.eq_nil_of_length_eq_zero h
      subst this; simp at hr0
    · exact h
  have hlast : idx.length - 1 < idx.length := by omega
  unfold chooseNload
  have hget : getRec idx (idx.length - 1) = some (idx[idx.length - 1]) := by
    simp [getRec, List.getElem?_eq_getElem hlast]
  simp only [hget]
  by_cases hc : (idx[idx.length - 1]).psqEnd - psqLast ≤ maxpacket
  · rw [if_pos hc]
    exact ⟨idx.length, rfl, hlen, Nat.le_refl _, ⟨_, List.getElem?_eq_getElem hlast, hc⟩,
      fun h => absurd h (Nat.lt_irrefl _)⟩
  · rw [if_neg hc]
    have h2 : 1 < idx.length := by
      rcases Nat.lt_or_ge 1 idx.length with h | h
      · exact h
      · exfalso
        have e : idx.length - 1 = 0 := by omega
        have h0 : idx[idx.length - 1]? = some r0 := by rw [e]; exact hr0
        rw [List.getElem?_eq_getElem hlast] at h0
        injection h0 with h0
        rw [h0] at hc
        exact hc hf0
    obtain ⟨n, hn, h1, hlt, hfit, hno⟩ := bsearch_spec idx psqLast maxpacket idx.length 1 idx.length
      (Nat.le_refl _) h2 (Nat.le_refl _) (by omega) ⟨r0, hr0, hf0⟩
      ⟨_, List.getElem?_eq_getElem hlast, hc⟩
    exact ⟨n, hn, h1, Nat.le_of_lt hlt, hfit, fun _ => hno⟩

/-- record ends are strictly increasing (every sequence has at least one packet) -/
def EndsIncreasing (idx : List Rec) : Prop :=
  ∀ i j (hi : i < j) (hj : j < idx.length), (idx[i]'(by omega)).psqEnd < (idx[j]).psqEnd

/-- Target 1 as stated. -/
theorem chooseNload_spec (idx : List Rec) (psqLast maxpacket : Int) (hne : idx ≠ [])
    (_hinc : EndsIncreasing idx)
    (hfirst : (idx[0]'(List.length_pos_iff.mpr hne)).psqEnd - psqLast ≤ maxpacket) :
    ∃ n, chooseNload idx psqLast maxpacket = some n ∧ 1 ≤ n ∧ n ≤ idx.length ∧
      (∀ (h : n - 1 < idx.length), (idx[n-1]).psqEnd - psqLast ≤ maxpacket) ∧
      (∀ (h : n < idx.length), (idx[n]).psqEnd - psqLast > maxpacket) := by
  have hpos : 0 < idx.length := List.length_pos_iff.mpr hne
  obtain ⟨n, hn, h1, hle, ⟨r, hr, hfit⟩, hno⟩ := chooseNload_core idx psqLast maxpacket
    ⟨_, List.getElem?_eq_getElem hpos, hfirst⟩
  refine ⟨n, hn, h1, hle, ?_, ?_⟩
  · intro h
    rw [List.getElem?_eq_getElem h] at hr
    injection hr with hr
    rw [hr]; exact hfit
  · intro h
    obtain ⟨r', hr', hno'⟩ := hno h
    rw [List.getElem?_eq_getElem h] at hr'
    injection hr' with hr'
    rw [hr']; omega

/-- Target 1, "largest prefix" form: with strictly increasing ends, exactly the records `k < n` fit. -/
theorem chooseNload_max (idx : List Rec) (psqLast maxpacket : Int) (hne : idx ≠ [])
    (hinc : EndsIncreasing idx)
    (hfirst : (idx[0]'(List.length_pos_iff.mpr hne)).psqEnd - psqLast ≤ maxpacket) :
    ∃ n, chooseNload idx psqLast maxpacket = some n ∧ 1 ≤ n ∧ n ≤ idx.length ∧
      ∀ k (hk : k < idx.length), (idx[k]).psqEnd - psqLast ≤ maxpacket ↔ k < n := by
  obtain ⟨n, hn, h1, hle, hfit, hno⟩ := chooseNload_spec idx psqLast maxpacket hne hinc hfirst
  refine ⟨n, hn, h1, hle, ?_⟩
  intro k hk
  constructor
  · intro hkf
    rcases Nat.lt_or_ge k n with h | h
    · exact h
    · exfalso
      have hn' : n < idx.length := by omega
      have h2 := hno hn'
      rcases Nat.eq_or_lt_of_le h with e | hlt
      · subst e; omega
      · have := hinc n k hlt hk; omega
  · intro hkn
    have hn1 : n - 1 < idx.length := by omega
    have h2 := hfit hn1
    rcases Nat.eq_or_lt_of_le (Nat.le_sub_one_of_lt hkn) with e | hlt
    · subst e; exact h2
    · have := hinc k (n - 1) hlt hn1; omega

/-! ## Target 2: the whole loader run -/

/-- number of packets in the first `k` sequences -/
def pre (ps : List Nat) (k : Nat) : Nat := (ps.take k).sum

theorem pre_zero (ps : List Nat) : pre ps 0 = 0 := by simp [pre]

theorem pre_add (ps : List Nat) (a n : Nat) : pre ps (a + n) = pre ps a + ((ps.drop a).take n).sum := by
  simp [pre, List.take_add, List.sum_append]

theorem pre_cons (p : Nat) (ps : List Nat) (k : Nat) : pre (p :: ps) (k + 1) = p + pre ps k := by
  simp [pre]

theorem pre_succ : ∀ (ps : List Nat) (k : Nat) (hk : k < ps.length), pre ps (k + 1) = pre ps k + ps[k]
  | [], _, hk => by simp at hk
  | p :: ps, 0, _ => by simp [pre]
  | p :: ps, k + 1, hk => by
    have ih := pre_succ ps k (by simpa using hk)
    rw [pre_cons, pre_cons, ih, List.getElem_cons_succ]; omega

theorem indexOf_length : ∀ (l : List (Nat × Nat)) (s m : Int), (indexOf l s m).length = l.length
  | [], _, _ => rfl
  | (_, _) :: rest, s, m => by simp [indexOf, indexOf_length rest]

theorem indexOf_getElem? : ∀ (l : List (Nat × Nat)) (s m : Int) (i : Nat), i < l.length →
    ∃ r, (indexOf l s m)[i]? = some r ∧
      r.psqEnd = s + (pre (l.map Prod.fst) (i + 1) : Nat) - 1 ∧
      r.metaEnd = m + (pre (l.map Prod.snd) (i + 1) : Nat) - 1
  | [], _, _, _, h => by simp at h
  | (p, mm) :: rest, s, m, 0, _ => by
    refine ⟨{ metaEnd := m + mm - 1, psqEnd := s + p - 1 }, by simp [indexOf], ?_, ?_⟩ <;> simp [pre]
  | (p, mm) :: rest, s, m, i + 1, h => by
    obtain ⟨r, hr, h1, h2⟩ := indexOf_getElem? rest (s + p) (m + mm) i (by simpa using h)
    refine ⟨r, by simpa [indexOf] using hr, ?_, ?_⟩
    · rw [h1, List.map_cons, pre_cons]; omega
    · rw [h2, List.map_cons, pre_cons]; omega

/-- `idx` is the index of a database whose sequences have packet counts `ps` -/
def IdxOf (idx : List Rec) (ps ms : List Nat) : Prop :=
  idx.length = ps.length ∧ ms.length = ps.length ∧
  ∀ i, i < ps.length → ∃ r, idx[i]? = some r ∧ r.psqEnd = (pre ps (i + 1) : Nat) - 1 ∧
    r.metaEnd = (pre ms (i + 1) : Nat) - 1

theorem idxOf_indexOf (ps ms : List Nat) (hlen : ps.length = ms.length) :
    IdxOf (indexOf (ps.zip ms) 0 0) ps ms := by
  have hmap : (ps.zip ms).map Prod.fst = ps := List.map_fst_zip (by omega)
  have hmap2 : (ps.zip ms).map Prod.snd = ms := List.map_snd_zip (by omega)
  have hl : (ps.zip ms).length = ps.length := by rw [List.length_zip]; omega
  refine ⟨by rw [indexOf_length, hl], hlen.symm, ?_⟩
  intro i hi
  obtain ⟨r, hr, h1, h2⟩ := indexOf_getElem? (ps.zip ms) 0 0 i (by omega)
  refine ⟨r, hr, ?_, ?_⟩
  · rw [h1, hmap]; omega
  · rw [h2, hmap2]; omega

/-- loop invariant of the loader, `st.i0 + st.nload` sequences having been loaded so far -/
structure LoaderInv (idx : List Rec) (ps ms : List Nat) (maxseq : Nat) (st : LState) : Prop where
  hsplit : st.window.drop st.nload ++ st.file = idx.drop (st.i0 + st.nload)
  hcar : (st.window.drop st.nload).length ≤ maxseq
  hlast : st.psqLast = (pre ps (st.i0 + st.nload) : Nat) - 1
  hmlast : st.metaLast = (pre ms (st.i0 + st.nload) : Nat) - 1
  hpos : st.i0 + st.nload ≤ ps.length

theorem inv_init (idx : List Rec) (ps ms : List Nat) (maxseq : Nat) : LoaderInv idx ps ms maxseq (LState.init idx) := by
  refine ⟨by simp [LState.init], by simp [LState.init], by simp [LState.init, pre_zero],
    by simp [LState.init, pre_zero], by simp [LState.init]⟩

/-- what a chunk descriptor must satisfy -/
def ChunkOK (ps ms : List Nat) (maxseq : Nat) (maxpacket : Int) (c : ChunkDesc) : Prop :=
  1 ≤ c.n ∧ c.n ≤ maxseq ∧ c.i0 + c.n ≤ ps.length ∧ 0 ≤ c.pn ∧ c.pn ≤ maxpacket ∧
  c.pn = (((ps.drop c.i0).take c.n).sum : Nat) ∧ c.nmeta = (((ms.drop c.i0).take c.n).sum : Nat) ∧
  (c.n < maxseq → c.i0 + c.n < ps.length → c.pn + (ps.getD (c.i0 + c.n) 0 : Nat) > maxpacket)

/-- the refilled window is the next (at most) `maxseq` records of the index -/
theorem window_eq (idx : List Rec) (ps ms : List Nat) (maxseq : Nat) (st : LState)
    (hinv : LoaderInv idx ps ms maxseq st) :
    st.window.drop st.nload ++ st.file.take (maxseq - (st.window.drop st.nload).length)
      = (idx.drop (st.i0 + st.nload)).take maxseq := by
  rw [← hinv.hsplit, List.take_append, List.take_of_length_le hinv.hcar]

theorem window_file (st : LState) (k : Nat) :
    (st.window.drop st.nload ++ st.file.take k) ++ st.file.drop k = st.window.drop st.nload ++ st.file := by
  rw [List.append_assoc, List.take_append_drop]

theorem loaderIter_some (maxseq : Nat) (maxpacket : Int) (st : LState) (W : List Rec) (n : Nat) (r : Rec)
    (hW : W = st.window.drop st.nload ++ st.file.take (maxseq - (st.window.drop st.nload).length))
    (hne : W ≠ []) (hch : chooseNload W st.psqLast maxpacket = some n) (hr : W[n - 1]? = some r)
    (h1 : r.psqEnd - st.psqLast ≤ maxpacket) (h2 : 0 ≤ r.psqEnd - st.psqLast) :
    loaderIter maxseq maxpacket st =
      some (some { i0 := st.i0 + st.nload, n := n, pn := r.psqEnd - st.psqLast, nmeta := r.metaEnd - st.metaLast },
            { file := st.file.drop (maxseq - (st.window.drop st.nload).length), window := W, nload := n,
              i0 := st.i0 + st.nload, psqLast := r.psqEnd, metaLast := r.metaEnd }) := by
  subst hW
  have hemp : (st.window.drop st.nload ++ st.file.take (maxseq - (st.window.drop st.nload).length)).isEmpty = false := by
    cases h : (st.window.drop st.nload ++ st.file.take (maxseq - (st.window.drop st.nload).length)).isEmpty
    · rfl
    · exact absurd (List.isEmpty_iff.mp h) hne
  have hcond : ¬ (r.psqEnd - st.psqLast > maxpacket ∨ r.psqEnd - st.psqLast < 0) := by omega
  unfold loaderIter
  simp only [hemp, hch, getRec, hr, if_neg hcond]
  simp

theorem loaderIter_eod (maxseq : Nat) (maxpacket : Int) (st : LState)
    (hw : st.window.drop st.nload = []) (hf : st.file = []) :
    ∃ st', loaderIter maxseq maxpacket st = some (none, st') := by
  unfold loaderIter
  simp [hw, hf]

theorem loaderIter_step (idx : List Rec) (ps ms : List Nat) (maxseq : Nat) (maxpacket : Int) (st : LState)
    (hidx : IdxOf idx ps ms) (hms : 1 ≤ maxseq) (hps : ∀ i (h : i < ps.length), (ps[i] : Int) ≤ maxpacket)
    (hinv : LoaderInv idx ps ms maxseq st) (hlt : st.i0 + st.nload < ps.length) :
    ∃ c st', loaderIter maxseq maxpacket st = some (some c, st') ∧ LoaderInv idx ps ms maxseq st' ∧
      st'.i0 = st.i0 + st.nload ∧ st'.nload = c.n ∧ c.i0 = st.i0 + st.nload ∧ ChunkOK ps ms maxseq maxpacket c := by
  obtain ⟨hsplit, hcar, hlast, hmlast, hpos⟩ := hinv
  have hinv : LoaderInv idx ps ms maxseq st := ⟨hsplit, hcar, hlast, hmlast, hpos⟩
  generalize hposdef : st.i0 + st.nload = pos at *
  generalize hWdef : st.window.drop st.nload ++ st.file.take (maxseq - (st.window.drop st.nload).length) = W
  have hW : W = (idx.drop pos).take maxseq := by
    rw [← hWdef, ← hposdef]; exact window_eq idx ps ms maxseq st hinv
  have hWlen : W.length = min maxseq (ps.length - pos) := by
    rw [hW, List.length_take, List.length_drop, hidx.1]
  have hWget : ∀ k, k < W.length → ∃ r, W[k]? = some r ∧ r.psqEnd = (pre ps (pos + k + 1) : Nat) - 1 ∧
      r.metaEnd = (pre ms (pos + k + 1) : Nat) - 1 := by
    intro k hk
    obtain ⟨r, hr, hre⟩ := hidx.2.2 (pos + k) (by omega)
    refine ⟨r, ?_, hre⟩
    rw [hW, List.getElem?_take, if_pos (by omega), List.getElem?_drop]; exact hr
  have hWne : W ≠ [] := by
    intro h; rw [h] at hWlen; simp at hWlen; omega
  -- the first record fits
  have hfirst : Fits W st.psqLast maxpacket 0 := by
    obtain ⟨r, hr, hre, _⟩ := hWget 0 (by omega)
    refine ⟨r, hr, ?_⟩
    have := pre_succ ps pos hlt
    have := hps pos hlt
    simp only [Nat.add_zero] at hre
    omega
  obtain ⟨n, hn, h1, hle, ⟨r, hr, hfit⟩, hno⟩ := chooseNload_core W st.psqLast maxpacket hfirst
  obtain ⟨r', hr', hre, hme⟩ := hWget (n - 1) (by omega)
  rw [hr] at hr'; injection hr' with hr'; subst hr'
  have e1 : pos + (n - 1) + 1 = pos + n := by omega
  rw [e1] at hre hme
  have hadd := pre_add ps pos n
  have hpn : r.psqEnd - st.psqLast = (((ps.drop pos).take n).sum : Nat) := by omega
  have hadd2 := pre_add ms pos n
  have hnm : r.metaEnd - st.metaLast = (((ms.drop pos).take n).sum : Nat) := by omega
  have hiter := loaderIter_some maxseq maxpacket st W n r hWdef.symm hWne hn hr hfit (by omega)
  rw [hposdef] at hiter
  refine ⟨_, _, hiter, ⟨?_, ?_, ?_, ?_, ?_⟩, rfl, rfl, rfl, h1, ?_, ?_, ?_, hfit, hpn, hnm, ?_⟩
  · -- hsplit
    show W.drop n ++ st.file.drop (maxseq - (st.window.drop st.nload).length) = idx.drop (pos + n)
    rw [← List.drop_append_of_le_length hle, ← hWdef, window_file, hsplit, List.drop_drop]
  · show (W.drop n).length ≤ maxseq
    rw [List.length_drop]; omega
  · show r.psqEnd = ((pre ps (pos + n) : Nat) : Int) - 1
    exact hre
  · show r.metaEnd = ((pre ms (pos + n) : Nat) : Int) - 1
    exact hme
  · show pos + n ≤ ps.length
    omega
  · show n ≤ maxseq
    omega
  · show pos + n ≤ ps.length
    omega
  · show 0 ≤ r.psqEnd - st.psqLast
    omega
  · -- maximality
    show n < maxseq → pos + n < ps.length → r.psqEnd - st.psqLast + (ps.getD (pos + n) 0 : Nat) > maxpacket
    intro hnm hnl
    obtain ⟨r2, hr2, hno2⟩ := hno (by omega)
    obtain ⟨r3, hr3, hre3, _⟩ := hWget n (by omega)
    rw [hr2] at hr3; injection hr3 with hr3; subst hr3
    have := pre_succ ps (pos + n) hnl
    have hgd : ps.getD (pos + n) 0 = ps[pos + n] := by
      rw [List.getD_eq_getElem?_getD, List.getElem?_eq_getElem hnl]; rfl
    rw [hgd]
    omega

theorem loaderChunks_inv (idx : List Rec) (ps ms : List Nat) (maxseq : Nat) (maxpacket : Int)
    (hidx : IdxOf idx ps ms) (hms : 1 ≤ maxseq) (hps : ∀ i (h : i < ps.length), (ps[i] : Int) ≤ maxpacket) :
    ∀ fuel st, LoaderInv idx ps ms maxseq st → ps.length - (st.i0 + st.nload) < fuel →
      ∃ cs, loaderChunks maxseq maxpacket fuel st = some cs ∧
        (cs.map (·.n)).sum = ps.length - (st.i0 + st.nload) ∧
        (∀ j (hj : j < cs.length), (cs[j]).i0 = st.i0 + st.nload + ((cs.take j).map (·.n)).sum) ∧
        (∀ c ∈ cs, ChunkOK ps ms maxseq maxpacket c) := by
  intro fuel
  induction fuel with
  | zero => intro st _ h; omega
  | succ fuel ih =>
    intro st hinv hfuel
    rcases Nat.lt_or_ge (st.i0 + st.nload) ps.length with hlt | hge
    · obtain ⟨c, st', hiter, hinv', hi0, hnl, hci0, hok⟩ :=
        loaderIter_step idx ps ms maxseq maxpacket st hidx hms hps hinv hlt
      have hok' := hok
      obtain ⟨hc1, _, hcle, _⟩ := hok'
      obtain ⟨cs, hcs, hsum, hstart, hall⟩ := ih st' hinv' (by rw [hi0, hnl]; omega)
      refine ⟨c :: cs, ?_, ?_, ?_, ?_⟩
      · unfold loaderChunks
        simp only [hiter, hcs]
      · rw [List.map_cons, List.sum_cons, hsum, hi0, hnl]; omega
      · intro j hj
        cases j with
        | zero => simp [hci0]
        | succ j =>
          have := hstart j (by simpa using hj)
          rw [List.getElem_cons_succ, this, List.take_succ_cons, List.map_cons, List.sum_cons, hi0, hnl]
          omega
      · intro c' hc'
        rcases List.mem_cons.mp hc' with e | hmem
        · rw [e]; exact hok
        · exact hall c' hmem
    · have hnil : idx.drop (st.i0 + st.nload) = [] := List.drop_eq_nil_of_le (by rw [hidx.1]; exact hge)
      have hsp := hinv.hsplit
      rw [hnil] at hsp
      obtain ⟨hw, hf⟩ := List.append_eq_nil_iff.mp hsp
      obtain ⟨st', hiter⟩ := loaderIter_eod maxseq maxpacket st hw hf
      refine ⟨[], ?_, ?_, ?_, ?_⟩
      · unfold loaderChunks
        simp only [hiter]
      · simp; omega
      · intro j hj; simp at hj
      · intro c hc; simp at hc

/-- Target 2 for any index `idx` describing packet counts `ps` (only `p ≤ maxpacket` is needed; see
    `loaderChunks_spec` for the instance `idx = indexOf (ps.zip ms) 0 0`). -/
theorem loaderChunks_spec_idx (idx : List Rec) (ps ms : List Nat) (maxseq : Nat) (maxpacket : Int)
    (hidx : IdxOf idx ps ms) (hms : 1 ≤ maxseq) (hps : ∀ p ∈ ps, (p : Int) ≤ maxpacket) :
    ∃ cs, loaderChunks maxseq maxpacket (ps.length + 1) (LState.init idx) = some cs ∧
      (cs.map (·.n)).sum = ps.length ∧
      (∀ j (hj : j < cs.length), (cs[j]).i0 = ((cs.take j).map (·.n)).sum) ∧
      (∀ c ∈ cs, 1 ≤ c.n ∧ c.n ≤ maxseq ∧ c.i0 + c.n ≤ ps.length ∧ 0 ≤ c.pn ∧ c.pn ≤ maxpacket ∧
        c.pn = (((ps.drop c.i0).take c.n).sum : Nat) ∧ c.nmeta = (((ms.drop c.i0).take c.n).sum : Nat)) ∧
      (∀ c ∈ cs, c.n < maxseq → c.i0 + c.n < ps.length → c.pn + (ps.getD (c.i0 + c.n) 0 : Nat) > maxpacket) := by
  have hps' : ∀ i (h : i < ps.length), (ps[i] : Int) ≤ maxpacket := fun i h => hps _ (List.getElem_mem h)
  obtain ⟨cs, hcs, hsum, hstart, hall⟩ := loaderChunks_inv idx ps ms maxseq maxpacket hidx hms hps'
    (ps.length + 1) (LState.init idx) (inv_init idx ps ms maxseq) (by simp [LState.init])
  refine ⟨cs, hcs, ?_, ?_, ?_, ?_⟩
  · simpa [LState.init] using hsum
  · intro j hj
    simpa [LState.init] using hstart j hj
  · intro c hc
    obtain ⟨h1, h2, h3, h4, h5, h6, h7, _⟩ := hall c hc
    exact ⟨h1, h2, h3, h4, h5, h6, h7⟩
  · intro c hc
    exact (hall c hc).2.2.2.2.2.2.2

/-- Target 2: on the index written for packet counts `ps` and metadata sizes `ms`, the loader never faults and
    cuts the database into contiguous, within-limits, maximal chunks. -/
theorem loaderChunks_spec (ps ms : List Nat) (maxseq : Nat) (maxpacket : Int) (hlen : ps.length = ms.length)
    (hps : ∀ p ∈ ps, 1 ≤ p ∧ (p : Int) ≤ maxpacket) (hms : 1 ≤ maxseq) :
    ∃ cs, loaderChunks maxseq maxpacket (ps.length + 1) (LState.init (indexOf (ps.zip ms) 0 0)) = some cs ∧
      (cs.map (·.n)).sum = ps.length ∧
      (∀ j (hj : j < cs.length), (cs[j]).i0 = ((cs.take j).map (·.n)).sum) ∧
      (∀ c ∈ cs, 1 ≤ c.n ∧ c.n ≤ maxseq ∧ c.i0 + c.n ≤ ps.length ∧ 0 ≤ c.pn ∧ c.pn ≤ maxpacket ∧
        c.pn = (((ps.drop c.i0).take c.n).sum : Nat) ∧ c.nmeta = (((ms.drop c.i0).take c.n).sum : Nat)) ∧
      (∀ c ∈ cs, c.n < maxseq → c.i0 + c.n < ps.length → c.pn + (ps.getD (c.i0 + c.n) 0 : Nat) > maxpacket) :=
  loaderChunks_spec_idx _ ps ms maxseq maxpacket (idxOf_indexOf ps ms hlen) hms (fun p hp => (hps p hp).2)

end EaselModel.Dsqdata
