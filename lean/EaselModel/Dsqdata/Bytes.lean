/-! # Little-endian byte encoding of the integers `esl_dsqdata_Write` stores with `fwrite(&x, sizeof x, 1, fp)`
and `esl_dsqdata_Open` / the loader read back with `fread` (native byte order; the supported hosts are little-endian -
the exact comparison of the model's files with the real ones checks it on every run). Core Lean only. -/
namespace EaselModel.Dsqdata

/-- the `k` low-order bytes of `n`, least significant first -/
def leBytes : Nat → Nat → List UInt8
  | 0, _ => []
  | k + 1, n => UInt8.ofNat (n % 256) :: leBytes k (n / 256)

/-- the unsigned value of a little-endian byte string -/
def leVal : List UInt8 → Nat
  | [] => 0
  | b :: bs => b.toNat + 256 * leVal bs

@[simp] theorem leBytes_length : ∀ k n, (leBytes k n).length = k
  | 0, _ => rfl
  | k + 1, n => by simp [leBytes, leBytes_length k]

theorem leVal_leBytes : ∀ k n, leVal (leBytes k n) = n % 256 ^ k
  | 0, n => by simp [leBytes, leVal, Nat.mod_one]
  | k + 1, n => by
    have h : (UInt8.ofNat (n % 256)).toNat = n % 256 := by
      simp [UInt8.toNat_ofNat']
    simp only [leBytes, leVal, leVal_leBytes k, h]
    rw [Nat.pow_succ, Nat.mul_comm (256 ^ k) 256, Nat.mod_mul]

theorem leVal_lt : ∀ bs : List UInt8, leVal bs < 256 ^ bs.length
  | [] => by simp [leVal]
  | b :: bs => by
    have := leVal_lt bs
    have hb := b.toNat_lt
    simp only [leVal, List.length_cons, Nat.pow_succ]
    omega

/-- `uint32_t` -/
def le32 (n : Nat) : List UInt8 := leBytes 4 n
/-- `uint64_t` -/
def le64 (n : Nat) : List UInt8 := leBytes 8 n
/-- `int64_t` (two's complement) -/
def leI64 (x : Int) : List UInt8 := leBytes 8 (x % 18446744073709551616).toNat
/-- an `int64_t` read back from 8 bytes -/
def valI64 (bs : List UInt8) : Int :=
  let n := leVal bs
  if n < 9223372036854775808 then (n : Int) else (n : Int) - 18446744073709551616

theorem valI64_leI64 (x : Int) (h1 : -9223372036854775808 ≤ x) (h2 : x < 9223372036854775808) :
    valI64 (leI64 x) = x := by
  simp only [valI64, leI64, leVal_leBytes]
  have : (256 : Nat) ^ 8 = 18446744073709551616 := by decide
  rw [this]
  split <;> omega

/-- `fread(ptr, size, n, fp)` on the unread bytes `bs` of a file (`size ≥ 1`): the bytes of the complete items read, their
    number, and the bytes still unread afterwards (a short read consumes the partial last item too: the file is at EOF) -/
def freadItems (size n : Nat) (bs : List UInt8) : List UInt8 × Nat × List UInt8 :=
  let k := min n (bs.length / size)
  (bs.take (k * size), k, if k < n then [] else bs.drop (k * size))

/-- `k` items of `size` bytes each, decoded one after the other -/
def decodeItems {α} (size : Nat) (dec : List UInt8 → α) : Nat → List UInt8 → List α
  | 0, _ => []
  | k + 1, bs => dec (bs.take size) :: decodeItems size dec k (bs.drop size)

theorem flatMap_const_length {α} (enc : α → List UInt8) (size : Nat) (henc : ∀ x, (enc x).length = size) :
    ∀ l : List α, (l.flatMap enc).length = l.length * size
  | [] => by simp
  | a :: l => by
    simp only [List.flatMap_cons, List.length_append, henc, flatMap_const_length enc size henc l, List.length_cons]
    rw [Nat.succ_mul]; omega

theorem flatMap_take_const {α} (enc : α → List UInt8) (size : Nat) (henc : ∀ x, (enc x).length = size) :
    ∀ (l : List α) (k : Nat), (l.flatMap enc).take (k * size) = (l.take k).flatMap enc
  | [], k => by simp
  | a :: l, 0 => by simp
  | a :: l, k + 1 => by
    have e : (k + 1) * size = (enc a).length + k * size := by rw [henc, Nat.succ_mul]; omega
    simp only [List.flatMap_cons, List.take_succ_cons, e, List.take_length_add_append]
    rw [flatMap_take_const enc size henc l k]

theorem flatMap_drop_const {α} (enc : α → List UInt8) (size : Nat) (henc : ∀ x, (enc x).length = size) :
    ∀ (l : List α) (k : Nat), (l.flatMap enc).drop (k * size) = (l.drop k).flatMap enc
  | [], k => by simp
  | a :: l, 0 => by simp
  | a :: l, k + 1 => by
    have e : (k + 1) * size = (enc a).length + k * size := by rw [henc, Nat.succ_mul]; omega
    simp only [List.flatMap_cons, List.drop_succ_cons, e, List.drop_length_add_append]
    rw [flatMap_drop_const enc size henc l k]

/-- reading `n` items from a file that holds the encodings of `l` (and nothing else): the first `n` of them -/
theorem freadItems_flatMap {α} (enc : α → List UInt8) (size : Nat) (hs : 0 < size) (henc : ∀ x, (enc x).length = size)
    (l : List α) (n : Nat) :
    freadItems size n (l.flatMap enc) = ((l.take n).flatMap enc, min n l.length, (l.drop n).flatMap enc) := by
  have hlen := flatMap_const_length enc size henc l
  have hdiv : (l.flatMap enc).length / size = l.length := by
    rw [hlen]; exact Nat.mul_div_cancel _ hs
  simp only [freadItems, hdiv]
  rw [flatMap_take_const enc size henc, flatMap_drop_const enc size henc]
  refine Prod.ext ?_ (Prod.ext rfl ?_)
  · simp only
    congr 1
    rw [List.take_eq_take_iff]
    omega
  · simp only
    split
    · rename_i h
      have : l.length ≤ n := by omega
      rw [List.drop_eq_nil_of_le this]; rfl
    · rename_i h
      have : min n l.length = n := by omega
      rw [this]

theorem decodeItems_flatMap {α} (enc : α → List UInt8) (dec : List UInt8 → α) (size : Nat)
    (henc : ∀ x, (enc x).length = size) :
    ∀ (l : List α) (tail : List UInt8), (∀ x ∈ l, dec (enc x) = x) →
      decodeItems size dec l.length (l.flatMap enc ++ tail) = l
  | [], _, _ => rfl
  | a :: l, tail, hdec => by
    simp only [List.length_cons, decodeItems, List.flatMap_cons, List.append_assoc]
    have h1 : (enc a ++ (List.flatMap enc l ++ tail)).take size = enc a := by rw [← henc a, List.take_left']; rfl
    have h2 : (enc a ++ (List.flatMap enc l ++ tail)).drop size = List.flatMap enc l ++ tail := by
      rw [← henc a, List.drop_left']; rfl
    rw [h1, h2, hdec a (by simp), decodeItems_flatMap enc dec size henc l tail (fun x hx => hdec x (by simp [hx]))]

theorem freadItems_one (n : Nat) (bs : List UInt8) (h : n ≤ bs.length) :
    freadItems 1 n bs = (bs.take n, n, bs.drop n) := by
  have hm : min n bs.length = n := by omega
  simp only [freadItems, Nat.div_one, Nat.mul_one, hm, Nat.lt_irrefl, if_false]

end EaselModel.Dsqdata
