import EaselModel.Dsqdata.Format
/-! # The tag line of the stub file: `esl_dsqdata_Open` parses back the tag `esl_dsqdata_Write` printed -/
namespace EaselModel.Dsqdata

theorem byte_cases (p : UInt8 → Bool) (h : ∀ n, n < 256 → p (UInt8.ofNat n) = true) : ∀ b, p b = true := by
  intro b
  have := h b.toNat b.toNat_lt
  rwa [UInt8.ofNat_toNat] at this

theorem digit_facts : ∀ b : UInt8, isDigitC b = true →
    (b != 10) = true ∧ (b != 0) = true ∧ isDelim b = false ∧ isSpaceC b = false ∧ b ≠ 45 ∧ b ≠ 43 := by
  intro b hb
  have := byte_cases (fun b => !isDigitC b || ((b != 10) && (b != 0) && !isDelim b && !isSpaceC b && (b != 45) && (b != 43)))
    (by decide +kernel) b
  simp only [hb, Bool.not_true, Bool.false_or, Bool.and_eq_true, Bool.not_eq_true', bne_iff_ne, ne_eq] at this
  simp only [bne_iff_ne, ne_eq]
  obtain ⟨⟨⟨⟨⟨a, b⟩, c⟩, d⟩, e⟩, f⟩ := this
  exact ⟨a, b, c, d, e, f⟩

theorem digit_ofNat (m : Nat) (h : m < 10) : isDigitC (UInt8.ofNat (48 + m)) = true ∧ (UInt8.ofNat (48 + m)).toNat = 48 + m := by
  have : ∀ m, m < 10 → isDigitC (UInt8.ofNat (48 + m)) = true ∧ (UInt8.ofNat (48 + m)).toNat = 48 + m := by decide +kernel
  exact this m h

theorem decDigits_digits : ∀ f n, ∀ b ∈ decDigits f n, isDigitC b = true
  | 0, _, b, hb => by simp [decDigits] at hb
  | f + 1, n, b, hb => by
    simp only [decDigits] at hb
    split at hb
    · rename_i h
      simp only [List.mem_singleton] at hb
      rw [hb]; exact (digit_ofNat n h).1
    · rcases List.mem_append.mp hb with h | h
      · exact decDigits_digits f _ b h
      · simp only [List.mem_singleton] at h
        rw [h]; exact (digit_ofNat _ (Nat.mod_lt _ (by omega))).1

theorem decDigits_length : ∀ f n, (decDigits f n).length ≤ f
  | 0, _ => by simp [decDigits]
  | f + 1, n => by
    simp only [decDigits]
    split
    · simp
    · have := decDigits_length f (n / 10)
      simp only [List.length_append, List.length_singleton]; omega

theorem decDigits_ne_nil (f n : Nat) : decDigits (f + 1) n ≠ [] := by
  simp only [decDigits]; split <;> simp

theorem parseDec_append (l : List UInt8) (d : UInt8) : parseDec (l ++ [d]) = parseDec l * 10 + (d.toNat - 48) := by
  simp [parseDec, List.foldl_append]

theorem parseDec_decDigits : ∀ f n, n < 10 ^ f → parseDec (decDigits f n) = n
  | 0, n, h => by simp at h; simp [decDigits, parseDec, h]
  | f + 1, n, h => by
    simp only [decDigits]
    split
    · rename_i h10
      simp only [parseDec, List.foldl_cons, List.foldl_nil, (digit_ofNat n h10).2]; omega
    · rw [parseDec_append, parseDec_decDigits f (n / 10) (by rw [Nat.pow_succ] at h; omega),
        (digit_ofNat _ (Nat.mod_lt _ (by omega))).2]
      omega

theorem strtok_token (t rest : List UInt8) (d : UInt8) (hne : t ≠ []) (hnd : ∀ b ∈ t, isDelim b = false)
    (hd : isDelim d = true) : strtok (t ++ d :: rest) = some (t, rest) := by
  obtain ⟨a, t', rfl⟩ := List.exists_cons_of_ne_nil hne
  have ha : isDelim a = false := hnd a (by simp)
  have h1 : ((a :: t') ++ d :: rest).dropWhile isDelim = (a :: t') ++ d :: rest := by
    simp [List.dropWhile_cons, ha]
  have h2 : ((a :: t') ++ d :: rest).takeWhile (fun b => !isDelim b) = a :: t' := by
    rw [List.takeWhile_append_of_pos (by intro b hb; simp [hnd b hb])]
    simp [List.takeWhile_cons, hd]
  have h3 : ((a :: t') ++ d :: rest).dropWhile (fun b => !isDelim b) = d :: rest := by
    rw [List.dropWhile_append_of_pos (by intro b hb; simp [hnd b hb])]
    simp [List.dropWhile_cons, hd]
  simp only [strtok, h1, h2, h3]
  simp

theorem takeWhile_all {α} (p : α → Bool) : ∀ l : List α, (∀ x ∈ l, p x = true) → l.takeWhile p = l
  | [], _ => rfl
  | a :: l, h => by
    rw [List.takeWhile_cons, h a (by simp), if_pos rfl, takeWhile_all p l (fun x hx => h x (by simp [hx]))]

/-- digits only: `esl_str_IsInteger` accepts, `strtoul` returns their value -/
theorem scanInt_digits (D : List UInt8) (hD : ∀ b ∈ D, isDigitC b = true) (hne : D ≠ []) :
    scanInt D = (false, D, []) := by
  obtain ⟨a, D', rfl⟩ := List.exists_cons_of_ne_nil hne
  have fa := digit_facts a (hD a (by simp))
  have h1 : (a :: D').dropWhile isSpaceC = a :: D' := by simp [List.dropWhile_cons, fa.2.2.2.1]
  have h2 : (a :: D').takeWhile isDigitC = a :: D' := takeWhile_all _ _ hD
  simp only [scanInt, h1]
  split
  · rename_i heq; simp only [List.cons.injEq] at heq; exact absurd heq.1 fa.2.2.2.2.1
  · rename_i heq; simp only [List.cons.injEq] at heq; exact absurd heq.1 fa.2.2.2.2.2
  · simp only [h2, List.drop_length]

theorem prefix_facts : ∀ b ∈ stubPrefix, (b != 10) = true ∧ (b != 0) = true := by decide

/-- **the stub's tag line round-trips**: whatever follows it in the stub file -/
theorem parseStub_stubLine1 (tag : Nat) (R : List UInt8) :
    parseStub (stubLine1 tag ++ R) = .ok (tag % 4294967296) := by
  have hlt : tag % 4294967296 < 10 ^ 10 := by have := Nat.mod_lt tag (show 0 < 4294967296 by omega); omega
  have hDd := decDigits_digits 10 (tag % 4294967296)
  have hDne : decDigits 10 (tag % 4294967296) ≠ [] := decDigits_ne_nil 9 _
  have hDlen := decDigits_length 10 (tag % 4294967296)
  have hval := parseDec_decDigits 10 (tag % 4294967296) hlt
  unfold stubLine1
  generalize decDigits 10 (tag % 4294967296) = D at hDd hDne hDlen hval ⊢
  have hshape : stubPrefix ++ (D ++ [10]) ++ R = (stubPrefix ++ D) ++ 10 :: R := by simp
  rw [hshape]
  have hP10 : ∀ b ∈ stubPrefix ++ D, (b != 10) = true := by
    intro b hb
    rcases List.mem_append.mp hb with h | h
    · exact (prefix_facts b h).1
    · exact (digit_facts b (hDd b h)).1
  have hP0 : ∀ b ∈ stubPrefix ++ D ++ [10], (b != 0) = true := by
    intro b hb
    rcases List.mem_append.mp hb with h | h
    · rcases List.mem_append.mp h with h | h
      · exact (prefix_facts b h).2
      · exact (digit_facts b (hDd b h)).2.1
    · simp only [List.mem_singleton] at h; rw [h]; decide
  have hline : fgetsLine 4096 ((stubPrefix ++ D) ++ 10 :: R) = some (stubPrefix ++ D ++ [10]) := by
    have htw : ((stubPrefix ++ D) ++ 10 :: R).takeWhile (· != 10) = stubPrefix ++ D := by
      rw [List.takeWhile_append_of_pos hP10]; simp
    have hne : ((stubPrefix ++ D) ++ 10 :: R).isEmpty = false := by simp [stubPrefix]
    have hl : (stubPrefix ++ D).length < ((stubPrefix ++ D) ++ 10 :: R).length := by simp
    simp only [fgetsLine, hne, htw, hl, if_true, Bool.false_eq_true, if_false]
    rw [List.take_of_length_le]
    simp [stubPrefix]; omega
  have hz : (stubPrefix ++ D ++ [10]).takeWhile (· != 0) = stubPrefix ++ D ++ [10] := takeWhile_all _ _ hP0
  have e : stubPrefix ++ D ++ [10] = [69, 97, 115, 101, 108] ++ 32 :: ([100, 115, 113, 100, 97, 116, 97] ++ 32 ::
      ([118, 49] ++ 32 :: ((120 :: D) ++ 10 :: []))) := by simp [stubPrefix]
  have hxD : ∀ b ∈ (120 :: D), isDelim b = false := by
    intro b hb
    rcases List.mem_cons.mp hb with h | h
    · rw [h]; decide
    · exact (digit_facts b (hDd b h)).2.2.1
  have hsc := scanInt_digits D hDd hDne
  have hint : strIsInteger D = true := by
    simp only [strIsInteger, hsc, List.all_nil, Bool.and_true, Bool.not_eq_true', List.isEmpty_eq_false_iff]
    exact hDne
  have hul : strtoul32 D = tag % 4294967296 := by
    simp only [strtoul32, hsc, hval]
    have : ¬ (tag % 4294967296 ≥ 18446744073709551616) := by omega
    simp only [this, if_false, Bool.false_eq_true, Nat.mod_mod]
  simp only [parseStub, hline, hz]
  rw [e, strtok_token _ _ 32 (by simp) (by decide) (by decide)]
  simp only [bne_self_eq_false, Bool.false_eq_true, if_false]
  rw [strtok_token _ _ 32 (by simp) (by decide) (by decide)]
  simp only [bne_self_eq_false, Bool.false_eq_true, if_false]
  rw [strtok_token _ _ 32 (by simp) (by decide) (by decide)]
  have h49 : strIsInteger [49] = true := by decide
  simp only [List.head?_cons, bne_self_eq_false, Bool.false_eq_true, if_false, List.drop_succ_cons, List.drop_zero, h49,
    Bool.not_true]
  rw [strtok_token _ _ 10 (by simp) hxD (by decide)]
  simp only [List.head?_cons, bne_self_eq_false, Bool.false_eq_true, if_false, List.drop_succ_cons, List.drop_zero, hint,
    Bool.not_true, hul]

end EaselModel.Dsqdata
