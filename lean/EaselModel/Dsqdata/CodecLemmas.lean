import EaselModel.Dsqdata.Codec
/-! # dsqdata packet codec: bit-level, round-trip, packet-count, EOD and chunk lemmas (core Lean only) -/
namespace EaselModel.Dsqdata

theorem or_eq_add (k a b : Nat) (ha : a % 2^k = 0) (hb : b < 2^k) : a ||| b = a + b := by
  have h := Nat.two_pow_add_eq_or_of_lt hb (a / 2^k)
  have e : 2^k * (a / 2^k) = a := by
    have := Nat.div_add_mod a (2^k)
    omega
  rw [e] at h
  exact h.symm

def fsum (w : Nat) : Nat → List UInt8 → Nat
  | _, [] => 0
  | b, c :: cs => c.toNat * 2^b + fsum w (b - w) cs

theorem orFields_toNat (w : Nat) (hw : 0 < w) : ∀ (cs : List UInt8) (v : UInt32) (b : Nat),
    (∀ x ∈ cs, x.toNat < 2^w) → b + w ≤ 32 → w * cs.length ≤ b + w → v.toNat % 2^(b+w) = 0 →
    (orFields w v b cs).toNat = v.toNat + fsum w b cs := by
  intro cs
  induction cs with
  | nil => intro v b _ _ _ _; simp [orFields, fsum]
  | cons c cs ih =>
    intro v b hc hb hl hv
    have hc1 : c.toNat < 2^w := hc c (by simp)
    have hlt : c.toNat * 2^b < 2^(b+w) := by
      rw [Nat.pow_add, Nat.mul_comm]
      exact Nat.mul_lt_mul_of_le_of_lt (Nat.le_refl _) hc1 (Nat.two_pow_pos b)
    have h32 : 2^(b+w) ≤ 2^32 := Nat.pow_le_pow_right (by decide) hb
    have hb32 : b < 32 := by omega
    have hbn : b.toUInt32.toNat % 32 = b := by simp; omega
    have hstep : (v ||| (c.toUInt32 <<< b.toUInt32)).toNat = v.toNat + c.toNat * 2^b := by
      rw [UInt32.toNat_or, UInt32.toNat_shiftLeft, UInt8.toNat_toUInt32, hbn, Nat.shiftLeft_eq,
        Nat.mod_eq_of_lt (by omega)]
      exact or_eq_add (b+w) _ _ hv hlt
    have hvb : v.toNat % 2^b = 0 :=
      Nat.mod_eq_zero_of_dvd (Nat.dvd_trans (Nat.pow_dvd_pow 2 (Nat.le_add_right b w)) (Nat.dvd_of_mod_eq_zero hv))
    show (orFields w (v ||| (c.toUInt32 <<< b.toUInt32)) (b - w) cs).toNat = _
    cases cs with
    | nil => simp [orFields, fsum, hstep]
    | cons c2 cs2 =>
      have hlen : w * (cs2.length + 1 + 1) = w * cs2.length + w + w := by
        rw [Nat.mul_add, Nat.mul_add]; simp
      simp only [List.length_cons] at hl
      have hbw : w ≤ b := by omega
      have hbw2 : b - w + w = b := by omega
      rw [ih _ (b - w) (fun x hx => hc x (by simp [hx])) (by omega)
        (by simp only [List.length_cons]; rw [Nat.mul_add]; simp; omega)
        (by rw [hbw2, hstep, Nat.add_mul_mod_self_right]; exact hvb)]
      rw [hstep]; simp only [fsum]; omega

theorem orFields_append (w : Nat) : ∀ (xs ys : List UInt8) (v : UInt32) (b : Nat),
    orFields w v b (xs ++ ys) = orFields w (orFields w v b xs) (b - w * xs.length) ys := by
  intro xs
  induction xs with
  | nil => intro ys v b; simp [orFields]
  | cons x xs ih =>
    intro ys v b
    simp only [List.cons_append, orFields, ih, List.length_cons]
    rw [Nat.mul_add, Nat.mul_one, Nat.sub_sub, Nat.add_comm]

theorem toNat_lt_of_le (x : UInt8) (n : Nat) (h : x ≤ UInt8.ofNat n) (hn : n < 256) : x.toNat ≤ n := by
  have := UInt8.le_iff_toNat_le.mp h
  simpa [Nat.mod_eq_of_lt hn] using this

/-- the value of a full 5-bit packet -/
theorem full5_toNat (a b c d e f : UInt8) (ha : a ≤ 31) (hb : b ≤ 31) (hc : c ≤ 31) (hd : d ≤ 31)
    (he : e ≤ 31) (hf : f ≤ 31) :
    (orFields 5 BIT5 25 [a, b, c, d, e, f]).toNat =
      2^30 + a.toNat * 2^25 + b.toNat * 2^20 + c.toNat * 2^15 + d.toNat * 2^10 + e.toNat * 2^5 + f.toNat := by
  rw [orFields_toNat 5 (by decide) _ _ _ _ (by decide) (by simp) (by decide)]
  · have : BIT5.toNat = 2^30 := by decide
    simp [fsum, this]; omega
  · intro x hx
    simp only [List.mem_cons, List.not_mem_nil, or_false] at hx
    have := UInt8.le_iff_toNat_le.mp ha
    have := UInt8.le_iff_toNat_le.mp hb
    have := UInt8.le_iff_toNat_le.mp hc
    have := UInt8.le_iff_toNat_le.mp hd
    have := UInt8.le_iff_toNat_le.mp he
    have := UInt8.le_iff_toNat_le.mp hf
    simp at *
    rcases hx with h | h | h | h | h | h <;> subst h <;> omega

theorem eodbit_toNat (v : UInt32) (eod : Bool) (hv : v.toNat < 2^31) :
    (if eod then v ||| EOD else v).toNat = v.toNat + (if eod then 2^31 else 0) := by
  cases eod
  · simp
  · have : EOD.toNat = 2^31 := by decide
    simp only [if_true, UInt32.toNat_or, this]
    rw [Nat.or_comm, or_eq_add 31 _ _ (by simp) hv]; omega

theorem field5_toNat (v : UInt32) (b : UInt32) :
    ((v >>> b) &&& 31).toUInt8.toNat = v.toNat / 2^(b.toNat % 32) % 32 := by
  rw [UInt32.toNat_toUInt8, UInt32.toNat_and, UInt32.toNat_shiftRight, Nat.shiftRight_eq_div_pow]
  have : (31 : UInt32).toNat = 2^5 - 1 := by decide
  rw [this, Nat.and_two_pow_sub_one_eq_mod]; omega

theorem field2_toNat (v : UInt32) (b : UInt32) :
    ((v >>> b) &&& 3).toUInt8.toNat = v.toNat / 2^(b.toNat % 32) % 4 := by
  rw [UInt32.toNat_toUInt8, UInt32.toNat_and, UInt32.toNat_shiftRight, Nat.shiftRight_eq_div_pow]
  have : (3 : UInt32).toNat = 2^2 - 1 := by decide
  rw [this, Nat.and_two_pow_sub_one_eq_mod]; omega

theorem testbit_ne (v m : UInt32) : ((v &&& m) != 0) = decide (v.toNat &&& m.toNat ≠ 0) := by
  rw [← UInt32.toNat_and]
  by_cases h : (v &&& m) = 0
  · rw [h]; decide
  · have h2 : (v &&& m).toNat ≠ 0 := fun e => h (UInt32.toNat_inj.mp (by simpa using e))
    rw [bne_iff_ne.mpr h, decide_eq_true h2]

theorem full5_fields (a b c d e f : UInt8) (eod : Bool) (ha : a ≤ 31) (hb : b ≤ 31) (hc : c ≤ 31)
    (hd : d ≤ 31) (he : e ≤ 31) (hf : f ≤ 31) :
    fields5 (if eod then orFields 5 BIT5 25 [a, b, c, d, e, f] ||| EOD else orFields 5 BIT5 25 [a, b, c, d, e, f])
      = [a, b, c, d, e, f] := by
  have hv := full5_toNat a b c d e f ha hb hc hd he hf
  have ha := UInt8.le_iff_toNat_le.mp ha
  have hb := UInt8.le_iff_toNat_le.mp hb
  have hc := UInt8.le_iff_toNat_le.mp hc
  have hd := UInt8.le_iff_toNat_le.mp hd
  have he := UInt8.le_iff_toNat_le.mp he
  have hf := UInt8.le_iff_toNat_le.mp hf
  simp at ha hb hc hd he hf
  have hE := eodbit_toNat (orFields 5 BIT5 25 [a, b, c, d, e, f]) eod (by omega)
  simp only [fields5, List.map_cons, List.map_nil, List.cons.injEq, and_true]
  refine ⟨?_, ?_, ?_, ?_, ?_, ?_⟩ <;> apply UInt8.toNat_inj.mp <;> rw [field5_toNat, hE, hv] <;>
    cases eod <;> simp <;> omega

theorem and_two_pow_ne_zero (x n : Nat) : decide (x &&& 2^n ≠ 0) = decide (x / 2^n % 2 = 1) := by
  rw [← Nat.testBit_eq_decide_div_mod_eq]
  cases h : x.testBit n
  · have : x &&& 2^n = 0 := by
      apply Nat.eq_of_testBit_eq
      intro i
      rw [Nat.testBit_and, Nat.testBit_two_pow, Nat.zero_testBit]
      by_cases e : n = i
      · subst e; simp [h]
      · simp [e]
    simp [this]
  · have : x &&& 2^n ≠ 0 := by
      intro e
      have := congrArg (fun y => Nat.testBit y n) e
      simp [Nat.testBit_and, h] at this
    simp [this]

theorem eodtest (v : UInt32) : ((v &&& EOD) != 0) = decide (v.toNat / 2^31 % 2 = 1) := by
  rw [testbit_ne, ← and_two_pow_ne_zero]; rfl

theorem bit5test (v : UInt32) : ((v &&& BIT5) != 0) = decide (v.toNat / 2^30 % 2 = 1) := by
  rw [testbit_ne, ← and_two_pow_ne_zero]; rfl

theorem full5_eod (a b c d e f : UInt8) (eod : Bool) (ha : a ≤ 31) (hb : b ≤ 31) (hc : c ≤ 31)
    (hd : d ≤ 31) (he : e ≤ 31) (hf : f ≤ 31) :
    let v := (if eod then orFields 5 BIT5 25 [a, b, c, d, e, f] ||| EOD else orFields 5 BIT5 25 [a, b, c, d, e, f])
    ((v &&& EOD != 0) = eod) ∧ ((v &&& BIT5 != 0) = true) := by
  have hv := full5_toNat a b c d e f ha hb hc hd he hf
  have ha := UInt8.le_iff_toNat_le.mp ha
  have hb := UInt8.le_iff_toNat_le.mp hb
  have hc := UInt8.le_iff_toNat_le.mp hc
  have hd := UInt8.le_iff_toNat_le.mp hd
  have he := UInt8.le_iff_toNat_le.mp he
  have hf := UInt8.le_iff_toNat_le.mp hf
  simp at ha hb hc hd he hf
  have hE := eodbit_toNat (orFields 5 BIT5 25 [a, b, c, d, e, f]) eod (by omega)
  intro v
  show ((v &&& EOD != 0) = eod) ∧ ((v &&& BIT5 != 0) = true)
  rw [eodtest, bit5test, hE, hv]
  cases eod <;> simp <;> omega

theorem packet5_eq (cs : List UInt8) (eod : Bool) :
    packet5 cs eod =
      (if eod then orFields 5 BIT5 25 (cs ++ List.replicate (6 - cs.length) 31) ||| EOD
       else orFields 5 BIT5 25 (cs ++ List.replicate (6 - cs.length) 31)) := by
  simp only [packet5, orFields_append]

theorem list6 {α} (l : List α) (h : l.length = 6) : ∃ a b c d e f, l = [a, b, c, d, e, f] := by
  match l, h with
  | [a, b, c, d, e, f], _ => exact ⟨a, b, c, d, e, f, rfl⟩

theorem pad5_spec (cs : List UInt8) (hl : cs.length ≤ 6) (hc : ∀ x ∈ cs, x ≤ 31) :
    (cs ++ List.replicate (6 - cs.length) (31 : UInt8)).length = 6 ∧
      ∀ x ∈ cs ++ List.replicate (6 - cs.length) (31 : UInt8), x ≤ 31 := by
  refine ⟨by simp; omega, ?_⟩
  intro x hx
  rcases List.mem_append.mp hx with h | h
  · exact hc x h
  · rw [(List.mem_replicate.mp h).2]; decide

theorem fields5_packet5 (cs : List UInt8) (eod : Bool) (hl : cs.length ≤ 6) (hc : ∀ x ∈ cs, x ≤ 31) :
    fields5 (packet5 cs eod) = cs ++ List.replicate (6 - cs.length) 31 := by
  obtain ⟨h6, hle⟩ := pad5_spec cs hl hc
  obtain ⟨a, b, c, d, e, f, hL⟩ := list6 _ h6
  rw [packet5_eq, hL]
  rw [hL] at hle
  exact full5_fields a b c d e f eod (hle a (by simp)) (hle b (by simp)) (hle c (by simp))
    (hle d (by simp)) (hle e (by simp)) (hle f (by simp))

theorem packet5_eod (cs : List UInt8) (eod : Bool) (hl : cs.length ≤ 6) (hc : ∀ x ∈ cs, x ≤ 31) :
    ((packet5 cs eod &&& EOD != 0) = eod) ∧ ((packet5 cs eod &&& BIT5 != 0) = true) := by
  obtain ⟨h6, hle⟩ := pad5_spec cs hl hc
  obtain ⟨a, b, c, d, e, f, hL⟩ := list6 _ h6
  rw [packet5_eq, hL]
  rw [hL] at hle
  exact full5_eod a b c d e f eod (hle a (by simp)) (hle b (by simp)) (hle c (by simp))
    (hle d (by simp)) (hle e (by simp)) (hle f (by simp))

theorem list15 {α} (l : List α) (h : l.length = 15) :
    ∃ c0 c1 c2 c3 c4 c5 c6 c7 c8 c9 c10 c11 c12 c13 c14, l = [c0, c1, c2, c3, c4, c5, c6, c7, c8, c9, c10, c11, c12, c13, c14] := by
  match l, h with
  | [c0, c1, c2, c3, c4, c5, c6, c7, c8, c9, c10, c11, c12, c13, c14], _ => exact ⟨c0, c1, c2, c3, c4, c5, c6, c7, c8, c9, c10, c11, c12, c13, c14, rfl⟩

/-- the value of a full 2-bit packet -/
theorem full2_toNat (c0 c1 c2 c3 c4 c5 c6 c7 c8 c9 c10 c11 c12 c13 c14 : UInt8) (h0 : c0 ≤ 3) (h1 : c1 ≤ 3) (h2 : c2 ≤ 3) (h3 : c3 ≤ 3) (h4 : c4 ≤ 3) (h5 : c5 ≤ 3) (h6 : c6 ≤ 3) (h7 : c7 ≤ 3) (h8 : c8 ≤ 3) (h9 : c9 ≤ 3) (h10 : c10 ≤ 3) (h11 : c11 ≤ 3) (h12 : c12 ≤ 3) (h13 : c13 ≤ 3) (h14 : c14 ≤ 3) :
    (orFields 2 0 28 [c0, c1, c2, c3, c4, c5, c6, c7, c8, c9, c10, c11, c12, c13, c14]).toNat =
      c0.toNat * 2^28 + c1.toNat * 2^26 + c2.toNat * 2^24 + c3.toNat * 2^22 + c4.toNat * 2^20 + c5.toNat * 2^18 + c6.toNat * 2^16 + c7.toNat * 2^14 + c8.toNat * 2^12 + c9.toNat * 2^10 + c10.toNat * 2^8 + c11.toNat * 2^6 + c12.toNat * 2^4 + c13.toNat * 2^2 + c14.toNat * 2^0 := by
  rw [orFields_toNat 2 (by decide) _ _ _ _ (by decide) (by simp) (by decide)]
  · simp [fsum]; omega
  · intro x hx
    simp only [List.mem_cons, List.not_mem_nil, or_false] at hx
    have h0 := UInt8.le_iff_toNat_le.mp h0
    have h1 := UInt8.le_iff_toNat_le.mp h1
    have h2 := UInt8.le_iff_toNat_le.mp h2
    have h3 := UInt8.le_iff_toNat_le.mp h3
    have h4 := UInt8.le_iff_toNat_le.mp h4
    have h5 := UInt8.le_iff_toNat_le.mp h5
    have h6 := UInt8.le_iff_toNat_le.mp h6
    have h7 := UInt8.le_iff_toNat_le.mp h7
    have h8 := UInt8.le_iff_toNat_le.mp h8
    have h9 := UInt8.le_iff_toNat_le.mp h9
    have h10 := UInt8.le_iff_toNat_le.mp h10
    have h11 := UInt8.le_iff_toNat_le.mp h11
    have h12 := UInt8.le_iff_toNat_le.mp h12
    have h13 := UInt8.le_iff_toNat_le.mp h13
    have h14 := UInt8.le_iff_toNat_le.mp h14
    simp at h0 h1 h2 h3 h4 h5 h6 h7 h8 h9 h10 h11 h12 h13 h14
    rcases hx with h | h | h | h | h | h | h | h | h | h | h | h | h | h | h <;> subst h <;> omega

theorem full2_fields (c0 c1 c2 c3 c4 c5 c6 c7 c8 c9 c10 c11 c12 c13 c14 : UInt8) (eod : Bool) (h0 : c0 ≤ 3) (h1 : c1 ≤ 3) (h2 : c2 ≤ 3) (h3 : c3 ≤ 3) (h4 : c4 ≤ 3) (h5 : c5 ≤ 3) (h6 : c6 ≤ 3) (h7 : c7 ≤ 3) (h8 : c8 ≤ 3) (h9 : c9 ≤ 3) (h10 : c10 ≤ 3) (h11 : c11 ≤ 3) (h12 : c12 ≤ 3) (h13 : c13 ≤ 3) (h14 : c14 ≤ 3) :
    fields2 (if eod then orFields 2 0 28 [c0, c1, c2, c3, c4, c5, c6, c7, c8, c9, c10, c11, c12, c13, c14] ||| EOD else orFields 2 0 28 [c0, c1, c2, c3, c4, c5, c6, c7, c8, c9, c10, c11, c12, c13, c14])
      = [c0, c1, c2, c3, c4, c5, c6, c7, c8, c9, c10, c11, c12, c13, c14] := by
  have hv := full2_toNat c0 c1 c2 c3 c4 c5 c6 c7 c8 c9 c10 c11 c12 c13 c14 h0 h1 h2 h3 h4 h5 h6 h7 h8 h9 h10 h11 h12 h13 h14
  have h0 := UInt8.le_iff_toNat_le.mp h0
  have h1 := UInt8.le_iff_toNat_le.mp h1
  have h2 := UInt8.le_iff_toNat_le.mp h2
  have h3 := UInt8.le_iff_toNat_le.mp h3
  have h4 := UInt8.le_iff_toNat_le.mp h4
  have h5 := UInt8.le_iff_toNat_le.mp h5
  have h6 := UInt8.le_iff_toNat_le.mp h6
  have h7 := UInt8.le_iff_toNat_le.mp h7
  have h8 := UInt8.le_iff_toNat_le.mp h8
  have h9 := UInt8.le_iff_toNat_le.mp h9
  have h10 := UInt8.le_iff_toNat_le.mp h10
  have h11 := UInt8.le_iff_toNat_le.mp h11
  have h12 := UInt8.le_iff_toNat_le.mp h12
  have h13 := UInt8.le_iff_toNat_le.mp h13
  have h14 := UInt8.le_iff_toNat_le.mp h14
  simp at h0 h1 h2 h3 h4 h5 h6 h7 h8 h9 h10 h11 h12 h13 h14
  have hE := eodbit_toNat (orFields 2 0 28 [c0, c1, c2, c3, c4, c5, c6, c7, c8, c9, c10, c11, c12, c13, c14]) eod (by omega)
  simp only [fields2, List.map_cons, List.map_nil, List.cons.injEq, and_true]
  refine ⟨?_, ?_, ?_, ?_, ?_, ?_, ?_, ?_, ?_, ?_, ?_, ?_, ?_, ?_, ?_⟩ <;> apply UInt8.toNat_inj.mp <;> rw [field2_toNat, hE, hv] <;>
    cases eod <;> simp <;> omega

theorem full2_eod (c0 c1 c2 c3 c4 c5 c6 c7 c8 c9 c10 c11 c12 c13 c14 : UInt8) (eod : Bool) (h0 : c0 ≤ 3) (h1 : c1 ≤ 3) (h2 : c2 ≤ 3) (h3 : c3 ≤ 3) (h4 : c4 ≤ 3) (h5 : c5 ≤ 3) (h6 : c6 ≤ 3) (h7 : c7 ≤ 3) (h8 : c8 ≤ 3) (h9 : c9 ≤ 3) (h10 : c10 ≤ 3) (h11 : c11 ≤ 3) (h12 : c12 ≤ 3) (h13 : c13 ≤ 3) (h14 : c14 ≤ 3) :
    let v := (if eod then orFields 2 0 28 [c0, c1, c2, c3, c4, c5, c6, c7, c8, c9, c10, c11, c12, c13, c14] ||| EOD else orFields 2 0 28 [c0, c1, c2, c3, c4, c5, c6, c7, c8, c9, c10, c11, c12, c13, c14])
    ((v &&& EOD != 0) = eod) ∧ ((v &&& BIT5 != 0) = false) := by
  have hv := full2_toNat c0 c1 c2 c3 c4 c5 c6 c7 c8 c9 c10 c11 c12 c13 c14 h0 h1 h2 h3 h4 h5 h6 h7 h8 h9 h10 h11 h12 h13 h14
  have h0 := UInt8.le_iff_toNat_le.mp h0
  have h1 := UInt8.le_iff_toNat_le.mp h1
  have h2 := UInt8.le_iff_toNat_le.mp h2
  have h3 := UInt8.le_iff_toNat_le.mp h3
  have h4 := UInt8.le_iff_toNat_le.mp h4
  have h5 := UInt8.le_iff_toNat_le.mp h5
  have h6 := UInt8.le_iff_toNat_le.mp h6
  have h7 := UInt8.le_iff_toNat_le.mp h7
  have h8 := UInt8.le_iff_toNat_le.mp h8
  have h9 := UInt8.le_iff_toNat_le.mp h9
  have h10 := UInt8.le_iff_toNat_le.mp h10
  have h11 := UInt8.le_iff_toNat_le.mp h11
  have h12 := UInt8.le_iff_toNat_le.mp h12
  have h13 := UInt8.le_iff_toNat_le.mp h13
  have h14 := UInt8.le_iff_toNat_le.mp h14
  simp at h0 h1 h2 h3 h4 h5 h6 h7 h8 h9 h10 h11 h12 h13 h14
  have hE := eodbit_toNat (orFields 2 0 28 [c0, c1, c2, c3, c4, c5, c6, c7, c8, c9, c10, c11, c12, c13, c14]) eod (by omega)
  intro v
  show ((v &&& EOD != 0) = eod) ∧ ((v &&& BIT5 != 0) = false)
  rw [eodtest, bit5test, hE, hv]
  cases eod <;> simp <;> omega

theorem fields2_packet2 (cs : List UInt8) (eod : Bool) (hl : cs.length = 15) (hc : ∀ x ∈ cs, x ≤ 3) :
    fields2 (packet2 cs eod) = cs := by
  obtain ⟨c0, c1, c2, c3, c4, c5, c6, c7, c8, c9, c10, c11, c12, c13, c14, hL⟩ := list15 _ hl
  subst hL
  exact full2_fields c0 c1 c2 c3 c4 c5 c6 c7 c8 c9 c10 c11 c12 c13 c14 eod (hc c0 (by simp)) (hc c1 (by simp)) (hc c2 (by simp)) (hc c3 (by simp)) (hc c4 (by simp)) (hc c5 (by simp)) (hc c6 (by simp)) (hc c7 (by simp)) (hc c8 (by simp)) (hc c9 (by simp)) (hc c10 (by simp)) (hc c11 (by simp)) (hc c12 (by simp)) (hc c13 (by simp)) (hc c14 (by simp))

theorem packet2_eod (cs : List UInt8) (eod : Bool) (hl : cs.length = 15) (hc : ∀ x ∈ cs, x ≤ 3) :
    ((packet2 cs eod &&& EOD != 0) = eod) ∧ ((packet2 cs eod &&& BIT5 != 0) = false) := by
  obtain ⟨c0, c1, c2, c3, c4, c5, c6, c7, c8, c9, c10, c11, c12, c13, c14, hL⟩ := list15 _ hl
  subst hL
  exact full2_eod c0 c1 c2 c3 c4 c5 c6 c7 c8 c9 c10 c11 c12 c13 c14 eod (hc c0 (by simp)) (hc c1 (by simp)) (hc c2 (by simp)) (hc c3 (by simp)) (hc c4 (by simp)) (hc c5 (by simp)) (hc c6 (by simp)) (hc c7 (by simp)) (hc c8 (by simp)) (hc c9 (by simp)) (hc c10 (by simp)) (hc c11 (by simp)) (hc c12 (by simp)) (hc c13 (by simp)) (hc c14 (by simp))

/-! ## sequence level -/

theorem le31_of_le30 {cs : List UInt8} (hc : ∀ x ∈ cs, x ≤ 30) : ∀ x ∈ cs, x ≤ 31 := by
  intro x hx
  have := UInt8.le_iff_toNat_le.mp (hc x hx)
  apply UInt8.le_iff_toNat_le.mpr
  simp at *; omega
theorem takeWhile_pad (cs : List UInt8) (k : Nat) (hc : ∀ x ∈ cs, x ≤ 30) :
    (cs ++ List.replicate k (31 : UInt8)).takeWhile (fun c => c != 31) = cs := by
  induction cs with
  | nil =>
    cases k with
    | zero => rfl
    | succ k => simp [List.replicate_succ]
  | cons c cs ih =>
    have h1 : c ≤ 30 := hc c (by simp)
    have h2 : (c != 31) = true := by
      rw [bne_iff_ne]; intro e; subst e; revert h1; decide
    simp only [List.cons_append, List.takeWhile_cons, h2, if_true]
    rw [ih (fun x hx => hc x (by simp [hx]))]
theorem partial5_packet5 (cs : List UInt8) (eod : Bool) (hl : cs.length ≤ 6) (hc : ∀ x ∈ cs, x ≤ 30) :
    partial5 (packet5 cs eod) = cs := by
  rw [partial5, fields5_packet5 cs eod hl (le31_of_le30 hc), takeWhile_pad cs _ hc]

/-- the prefix invariant carried by the `d` cache of `dsqdata_pack2` -/
def Inv (rest : List UInt8) (k : Option Nat) : Prop := ∀ j, k = some j → ∀ x ∈ rest.take j, x ≤ 3

theorem mem_take_findIdx (l : List UInt8) : ∀ x ∈ l.take (l.findIdx (fun x => x > 3)), x ≤ 3 := by
  induction l with
  | nil => intro x hx; simp at hx
  | cons a l ih =>
    intro x hx
    rw [List.findIdx_cons] at hx
    by_cases ha : a > 3
    · simp [ha] at hx
    · simp only [ha, decide_false, cond_false, List.take_succ_cons, List.mem_cons] at hx
      rcases hx with h | h
      · subst h
        apply UInt8.le_iff_toNat_le.mpr
        have := fun h => ha (UInt8.lt_iff_toNat_lt.mpr h)
        simp at *; omega
      · exact ih x h

theorem mem_take_drop {α} (l : List α) (i j : Nat) (x : α) (h : x ∈ (l.drop i).take j) : x ∈ l.take (i + j) := by
  rw [List.take_drop] at h
  exact List.mem_of_mem_drop h

theorem mem_take_le {α} (l : List α) (i j : Nat) (hij : i ≤ j) (x : α) (h : x ∈ l.take i) : x ∈ l.take j := by
  have : l.take i = (l.take j).take i := by rw [List.take_take, Nat.min_eq_left hij]
  rw [this] at h
  exact List.mem_of_mem_take h

theorem unpack2_step (p : UInt32) (front rest' : List UInt8) (L tail : List UInt32)
    (hE : (p &&& EOD != 0) = rest'.isEmpty)
    (hfull : rest' ≠ [] → (if p &&& BIT5 != 0 then fields5 p else fields2 p) = front)
    (hpart : rest' = [] → (if p &&& BIT5 != 0 then partial5 p else fields2 p) = front)
    (hL : rest' = [] → L = [])
    (ih : rest' ≠ [] → unpack2 (L ++ tail) = some (rest', L.length)) :
    unpack2 (p :: L ++ tail) = some (front ++ rest', (p :: L).length) := by
  by_cases he : rest' = []
  · have := hL he
    subst this
    rw [he] at hE
    simp only [List.isEmpty_nil] at hE
    simp only [List.cons_append, unpack2, hE, if_true, hpart he, he, List.append_nil, List.length_cons,
      List.length_nil]
  · have hE' : rest'.isEmpty = false := by simpa using he
    rw [hE'] at hE
    simp only [List.cons_append, unpack2, hE, ih he, hfull he, List.length_cons]
    simp

theorem pack2Loop_nil (k : Option Nat) : pack2Loop [] k = [] := by rw [pack2Loop]

theorem unpack2_pack2Loop (tail : List UInt32) (rest : List UInt8) (k : Option Nat) (hne : rest ≠ [])
    (hd : ∀ x ∈ rest, x ≤ 30) (hk : Inv rest k) :
    unpack2 (pack2Loop rest k ++ tail) = some (rest, (pack2Loop rest k).length) := by
  fun_induction pack2Loop rest k with
  | case1 => exact absurd rfl hne
  | case2 k c cs k' h ih =>
    have hk' : ∀ x ∈ (c :: cs).take k', x ≤ 3 := by
      cases k with
      | some j => exact hk j rfl
      | none => exact mem_take_findIdx (c :: cs)
    have h15 : ∀ x ∈ (c :: cs).take 15, x ≤ 3 := fun x hx => hk' x (mem_take_le _ 15 k' (by omega) x hx)
    have hl : ((c :: cs).take 15).length = 15 := by rw [List.length_take]; omega
    have hP := packet2_eod _ ((c :: cs).drop 15).isEmpty hl h15
    have hF := fields2_packet2 _ ((c :: cs).drop 15).isEmpty hl h15
    have := unpack2_step (packet2 (List.take 15 (c :: cs)) (List.drop 15 (c :: cs)).isEmpty)
      ((c :: cs).take 15) ((c :: cs).drop 15) (pack2Loop (List.drop 15 (c :: cs)) (some (k' - 15))) tail
      hP.1 (fun _ => by rw [hP.2]; exact hF) (fun _ => by rw [hP.2]; exact hF)
      (fun e => by rw [e, pack2Loop_nil])
      (fun e => ih e (fun x hx => hd x (List.mem_of_mem_drop hx)) (by
        intro j hj x hx
        cases hj
        apply hk' x
        have := mem_take_drop _ _ _ _ hx
        have e : 15 + (k' - 15) = k' := by omega
        rwa [e] at this))
    rw [List.take_append_drop] at this
    exact this
  | case3 k c cs k' h m ih =>
    have hk' : ∀ x ∈ (c :: cs).take k', x ≤ 3 := by
      cases k with
      | some j => exact hk j rfl
      | none => exact mem_take_findIdx (c :: cs)
    have hl : ((c :: cs).take 6).length ≤ 6 := by rw [List.length_take]; omega
    have ht : ∀ x ∈ (c :: cs).take 6, x ≤ 30 := fun x hx => hd x (List.mem_of_mem_take hx)
    have hP := packet5_eod _ ((c :: cs).drop 6).isEmpty hl (le31_of_le30 ht)
    have hF := fields5_packet5 _ ((c :: cs).drop 6).isEmpty hl (le31_of_le30 ht)
    have hp := partial5_packet5 _ ((c :: cs).drop 6).isEmpty hl ht
    have := unpack2_step (packet5 (List.take 6 (c :: cs)) (List.drop 6 (c :: cs)).isEmpty)
      ((c :: cs).take 6) ((c :: cs).drop 6)
      (pack2Loop (List.drop 6 (c :: cs)) (if k' ≥ m then some (k' - m) else none)) tail
      hP.1 (fun e => by
        have hlen : 6 ≤ (c :: cs).length := by
          apply Nat.le_of_not_lt; intro h
          exact e (List.drop_eq_nil_of_le (Nat.le_of_lt h))
        have hk : 6 - (List.take 6 (c :: cs)).length = 0 := by rw [List.length_take]; omega
        rw [hP.2, if_pos rfl, hF, hk, List.replicate_zero, List.append_nil])
      (fun _ => by rw [hP.2, if_pos rfl]; exact hp)
      (fun e => by rw [e, pack2Loop_nil])
      (fun e => by
        have hlen : 6 ≤ (c :: cs).length := by
          apply Nat.le_of_not_lt; intro h
          exact e (List.drop_eq_nil_of_le (Nat.le_of_lt h))
        have hm : m = 6 := Nat.min_eq_left hlen
        refine ih e (fun x hx => hd x (List.mem_of_mem_drop hx)) ?_
        intro j hj x hx
        by_cases hge : k' ≥ m
        · simp only [hge, dite_true, Option.some.injEq] at hj
          subst hj
          apply hk' x
          have := mem_take_drop _ _ _ _ hx
          have e : 6 + (k' - m) = k' := by omega
          rwa [e] at this
        · simp [hge] at hj)
    rw [List.take_append_drop] at this
    exact this

theorem pack2Loop_cons_ne (c : UInt8) (cs : List UInt8) (k : Option Nat) :
    (pack2Loop (c :: cs) k).isEmpty = false := by
  rw [pack2Loop.eq_def]; simp only []; split <;> split <;> rfl

theorem pack2_nil : pack2 [] = [0xFFFFFFFF] := by
  simp [pack2, pack2Loop]

theorem pack2_cons (c : UInt8) (cs : List UInt8) : pack2 (c :: cs) = pack2Loop (c :: cs) none := by
  simp only [pack2, pack2Loop_cons_ne]; rfl

theorem unpack2_empty (tail : List UInt32) : unpack2 (0xFFFFFFFF :: tail) = some ([], 1) := by
  have h1 : ((0xFFFFFFFF : UInt32) &&& EOD != 0) = true := by decide
  have h3 : ((0xFFFFFFFF : UInt32) &&& BIT5 != 0) = true := by decide
  have h2 : partial5 0xFFFFFFFF = [] := by decide
  simp only [unpack2, h1, h3, if_true, h2]

theorem unpack2_pack2 (d : List UInt8) (hd : ∀ x ∈ d, x ≤ 30) (tail : List UInt32) :
    unpack2 (pack2 d ++ tail) = some (d, (pack2 d).length) := by
  cases d with
  | nil => rw [pack2_nil]; exact unpack2_empty tail
  | cons c cs =>
    rw [pack2_cons]
    exact unpack2_pack2Loop tail _ none (by simp) hd (fun j hj => by cases hj)

theorem unpack5_empty (tail : List UInt32) : unpack5 (0xFFFFFFFF :: tail) = some ([], 1) := by
  have h1 : ((0xFFFFFFFF : UInt32) &&& EOD != 0) = true := by decide
  have h2 : partial5 0xFFFFFFFF = [] := by decide
  simp only [unpack5, h1, if_true, h2]

theorem unpack5_pack5Loop (tail : List UInt32) (rest : List UInt8) (hne : rest ≠ []) (hd : ∀ x ∈ rest, x ≤ 30) :
    unpack5 (pack5Loop rest ++ tail) = some (rest, (pack5Loop rest).length) := by
  fun_induction pack5Loop rest with
  | case1 => exact absurd rfl hne
  | case2 c cs ih =>
    have hl : ((c :: cs).take 6).length ≤ 6 := by simp [List.length_take]; omega
    have ht : ∀ x ∈ (c :: cs).take 6, x ≤ 30 := fun x hx => hd x (List.mem_of_mem_take hx)
    have hE := (packet5_eod _ ((c :: cs).drop 6).isEmpty hl (le31_of_le30 ht)).1
    have hp := partial5_packet5 _ ((c :: cs).drop 6).isEmpty hl ht
    have hf := fields5_packet5 _ ((c :: cs).drop 6).isEmpty hl (le31_of_le30 ht)
    by_cases he : (List.drop 6 (c :: cs)) = []
    · rw [he] at hE hp ⊢
      have e0 : pack5Loop [] = [] := by rw [pack5Loop]
      have e1 : List.take 6 (c :: cs) = c :: cs := by
        have := List.take_append_drop 6 (c :: cs)
        rw [he, List.append_nil] at this; exact this
      rw [e0, e1]
      rw [e1] at hE hp
      simp only [List.isEmpty_nil] at hE hp ⊢
      simp only [List.cons_append, List.nil_append, unpack5, hE, if_true, hp,
        List.length_cons, List.length_nil]
    · have hE' : (List.drop 6 (c :: cs)).isEmpty = false := by simpa using he
      rw [hE'] at hE hf
      have hlen : 6 ≤ (c :: cs).length := by
        apply Nat.le_of_not_lt; intro h
        exact he (List.drop_eq_nil_of_le (Nat.le_of_lt h))
      have hk : 6 - (List.take 6 (c :: cs)).length = 0 := by rw [List.length_take]; omega
      rw [hk, List.replicate_zero, List.append_nil] at hf
      have ih' := ih he (fun x hx => hd x (List.mem_of_mem_drop hx))
      rw [hE']
      simp only [List.cons_append, unpack5, hE, ih', hf, List.take_append_drop, List.length_cons]
      simp

theorem pack5Loop_cons_ne (c : UInt8) (cs : List UInt8) : (pack5Loop (c :: cs)).isEmpty = false := by
  rw [pack5Loop]; rfl

theorem pack5_nil : pack5 [] = [0xFFFFFFFF] := by
  simp [pack5, pack5Loop]

theorem pack5_cons (c : UInt8) (cs : List UInt8) : pack5 (c :: cs) = pack5Loop (c :: cs) := by
  simp only [pack5, pack5Loop_cons_ne]; rfl

theorem unpack5_pack5 (d : List UInt8) (hd : ∀ x ∈ d, x ≤ 30) (tail : List UInt32) :
    unpack5 (pack5 d ++ tail) = some (d, (pack5 d).length) := by
  cases d with
  | nil => rw [pack5_nil]; exact unpack5_empty tail
  | cons c cs => rw [pack5_cons]; exact unpack5_pack5Loop tail _ (by simp) hd

/-! ## chunk level -/


theorem pack5_ne_nil (d : List UInt8) : pack5 d ≠ [] := by
  cases d with
  | nil => rw [pack5_nil]; simp
  | cons c cs =>
    rw [pack5_cons]; intro e
    have := pack5Loop_cons_ne c cs
    rw [e] at this; simp at this

theorem pack2_ne_nil (d : List UInt8) : pack2 d ≠ [] := by
  cases d with
  | nil => rw [pack2_nil]; simp
  | cons c cs =>
    rw [pack2_cons]; intro e
    have := pack2Loop_cons_ne c cs none
    rw [e] at this; simp at this

theorem unpackChunkLoop_flatMap (m : Bool) (pack : List UInt8 → List UInt32) (hne : ∀ d, pack d ≠ [])
    (P : List UInt8 → Prop)
    (hrt : ∀ d, P d → ∀ tail, (if m then unpack5 (pack d ++ tail) else unpack2 (pack d ++ tail))
      = some (d, (pack d).length)) :
    ∀ (ds : List (List UInt8)) (fuel : Nat), (∀ d ∈ ds, P d) → ds.length ≤ fuel →
      unpackChunkLoop m fuel (ds.flatMap pack) = some ds := by
  intro ds
  induction ds with
  | nil =>
    intro fuel _ _
    cases fuel <;> simp [unpackChunkLoop]
  | cons d ds ih =>
    intro fuel hP hf
    cases fuel with
    | zero => simp at hf
    | succ f =>
      have hne' : (pack d ++ List.flatMap pack ds).isEmpty = false := by
        have := hne d
        cases h : pack d with
        | nil => exact absurd h this
        | cons a l => rfl
      simp only [List.flatMap_cons, unpackChunkLoop, hne']
      rw [hrt d (hP d (by simp))]
      simp only [List.drop_left]
      rw [ih f (fun d' hd' => hP d' (by simp [hd'])) (by simpa using hf)]
      simp

theorem length_le_flatMap (pack : List UInt8 → List UInt32) (hne : ∀ d, pack d ≠ []) (ds : List (List UInt8)) :
    ds.length ≤ (ds.flatMap pack).length := by
  induction ds with
  | nil => simp
  | cons d ds ih =>
    have : 1 ≤ (pack d).length := by
      cases h : pack d with
      | nil => exact absurd h (hne d)
      | cons a l => simp
    simp only [List.flatMap_cons, List.length_append, List.length_cons]; omega

theorem unpackChunk_pack5 (ds : List (List UInt8)) (hd : ∀ d ∈ ds, ∀ x ∈ d, x ≤ 30) :
    unpackChunk true (ds.flatMap pack5) = some ds :=
  unpackChunkLoop_flatMap true pack5 pack5_ne_nil (fun d => ∀ x ∈ d, x ≤ 30)
    (fun d h tail => unpack5_pack5 d h tail) ds _ hd (length_le_flatMap pack5 pack5_ne_nil ds)

theorem unpackChunk_pack2 (ds : List (List UInt8)) (hd : ∀ d ∈ ds, ∀ x ∈ d, x ≤ 30) :
    unpackChunk false (ds.flatMap pack2) = some ds :=
  unpackChunkLoop_flatMap false pack2 pack2_ne_nil (fun d => ∀ x ∈ d, x ≤ 30)
    (fun d h tail => unpack2_pack2 d h tail) ds _ hd (length_le_flatMap pack2 pack2_ne_nil ds)

/-! ## packet counts -/


theorem pack5Loop_length (rest : List UInt8) : (pack5Loop rest).length = (rest.length + 5) / 6 := by
  fun_induction pack5Loop rest with
  | case1 => rfl
  | case2 c cs ih =>
    simp only [List.length_cons, ih, List.length_drop]; omega

theorem pack5_length (d : List UInt8) : (pack5 d).length = max 1 ((d.length + 5) / 6) := by
  cases d with
  | nil => rw [pack5_nil]; rfl
  | cons c cs =>
    rw [pack5_cons, pack5Loop_length]; simp only [List.length_cons]; omega

theorem pack2Loop_length_le (rest : List UInt8) (k : Option Nat) :
    (pack2Loop rest k).length ≤ (rest.length + 5) / 6 := by
  fun_induction pack2Loop rest k with
  | case1 => simp
  | case2 k c cs k' h ih =>
    simp only [List.length_cons, List.length_drop] at h ih ⊢; omega
  | case3 k c cs k' h m ih =>
    simp only [List.length_cons, List.length_drop, dite_eq_ite] at ih ⊢; omega

theorem pack2_length_le (d : List UInt8) :
    1 ≤ (pack2 d).length ∧ (pack2 d).length ≤ max 1 ((d.length + 5) / 6) := by
  cases d with
  | nil => rw [pack2_nil]; simp
  | cons c cs =>
    rw [pack2_cons]
    have h1 := pack2Loop_length_le (c :: cs) none
    have h2 := pack2Loop_cons_ne c cs none
    cases h : pack2Loop (c :: cs) none with
    | nil => rw [h] at h2; simp at h2
    | cons a l =>
      rw [h] at h1
      simp only [List.length_cons] at h1 ⊢; omega

/-! ## EOD bit exactly on the last packet -/


theorem eod_last_cons (p : UInt32) (L : List UInt32) (hp : (p &&& EOD != 0) = L.isEmpty)
    (ih : ∀ i (hi : i < L.length), (L[i] &&& EOD != 0) = decide (i + 1 = L.length)) :
    ∀ i (hi : i < (p :: L).length), ((p :: L)[i] &&& EOD != 0) = decide (i + 1 = (p :: L).length) := by
  intro i hi
  cases i with
  | zero =>
    simp only [List.getElem_cons_zero, hp, List.length_cons]
    cases L <;> simp
  | succ j =>
    simp only [List.getElem_cons_succ, List.length_cons]
    rw [ih j (by simpa using hi)]
    simp

theorem pack5Loop_isEmpty (rest : List UInt8) : (pack5Loop rest).isEmpty = rest.isEmpty := by
  cases rest with
  | nil => rw [pack5Loop]; rfl
  | cons c cs => rw [pack5Loop_cons_ne]; rfl

theorem pack2Loop_isEmpty (rest : List UInt8) (k : Option Nat) : (pack2Loop rest k).isEmpty = rest.isEmpty := by
  cases rest with
  | nil => rw [pack2Loop_nil]; rfl
  | cons c cs => rw [pack2Loop_cons_ne]; rfl

theorem pack5Loop_eod_last (rest : List UInt8) (hd : ∀ x ∈ rest, x ≤ 30) :
    ∀ i (hi : i < (pack5Loop rest).length),
      ((pack5Loop rest)[i] &&& EOD != 0) = decide (i + 1 = (pack5Loop rest).length) := by
  fun_induction pack5Loop rest with
  | case1 => intro i hi; simp at hi
  | case2 c cs ih =>
    have hl : ((c :: cs).take 6).length ≤ 6 := by rw [List.length_take]; omega
    have ht : ∀ x ∈ (c :: cs).take 6, x ≤ 30 := fun x hx => hd x (List.mem_of_mem_take hx)
    have hE := (packet5_eod _ ((c :: cs).drop 6).isEmpty hl (le31_of_le30 ht)).1
    exact eod_last_cons _ _ (by rw [hE, pack5Loop_isEmpty])
      (ih (fun x hx => hd x (List.mem_of_mem_drop hx)))

theorem eod_last_single : ∀ i (hi : i < [(0xFFFFFFFF : UInt32)].length),
    (([(0xFFFFFFFF : UInt32)][i] &&& EOD) != 0) = decide (i + 1 = [(0xFFFFFFFF : UInt32)].length)
  | 0, _ => by
    show (((0xFFFFFFFF : UInt32) &&& EOD) != 0) = decide (0 + 1 = 1)
    decide

theorem pack5_eod_last (d : List UInt8) (hd : ∀ x ∈ d, x ≤ 30) (i : Nat) (hi : i < (pack5 d).length) :
    (((pack5 d)[i] &&& EOD) != 0) = decide (i + 1 = (pack5 d).length) := by
  cases d with
  | nil =>
    revert hi; rw [pack5_nil]; exact eod_last_single i
  | cons c cs =>
    simp only [pack5_cons] at hi ⊢
    exact pack5Loop_eod_last _ hd i hi

theorem pack2Loop_eod_last (rest : List UInt8) (k : Option Nat) (hd : ∀ x ∈ rest, x ≤ 30) (hk : Inv rest k) :
    ∀ i (hi : i < (pack2Loop rest k).length),
      ((pack2Loop rest k)[i] &&& EOD != 0) = decide (i + 1 = (pack2Loop rest k).length) := by
  fun_induction pack2Loop rest k with
  | case1 => intro i hi; simp at hi
  | case2 k c cs k' h ih =>
    have hk' : ∀ x ∈ (c :: cs).take k', x ≤ 3 := by
      cases k with
      | some j => exact hk j rfl
      | none => exact mem_take_findIdx (c :: cs)
    have h15 : ∀ x ∈ (c :: cs).take 15, x ≤ 3 := fun x hx => hk' x (mem_take_le _ 15 k' (by omega) x hx)
    have hl : ((c :: cs).take 15).length = 15 := by rw [List.length_take]; omega
    have hP := packet2_eod _ ((c :: cs).drop 15).isEmpty hl h15
    exact eod_last_cons _ _ (by rw [hP.1, pack2Loop_isEmpty])
      (ih (fun x hx => hd x (List.mem_of_mem_drop hx)) (by
        intro j hj x hx
        cases hj
        apply hk' x
        have := mem_take_drop _ _ _ _ hx
        have e : 15 + (k' - 15) = k' := by omega
        rwa [e] at this))
  | case3 k c cs k' h m ih =>
    have hk' : ∀ x ∈ (c :: cs).take k', x ≤ 3 := by
      cases k with
      | some j => exact hk j rfl
      | none => exact mem_take_findIdx (c :: cs)
    have hl : ((c :: cs).take 6).length ≤ 6 := by rw [List.length_take]; omega
    have ht : ∀ x ∈ (c :: cs).take 6, x ≤ 30 := fun x hx => hd x (List.mem_of_mem_take hx)
    have hP := packet5_eod _ ((c :: cs).drop 6).isEmpty hl (le31_of_le30 ht)
    refine eod_last_cons _ _ (by rw [hP.1, pack2Loop_isEmpty]) ?_
    have ih' := ih (fun x hx => hd x (List.mem_of_mem_drop hx)) (by
      intro j hj x hx
      have hlen : 6 ≤ (c :: cs).length := by
        apply Nat.le_of_not_lt; intro h
        rw [List.drop_eq_nil_of_le (Nat.le_of_lt h)] at hx
        simp at hx
      have hm : m = 6 := Nat.min_eq_left hlen
      by_cases hge : k' ≥ m
      · simp only [hge, dite_true, Option.some.injEq] at hj
        subst hj
        apply hk' x
        have := mem_take_drop _ _ _ _ hx
        have e : 6 + (k' - m) = k' := by omega
        rwa [e] at this
      · simp [hge] at hj)
    simp only [dite_eq_ite] at ih'
    exact ih'

theorem pack2_eod_last (d : List UInt8) (hd : ∀ x ∈ d, x ≤ 30) (i : Nat) (hi : i < (pack2 d).length) :
    (((pack2 d)[i] &&& EOD) != 0) = decide (i + 1 = (pack2 d).length) := by
  cases d with
  | nil =>
    revert hi; rw [pack2_nil]; exact eod_last_single i
  | cons c cs =>
    simp only [pack2_cons] at hi ⊢
    exact pack2Loop_eod_last _ none hd (fun j hj => by cases hj) i hi

/-! ## a 5-bit-only packed sequence also unpacks with the mixed unpacker -/


theorem unpack2_pack5Loop (tail : List UInt32) (rest : List UInt8) (hne : rest ≠ []) (hd : ∀ x ∈ rest, x ≤ 30) :
    unpack2 (pack5Loop rest ++ tail) = some (rest, (pack5Loop rest).length) := by
  fun_induction pack5Loop rest with
  | case1 => exact absurd rfl hne
  | case2 c cs ih =>
    have hl : ((c :: cs).take 6).length ≤ 6 := by rw [List.length_take]; omega
    have ht : ∀ x ∈ (c :: cs).take 6, x ≤ 30 := fun x hx => hd x (List.mem_of_mem_take hx)
    have hP := packet5_eod _ ((c :: cs).drop 6).isEmpty hl (le31_of_le30 ht)
    have hF := fields5_packet5 _ ((c :: cs).drop 6).isEmpty hl (le31_of_le30 ht)
    have hp := partial5_packet5 _ ((c :: cs).drop 6).isEmpty hl ht
    have := unpack2_step (packet5 (List.take 6 (c :: cs)) (List.drop 6 (c :: cs)).isEmpty)
      ((c :: cs).take 6) ((c :: cs).drop 6) (pack5Loop (List.drop 6 (c :: cs))) tail
      hP.1 (fun e => by
        have hlen : 6 ≤ (c :: cs).length := by
          apply Nat.le_of_not_lt; intro h
          exact e (List.drop_eq_nil_of_le (Nat.le_of_lt h))
        have hk : 6 - (List.take 6 (c :: cs)).length = 0 := by rw [List.length_take]; omega
        rw [hP.2, if_pos rfl, hF, hk, List.replicate_zero, List.append_nil])
      (fun _ => by rw [hP.2, if_pos rfl]; exact hp)
      (fun e => by rw [e, pack5Loop])
      (fun e => ih e (fun x hx => hd x (List.mem_of_mem_drop hx)))
    rw [List.take_append_drop] at this
    exact this

theorem unpack2_pack5 (d : List UInt8) (hd : ∀ x ∈ d, x ≤ 30) (tail : List UInt32) :
    unpack2 (pack5 d ++ tail) = some (d, (pack5 d).length) := by
  cases d with
  | nil => rw [pack5_nil]; exact unpack2_empty tail
  | cons c cs => rw [pack5_cons]; exact unpack2_pack5Loop tail _ (by simp) hd

end EaselModel.Dsqdata
