import EaselModel.Dsqdata.CutLemmas
/-! # A `.dsqi` index cut short behind its header ends in the loader's fatal branch (round 6b).

The repaired loader (78cbf46) compares, at end of data, the number of sequences it loaded with the header's `nseq` (`readDbX`).
Every sequence the loader loads was read as a complete 16-byte record from the index file: `avail` - the records carried over plus
the complete records still unread - bounds what can still be loaded (`loaderRunX_loaded_le`). So whenever the index file behind the
header holds fewer complete records than the header announces, the read cannot end with end of data: it ends with `fatalIndex`, or
earlier with another fatal outcome - for ANY opened database, any limits (`cut_index_not_eof`). -/
namespace EaselModel.Dsqdata

theorem decodeItems_len {α} (size : Nat) (dec : List UInt8 → α) : ∀ (k : Nat) (bs : List UInt8), (decodeItems size dec k bs).length = k
  | 0, _ => rfl
  | k + 1, bs => by simp [decodeItems, decodeItems_len size dec k]

/-- index records the loader can still turn into loaded sequences: carried over + complete records unread in the file -/
def avail (st : BState) : Nat := (st.l.window.length - st.l.nload) + st.ifp.length / 16

theorem loaderIter_chunk (maxseq : Nat) (maxpacket : Int) (L : LState) (c : ChunkDesc) (l' : LState)
    (h : loaderIter maxseq maxpacket L = some (some c, l')) :
    l'.window = L.window.drop L.nload ++ L.file.take (maxseq - (L.window.drop L.nload).length) ∧ l'.nload = c.n ∧
      c.n ≤ l'.window.length := by
  unfold loaderIter at h
  simp only at h
  split at h
  · cases h
  · split at h
    · cases h
    · rename_i nload _
      split at h
      · cases h
      · rename_i r hr
        split at h
        · cases h
        · simp only [Option.some.injEq, Prod.mk.injEq] at h
          obtain ⟨hc, hl⟩ := h
          subst hl
          have hcn : c.n = nload := by rw [← hc]
          refine ⟨rfl, hcn.symm, ?_⟩
          rw [hcn]
          simp only [getRec] at hr
          have := (List.getElem?_eq_some_iff.mp hr).1
          show nload ≤ (List.drop L.nload L.window ++ List.take (maxseq - (List.drop L.nload L.window).length) L.file).length
          omega

theorem loaderIterX_avail (maxseq : Nat) (maxpacket : Int) (st : BState) :
    match loaderIterX maxseq maxpacket st with
    | .chunk c st' => c.n + avail st' ≤ avail st
    | _ => True := by
  unfold loaderIterX
  simp only
  cases hli : loaderIter maxseq maxpacket
      { st.l with file := decodeItems 16 decRec (freadItems 16 (maxseq - (List.drop st.l.nload st.l.window).length) st.ifp).2.1
                            (freadItems 16 (maxseq - (List.drop st.l.nload st.l.window).length) st.ifp).1 } with
  | none => trivial
  | some p =>
    obtain ⟨oc, l'⟩ := p
    cases oc with
    | none => trivial
    | some c =>
      simp only
      by_cases h1 : c.nmeta < 0
      · rw [if_pos h1]; trivial
      · rw [if_neg h1]
        by_cases h2 : (freadItems 4 c.pn.toNat st.sfp).2.1 ≠ c.pn.toNat
        · rw [if_pos h2]; trivial
        · rw [if_neg h2]
          by_cases h3 : (freadItems 1 c.nmeta.toNat st.mfp).2.1 ≠ c.nmeta.toNat
          · rw [if_pos h3]; trivial
          · rw [if_neg h3]
            show c.n + avail _ ≤ avail st
            obtain ⟨hw, hn, hle⟩ := loaderIter_chunk maxseq maxpacket _ c l' hli
            simp only [avail]
            rw [hn, hw] at *
            simp only [List.length_append, List.length_take, decodeItems_len, List.length_drop, freadItems] at *
            have hdiv : ∀ k, k * 16 ≤ st.ifp.length → (st.ifp.length - k * 16) / 16 = st.ifp.length / 16 - k := by
              intro k _
              rw [Nat.mul_comm k 16]; exact Nat.sub_mul_div _ _ _
            by_cases hk : min (maxseq - (st.l.window.length - st.l.nload)) (st.ifp.length / 16) < maxseq - (st.l.window.length - st.l.nload)
            · simp only [hk, if_true, List.length_nil, Nat.zero_div]
              omega
            · simp only [hk, if_false, List.length_drop]
              have hk' : min (maxseq - (st.l.window.length - st.l.nload)) (st.ifp.length / 16) = maxseq - (st.l.window.length - st.l.nload) := by omega
              have hmul : (maxseq - (st.l.window.length - st.l.nload)) * 16 ≤ st.ifp.length := by
                have : maxseq - (st.l.window.length - st.l.nload) ≤ st.ifp.length / 16 := by omega
                have := Nat.mul_le_mul_right 16 this
                have := Nat.div_mul_le_self st.ifp.length 16
                omega
              rw [hk'] at *
              rw [hdiv _ hmul]
              omega

theorem loaderRunX_loaded_le (maxseq : Nat) (maxpacket : Int) : ∀ (fuel : Nat) (st : BState),
    ((loaderRunX maxseq maxpacket fuel st).1.map (·.n)).sum ≤ avail st
  | 0, _ => Nat.zero_le _
  | fuel + 1, st => by
    have h := loaderIterX_avail maxseq maxpacket st
    unfold loaderRunX
    cases hx : loaderIterX maxseq maxpacket st with
    | chunk c st' =>
      rw [hx] at h
      have ih := loaderRunX_loaded_le maxseq maxpacket fuel st'
      simp only [List.map_cons, List.sum_cons]
      simp only at h
      omega
    | eod _ => exact Nat.zero_le _
    | fault => exact Nat.zero_le _
    | fatalPackets _ _ => exact Nat.zero_le _
    | fatalMeta _ _ => exact Nat.zero_le _

/-- **A cut index never reads as a complete database.** For ANY opened database whose index file, behind the header, holds fewer
    complete 16-byte records than the header's `nseq`, any limits: the read does not end with end of data. -/
theorem cut_index_not_eof (maxseq : Nat) (maxpacket : Int) (o : Opened) (h : o.ifp.length / 16 < o.nseq) :
    (readDbX maxseq maxpacket o).2 ≠ .eof := by
  have hle := loaderRunX_loaded_le maxseq maxpacket (o.ifp.length / 16 + 2) (BState.init o)
  have ha : avail (BState.init o) = o.ifp.length / 16 := by simp [avail, BState.init, LState.init]
  rw [ha] at hle
  have hne : ((loaderRunX maxseq maxpacket (o.ifp.length / 16 + 2) (BState.init o)).1.map (·.n)).sum ≠ o.nseq := by omega
  simp only [readDbX]
  by_cases he : (loaderRunX maxseq maxpacket (o.ifp.length / 16 + 2) (BState.init o)).2 = .eof
  · simp [he, hne]
  · simp [he]

theorem take_hdr_idx (a b c d e f g h i j : Nat) (rest : List UInt8) (m : Nat) :
    (le32 a ++ le32 b ++ (le32 c ++ (le32 d ++ (le32 e ++ (le32 f ++ (le32 g ++ (le64 h ++ (le64 i ++ (le64 j ++ rest))))))))).take (52 + m) =
      le32 a ++ le32 b ++ (le32 c ++ (le32 d ++ (le32 e ++ (le32 f ++ (le32 g ++ (le64 h ++ (le64 i ++ (le64 j ++ rest.take m)))))))) := by
  have hl : (le32 a ++ le32 b ++ le32 c ++ le32 d ++ le32 e ++ le32 f ++ le32 g ++ le64 h ++ le64 i ++ le64 j).length = 52 := by
    simp [le32, le64]
  have e1 : le32 a ++ le32 b ++ (le32 c ++ (le32 d ++ (le32 e ++ (le32 f ++ (le32 g ++ (le64 h ++ (le64 i ++ (le64 j ++ rest))))))))
      = (le32 a ++ le32 b ++ le32 c ++ le32 d ++ le32 e ++ le32 f ++ le32 g ++ le64 h ++ le64 i ++ le64 j) ++ rest := by
    simp only [List.append_assoc]
  rw [e1, ← hl, List.take_length_add_append]
  simp only [List.append_assoc]

/-- **`esl_dsqdata_Open` on written files whose `.dsqi` was cut `m` bytes behind its 52-byte header**: accepted, same header values
    (`nseq` included); only the unread part of the index is shorter -/
theorem openDb_cut_idx (tag alphatype : Nat) (fname fmt : List UInt8) (db : List SeqRec)
    (hty : alphatype = 1 ∨ alphatype = 2 ∨ alphatype = 3) (hlen : ∀ r ∈ db, r.dsq.length < 6 * MAXPACKET)
    (expect : Option Nat) (hexp : expect = none ∨ expect = some alphatype) (m : Nat) :
    ∃ f, writeDb tag alphatype fname fmt db = .ok f ∧
      openDb expect { f with idx := f.idx.take (52 + m) } =
        .ok { writtenHeader tag alphatype (alphatype == 3) db with ifp := (writtenHeader tag alphatype (alphatype == 3) db).ifp.take m } := by
  have hany : db.any (fun r => decide (r.dsq.length ≥ 6 * MAXPACKET)) = false := by
    rw [List.any_eq_false]
    intro r hr
    have := hlen r hr
    simp only [ge_iff_le, decide_eq_true_eq]; omega
  have hne : ¬ (alphatype ≠ 3 ∧ alphatype ≠ 2 ∧ alphatype ≠ 1) := by omega
  refine ⟨_, by simp only [writeDb, hany, hne, Bool.false_eq_true, if_false]; rfl, ?_⟩
  have hM : MAGIC % 4294967296 = MAGIC := by decide
  have hMS : ¬ (MAGIC = MAGIC_SWAP) := by decide
  have hA : alphatype % 4294967296 = alphatype := by omega
  simp only [openDb, take_hdr_idx, parseStub_stubLine1, rdFields_idx, rdFields_two, List.getD_cons_zero, List.getD_cons_succ, hM, hMS, hA,
    ne_eq, not_true_eq_false, if_false]
  rcases hexp with rfl | rfl
  · have h1 : ¬ (alphatype = 0 ∨ alphatype > 6) := by omega
    have h2 : ¬ (alphatype = 6) := by omega
    simp only [h1, h2, if_false, writtenHeader, Nat.zero_mod]
  · simp only [not_true_eq_false, if_false, writtenHeader, Nat.zero_mod]

end EaselModel.Dsqdata
