import EaselModel.Msafile.Lemmas
import EaselModel.Msafile.AfaLemmas
import EaselModel.Msafile.Stockholm
/-! Generic lemmas for the Stockholm reader proofs: outcomes of `E`-valued helpers, bounds-checked accessors,
    and the counting relation between the length arrays before and after a step (`LensRel`, `CountInv`). -/
namespace EaselModel.Msafile

/-! ## outcomes of the `E`-valued helpers -/

/-- an `E`-valued helper ends with a value satisfying `Q`, or with a documented normal error -/
def EGood {α : Type} (Q : α → Prop) (x : E α) : Prop :=
  match x with
  | .ok a => Q a
  | .error r => Good r

@[simp] theorem EGood_ok {α : Type} (Q : α → Prop) (a : α) : EGood Q (.ok a : E α) = Q a := rfl
@[simp] theorem EGood_error {α : Type} (Q : α → Prop) (r : Res Msa) : EGood Q (.error r : E α) = Good r := rfl

theorem EGood.mono {α : Type} {Q Q' : α → Prop} {x : E α} (h : EGood Q x) (hq : ∀ a, Q a → Q' a) : EGood Q' x := by
  cases x with
  | ok a => exact hq a h
  | error r => exact h

theorem EGood.of_ok {α : Type} {Q : α → Prop} {x : E α} {a : α} (h : EGood Q x) (e : x = .ok a) : Q a := by
  rw [e] at h; exact h

theorem EGood.of_error {α : Type} {Q : α → Prop} {x : E α} {r : Res Msa} (h : EGood Q x) (e : x = .error r) : Good r := by
  rw [e] at h; exact h

theorem stepGood_liftE {Inv : StoSt → Prop} {x : E StoSt} (h : EGood Inv x) : StepGood Inv (liftE x) := by
  cases x with
  | ok a => exact h
  | error r => exact h

/-! ## accessors -/

theorem getE_ok {α : Type} {l : List α} {i : Nat} (h : i < l.length) : getE l i = .ok l[i] := by
  simp [getE, List.getElem?_eq_getElem h]

theorem getE_eq_ok {α : Type} {l : List α} {i : Nat} {x : α} (h : getE l i = .ok x) : l[i]? = some x := by
  unfold getE at h
  split at h
  · rename_i y hy; cases h; exact hy
  · cases h

theorem getE_error {α : Type} {l : List α} {i : Nat} {r : Res Msa} (h : getE l i = .error r) : ¬ i < l.length := by
  intro hi
  rw [getE_ok hi] at h; cases h

theorem setE_ok {α : Type} {l : List α} {i : Nat} (v : α) (h : i < l.length) : setE l i v = .ok (l.set i v) := by
  simp [setE, h]

theorem setE_eq_ok {α : Type} {l l' : List α} {i : Nat} {v : α} (h : setE l i v = .ok l') : i < l.length ∧ l' = l.set i v := by
  unfold setE at h
  split at h
  · rename_i hi; cases h; exact ⟨hi, rfl⟩
  · cases h

theorem setE_error {α : Type} {l : List α} {i : Nat} {v : α} {r : Res Msa} (h : setE l i v = .error r) : ¬ i < l.length := by
  intro hi
  rw [setE_ok v hi] at h; cases h

theorem getD_set_eq {α : Type} (l : List α) (i j : Nat) (v d : α) :
    (l.set i v).getD j d = if i = j ∧ i < l.length then v else l.getD j d := by
  simp only [List.getD_eq_getElem?_getD, List.getElem?_set]
  by_cases h : i = j
  · subst h
    by_cases h2 : i < l.length
    · simp [h2]
    · simp [h2]
  · simp [h]

theorem getD_append_replicate {α : Type} (l : List α) (k j : Nat) (d : α) :
    (l ++ List.replicate k d).getD j d = l.getD j d := by
  simp only [List.getD_eq_getElem?_getD, List.getElem?_append, List.getElem?_replicate]
  by_cases h : j < l.length
  · simp [h]
  · simp only [h, if_false, List.getElem?_eq_none (Nat.le_of_not_lt h)]
    split <;> rfl

theorem getD_of_getElem? {α : Type} {l : List α} {i : Nat} {x d : α} (h : l[i]? = some x) : l.getD i d = x := by
  simp [List.getD_eq_getElem?_getD, h]

theorem lt_length_of_getElem? {α : Type} {l : List α} {i : Nat} {x : α} (h : l[i]? = some x) : i < l.length := by
  by_cases hi : i < l.length
  · exact hi
  · rw [List.getElem?_eq_none (Nat.le_of_not_lt hi)] at h; cases h

/-! ## C strings -/

theorem cstr_of_no_nul (b : Bytes) (h : (0 : UInt8) ∉ b) : cstr b = b := by
  unfold cstr
  induction b with
  | nil => rfl
  | cons x rest ih =>
    have hx : x ≠ 0 := fun h0 => h (by simp [h0])
    have hr : (0 : UInt8) ∉ rest := fun hm => h (List.mem_cons_of_mem _ hm)
    simp only [List.takeWhile_cons, bne_iff_ne, ne_eq, hx, not_false_eq_true, decide_true, if_true, ih hr]

theorem not_mem_of_contains_false {b : Bytes} (h : b.contains 0 = false) : (0 : UInt8) ∉ b := by
  intro hm
  have : b.contains 0 = true := by simpa using hm
  rw [h] at this; cases this

/-! ## counting over the length arrays

`LensRel old new l l'`: seen through predicates that are false at 0 (a zero is an annotation/row that does not exist),
`l'` is `l` with one entry `old` replaced by `new`, up to zeros added anywhere.  `old = new = 0` is pure padding. -/

structure LensRel (old new : Nat) (l l' : List Nat) : Prop where
  cnt : ∀ p : Nat → Bool, p 0 = false →
    List.countP p l' + (if p old then 1 else 0) = List.countP p l + (if p new then 1 else 0)
  mem : ∀ x ∈ l', x = 0 ∨ x = new ∨ x ∈ l

theorem LensRel.refl0 (l : List Nat) : LensRel 0 0 l l :=
  ⟨fun _ _ => rfl, fun x hx => Or.inr (Or.inr hx)⟩

theorem LensRel.trans0 {o n : Nat} {a b c : List Nat} (h1 : LensRel 0 0 a b) (h2 : LensRel o n b c) : LensRel o n a c := by
  refine ⟨fun p hp => ?_, fun x hx => ?_⟩
  · have e1 := h1.cnt p hp
    have e2 := h2.cnt p hp
    simp only [hp, Bool.false_eq_true, if_false, Nat.add_zero] at e1
    omega
  · rcases h2.mem x hx with h | h | h
    · exact Or.inl h
    · exact Or.inr (Or.inl h)
    · rcases h1.mem x h with h' | h' | h'
      · exact Or.inl h'
      · exact Or.inl h'
      · exact Or.inr (Or.inr h')

theorem LensRel.trans0' {o n : Nat} {a b c : List Nat} (h1 : LensRel o n a b) (h2 : LensRel 0 0 b c) : LensRel o n a c := by
  refine ⟨fun p hp => ?_, fun x hx => ?_⟩
  · have e1 := h1.cnt p hp
    have e2 := h2.cnt p hp
    simp only [hp, Bool.false_eq_true, if_false, Nat.add_zero] at e2
    omega
  · rcases h2.mem x hx with h | h | h
    · exact Or.inl h
    · exact Or.inl h
    · exact h1.mem x h

theorem LensRel.app {o n : Nat} {a a' b b' : List Nat} (ha : LensRel o n a a') (hb : LensRel 0 0 b b') :
    LensRel o n (a ++ b) (a' ++ b') := by
  refine ⟨fun p hp => ?_, fun x hx => ?_⟩
  · have e1 := ha.cnt p hp
    have e2 := hb.cnt p hp
    simp only [hp, Bool.false_eq_true, if_false, Nat.add_zero] at e2
    simp only [List.countP_append]
    omega
  · rcases List.mem_append.mp hx with h | h
    · rcases ha.mem x h with h' | h' | h'
      · exact Or.inl h'
      · exact Or.inr (Or.inl h')
      · exact Or.inr (Or.inr (List.mem_append_left _ h'))
    · rcases hb.mem x h with h' | h' | h'
      · exact Or.inl h'
      · exact Or.inl h'
      · exact Or.inr (Or.inr (List.mem_append_right _ h'))

theorem LensRel.app' {o n : Nat} {a a' b b' : List Nat} (ha : LensRel 0 0 a a') (hb : LensRel o n b b') :
    LensRel o n (a ++ b) (a' ++ b') := by
  refine ⟨fun p hp => ?_, fun x hx => ?_⟩
  · have e1 := ha.cnt p hp
    have e2 := hb.cnt p hp
    simp only [hp, Bool.false_eq_true, if_false, Nat.add_zero] at e1
    simp only [List.countP_append]
    omega
  · rcases List.mem_append.mp hx with h | h
    · rcases ha.mem x h with h' | h' | h'
      · exact Or.inl h'
      · exact Or.inl h'
      · exact Or.inr (Or.inr (List.mem_append_left _ h'))
    · rcases hb.mem x h with h' | h' | h'
      · exact Or.inl h'
      · exact Or.inr (Or.inl h')
      · exact Or.inr (Or.inr (List.mem_append_right _ h'))

theorem LensRel.set {l : List Nat} {i old : Nat} (new : Nat) (h : l[i]? = some old) : LensRel old new l (l.set i new) := by
  have hi := lt_length_of_getElem? h
  have hold : l[i] = old := by
    have := List.getElem?_eq_getElem hi
    rw [this] at h; exact Option.some.inj h
  refine ⟨fun p _ => ?_, fun x hx => ?_⟩
  · rw [List.countP_set hi, hold]
    have hpos : p old = true → 0 < List.countP p l := by
      intro hp
      apply List.countP_pos_iff.mpr
      exact ⟨old, by rw [← hold]; exact List.getElem_mem hi, hp⟩
    by_cases hp : p old = true
    · have := hpos hp
      simp only [hp, if_true]; omega
    · simp only [hp, Bool.false_eq_true, if_false]; omega
  · rcases List.mem_or_eq_of_mem_set hx with h' | h'
    · exact Or.inr (Or.inr h')
    · exact Or.inr (Or.inl h')

theorem LensRel.pad (l : List Nat) (k : Nat) : LensRel 0 0 l (l ++ List.replicate k 0) := by
  refine ⟨fun p hp => ?_, fun x hx => ?_⟩
  · simp [List.countP_append, List.countP_replicate, hp]
  · rcases List.mem_append.mp hx with h | h
    · exact Or.inr (Or.inr h)
    · exact Or.inl (List.eq_of_mem_replicate h)

theorem LensRel.nil_replicate (k : Nat) : LensRel 0 0 [] (List.replicate k 0) := by
  simpa using LensRel.pad [] k

theorem LensRel.flatten_set {o n : Nat} {ll : List (List Nat)} {k : Nat} {c c' : List Nat}
    (hk : ll[k]? = some c) (h : LensRel o n c c') : LensRel o n ll.flatten (ll.set k c').flatten := by
  induction ll generalizing k with
  | nil => simp at hk
  | cons a rest ih =>
    cases k with
    | zero =>
      simp only [List.getElem?_cons_zero, Option.some.injEq] at hk
      subst hk
      simp only [List.set_cons_zero, List.flatten_cons]
      exact LensRel.app h (LensRel.refl0 _)
    | succ k =>
      simp only [List.getElem?_cons_succ] at hk
      simp only [List.set_cons_succ, List.flatten_cons]
      exact LensRel.app' (LensRel.refl0 _) (ih hk)

theorem LensRel.flatten_snoc (ll : List (List Nat)) (k : Nat) : LensRel 0 0 ll.flatten (ll ++ [List.replicate k 0]).flatten := by
  simp only [List.flatten_append, List.flatten_cons, List.flatten_nil, List.append_nil]
  exact LensRel.pad _ k

theorem LensRel.flatten_map_pad (ll : List (List Nat)) (k : Nat) :
    LensRel 0 0 ll.flatten (ll.map (· ++ List.replicate k 0)).flatten := by
  induction ll with
  | nil => exact LensRel.refl0 _
  | cons a rest ih =>
    simp only [List.map_cons, List.flatten_cons]
    exact LensRel.app (LensRel.pad a k) ih

/-- the `sslen salen pplen` 3-array seen as lists (`NULL` = no entries) -/
def perLens (pl : List (Option (List Nat))) : List Nat := (pl.map (·.getD [])).flatten

theorem perLens_pad (pl : List (Option (List Nat))) (k : Nat) :
    LensRel 0 0 (perLens pl) (perLens (pl.map (Option.map (· ++ List.replicate k 0)))) := by
  unfold perLens
  induction pl with
  | nil => exact LensRel.refl0 _
  | cons a rest ih =>
    simp only [List.map_cons, List.flatten_cons]
    cases a with
    | none => simpa using ih
    | some l => exact LensRel.app (LensRel.pad l k) ih

theorem perLens_set {o n : Nat} {pl : List (Option (List Nat))} {k : Nat} {c : Option (List Nat)} {c' : List Nat}
    (hk : pl[k]? = some c) (h : LensRel o n (c.getD []) c') : LensRel o n (perLens pl) (perLens (pl.set k (some c'))) := by
  unfold perLens
  rw [List.map_set]
  apply LensRel.flatten_set (c := c.getD []) _ h
  simp [List.getElem?_map, hk]

/-! ## the counting invariant -/

/-- The lengths of everything that grows column-wise (rows and annotation), `lens`, against `pd->alen` and `pd->alen_b`:
    each is 0 (does not exist), `alen` (not seen in the current block) or `alen + alen_b` (extended by the current block);
    in the first block the number of existing ones is the number of block lines read; in later blocks it is the number of
    lines of a block, and the ones not yet extended are as many as the lines still expected. -/
structure CountInv (alen alenB bi npb nblock : Nat) (lens : List Nat) : Prop where
  tri : ∀ x ∈ lens, x = 0 ∨ x = alen ∨ x = alen + alenB
  bi0 : bi = 0 → alenB = 0
  bipos : 0 < bi → 1 ≤ alenB
  first : nblock = 0 → alen = 0 ∧ List.countP (· != 0) lens = bi
  later : nblock ≠ 0 → 1 ≤ alen ∧ List.countP (· != 0) lens = npb ∧ List.countP (· == alen) lens + bi = npb

theorem CountInv.pad {alen alenB bi npb nblock : Nat} {lens lens' : List Nat}
    (h : CountInv alen alenB bi npb nblock lens) (hr : LensRel 0 0 lens lens') : CountInv alen alenB bi npb nblock lens' := by
  refine ⟨fun x hx => ?_, h.bi0, h.bipos, fun h0 => ?_, fun h0 => ?_⟩
  · rcases hr.mem x hx with h' | h' | h'
    · exact Or.inl h'
    · exact Or.inl h'
    · exact h.tri x h'
  · have := hr.cnt (· != 0) (by simp)
    simp only [bne_self_eq_false, Bool.false_eq_true, if_false, Nat.add_zero] at this
    exact ⟨(h.first h0).1, by rw [this]; exact (h.first h0).2⟩
  · obtain ⟨h1, h2, h3⟩ := h.later h0
    have e1 := hr.cnt (· != 0) (by simp)
    have e2 := hr.cnt (· == alen) (by simp; omega)
    simp only [bne_self_eq_false, Bool.false_eq_true, if_false, Nat.add_zero] at e1
    have hz : ((0 : Nat) == alen) = false := by simp; omega
    simp only [hz, Bool.false_eq_true, if_false, Nat.add_zero] at e2
    exact ⟨h1, by rw [e1]; exact h2, by rw [e2]; exact h3⟩

/-- a block line: one length goes from `alen` to `alen + n` -/
theorem CountInv.step {alen alenB bi npb nblock n : Nat} {lens lens' : List Nat}
    (h : CountInv alen alenB bi npb nblock lens) (hn : 1 ≤ n) (hw : bi ≠ 0 → n = alenB)
    (hr : LensRel alen (alen + n) lens lens') : CountInv alen n (bi + 1) npb nblock lens' := by
  refine ⟨fun x hx => ?_, fun h0 => by omega, fun _ => hn, fun h0 => ?_, fun h0 => ?_⟩
  · rcases hr.mem x hx with h' | h' | h'
    · exact Or.inl h'
    · exact Or.inr (Or.inr h')
    · rcases h.tri x h' with h'' | h'' | h''
      · exact Or.inl h''
      · exact Or.inr (Or.inl h'')
      · by_cases hb : bi = 0
        · have := h.bi0 hb
          exact Or.inr (Or.inl (by omega))
        · have := hw hb
          exact Or.inr (Or.inr (by omega))
  · obtain ⟨ha, hc⟩ := h.first h0
    subst ha
    have e := hr.cnt (· != 0) (by simp)
    have hnz : ((0 + n) != 0) = true := by simp; omega
    simp only [bne_self_eq_false, Bool.false_eq_true, if_false, Nat.add_zero, hnz, if_true] at e
    exact ⟨rfl, by omega⟩
  · obtain ⟨h1, h2, h3⟩ := h.later h0
    have e1 := hr.cnt (· != 0) (by simp)
    have e2 := hr.cnt (· == alen) (by simp; omega)
    have ha : (alen != 0) = true := by simp; omega
    have han : ((alen + n) != 0) = true := by simp; omega
    have hs : (alen == alen) = true := by simp
    have hsn : ((alen + n) == alen) = false := by simp; omega
    simp only [ha, han, if_true] at e1
    simp only [hs, hsn, if_true, Bool.false_eq_true, if_false, Nat.add_zero] at e2
    exact ⟨h1, by omega, by omega⟩

/-- end of a block: `alen += alen_b`, `npb = bi`, `bi = 0`, `alen_b = 0` -/
theorem CountInv.endBlock {alen alenB bi npb nblock : Nat} {lens : List Nat}
    (h : CountInv alen alenB bi npb nblock lens) (hbi : 0 < bi) (hl : nblock ≠ 0 → bi = npb) :
    CountInv (alen + alenB) 0 0 bi (nblock + 1) lens := by
  have hb := h.bipos hbi
  have htri : ∀ x ∈ lens, x = 0 ∨ x = alen + alenB := by
    intro x hx
    by_cases h0 : nblock = 0
    · have ha := (h.first h0).1
      rcases h.tri x hx with h' | h' | h'
      · exact Or.inl h'
      · exact Or.inl (by omega)
      · exact Or.inr h'
    · obtain ⟨h1, h2, h3⟩ := h.later h0
      have hz : List.countP (· == alen) lens = 0 := by have := hl h0; omega
      have hne := (List.countP_eq_zero.mp hz) x hx
      rcases h.tri x hx with h' | h' | h'
      · exact Or.inl h'
      · exfalso; apply hne; simp [h']
      · exact Or.inr h'
  have hnn : List.countP (· != 0) lens = bi := by
    by_cases h0 : nblock = 0
    · exact (h.first h0).2
    · obtain ⟨h1, h2, h3⟩ := h.later h0
      have := hl h0; omega
  refine ⟨fun x hx => ?_, fun _ => rfl, fun h0 => by omega, fun h0 => by omega, fun _ => ⟨by omega, hnn, ?_⟩⟩
  · rcases htri x hx with h' | h'
    · exact Or.inl h'
    · exact Or.inr (Or.inl h')
  · have : List.countP (· == (alen + alenB)) lens = List.countP (· != 0) lens := by
      apply List.countP_congr
      intro x hx
      rcases htri x hx with h' | h'
      · subst h'; simp; omega
      · subst h'; simp; omega
    omega

/-- between blocks (and at the end of the record) every existing length is exactly `alen` -/
theorem CountInv.between {alen alenB bi npb nblock : Nat} {lens : List Nat}
    (h : CountInv alen alenB bi npb nblock lens) (hbi : bi = 0) : ∀ x ∈ lens, x = 0 ∨ x = alen := by
  intro x hx
  have := h.bi0 hbi
  rcases h.tri x hx with h' | h' | h'
  · exact Or.inl h'
  · exact Or.inr h'
  · exact Or.inr (by omega)

end EaselModel.Msafile
