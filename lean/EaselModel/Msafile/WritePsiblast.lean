import EaselModel.Msafile.WriteFmt
/-! # PSI-BLAST writer: `esl_msafile_psiblast_Write` of `esl_msafile_psiblast.c` -/
namespace EaselModel.Msafile

def psiCpl : Nat := 60

/-- `is_consensus` at column `pos`: by `msa->rf` when present, else by the first sequence -/
def isConsensusCol (abc : Option Abc) (m : Msa) (pos : Nat) : Bool :=
  match m.rf with
  | some rf => isAlnum (rf.getD pos 0)
  | none =>
    match abc with
    | some a => a.xIsResidue (axAt m 0 pos)
    | none => isAlnum (aseqAt m 0 pos)

/-- `buf[bpos]` for sequence `i`, column `pos` -/
def psiChar (abc : Option Abc) (m : Msa) (i pos : Nat) : UInt8 :=
  let cons := isConsensusCol abc m pos
  match abc with
  | some a =>
    let x := axAt m i pos
    let sym := a.sym.getD x.toNat 0
    let isRes := a.xIsResidue x
    let sym := if sym == 79 then a.cUnknown else sym        -- pyrrolysine is written as the unknown residue
    if cons then (if isRes then toUpper sym else 45) else (if isRes then toLower sym else 45)
  | none =>
    let sym := aseqAt m i pos
    let isRes := isAlnum sym
    let sym := if sym == 79 || sym == 111 then 88 else sym
    if cons then (if isRes then toUpper sym else 45) else (if isRes then toLower sym else 45)

/-- `"%-*s  %s\n"` (two blanks) -/
def psiRowLine (abc : Option Abc) (m : Msa) (w pos i : Nat) : Bytes :=
  let acpl := if m.alen - pos > psiCpl then psiCpl else m.alen - pos
  padRight w (m.names.getD i []) ++ [32, 32] ++ cstr ((List.range acpl).map fun bpos => psiChar abc m i (pos + bpos))

/-- a block; a blank line follows unless it is the last one (`if (pos + cpl < msa->alen) fputc('\n')`) -/
def psiBlockLines (abc : Option Abc) (m : Msa) (w pos : Nat) : List Bytes :=
  (List.range m.nseq).map (psiRowLine abc m w pos) ++ (if pos + psiCpl < m.alen then [[]] else [])

def psiblastLines (abc : Option Abc) (m : Msa) : List Bytes :=
  (blockStarts m.alen psiCpl).flatMap (psiBlockLines abc m (maxWidth m.names))

/-- `esl_msafile_psiblast_Write(fp, msa)` -/
def psiblastWrite (abc : Option Abc) (m : Msa) : Bytes := joinLF (psiblastLines abc m)

end EaselModel.Msafile
