import EaselModel.Msafile.WriteFmt
/-! # PHYLIP writers: `phylip_interleaved_Write`, `phylip_sequential_Write` of `esl_msafile_phylip.c`
    (`opt_fmtd = NULL`: `rpl = 60`, `namewidth = 10`) -/
namespace EaselModel.Msafile

def phyRpl : Nat := 60
def phyNameWidth : Nat := 10

/-- `phylip_rectify_output_seq_digital`: `~` becomes `?` -/
def phyRectifyDigital (buf : Bytes) : Bytes := buf.map fun c => if c == 126 then 63 else c

/-- `phylip_rectify_output_seq_text`, the three statements in order on each character -/
def phyRectifyTextChar (c : UInt8) : UInt8 :=
  let c := if isLower c then toUpper c else c
  let c := if c == 46 || c == 95 || c == 32 then 45 else c          -- strchr("._ ", c) != NULL  (c is never NUL here)
  if c == 126 then 63 else c

def phyRectifyText (buf : Bytes) : Bytes := buf.map phyRectifyTextChar

/-- `buf` after TextizeN/strncpy and rectification, for row `idx` at `apos` -/
def phyBuf (abc : Option Abc) (m : Msa) (idx apos : Nat) : Bytes :=
  match abc with
  | some _ => phyRectifyDigital (seqChunk abc m idx apos phyRpl)
  | none => phyRectifyText (seqChunk abc m idx apos phyRpl)

/-- one row line: `"%-*.*s %s\n"` in the first block, `"%s\n"` afterwards -/
def phyRowLine (abc : Option Abc) (m : Msa) (idx apos : Nat) : Bytes :=
  if apos == 0 then padTrunc phyNameWidth (m.names.getD idx []) ++ [32] ++ phyBuf abc m idx apos
  else phyBuf abc m idx apos

/-- `" %d %" PRId64` -/
def phyWrHeader (m : Msa) : Bytes := [32] ++ natDec m.nseq ++ [32] ++ natDec m.alen

/-- interleaved: the header is NOT terminated; every block starts with the `\n` that ends the header (first block)
    or makes the blank separator line (later blocks) -/
def phylipInterleavedWrite (abc : Option Abc) (m : Msa) : Bytes :=
  phyWrHeader m
  ++ (blockStarts m.alen phyRpl).flatMap (fun apos =>
        [10] ++ joinLF ((List.range m.nseq).map fun idx => phyRowLine abc m idx apos))

/-- sequential: header line, then sequence by sequence -/
def phylipSequentialLines (abc : Option Abc) (m : Msa) : List Bytes :=
  phyWrHeader m :: (List.range m.nseq).flatMap (fun idx => (blockStarts m.alen phyRpl).map fun apos => phyRowLine abc m idx apos)

def phylipSequentialWrite (abc : Option Abc) (m : Msa) : Bytes := joinLF (phylipSequentialLines abc m)

/-- `esl_msafile_phylip_Write(fp, msa, eslMSAFILE_PHYLIP | eslMSAFILE_PHYLIPS, NULL)` -/
def phylipWrite (sequential : Bool) (abc : Option Abc) (m : Msa) : Bytes :=
  if sequential then phylipSequentialWrite abc m else phylipInterleavedWrite abc m

end EaselModel.Msafile
