import EaselModel.Msafile.WriteFmt
/-! # PHYLIP writers: `phylip_interleaved_Write`, `phylip_sequential_Write` of `esl_msafile_phylip.c`
    (`opt_fmtd = NULL`: `rpl = 60`, `namewidth = 10`) -/
namespace EaselModel.Msafile

def phyRpl : Nat := 60
def phyNameWidth : Nat := 10

/-- `phylip_rectify_output_seq_digital`: `~` becomes `?` -/
def phyRectifyDigital (buf : Bytes) : Bytes := buf.map fun c => if c == 126 then 63 else c

/-- `phylip_rectify_output_seq_text`, the three statements in order on each character -/
def phyRectifyTextChar (c : UInt8) : UInt8 :=
  let c := if isLower c then toUpper c else c
  let c := if c == 46 || c == 95 || c == 32 then 45 else c          -- strchr("._ ", c) != NULL  (c is never NUL here)
  if c == 126 then 63 else c

def phyRectifyText (buf : Bytes) : Bytes := buf.map phyRectifyTextChar

/-- `buf` after TextizeN/strncpy and rectification, for row `idx` at `apos` -/
def phyBuf (abc : Option Abc) (m : Msa) (idx apos : Nat) : Bytes :=
  match abc with
  | some _ => phyRectifyDigital (seqChunk abc m idx apos phyRpl)
  | none => phyRectifyText (seqChunk abc m idx apos phyRpl)

/-- one row line: `"%-*.*s %s\n"` in the first block, `"%s\n"` afterwards -/
def phyRowLine (abc : Option Abc) (m : Msa) (idx apos : Nat) : Bytes :=
  if apos == 0 then padTrunc phyNameWidth (m.names.getD idx []) ++ [32] ++ phyBuf abc m idx apos
  else phyBuf abc m idx apos

/-- `" %d %" PRId64` -/
def phyWrHeader (m : Msa) : Bytes := [32] ++ natDec m.nseq ++ [32] ++ natDec m.alen

/-- interleaved: the header is NOT terminated; every block starts with the `\n` that ends the header (first block)
    or makes the blank separator line (later blocks) -/
def phylipInterleavedWrite (abc : Option Abc) (m : Msa) : Bytes :=
  phyWrHeader m
  ++ (blockStarts m.alen phyRpl).flatMap (fun apos =>
        [10] ++ joinLF ((List.range m.nseq).map fun idx => phyRowLine abc m idx apos))

/-- sequential: header line, then sequence by sequence -/
def phylipSequentialLines (abc : Option Abc) (m : Msa) : List Bytes :=
  phyWrHeader m :: (List.range m.nseq).flatMap (fun idx => (blockStarts m.alen phyRpl).map fun apos => phyRowLine abc m idx apos)

def phylipSequentialWrite (abc : Option Abc) (m : Msa) : Bytes := joinLF (phylipSequentialLines abc m)

/-- `esl_msafile_phylip_Write(fp, msa, eslMSAFILE_PHYLIP | eslMSAFILE_PHYLIPS, NULL)` -/
def phylipWrite (sequential : Bool) (abc : Option Abc) (m : Msa) : Bytes :=
  if sequential then phylipSequentialWrite abc m else phylipInterleavedWrite abc m

/-! ## the writers with format options: `esl_msafile_phylip_Write(fp, msa, format, opt_fmtd)` with
    `opt_fmtd->namewidth` / `opt_fmtd->rpl` set (`0` = unset: `namewidth = 10`, `rpl = 60`) -/

/-- `buf` for row `idx` at `apos`, `rpl` residues per line -/
def phyBufW (rpl : Nat) (abc : Option Abc) (m : Msa) (idx apos : Nat) : Bytes :=
  match abc with
  | some _ => phyRectifyDigital (seqChunk abc m idx apos rpl)
  | none => phyRectifyText (seqChunk abc m idx apos rpl)

/-- `"%-*.*s %s\n"` with `namewidth` in the first block, `"%s\n"` afterwards -/
def phyRowLineW (nw rpl : Nat) (abc : Option Abc) (m : Msa) (idx apos : Nat) : Bytes :=
  if apos == 0 then padTrunc nw (m.names.getD idx []) ++ [32] ++ phyBufW rpl abc m idx apos
  else phyBufW rpl abc m idx apos

def phylipInterleavedWriteW (nw rpl : Nat) (abc : Option Abc) (m : Msa) : Bytes :=
  phyWrHeader m
  ++ (blockStarts m.alen rpl).flatMap (fun apos =>
        [10] ++ joinLF ((List.range m.nseq).map fun idx => phyRowLineW nw rpl abc m idx apos))

def phylipSequentialWriteW (nw rpl : Nat) (abc : Option Abc) (m : Msa) : Bytes :=
  joinLF (phyWrHeader m :: (List.range m.nseq).flatMap (fun idx => (blockStarts m.alen rpl).map fun apos => phyRowLineW nw rpl abc m idx apos))

/-- `esl_msafile_phylip_Write(fp, msa, format, &fmtd)` with `fmtd.namewidth = namewidth`, `fmtd.rpl = rpl` -/
def phylipWriteW (namewidth rpl : Nat) (sequential : Bool) (abc : Option Abc) (m : Msa) : Bytes :=
  let nw := if namewidth == 0 then phyNameWidth else namewidth
  let r := if rpl == 0 then phyRpl else rpl
  if sequential then phylipSequentialWriteW nw r abc m else phylipInterleavedWriteW nw r abc m

/-- unset options (and the explicit defaults 10 / 60) give the writer `esl_msafile_Write` dispatches to -/
theorem phylipWriteW_unset (sequential : Bool) (abc : Option Abc) (m : Msa) :
    phylipWriteW 0 0 sequential abc m = phylipWrite sequential abc m := by
  cases sequential <;> rfl

theorem phylipWriteW_default (sequential : Bool) (abc : Option Abc) (m : Msa) :
    phylipWriteW 10 60 sequential abc m = phylipWrite sequential abc m := by
  cases sequential <;> rfl

end EaselModel.Msafile
