import EaselModel.Msafile.A2mReadDomain
import EaselModel.Msafile.AfaLemmas
import EaselModel.Msafile.AfaWritable
/-! "Reformat stability", aligned FASTA: what `esl_msafile_afa_Read` returns lies in the domain of the AFA round-trip theorem
    (`AfaTextWritable` / `AfaDigitalWritable`), except that no name line the writer will print may end in CR.  (The text-mode
    input map rejects `>` as a residue since the repair of C03:reformat:afa-gt-residue, so no row the reader returns holds it.) -/
namespace EaselModel.Msafile

/-- a character the text-mode reader stores as a residue: graphic and not the record marker `>` -/
def afaResCh (c : UInt8) : Bool := isGraph c && c != 62

/-- text rows hold graphic characters only -/
structure AfaNdInv (cfg : Cfg) (st : AfaSt) : Prop where
  nd : NamesDescsOk st.names st.sqdesc
  rows : cfg.digital = false → ∀ r ∈ st.rows, r.all afaResCh = true
  cur : cfg.digital = false → ∀ r, st.cur = some r → r.all afaResCh = true

theorem afaNdInv_init (cfg : Cfg) : AfaNdInv cfg {} :=
  { nd := namesDescsOk_init, rows := fun _ r h => by simp at h, cur := fun _ r h => by simp at h }

theorem afaStartRecord_nd (cfg : Cfg) (st st' : AfaSt) (p : Bytes) (h : afaStartRecord st p = .inl st') (hi : AfaNdInv cfg st) :
    AfaNdInv cfg st' := by
  unfold afaStartRecord at h
  cases p with
  | nil => simp at h
  | cons c p1 =>
    simp only at h
    cases hm : memtok p1 blankTab with
    | none => rw [hm] at h; simp only at h; split at h <;> simp at h
    | some tr =>
      obtain ⟨tok, rest⟩ := tr
      rw [hm] at h
      simp only at h
      repeat' split at h
      all_goals first
        | (injection h with h; subst h
           exact { nd := namesDescsOk_add st.names st.sqdesc st.idx p1 tok rest hi.nd hm _ (Or.inl rfl)
                   rows := hi.rows, cur := fun _ r hr => by simp at hr })
        | (injection h with h; subst h
           exact { nd := namesDescsOk_add st.names st.sqdesc st.idx p1 tok rest hi.nd hm _
                     (Or.inr ⟨by simpa using (by assumption : ¬ rest.isEmpty = true), rfl⟩)
                   rows := hi.rows, cur := fun _ r hr => by simp at hr })
        | (simp at h)

theorem afaFinishRecord_nd (cfg : Cfg) (st st' : AfaSt) (h : afaFinishRecord cfg st = .inl st') (hi : AfaNdInv cfg st) :
    AfaNdInv cfg st' ∧ st'.alen ≠ 0 := by
  unfold afaFinishRecord at h
  simp only at h
  by_cases h0 : (rowLen cfg.digital st.cur == 0) = true
  · simp [h0] at h
  · simp only [h0, Bool.false_eq_true, if_false] at h
    split at h
    · simp at h
    · split at h
      · simp at h
      · rename_i r hc
        injection h with h
        subst h
        refine ⟨{ nd := hi.nd, rows := ?_, cur := fun _ r hr => by simp at hr }, by simpa using h0⟩
        intro hd r' hr'
        rcases List.mem_append.mp hr' with h1 | h1
        · exact hi.rows hd r' h1
        · simp at h1; subst h1; exact hi.cur hd r' hc

theorem strmapcat_all (m : InMap) (P : UInt8 → Bool) (h : m.emits P = true) (dest : Option Bytes) (src : Bytes)
    (hd : ∀ d, dest = some d → d.all P = true) : ∀ d', (strmapcat m dest src).2 = some d' → d'.all P = true := by
  intro d' hd'
  unfold strmapcat at hd'
  by_cases hs : src.isEmpty
  · simp only [hs, if_true] at hd'; exact hd d' hd'
  · simp only [hs, Bool.false_eq_true, if_false, Option.some.injEq] at hd'
    rw [← hd', List.all_append, mapLoop_all' m P h src]
    cases dest with
    | none => rfl
    | some d => simp [hd d rfl]

def AfaNdGood (cfg : Cfg) (r : Res Msa) : Prop :=
  ∀ m, r = .ok m → NamesDescsOk m.names m.sqdesc ∧ m.sqacc = none ∧ m.digital = cfg.digital ∧ m.kp = cfg.kp ∧ 1 ≤ m.alen ∧
    (cfg.digital = false → ∀ r ∈ m.aseq, r.all afaResCh = true)

theorem afaStep_nd (cfg : Cfg) (hg : cfg.digital = false → cfg.inmap.emits afaResCh = true) (st : AfaSt) (l : Bytes)
    (hi : AfaNdInv cfg st) : StepOk (AfaNdInv cfg) (AfaNdGood cfg) (afaStep cfg st l) := by
  cases hs : afaStep cfg st l with
  | inr r =>
    intro m hm
    exact absurd ⟨m, hm⟩ (afaStep_not_ok cfg st l r hs)
  | inl st' =>
    show AfaNdInv cfg st'
    unfold afaStep at hs
    by_cases hl : st.lead = true
    · simp only [hl, if_true] at hs
      by_cases hb : isBlankLine l = true
      · simp only [hb, if_true] at hs
        injection hs with hs; subst hs; exact hi
      · simp only [hb, Bool.false_eq_true, if_false] at hs
        split at hs
        · simp at hs
        · split at hs
          · simp at hs
          · exact afaStartRecord_nd cfg _ _ _ hs hi
    · simp only [hl, Bool.false_eq_true, if_false] at hs
      split at hs
      · injection hs with hs; subst hs; exact hi
      · rename_i c ptail hp
        split at hs
        · split at hs
          · rename_i st1 hfin
            exact afaStartRecord_nd cfg st1 st' _ hs (afaFinishRecord_nd cfg st st1 hfin hi).1
          · simp at hs
        · split at hs
          · simp at hs
          · simp at hs
          · injection hs with hs
            subst hs
            refine { nd := hi.nd, rows := hi.rows, cur := ?_ }
            intro hd r hr
            have h2 : (strmapcat cfg.inmap st.cur (l.dropWhile isSpace)).2 = some r := by simpa [hd] using hr
            exact strmapcat_all cfg.inmap afaResCh (hg hd) st.cur _ (hi.cur hd) r h2

theorem afaFinish_nd (cfg : Cfg) (st : AfaSt) (hi : AfaNdInv cfg st) : AfaNdGood cfg (afaFinish cfg st) := by
  unfold afaFinish
  split
  · intro m hm; simp at hm
  · split
    · rename_i r hfin
      intro m hm
      subst hm
      exact absurd hfin (afaFinishRecord_notOk cfg st m)
    · rename_i st1 hfin
      obtain ⟨h1, h2⟩ := afaFinishRecord_nd cfg st st1 hfin hi
      intro m hm
      injection hm with hm
      subst hm
      refine ⟨⟨h1.nd.1, fun i d hd => h1.nd.2 i d (rd_optAt_padOptRows_some _ _ _ _ hd)⟩, rfl, rfl, rfl, by
        show 1 ≤ st1.alen; omega, ?_⟩
      intro hd r hr
      simp only [hd, Bool.false_eq_true, if_false] at hr
      exact h1.rows hd r hr

theorem afaRead_nd (cfg : Cfg) (hg : cfg.digital = false → cfg.inmap.emits afaResCh = true) (lines : List Bytes) :
    AfaNdGood cfg (afaRead cfg lines).1 :=
  runLines_inv (afaStep cfg) (afaFinish cfg) (AfaNdInv cfg) (AfaNdGood cfg) (fun st l h => afaStep_nd cfg hg st l h)
    (fun st h => afaFinish_nd cfg st h) lines {} (afaNdInv_init cfg)

/-- no name/description line the AFA writer will print holds a LF or ends in CR -/
def afaHdrOkB (m : Msa) : Bool :=
  (List.range m.nseq).all fun i => !(afaHeader m i).contains 10 && (afaHeader m i).getLast? != some 13

theorem afaHdrOkB_lineOk (m : Msa) (h : afaHdrOkB m = true) : ∀ i, i < m.nseq → lineOk (afaHeader m i) := by
  intro i hi
  have := (List.all_eq_true.mp h) i (List.mem_range.mpr hi)
  simp only [Bool.and_eq_true, Bool.not_eq_true', bne_iff_ne, ne_eq] at this
  exact ⟨by simpa using this.1, this.2⟩

def afaTextGraphB : Bool := (afaInmap none).emits afaResCh

theorem afaTextGraphB_true : afaTextGraphB = true := by decide +kernel

/-- **what the AFA reader returns in text mode can be written and read back**, given that the name lines survive -/
theorem afaRead_domain_text (lines : List Bytes) (m : Msa) (rest : List Bytes)
    (h : afaRead (afaCfg none) lines = (.ok m, rest)) (hh : afaHdrOkB m = true) : AfaTextWritable m := by
  have hg := afaRead_good (afaCfg none) ⟨by decide +kernel, by decide +kernel⟩ lines
  have hn := afaRead_nd (afaCfg none) (fun _ => afaTextGraphB_true) lines
  rw [h] at hg hn
  obtain ⟨hnd, hacc, hdig, _, halen, hgr⟩ := hn m rfl
  have hdig' : m.digital = false := hdig
  obtain ⟨h1, hrows⟩ := rd_wellFormed_rows m hg
  rw [hdig'] at hrows
  simp only [Bool.false_eq_true, if_false] at hrows
  exact
    { dig := hdig', n1 := h1, alen1 := halen, acc_none := hacc
      name_ok := fun i hi => hnd.1 _ (rd_getD_mem m.names i hi)
      desc_ok := fun i _ d hd => hnd.2 i d hd
      hdr_line := afaHdrOkB_lineOk m hh
      row_ok := fun i hi => by
        have hmem := rd_getD_mem m.aseq i (by rw [hrows.1]; exact hi)
        refine ⟨(hrows.2 _ hmem).1, fun t ht => ?_⟩
        have := (List.all_eq_true.mp (hgr rfl _ hmem)) t ht
        simp only [afaResCh, Bool.and_eq_true, bne_iff_ne, ne_eq] at this
        exact this }

/-- … and in digital mode (no condition on the residues: no alphabet symbol is `>`) -/
theorem afaRead_domain_digital (a : Abc) (hv : (afaCfg (some a)).valid) (lines : List Bytes) (m : Msa) (rest : List Bytes)
    (h : afaRead (afaCfg (some a)) lines = (.ok m, rest)) (hh : afaHdrOkB m = true) : AfaDigitalWritable a m := by
  have hg := afaRead_good (afaCfg (some a)) hv lines
  have hn := afaRead_nd (afaCfg (some a)) (fun hd => by simp [afaCfg, Cfg.digital] at hd) lines
  rw [h] at hg hn
  obtain ⟨hnd, hacc, hdig, hkp, halen, _⟩ := hn m rfl
  have hdig' : m.digital = true := hdig
  have hkp' : m.kp = a.kp := hkp
  obtain ⟨h1, hrows⟩ := rd_wellFormed_rows m hg
  rw [hdig'] at hrows
  simp only [if_true] at hrows
  exact
    { dig := hdig', n1 := h1, alen1 := halen, acc_none := hacc
      name_ok := fun i hi => hnd.1 _ (rd_getD_mem m.names i hi)
      desc_ok := fun i _ d hd => hnd.2 i d hd
      hdr_line := afaHdrOkB_lineOk m hh
      row_ok := fun i hi => by
        rw [← hkp']
        exact hrows.2 _ (rd_getD_mem m.ax i (by rw [hrows.1]; exact hi)) }


/-! ## a sufficient condition on the INPUT for `afaHdrOkB`: no CR (and no LF) left inside any line -/

theorem afaStartRecord_q (Q : UInt8 → Bool) (st st' : AfaSt) (p : Bytes) (h : afaStartRecord st p = .inl st')
    (hp : ∀ x ∈ p, Q x = true) (hi : BytesOk Q st.names st.sqdesc) : BytesOk Q st'.names st'.sqdesc := by
  unfold afaStartRecord at h
  cases p with
  | nil => simp at h
  | cons c p1 =>
    simp only at h
    have hp1 : ∀ x ∈ p1, Q x = true := fun x hx => hp x (by simp [hx])
    cases hm : memtok p1 blankTab with
    | none => rw [hm] at h; simp only at h; split at h <;> simp at h
    | some tr =>
      obtain ⟨tok, rest⟩ := tr
      rw [hm] at h
      simp only at h
      repeat' split at h
      all_goals first
        | (injection h with h; subst h
           exact bytesOk_add Q st.names st.sqdesc st.idx p1 tok rest hi hm hp1 _ (Or.inl rfl))
        | (injection h with h; subst h
           exact bytesOk_add Q st.names st.sqdesc st.idx p1 tok rest hi hm hp1 _ (Or.inr rfl))
        | (simp at h)

theorem afaFinishRecord_names (cfg : Cfg) (st st' : AfaSt) (h : afaFinishRecord cfg st = .inl st') :
    st'.names = st.names ∧ st'.sqdesc = st.sqdesc := by
  unfold afaFinishRecord at h
  simp only at h
  repeat' split at h
  all_goals first
    | (injection h with h; subst h; exact ⟨rfl, rfl⟩)
    | (simp at h)

def AfaQGood (Q : UInt8 → Bool) (r : Res Msa) : Prop := ∀ m, r = .ok m → BytesOk Q m.names m.sqdesc ∧ m.sqacc = none

theorem afaStep_q (Q : UInt8 → Bool) (cfg : Cfg) (st : AfaSt) (l : Bytes) (hl : ∀ x ∈ l, Q x = true)
    (hi : BytesOk Q st.names st.sqdesc) :
    StepOk (fun s : AfaSt => BytesOk Q s.names s.sqdesc) (AfaQGood Q) (afaStep cfg st l) := by
  have hdw : ∀ x ∈ l.dropWhile isSpace, Q x = true := fun x hx => hl x ((List.dropWhile_sublist _).subset hx)
  cases hs : afaStep cfg st l with
  | inr r =>
    intro m hm
    exact absurd ⟨m, hm⟩ (afaStep_not_ok cfg st l r hs)
  | inl st' =>
    show BytesOk Q st'.names st'.sqdesc
    unfold afaStep at hs
    by_cases hld : st.lead = true
    · simp only [hld, if_true] at hs
      by_cases hb : isBlankLine l = true
      · simp only [hb, if_true] at hs
        injection hs with hs; subst hs; exact hi
      · simp only [hb, Bool.false_eq_true, if_false] at hs
        split at hs
        · simp at hs
        · split at hs
          · simp at hs
          · exact afaStartRecord_q Q _ _ _ hs hdw hi
    · simp only [hld, Bool.false_eq_true, if_false] at hs
      split at hs
      · injection hs with hs; subst hs; exact hi
      · split at hs
        · split at hs
          · rename_i st1 hfin
            have := afaFinishRecord_names cfg st st1 hfin
            exact afaStartRecord_q Q st1 st' _ hs hdw (by rw [this.1, this.2]; exact hi)
          · simp at hs
        · split at hs
          · simp at hs
          · simp at hs
          · injection hs with hs
            subst hs
            exact hi

theorem afaFinish_q (Q : UInt8 → Bool) (cfg : Cfg) (st : AfaSt) (hi : BytesOk Q st.names st.sqdesc) :
    AfaQGood Q (afaFinish cfg st) := by
  unfold afaFinish
  split
  · intro m hm; simp at hm
  · split
    · rename_i r hfin
      intro m hm
      subst hm
      exact absurd hfin (afaFinishRecord_notOk cfg st m)
    · rename_i st1 hfin
      have h12 := afaFinishRecord_names cfg st st1 hfin
      intro m hm
      injection hm with hm
      subst hm
      exact ⟨⟨by show ∀ nm ∈ st1.names, _; rw [h12.1]; exact hi.1,
        fun i d hd => by
          have := rd_optAt_padOptRows_some _ _ _ _ hd
          rw [h12.2] at this
          exact hi.2 i d this⟩, rfl⟩

theorem afaRead_q (Q : UInt8 → Bool) (cfg : Cfg) (lines : List Bytes) (hl : ∀ l ∈ lines, ∀ x ∈ l, Q x = true) :
    AfaQGood Q (afaRead cfg lines).1 :=
  runLines_inv_mem (afaStep cfg) (afaFinish cfg) (fun s : AfaSt => BytesOk Q s.names s.sqdesc) (AfaQGood Q)
    (fun l => ∀ x ∈ l, Q x = true) (fun st l hR h => afaStep_q Q cfg st l hR h) (fun st h => afaFinish_q Q cfg st h) lines {} hl
    ⟨fun _ h => by simp at h, fun i d h => by simp [optAt] at h⟩

/-- **if no input line holds a CR or a LF, the name lines of the alignment read survive a write** -/
theorem afaHdrOkB_of_lines (cfg : Cfg) (lines : List Bytes) (m : Msa) (rest : List Bytes)
    (h : afaRead cfg lines = (.ok m, rest)) (hl : ∀ l ∈ lines, ∀ x ∈ l, notCrLf x = true) : afaHdrOkB m = true := by
  have hq := afaRead_q notCrLf cfg lines hl
  rw [h] at hq
  obtain ⟨⟨hq1, hq2⟩, hacc⟩ := hq m rfl
  unfold afaHdrOkB
  rw [List.all_eq_true]
  intro i hi
  have hi' := List.mem_range.mp hi
  apply hdrBytes_ok
  intro x hx
  unfold afaHeader at hx
  have hacc' : optAt m.sqacc i = none := by simp [optAt, hacc]
  rw [hacc'] at hx
  simp only [List.append_nil, List.mem_append, List.mem_singleton] at hx
  rcases hx with (rfl | hx) | hx
  · decide
  · exact hq1 _ (rd_getD_mem m.names i hi') x hx
  · cases hd : optAt m.sqdesc i with
    | none => rw [hd] at hx; simp at hx
    | some d =>
      rw [hd] at hx
      rcases List.mem_cons.mp hx with rfl | hx
      · decide
      · exact hq2 i d hd x hx

end EaselModel.Msafile
