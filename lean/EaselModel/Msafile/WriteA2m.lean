import EaselModel.Msafile.WritePsiblast
/-! # A2M writer: `esl_msafile_a2m_Write` of `esl_msafile_a2m.c` (`do_dotless = TRUE`) -/
namespace EaselModel.Msafile

def a2mCpl : Nat := 60

/-- what column `pos` of sequence `i` adds to `buf` (`none`: nothing, an all-insert gap in dotless mode).
    Text mode: only an upper-case `O` is replaced by `X`; residues are `isalpha`, consensus columns `isalnum`. -/
def a2mChar (abc : Option Abc) (m : Msa) (i pos : Nat) : Option UInt8 :=
  let cons := isConsensusCol abc m pos
  match abc with
  | some a =>
    let x := axAt m i pos
    let sym := a.sym.getD x.toNat 0
    let isRes := a.xIsResidue x
    let sym := if sym == 79 then a.cUnknown else sym
    if cons then some (if isRes then toUpper sym else 45)
    else if isRes then some (toLower sym)
    else none
  | none =>
    let sym := aseqAt m i pos
    let isRes := isAlpha sym
    let sym := if sym == 79 || sym == 111 then 88 else sym
    if cons then some (if isRes then toUpper sym else 45)
    else if isRes then some (toLower sym)
    else none

/-- the `while (pos < alen) { for (bpos = 0; pos < alen && bpos < cpl; pos++) …; if (bpos) print }` loops:
    `buf` (reversed) is flushed when it holds `cpl` characters and another column is to be looked at, and at the end -/
def a2mSeqLoop (abc : Option Abc) (m : Msa) (i : Nat) : List Nat → Bytes → List Bytes
  | [], buf => if buf.isEmpty then [] else [buf.reverse]
  | pos :: rest, buf =>
    let full := buf.length ≥ a2mCpl                 -- `bpos < cpl` fails: print the line, re-enter the while loop with bpos = 0
    let buf' := if full then [] else buf
    (if full then [buf.reverse] else []) ++
      (match a2mChar abc m i pos with
       | some c => a2mSeqLoop abc m i rest (c :: buf')
       | none => a2mSeqLoop abc m i rest buf')

/-- `>name[ acc][ desc]` -/
def a2mHeader (m : Msa) (i : Nat) : Bytes :=
  [62] ++ m.names.getD i []
    ++ (match optRow m.sqacc i with | some a => 32 :: a | none => [])
    ++ (match optRow m.sqdesc i with | some d => 32 :: d | none => [])

def a2mRecLines (abc : Option Abc) (m : Msa) (i : Nat) : List Bytes :=
  a2mHeader m i :: a2mSeqLoop abc m i (List.range m.alen) []

def a2mLines (abc : Option Abc) (m : Msa) : List Bytes := (List.range m.nseq).flatMap (a2mRecLines abc m)

/-- `esl_msafile_a2m_Write(fp, msa)` -/
def a2mWrite (abc : Option Abc) (m : Msa) : Bytes := joinLF (a2mLines abc m)

end EaselModel.Msafile
