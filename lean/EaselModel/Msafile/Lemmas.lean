import EaselModel.Msafile.Basic
/-! Generic lemmas for the Msafile readers: the line splitter, the invariant principle for `runLines`,
    and what the `*cat` helpers guarantee about the bytes they append. -/
namespace EaselModel.Msafile

/-! ## the abstract line reader partitions its input -/

theorem lineOfAcc_flat (acc : Bytes) : (lineOfAcc acc).1 ++ (lineOfAcc acc).2 = acc.reverse ++ [10] := by
  unfold lineOfAcc
  cases acc with
  | nil => simp
  | cons x r =>
    by_cases hx : x = 13
    · subst hx; simp
    · simp [hx]

theorem lineOfAcc_term (acc : Bytes) : (lineOfAcc acc).2 = [10] ∨ (lineOfAcc acc).2 = [13, 10] := by
  unfold lineOfAcc
  split <;> simp

theorem splitLinesT_flat (src acc : Bytes) :
    ((splitLinesT src acc).flatMap fun l => l.1 ++ l.2) = acc.reverse ++ src := by
  induction src generalizing acc with
  | nil =>
    unfold splitLinesT
    by_cases h : acc.isEmpty
    · have : acc = [] := List.isEmpty_iff.mp h
      simp [this]
    · simp [h]
  | cons c rest ih =>
    unfold splitLinesT
    by_cases hc : c == 10
    · have hc' : c = 10 := by simpa using hc
      simp only [hc, if_true, List.flatMap_cons, ih, List.reverse_nil, List.nil_append, lineOfAcc_flat]
      simp [hc']
    · simp only [hc, Bool.false_eq_true, if_false, ih]
      simp

theorem splitLinesT_term (src acc : Bytes) :
    ∀ l ∈ splitLinesT src acc, l.2 = [10] ∨ l.2 = [13, 10] ∨ l.2 = [] := by
  induction src generalizing acc with
  | nil =>
    unfold splitLinesT
    intro l hl
    by_cases h : acc.isEmpty
    · simp [h] at hl
    · simp [h] at hl; simp [hl]
  | cons c rest ih =>
    unfold splitLinesT
    intro l hl
    by_cases hc : c == 10
    · simp only [hc, if_true, List.mem_cons] at hl
      rcases hl with h | h
      · subst h
        rcases lineOfAcc_term acc with h | h <;> simp [h]
      · exact ih [] l h
    · simp only [hc, Bool.false_eq_true, if_false] at hl
      exact ih _ l hl

/-- no LF inside a line body -/
theorem splitLinesT_body (src acc : Bytes) (hacc : (10 : UInt8) ∉ acc) :
    ∀ l ∈ splitLinesT src acc, (10 : UInt8) ∉ l.1 := by
  induction src generalizing acc with
  | nil =>
    unfold splitLinesT
    intro l hl
    by_cases h : acc.isEmpty
    · simp [h] at hl
    · simp [h] at hl; subst hl; simpa using hacc
  | cons c rest ih =>
    unfold splitLinesT
    intro l hl
    by_cases hc : c == 10
    · simp only [hc, if_true, List.mem_cons] at hl
      rcases hl with h | h
      · subst h
        unfold lineOfAcc
        split
        · simp only [List.mem_reverse]; intro hm; exact hacc (List.mem_of_mem_tail hm)
        · simpa using hacc
      · exact ih [] (by simp) l h
    · simp only [hc, Bool.false_eq_true, if_false] at hl
      have hc' : c ≠ 10 := by simpa using hc
      exact ih (c :: acc) (by simp [hacc, Ne.symm hc']) l hl

/-! ## invariant principle for line-at-a-time readers -/

/-- the outcome of a step: a new state satisfying the invariant, or a good final outcome -/
def StepOk {σ α : Type} (Inv : σ → Prop) (Good : Res α → Prop) (x : Sum σ (Res α)) : Prop :=
  match x with
  | .inl st' => Inv st'
  | .inr r => Good r

@[simp] theorem stepOk_inl {σ α : Type} (Inv : σ → Prop) (Good : Res α → Prop) (s : σ) : StepOk Inv Good (.inl s) = Inv s := rfl
@[simp] theorem stepOk_inr {σ α : Type} (Inv : σ → Prop) (Good : Res α → Prop) (r : Res α) :
    StepOk Inv Good (.inr r : Sum σ (Res α)) = Good r := rfl

theorem runLines_inv {σ α : Type} (step : σ → Bytes → Sum σ (Res α)) (finish : σ → Res α)
    (Inv : σ → Prop) (Good : Res α → Prop)
    (hstep : ∀ st l, Inv st → StepOk Inv Good (step st l))
    (hfin : ∀ st, Inv st → Good (finish st)) :
    ∀ (ls : List Bytes) (st : σ), Inv st → Good (runLines step finish st ls).1 := by
  intro ls
  induction ls with
  | nil => intro st h; simpa [runLines] using hfin st h
  | cons l ls ih =>
    intro st h
    have hs := hstep st l h
    unfold runLines
    cases hsl : step st l with
    | inl st' => rw [hsl] at hs; simpa using ih st' (by simpa using hs)
    | inr r => rw [hsl] at hs; simpa using hs

/-- what is left unread is a suffix of what was offered (readers never invent or re-read lines) -/
theorem runLines_rest_suffix {σ α : Type} (step : σ → Bytes → Sum σ (Res α)) (finish : σ → Res α) :
    ∀ (ls : List Bytes) (st : σ), (runLines step finish st ls).2 <:+ ls := by
  intro ls
  induction ls with
  | nil => intro st; simp [runLines]
  | cons l ls ih =>
    intro st
    unfold runLines
    cases step st l with
    | inl st' => exact List.IsSuffix.trans (ih st') (List.suffix_cons l ls)
    | inr r => exact List.suffix_cons l ls

/-- a reader that ends through `finish` has consumed every line -/
theorem runLines_finish_consumes {σ α : Type} (step : σ → Bytes → Sum σ (Res α)) (finish : σ → Res α)
    (P : Res α → Prop) (hP : ∀ st l r, step st l = .inr r → ¬ P r) :
    ∀ (ls : List Bytes) (st : σ), P (runLines step finish st ls).1 → (runLines step finish st ls).2 = [] := by
  intro ls
  induction ls with
  | nil => intro st _; simp [runLines]
  | cons l ls ih =>
    intro st
    unfold runLines
    cases hsl : step st l with
    | inl st' => simpa using ih st'
    | inr r => intro h; exact absurd h (hP st l r hsl)

/-! ## input maps -/

/-- every symbol an input map can emit (`inmap[c] ≤ 127`, or `inmap[0]` for an illegal byte) satisfies `P` -/
def InMap.emits (m : InMap) (P : UInt8 → Bool) : Bool :=
  P (m.get 0) && (List.range 128).all fun c => let x := m.get (UInt8.ofNat c); !(x ≤ 127) || P x

theorem InMap.emits_get (m : InMap) (P : UInt8 → Bool) (h : m.emits P = true) (c : UInt8) (hc : isAscii c = true)
    (hx : m.get c ≤ 127) : P (m.get c) = true := by
  unfold InMap.emits at h
  rw [Bool.and_eq_true] at h
  have h2 := (List.all_eq_true.mp h.2) c.toNat (by
    simp only [isAscii, decide_eq_true_eq] at hc
    exact List.mem_range.mpr (by exact hc))
  simp only [UInt8.ofNat_toNat] at h2
  have : (decide (m.get c ≤ 127)) = true := by simpa using hx
  simpa [this] using h2

theorem InMap.emits_zero (m : InMap) (P : UInt8 → Bool) (h : m.emits P = true) : P (m.get 0) = true := by
  unfold InMap.emits at h
  rw [Bool.and_eq_true] at h
  exact h.1

theorem mapByte_emits (m : InMap) (P : UInt8 → Bool) (h : m.emits P = true) (c x : UInt8) (s : CatSt)
    (hm : mapByte m c = (s, some x)) : P x = true := by
  unfold mapByte at hm
  by_cases ha : isAscii c
  · simp only [ha, Bool.not_true, Bool.false_eq_true, if_false] at hm
    by_cases h1 : m.get c ≤ 127
    · simp only [h1, if_true, Prod.mk.injEq, Option.some.injEq] at hm
      rw [← hm.2]; exact m.emits_get P h c ha h1
    · simp only [h1, if_false] at hm
      by_cases h2 : (m.get c == dsqILLEGAL) = true
      · simp only [h2, if_true, Prod.mk.injEq, Option.some.injEq] at hm
        rw [← hm.2]; exact m.emits_zero P h
      · simp only [h2, Bool.false_eq_true, if_false] at hm
        by_cases h3 : (m.get c == dsqIGNORED) = true
        · simp [h3] at hm
        · simp [h3] at hm
  · simp only [ha, Bool.not_false, if_true, Prod.mk.injEq, Option.some.injEq] at hm
    rw [← hm.2]; exact m.emits_zero P h

/-- everything `mapLoop` appends satisfies `P` -/
theorem mapLoop_all (m : InMap) (P : UInt8 → Bool) (h : m.emits P = true) :
    ∀ (src : Bytes) (st : CatSt) (acc : Bytes), acc.all P = true → (mapLoop m src st acc).2.all P = true := by
  intro src
  induction src with
  | nil => intro st acc ha; simpa [mapLoop] using ha
  | cons c rest ih =>
    intro st acc ha
    unfold mapLoop
    cases hm : mapByte m c with
    | mk s o =>
      cases s <;> cases o <;> simp only
      · exact ih _ _ ha
      · rename_i x
        have := mapByte_emits m P h c x _ hm
        exact ih _ _ (by simp [this, ha])
      · exact ih _ _ ha
      · rename_i x
        have := mapByte_emits m P h c x _ hm
        exact ih _ _ (by simp [this, ha])
      · exact ha
      · exact ha

/-- the table holds nothing but storable symbols, ILLEGAL and IGNORED: `mapLoop` cannot raise an exception -/
def InMap.noExc (m : InMap) : Bool :=
  (List.range 128).all fun c => let x := m.get (UInt8.ofNat c); x ≤ 127 || x == dsqILLEGAL || x == dsqIGNORED

theorem mapByte_noExc (m : InMap) (h : m.noExc = true) (c : UInt8) : (mapByte m c).1 ≠ .exc := by
  unfold mapByte
  by_cases ha : isAscii c
  · simp only [ha, Bool.not_true, Bool.false_eq_true, if_false]
    have h2 := (List.all_eq_true.mp h) c.toNat (by
      simp only [isAscii, decide_eq_true_eq] at ha
      exact List.mem_range.mpr (by exact ha))
    simp only [UInt8.ofNat_toNat, Bool.or_eq_true, decide_eq_true_eq] at h2
    by_cases h1 : m.get c ≤ 127
    · simp [h1]
    · simp only [h1, if_false]
      by_cases h3 : (m.get c == dsqILLEGAL) = true
      · simp [h3]
      · simp only [h3, Bool.false_eq_true, if_false]
        by_cases h4 : (m.get c == dsqIGNORED) = true
        · simp [h4]
        · exfalso; rcases h2 with (h2 | h2) | h2
          · exact h1 h2
          · exact h3 h2
          · exact h4 h2
  · simp [ha]

theorem mapLoop_noExc (m : InMap) (h : m.noExc = true) :
    ∀ (src : Bytes) (st : CatSt) (acc : Bytes), st ≠ .exc → (mapLoop m src st acc).1 ≠ .exc := by
  intro src
  induction src with
  | nil => intro st acc hs; simpa [mapLoop] using hs
  | cons c rest ih =>
    intro st acc hs
    unfold mapLoop
    have hb := mapByte_noExc m h c
    cases hm : mapByte m c with
    | mk s o =>
      rw [hm] at hb
      cases s <;> cases o <;> simp only
      · exact ih _ _ hs
      · exact ih _ _ hs
      · exact ih _ _ (by simp)
      · exact ih _ _ (by simp)
      · exact absurd rfl hb
      · exact absurd rfl hb

theorem strmapcat_noExc (m : InMap) (h : m.noExc = true) (dest : Option Bytes) (src : Bytes) : (strmapcat m dest src).1 ≠ .exc := by
  unfold strmapcat
  by_cases hs : src.isEmpty
  · simp [hs]
  · simp only [hs, Bool.false_eq_true, if_false]
    exact mapLoop_noExc m h src .ok [] (by simp)

theorem dsqcat_noExc (m : InMap) (h : m.noExc = true) (dsq : Option Bytes) (src : Bytes) : (dsqcat m dsq src).1 ≠ .exc := by
  unfold dsqcat
  by_cases hs : src.isEmpty
  · simp [hs]
  · simp only [hs, Bool.false_eq_true, if_false]
    exact mapLoop_noExc m h src .ok [] (by simp)

theorem mapLoop_all' (m : InMap) (P : UInt8 → Bool) (h : m.emits P = true) (src : Bytes) :
    ((mapLoop m src .ok []).2.reverse).all P = true := by
  have := mapLoop_all m P h src .ok [] (by simp)
  simpa [List.all_reverse] using this

/-- text rows never receive a NUL byte -/
theorem strmapcat_no_nul (m : InMap) (h : m.emits (· != 0) = true) (dest : Option Bytes) (src : Bytes)
    (hd : ∀ d, dest = some d → d.all (· != 0) = true) :
    ∀ d', (strmapcat m dest src).2 = some d' → d'.all (· != 0) = true := by
  intro d' hd'
  unfold strmapcat at hd'
  by_cases hs : src.isEmpty
  · simp only [hs, if_true] at hd'; exact hd d' hd'
  · simp only [hs, Bool.false_eq_true, if_false, Option.some.injEq] at hd'
    rw [← hd']
    rw [List.all_append]
    have h1 := mapLoop_all' m (· != 0) h src
    rw [h1, Bool.and_true]
    cases dest with
    | none => simp
    | some d => simpa using hd d rfl

end EaselModel.Msafile
