import EaselModel.Msafile.WriteFmt
/-! # SELEX writer: `esl_msafile_selex_Write` of `esl_msafile_selex.c` -/
namespace EaselModel.Msafile

def selexCpl : Nat := 60

/-- `maxnamelen`: initialised to 4 because the minimum name field is `#=CS` etc. -/
def selexNameLen (m : Msa) : Nat := m.names.foldl (fun a s => max s.length a) 4

/-- `"%-*s %.*s\n"` with precision `cpl` on `s + apos` -/
def selexAnnLine (w : Nat) (tag : String) (s : Bytes) (apos : Nat) : Bytes :=
  padRight w (str tag) ++ [32] ++ strChunk s apos selexCpl

def selexOpt (o : Option Bytes) (f : Bytes → Bytes) : List Bytes :=
  match o with | some s => [f s] | none => []

/-- sequence `i` in the block at `apos`: the row, then its #=SS and #=SA lines -/
def selexSeqLines (abc : Option Abc) (m : Msa) (w apos i : Nat) : List Bytes :=
  [padRight w (m.names.getD i []) ++ [32] ++ seqChunk abc m i apos selexCpl]
  ++ selexOpt (optRow m.ss i) (fun s => selexAnnLine w "#=SS" s apos)
  ++ selexOpt (optRow m.sa i) (fun s => selexAnnLine w "#=SA" s apos)

def selexBlockLines (abc : Option Abc) (m : Msa) (w apos : Nat) : List Bytes :=
  (if apos > 0 then [[]] else [])
  ++ selexOpt m.ssCons (fun s => selexAnnLine w "#=CS" s apos)
  ++ selexOpt m.rf (fun s => selexAnnLine w "#=RF" s apos)
  ++ selexOpt m.mm (fun s => selexAnnLine w "#=MM" s apos)
  ++ (List.range m.nseq).flatMap (selexSeqLines abc m w apos)

def selexLines (abc : Option Abc) (m : Msa) : List Bytes :=
  (blockStarts m.alen selexCpl).flatMap (selexBlockLines abc m (selexNameLen m))

/-- `esl_msafile_selex_Write(fp, msa)` -/
def selexWrite (abc : Option Abc) (m : Msa) : Bytes := joinLF (selexLines abc m)

end EaselModel.Msafile
