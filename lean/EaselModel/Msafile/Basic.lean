/-! # Msafile model: shared basics (C01, C03)

Core Lean only (the drivers import this file).  Everything mirrors the C helpers the alignment readers are written with:
`esl_mem.c` (`esl_memtok`, `esl_memspn`, `esl_memstrcmp`, `esl_memstrpfx`), `easel.c` (`esl_strmapcat_noalloc`),
`esl_alphabet.c` (`esl_abc_dsqcat_noalloc`), the C-locale `<ctype.h>` predicates, and ESL_BUFFER's line reader seen
abstractly (split at LF, one CR stripped in front of an LF - the refinement of `esl_buffer_GetLine` to this is property C05). -/
namespace EaselModel.Msafile

abbrev Bytes := List UInt8

/-! ## `<ctype.h>` in the C locale.  `char` is signed on the target: bytes ≥ 0x80 are negative and classified as nothing. -/
def isSpace (c : UInt8) : Bool := c == 32 || (9 ≤ c && c ≤ 13)
def isGraph (c : UInt8) : Bool := 33 ≤ c && c ≤ 126
def isUpper (c : UInt8) : Bool := 65 ≤ c && c ≤ 90
def isLower (c : UInt8) : Bool := 97 ≤ c && c ≤ 122
def isAlpha (c : UInt8) : Bool := isUpper c || isLower c
def isDigit (c : UInt8) : Bool := 48 ≤ c && c ≤ 57
def isAlnum (c : UInt8) : Bool := isAlpha c || isDigit c
def isAscii (c : UInt8) : Bool := c < 128
def toUpper (c : UInt8) : UInt8 := if isLower c then c - 32 else c
def toLower (c : UInt8) : UInt8 := if isUpper c then c + 32 else c

/-- `strchr(delim, c) != NULL`: true for every byte of `delim` AND for the terminating NUL -/
def inDelim (delim : Bytes) (c : UInt8) : Bool := c == 0 || delim.contains c

def str (s : String) : Bytes := s.toUTF8.toList

def blankTab : Bytes := [32, 9]

/-- `esl_memspn(p, n, allow)` -/
def memspn (p : Bytes) (allow : Bytes) : Nat := (p.takeWhile (inDelim allow)).length

/-- the idiom `esl_memspn(line, n, " \t") == n` -/
def isBlankLine (p : Bytes) : Bool := p.all (inDelim blankTab)

/-- `esl_memtok(&p, &n, delim, &tok, &toklen)`: `none` = eslEOL; `some (tok, rest)` with `rest` = `p` advanced past the
    token and the delimiters that follow it -/
def memtok (p : Bytes) (delim : Bytes) : Option (Bytes × Bytes) :=
  let p1 := p.dropWhile (inDelim delim)
  if p1.isEmpty then none
  else
    let tok := p1.takeWhile (fun c => !inDelim delim c)
    let p2 := p1.dropWhile (fun c => !inDelim delim c)
    some (tok, p2.dropWhile (inDelim delim))

/-- bytes as the C string they become after `esl_memstrdup` (everything is later read with `strlen`) -/
def cstr (b : Bytes) : Bytes := b.takeWhile (· != 0)

/-- `esl_memstrpfx(p, n, s)` -/
def memstrpfx (p : Bytes) (s : Bytes) : Bool := s.isPrefixOf p

/-- `esl_memstrcmp(p, n, s)` for a C string `s` (no NUL inside `s`) -/
def memstrcmp (p : Bytes) (s : Bytes) : Bool := p == s

/-- `esl_memstrcontains(p, n, s)` -/
def memstrcontains : Bytes → Bytes → Bool
  | [], s => s.isEmpty
  | c :: p, s => s.isPrefixOf (c :: p) || memstrcontains p s

/-! ## abstract line reader -/

/-- strip one CR in front of the LF (`esl_memnewline`): the accumulator is the reversed line -/
def stripCRrev (acc : Bytes) : Bytes :=
  match acc with
  | 13 :: r => r
  | _ => acc

/-- the line held (reversed) in `acc` when an LF arrives: `(body, terminator)`; one CR in front of the LF belongs to the terminator -/
def lineOfAcc (acc : Bytes) : Bytes × Bytes :=
  if acc.head? == some 13 then (acc.tail.reverse, [13, 10]) else (acc.reverse, [10])

/-- lines with their terminators: `(body, term)`, `term ∈ {[10], [13,10], []}` -/
def splitLinesT : Bytes → Bytes → List (Bytes × Bytes)
  | [], acc => if acc.isEmpty then [] else [(acc.reverse, [])]
  | c :: rest, acc =>
    if c == 10 then lineOfAcc acc :: splitLinesT rest []
    else splitLinesT rest (c :: acc)

/-- what successive `esl_buffer_GetLine` calls return for the input `src` -/
def splitLines (src : Bytes) : List Bytes := (splitLinesT src []).map (·.1)

/-! ## outcomes -/

/-- outcome of one `esl_msafile_Read`.  `fault` = a bounds-checked access of the model failed (the C code would touch
    memory outside its objects); `exc` = an `ESL_EXCEPTION` is raised.  The theorems show both unreachable. -/
inductive Res (α : Type) where
  | ok (a : α)
  | eof
  | eformat (msg : String)
  | fault
  | exc
deriving Repr, DecidableEq

/-- status of the `*cat` helpers -/
inductive CatSt where
  | ok | einval | exc
deriving Repr, DecidableEq

/-! ## input maps -/

def dsqSENTINEL : UInt8 := 255
def dsqILLEGAL  : UInt8 := 254
def dsqIGNORED  : UInt8 := 253
def dsqEOL      : UInt8 := 252
def dsqEOD      : UInt8 := 251

/-- `afp->inmap[0..127]` -/
structure InMap where
  tbl : Array UInt8
deriving Repr

def InMap.get (m : InMap) (c : UInt8) : UInt8 := m.tbl.getD c.toNat dsqILLEGAL

/-- result of mapping one input byte: `some x` = append x, `none` = ignored; with the status contribution -/
def mapByte (m : InMap) (c : UInt8) : CatSt × Option UInt8 :=
  if !isAscii c then (.einval, some (m.get 0))
  else
    let x := m.get c
    if x ≤ 127 then (.ok, some x)
    else if x == dsqILLEGAL then (.einval, some (m.get 0))
    else if x == dsqIGNORED then (.ok, none)
    else (.exc, none)          -- SENTINEL / EOL / EOD / any other code: ESL_EXCEPTION(eslEINCONCEIVABLE)

/-- the common loop of `esl_strmapcat_noalloc` / `esl_abc_dsqcat_noalloc`: returns the status and the REVERSED appended bytes.
    An exception aborts the loop at once (the C code returns from inside it). -/
def mapLoop (m : InMap) : Bytes → CatSt → Bytes → CatSt × Bytes
  | [], st, acc => (st, acc)
  | c :: rest, st, acc =>
    match mapByte m c with
    | (.exc, _) => (.exc, acc)
    | (.einval, some x) => mapLoop m rest .einval (x :: acc)
    | (.einval, none) => mapLoop m rest .einval acc
    | (.ok, some x) => mapLoop m rest st (x :: acc)
    | (.ok, none) => mapLoop m rest st acc

/-- `esl_strmapcat(inmap, &dest, &ldest, src, lsrc)` with `ldest ≥ 0`, `lsrc ≥ 0`.  `dest = none` is a NULL pointer.
    With `lsrc = 0` nothing is allocated or touched. -/
def strmapcat (m : InMap) (dest : Option Bytes) (src : Bytes) : CatSt × Option Bytes :=
  if src.isEmpty then (.ok, dest)
  else
    let (st, racc) := mapLoop m src .ok []
    (st, some (dest.getD [] ++ racc.reverse))

/-- `esl_abc_dsqcat(inmap, &dsq, &L, s, n)`: the digital row is kept WITH its sentinels
    (`255 :: codes ++ [255]`); the appended codes overwrite the old trailing sentinel. -/
def dsqCodes (dsq : Option Bytes) : Bytes :=
  match dsq with
  | none => []
  | some d => (d.drop 1).dropLast

def dsqcat (m : InMap) (dsq : Option Bytes) (src : Bytes) : CatSt × Option Bytes :=
  if src.isEmpty then (.ok, dsq)
  else
    let (st, racc) := mapLoop m src .ok []
    (st, some (dsqSENTINEL :: (dsqCodes dsq ++ racc.reverse) ++ [dsqSENTINEL]))

/-- an `ESL_ALPHABET` as far as the readers and writers look at it (tables regenerated from the C code on every run) -/
structure Abc where
  type : Nat            -- eslRNA=1, eslDNA=2, eslAMINO=3
  k : Nat
  kp : Nat
  inmap : Array UInt8   -- abc->inmap[0..127]
  sym : Array UInt8     -- abc->sym[0..Kp-1]
deriving Repr

def Abc.unknown (a : Abc) : UInt8 := UInt8.ofNat (a.kp - 3)      -- esl_abc_XGetUnknown
def Abc.gap (a : Abc) : UInt8 := UInt8.ofNat a.k                 -- esl_abc_XGetGap
def Abc.missing (a : Abc) : UInt8 := UInt8.ofNat (a.kp - 1)      -- esl_abc_XGetMissing

/-! ## the alignment object -/

inductive Wgt where
  | unset                 -- -1.0
  | dflt                  -- 1.0
  | val (bits : UInt64)   -- any other value, as its binary64 pattern
deriving Repr, DecidableEq

abbrev OptRows := Option (List (Option Bytes))

/-- `ESL_MSA` as the readers leave it.  Text rows live in `aseq`; digital rows in `ax`, each WITH both sentinels. -/
structure Msa where
  digital : Bool := false
  kp : Nat := 0                     -- alphabet size Kp (digital mode), codes must be < kp
  alen : Nat := 0
  names : List Bytes := []
  aseq : List Bytes := []
  ax : List Bytes := []
  hasw : Bool := false
  wgt : List Wgt := []
  name : Option Bytes := none
  desc : Option Bytes := none
  acc : Option Bytes := none
  au : Option Bytes := none
  ssCons : Option Bytes := none
  saCons : Option Bytes := none
  ppCons : Option Bytes := none
  rf : Option Bytes := none
  mm : Option Bytes := none
  sqacc : OptRows := none
  sqdesc : OptRows := none
  ss : OptRows := none
  sa : OptRows := none
  pp : OptRows := none
  cutoff : List (Option UInt32) := []          -- 6 entries (binary32 patterns) when any is set
  comments : List Bytes := []
  gf : List (Bytes × Bytes) := []
  gs : List (Bytes × List (Option Bytes)) := []
  gc : List (Bytes × Bytes) := []
  gr : List (Bytes × List (Option Bytes)) := []
deriving Repr, DecidableEq

def Msa.nseq (m : Msa) : Nat := m.names.length

/-- `if (idx >= msa->sqalloc) esl_msa_Expand(msa)`: the allocation after the call -/
def expandAlloc (idx sqalloc : Nat) : Nat := if idx ≥ sqalloc then 2 * sqalloc else sqalloc

/-- set entry `idx` of an optional per-sequence array, allocating it (all NULL) on first use
    (`esl_msa_SetSeqDescription`, `esl_msa_SetSeqAccession`, the `ss/sa/pp` arrays) -/
def setOptRow (a : OptRows) (idx : Nat) (v : Bytes) : OptRows :=
  let l := a.getD []
  let l := l ++ List.replicate (idx + 1 - l.length) none
  some (l.set idx (some v))

/-- `setOptRow` when there is something to store -/
def setOptRowO (a : OptRows) (idx : Nat) (v : Option Bytes) : OptRows :=
  match v with
  | some d => setOptRow a idx d
  | none => a

/-- pad an optional per-sequence array to `n` entries (the C arrays are allocated for `sqalloc ≥ nseq` entries) -/
def padOptRows (a : OptRows) (n : Nat) : OptRows :=
  a.map fun l => (l ++ List.replicate (n - l.length) none).take n

/-- a digital row is sentinel-delimited, has `alen` codes, every code is a valid symbol of the alphabet -/
def dsqRowOk (kp alen : Nat) (row : Bytes) : Bool :=
  match row with
  | [] => false
  | s0 :: rest =>
    s0 == dsqSENTINEL && rest.length == alen + 1 && rest.getLast? == some dsqSENTINEL &&
      rest.dropLast.all (fun x => x.toNat < kp)

def optLenOk (alen : Nat) (o : Option Bytes) : Bool :=
  match o with
  | none => true
  | some b => b.length == alen

def optRowsOk (alen : Nat) (o : OptRows) : Bool :=
  match o with
  | none => true
  | some l => l.all (optLenOk alen)

/-- the well-formedness the property demands of every alignment returned with eslOK (decidable, executable) -/
def Msa.wellFormed (m : Msa) : Bool :=
  1 ≤ m.nseq &&
  (if m.digital then m.ax.length == m.nseq && m.ax.all (dsqRowOk m.kp m.alen)
   else m.aseq.length == m.nseq && m.aseq.all (fun r => r.length == m.alen && !r.contains 0)) &&
  m.wgt.length == m.nseq &&
  (if m.hasw then m.wgt.all (· != Wgt.unset) else m.wgt.all (· == Wgt.dflt)) &&
  optLenOk m.alen m.ssCons && optLenOk m.alen m.saCons && optLenOk m.alen m.ppCons && optLenOk m.alen m.rf && optLenOk m.alen m.mm &&
  optRowsOk m.alen m.ss && optRowsOk m.alen m.sa && optRowsOk m.alen m.pp &&
  m.gc.all (fun t => t.2.length == m.alen) &&
  m.gr.all (fun t => t.2.all (optLenOk m.alen))

/-! ## line-at-a-time readers: generic driver

Every reader is written as a state machine consuming one line per step (`step`), with a `finish` for end of input.
`runLines` is `esl_msafile_GetLine` in a loop; it returns the outcome and the lines NOT consumed. -/

def runLines {σ α : Type} (step : σ → Bytes → Sum σ (Res α)) (finish : σ → Res α) : σ → List Bytes → Res α × List Bytes
  | st, [] => (finish st, [])
  | st, l :: ls =>
    match step st l with
    | .inl st' => runLines step finish st' ls
    | .inr r => (r, ls)

end EaselModel.Msafile
