import EaselModel.Msafile.Lemmas
import EaselModel.Msafile.AfaLemmas
import EaselModel.Msafile.Clustal
/-! Invariant of the block readers (Clustal, PSI-BLAST) and the proof that the Clustal reader is total and returns
    well-formed alignments only.  The first part (`BlkInvG`, `blkName_inv`, `blkAppend_inv`, `blkResult_good`) is shared
    with `PsiblastLemmas.lean`. -/
namespace EaselModel.Msafile

/-! ## scanning -/

theorem scanTo_ge (P : UInt8 → Bool) (p : Bytes) (pos : Nat) : pos ≤ scanTo P p pos := by
  unfold scanTo; omega

theorem scanTo_le (P : UInt8 → Bool) (p : Bytes) (pos : Nat) (h : pos ≤ p.length) : scanTo P p pos ≤ p.length := by
  unfold scanTo
  have h1 : ((p.drop pos).takeWhile (fun c => !P c)).length ≤ (p.drop pos).length := by
    have := congrArg List.length (List.takeWhile_append_dropWhile (p := fun c => !P c) (l := p.drop pos))
    rw [List.length_append] at this
    omega
  rw [List.length_drop] at h1
  omega

theorem slice_length (p : Bytes) (s l : Nat) (r : Bytes) (h : slice p s l = some r) : r.length = l := by
  unfold slice at h
  split at h
  · simp only [Option.some.injEq] at h
    rw [← h, List.length_take, List.length_drop]; omega
  · simp at h

theorem slice_isSome (p : Bytes) (s l : Nat) (h : s + l ≤ p.length) : ∃ r, slice p s l = some r := by
  unfold slice; simp [h]

/-! ## rows -/

/-- a row pointer holding a well-formed row of exactly `len` symbols (NULL = the empty row) -/
def rowAt (cfg : Cfg) (len : Nat) (cur : Option Bytes) : Prop := rowLen cfg.digital cur = len ∧ curOk cfg cur

theorem rowAt_none (cfg : Cfg) : rowAt cfg 0 none := ⟨rfl, fun r h => by simp at h⟩

theorem rowAt_some (cfg : Cfg) (len : Nat) (cur : Option Bytes) (h : rowAt cfg len cur) (hl : 1 ≤ len) :
    ∃ r, cur = some r ∧ rowOkB cfg.digital cfg.kp len r = true := by
  cases cur with
  | none => have := h.1; simp [rowLen] at this; omega
  | some r => exact ⟨r, rfl, by have := h.2 r rfl; rw [h.1] at this; exact this⟩

/-- the length row `i` must have while row `idx` of the current block is the next to be read -/
def lenAt (st : BlkSt) (i : Nat) : Nat := if i < st.idx then st.alen + st.bsl else st.alen

/-- invariant of the row storage; `d = 0` at a `esl_msafile_GetLine` call, `d = 1` between "store the name" and "append the sequence" -/
structure BlkInvG (d : Nat) (cfg : Cfg) (st : BlkSt) : Prop where
  alloc : 0 < st.sqalloc ∧ st.rows.length = st.sqalloc ∧ st.names.length ≤ st.sqalloc
  idx_le : st.idx + d ≤ st.names.length
  rows_in : ∀ i cur, i < st.names.length → st.rows[i]? = some cur → rowAt cfg (lenAt st i) cur
  rows_out : ∀ i, st.names.length ≤ i → i < st.rows.length → st.rows[i]? = some none
  blk0 : st.nblocks = 0 → st.alen = 0 ∧ st.idx + d = st.names.length
  later : st.nblocks ≠ 0 → st.nseq = st.names.length

abbrev BlkInv := BlkInvG 0

theorem blkInv_init (cfg : Cfg) : BlkInv cfg {} :=
  { alloc := by decide, idx_le := by decide,
    rows_in := fun i cur h _ => by simp at h,
    rows_out := fun i _ h => by
      have h : i < (List.replicate 16 (none : Option Bytes)).length := h
      simp only [List.length_replicate] at h
      show (List.replicate 16 (none : Option Bytes))[i]? = some none
      rw [List.getElem?_replicate]; simp [h],
    blk0 := fun _ => by decide, later := fun h => by simp at h }

/-- the storage invariant does not look at the phase -/
theorem blkInv_phase (cfg : Cfg) (st : BlkSt) (ph : Phase) (h : BlkInv cfg st) : BlkInv cfg { st with phase := ph } :=
  { alloc := h.alloc, idx_le := h.idx_le, rows_in := h.rows_in, rows_out := h.rows_out, blk0 := h.blk0, later := h.later }

/-- starting a block (`idx = 0`) on the same storage -/
theorem blkInv_newBlock (cfg : Cfg) (st st' : BlkSt) (h : BlkInv cfg st)
    (hsq : st'.sqalloc = st.sqalloc) (hnm : st'.names = st.names) (hrows : st'.rows = st.rows) (hidx : st'.idx = 0)
    (hlen : ∀ i, i < st.names.length → lenAt st i = st'.alen)
    (hb0 : st'.nblocks = 0 → st'.alen = 0 ∧ st.names.length = 0)
    (hlater : st'.nblocks ≠ 0 → st'.nseq = st.names.length) : BlkInv cfg st' :=
  { alloc := by rw [hsq, hnm, hrows]; exact h.alloc,
    idx_le := by rw [hidx]; omega,
    rows_in := by
      intro i cur hi hg
      rw [hnm] at hi; rw [hrows] at hg
      have := h.rows_in i cur hi hg
      rw [hlen i hi] at this
      unfold lenAt
      rw [hidx]
      simp only [Nat.not_lt_zero, if_false]
      exact this,
    rows_out := by rw [hnm, hrows]; exact h.rows_out,
    blk0 := by
      intro h0
      have := hb0 h0
      rw [hidx, hnm]; omega,
    later := by rw [hnm]; exact hlater }

/-- what `blkName` leaves alone / changes -/
structure NamePost (inc : Bool) (st st' : BlkSt) : Prop where
  phase : st'.phase = st.phase
  alen : st'.alen = st.alen
  bsl : st'.bsl = st.bsl
  bss : st'.bss = st.bss
  nblocks : st'.nblocks = st.nblocks
  rf : st'.rf = st.rf
  idx : st'.idx = st.idx
  nseq : st'.nseq = if st.nblocks = 0 ∧ inc = true then st.nseq + 1 else st.nseq
  names : st'.names.length = if st.nblocks = 0 then st.names.length + 1 else st.names.length

theorem blkName_inv (cfg : Cfg) (inc : Bool) (st : BlkSt) (name : Bytes) (h : BlkInv cfg st) :
    StepGood (fun st' => BlkInvG 1 cfg st' ∧ NamePost inc st st') (blkName inc st name) := by
  unfold blkName
  split
  · rw [stepGood_inr]; show ("NUL byte in sequence name" : String) ≠ ""; decide
  unfold blkNameCore
  by_cases hb : st.nblocks = 0
  · have hb' : (st.nblocks == 0) = true := by simp [hb]
    simp only [hb', if_true]
    obtain ⟨h0, hidx⟩ := h.blk0 hb
    obtain ⟨hsq, hrl, hnl⟩ := h.alloc
    have hidx' : st.idx = st.names.length := by omega
    have hex : st.idx < expandAlloc st.idx st.sqalloc := by
      unfold expandAlloc
      by_cases h1 : st.idx ≥ st.sqalloc
      · simp only [h1, if_true]; omega
      · simp only [h1, if_false]; omega
    have hnot : ¬ (st.idx ≥ expandAlloc st.idx st.sqalloc) := by omega
    simp only [hnot, if_false, stepGood_inl]
    have hrows_len : (if st.idx ≥ st.sqalloc then st.rows ++ List.replicate st.sqalloc none else st.rows).length
        = expandAlloc st.idx st.sqalloc := by
      unfold expandAlloc
      by_cases h1 : st.idx ≥ st.sqalloc
      · simp only [h1, if_true, List.length_append, List.length_replicate]; omega
      · simp only [h1, if_false]; exact hrl
    have hrows_get : ∀ i, i < st.rows.length →
        (if st.idx ≥ st.sqalloc then st.rows ++ List.replicate st.sqalloc none else st.rows)[i]? = st.rows[i]? := by
      intro i hi
      by_cases h1 : st.idx ≥ st.sqalloc
      · simp only [h1, if_true]; exact List.getElem?_append_left hi
      · simp only [h1, if_false]
    have hrows_new : ∀ i, st.rows.length ≤ i → i < expandAlloc st.idx st.sqalloc →
        (if st.idx ≥ st.sqalloc then st.rows ++ List.replicate st.sqalloc none else st.rows)[i]? = some none := by
      intro i hi hi2
      unfold expandAlloc at hi2
      by_cases h1 : st.idx ≥ st.sqalloc
      · simp only [h1, if_true] at hi2 ⊢
        rw [List.getElem?_append_right hi, List.getElem?_replicate]
        have : i - st.rows.length < st.sqalloc := by omega
        simp [this]
      · simp only [h1, if_false] at hi2; omega
    refine ⟨?_, ?_⟩
    · refine { alloc := ⟨by show 0 < expandAlloc st.idx st.sqalloc; omega, hrows_len, ?_⟩, idx_le := ?_, rows_in := ?_,
               rows_out := ?_, blk0 := ?_, later := fun hne => absurd hb hne }
      · show (st.names ++ [cstr name]).length ≤ expandAlloc st.idx st.sqalloc
        simp only [List.length_append, List.length_cons, List.length_nil]; omega
      · show st.idx + 1 ≤ (st.names ++ [cstr name]).length
        simp only [List.length_append, List.length_cons, List.length_nil]; omega
      · intro i cur hi hget
        have hi : i < (st.names ++ [cstr name]).length := hi
        simp only [List.length_append, List.length_cons, List.length_nil] at hi
        show rowAt cfg (if i < st.idx then st.alen + st.bsl else st.alen) cur
        have hget : (if st.idx ≥ st.sqalloc then st.rows ++ List.replicate st.sqalloc none else st.rows)[i]? = some cur := hget
        by_cases hlt : i < st.names.length
        · rw [hrows_get i (by omega)] at hget
          exact h.rows_in i cur hlt hget
        · have hieq : i = st.names.length := by omega
          have hnone : some cur = some none := by
            rw [← hget]
            by_cases hin : i < st.rows.length
            · rw [hrows_get i hin]; exact h.rows_out i (by omega) hin
            · exact hrows_new i (by omega) (by omega)
          have hcur : cur = none := by simpa using hnone
          have hni : ¬ (i < st.idx) := by omega
          simp only [hni, if_false, hcur, h0]
          exact rowAt_none cfg
      · intro i hi hi2
        have hi : (st.names ++ [cstr name]).length ≤ i := hi
        simp only [List.length_append, List.length_cons, List.length_nil] at hi
        have hi2 : i < (if st.idx ≥ st.sqalloc then st.rows ++ List.replicate st.sqalloc none else st.rows).length := hi2
        rw [hrows_len] at hi2
        show (if st.idx ≥ st.sqalloc then st.rows ++ List.replicate st.sqalloc none else st.rows)[i]? = some none
        by_cases hin : i < st.rows.length
        · rw [hrows_get i hin]; exact h.rows_out i (by omega) hin
        · exact hrows_new i (by omega) hi2
      · intro _
        refine ⟨h0, ?_⟩
        show st.idx + 1 = (st.names ++ [cstr name]).length
        simp only [List.length_append, List.length_cons, List.length_nil]; omega
    · exact { phase := rfl, alen := rfl, bsl := rfl, bss := rfl, nblocks := rfl, rf := rfl, idx := rfl,
              nseq := by
                show (if inc = true then st.nseq + 1 else st.nseq) = _
                simp [hb],
              names := by
                show (st.names ++ [cstr name]).length = _
                simp [hb] }
  · have hb' : (st.nblocks == 0) = false := by simp [hb]
    simp only [hb', Bool.false_eq_true, if_false]
    have hns := h.later hb
    split
    · simp
    · rename_i hlt
      have hlt : st.idx < st.names.length := by omega
      cases hnm : st.names[st.idx]? with
      | none =>
        exfalso
        rw [List.getElem?_eq_getElem hlt] at hnm
        simp at hnm
      | some nm =>
        simp only
        split
        · simp
        · simp only [stepGood_inl]
          refine ⟨{ alloc := h.alloc, idx_le := by omega, rows_in := h.rows_in, rows_out := h.rows_out,
                    blk0 := fun h0 => absurd h0 hb, later := h.later }, ?_⟩
          exact { phase := rfl, alen := rfl, bsl := rfl, bss := rfl, nblocks := rfl, rf := rfl, idx := rfl,
                  nseq := by simp [hb], names := by simp [hb] }

/-- what `blkAppend` leaves alone / changes -/
structure AppendPost (st st' : BlkSt) : Prop where
  phase : st'.phase = st.phase
  alen : st'.alen = st.alen
  bsl : st'.bsl = st.bsl
  bss : st'.bss = st.bss
  nblocks : st'.nblocks = st.nblocks
  rf : st'.rf = st.rf
  idx : st'.idx = st.idx + 1
  nseq : st'.nseq = st.nseq
  names : st'.names = st.names

theorem rowLen_of_rowOkB (cfg : Cfg) (len : Nat) (r : Bytes) (h : rowOkB cfg.digital cfg.kp len r = true) :
    rowLen cfg.digital (some r) = len := by
  unfold rowOkB at h
  unfold rowLen
  cases hd : cfg.digital with
  | true =>
    simp only [hd, if_true] at h ⊢
    have := (dsqRowOk_codes _ _ _ h).2.2
    omega
  | false =>
    simp only [hd, Bool.false_eq_true, if_false, Bool.and_eq_true, beq_iff_eq] at h ⊢
    exact h.1

theorem blkAppend_inv (cfg : Cfg) (hv : cfg.valid) (st : BlkSt) (seq : Bytes) (h : BlkInvG 1 cfg st)
    (hbsl : st.bsl = seq.length) :
    StepGood (fun st' => BlkInv cfg st' ∧ AppendPost st st') (blkAppend cfg st seq) := by
  unfold blkAppend
  obtain ⟨hsq, hrl, hnl⟩ := h.alloc
  have hidx := h.idx_le
  have hlt : st.idx < st.rows.length := by omega
  cases hcur : st.rows[st.idx]? with
  | none =>
    exfalso
    rw [List.getElem?_eq_getElem hlt] at hcur
    simp at hcur
  | some cur =>
    simp only
    have hrow := h.rows_in st.idx cur (by omega) hcur
    have hlen : lenAt st st.idx = st.alen := by simp [lenAt]
    rw [hlen] at hrow
    have hne : ¬ ((rowLen cfg.digital cur != st.alen) = true) := by simp [hrow.1]
    rw [if_neg hne]
    have hcat := curOk_cat cfg hv cur seq hrow.2
    have hnexc : (if cfg.digital then dsqcat cfg.inmap cur seq else strmapcat cfg.inmap cur seq).1 ≠ .exc := by
      by_cases hd : cfg.digital = true
      · simp only [hd, if_true]; exact dsqcat_noExc _ hv.noExc _ _
      · simp only [hd, Bool.false_eq_true, if_false]; exact strmapcat_noExc _ hv.noExc _ _
    generalize (if cfg.digital then dsqcat cfg.inmap cur seq else strmapcat cfg.inmap cur seq) = cat at hcat hnexc
    split
    · simp
    · rename_i hexc; exact absurd hexc hnexc
    · split
      · simp
      · rename_i hlen2
        have hlen2 : rowLen cfg.digital cat.2 = st.alen + seq.length := by simpa using hlen2
        simp only [stepGood_inl]
        refine ⟨?_, { phase := rfl, alen := rfl, bsl := rfl, bss := rfl, nblocks := rfl, rf := rfl, idx := rfl, nseq := rfl, names := rfl }⟩
        refine { alloc := ⟨hsq, by show (st.rows.set st.idx cat.2).length = st.sqalloc; rw [List.length_set]; exact hrl, hnl⟩,
                 idx_le := by show st.idx + 1 + 0 ≤ st.names.length; omega,
                 rows_in := ?_, rows_out := ?_,
                 blk0 := fun h0 => by
                   have := h.blk0 h0
                   exact ⟨this.1, by show st.idx + 1 + 0 = st.names.length; omega⟩,
                 later := h.later }
        · intro i c hi hget
          have hget : (st.rows.set st.idx cat.2)[i]? = some c := hget
          show rowAt cfg (if i < st.idx + 1 then st.alen + st.bsl else st.alen) c
          by_cases hi2 : i = st.idx
          · subst hi2
            rw [List.getElem?_set_self hlt] at hget
            have hc : cat.2 = c := by simpa using hget
            subst hc
            have : st.idx < st.idx + 1 := by omega
            simp only [this, if_true]
            rw [hbsl]
            exact ⟨hlen2, hcat⟩
          · rw [List.getElem?_set_ne (Ne.symm hi2)] at hget
            have hold := h.rows_in i c hi hget
            unfold lenAt at hold
            by_cases hi3 : i < st.idx
            · have : i < st.idx + 1 := by omega
              simp only [hi3, if_true] at hold
              simp only [this, if_true]; exact hold
            · have : ¬ (i < st.idx + 1) := by omega
              simp only [hi3, if_false] at hold
              simp only [this, if_false]; exact hold
        · intro i hi hi2
          have hi2 : i < (st.rows.set st.idx cat.2).length := hi2
          rw [List.length_set] at hi2
          show (st.rows.set st.idx cat.2)[i]? = some none
          have hne2 : st.idx ≠ i := by
            have : st.names.length ≤ i := hi
            omega
          rw [List.getElem?_set_ne hne2]
          exact h.rows_out i hi hi2

theorem blkStore_inv (cfg : Cfg) (hv : cfg.valid) (inc : Bool) (st : BlkSt) (name seq : Bytes) (h : BlkInv cfg st)
    (hbsl : st.bsl = seq.length) :
    StepGood (fun st' => BlkInv cfg st' ∧ ∃ st1, NamePost inc st st1 ∧ AppendPost st1 st') (blkStore cfg inc st name seq) := by
  unfold blkStore
  have h1 := blkName_inv cfg inc st name h
  cases hn : blkName inc st name with
  | inr r => rw [hn] at h1; simpa using h1
  | inl st1 =>
    rw [hn] at h1
    simp only [stepGood_inl] at h1
    have h2 := blkAppend_inv cfg hv st1 seq h1.1 (by rw [h1.2.bsl]; exact hbsl)
    simp only
    cases ha : blkAppend cfg st1 seq with
    | inr r => rw [ha] at h2; simpa using h2
    | inl st2 =>
      rw [ha] at h2
      simp only [stepGood_inl] at h2 ⊢
      exact ⟨h2.1, st1, h1.2, h2.2⟩

/-! ## the returned alignment -/

theorem allSome_of (P : Bytes → Bool) : ∀ (l : List (Option Bytes)),
    (∀ i, i < l.length → ∃ r, l[i]? = some (some r) ∧ P r = true) →
    ∃ rows, allSome l = some rows ∧ rows.length = l.length ∧ rows.all P = true := by
  intro l
  induction l with
  | nil => intro _; exact ⟨[], rfl, rfl, rfl⟩
  | cons x rest ih =>
    intro h
    obtain ⟨r, hr, hp⟩ := h 0 (by simp)
    simp only [List.getElem?_cons_zero, Option.some.injEq] at hr
    subst hr
    obtain ⟨rows, h1, h2, h3⟩ := ih (fun i hi => by
      have := h (i + 1) (by simp; omega)
      simpa using this)
    refine ⟨r :: rows, by simp [allSome, h1], by simp [h2], by simp [hp, h3]⟩

theorem wellFormed_plain_rfopt (digital : Bool) (kp alen : Nat) (names rows : List Bytes) (rf : Option Bytes)
    (h1 : 1 ≤ names.length) (hr : rows.length = names.length) (hok : rows.all (rowOkB digital kp alen) = true)
    (hrf : optLenOk alen rf = true) :
    ({ digital := digital, kp := kp, alen := alen, names := names,
       aseq := if digital then [] else rows, ax := if digital then rows else [],
       hasw := false, wgt := List.replicate names.length Wgt.dflt, rf := rf } : Msa).wellFormed = true := by
  have hok' := List.all_eq_true.mp hok
  cases digital with
  | true =>
    simp [Msa.wellFormed, Msa.nseq, optLenOk, optRowsOk, hr, h1]
    refine ⟨?_, by simpa [optLenOk] using hrf⟩
    intro r hr'
    simpa [rowOkB] using hok' r hr'
  | false =>
    simp [Msa.wellFormed, Msa.nseq, optLenOk, optRowsOk, hr, h1]
    refine ⟨?_, by simpa [optLenOk] using hrf⟩
    intro r hr'
    simpa [rowOkB] using hok' r hr'

/-- at the end of a block (all `nseq` rows read, `alen` already advanced, `idx` irrelevant) the alignment is well formed -/
theorem blkResult_good (cfg : Cfg) (st : BlkSt) (rf : Option Bytes)
    (halloc : st.names.length ≤ st.rows.length)
    (hn : st.nseq = st.names.length) (h1 : 1 ≤ st.nseq) (ha : 1 ≤ st.alen)
    (hrows : ∀ i cur, i < st.names.length → st.rows[i]? = some cur → rowAt cfg st.alen cur)
    (hrf : optLenOk st.alen rf = true) :
    Good (blkResult cfg st rf) := by
  unfold blkResult
  have hne : ¬ ((st.names.length != st.nseq) = true) := by simp [hn]
  rw [if_neg hne]
  have hall := allSome_of (rowOkB cfg.digital cfg.kp st.alen) (st.rows.take st.nseq) (by
    intro i hi
    rw [List.length_take] at hi
    have hi1 : i < st.nseq := by omega
    have hi2 : i < st.rows.length := by omega
    rw [List.getElem?_take]
    simp only [hi1, if_true]
    have hg := List.getElem?_eq_getElem hi2
    obtain ⟨r, hr1, hr2⟩ := rowAt_some cfg st.alen _ (hrows i _ (by omega) hg) ha
    exact ⟨r, by rw [hg, hr1], hr2⟩)
  obtain ⟨rows, hr1, hr2, hr3⟩ := hall
  rw [hr1]
  simp only
  have hlen : rows.length = st.nseq := by
    rw [hr2, List.length_take]; omega
  have hne2 : ¬ ((rows.length != st.nseq) = true) := by simp [hlen]
  rw [if_neg hne2]
  simp only [Good]
  exact wellFormed_plain_rfopt cfg.digital cfg.kp st.alen st.names rows rf (by omega) (by omega) hr3 hrf

/-! ## the Clustal reader -/

/-- `clustalCols` delivers a name field and a non-empty sequence field inside the line -/
theorem clustalCols_ok (p : Bytes) (c : Cols) (h : clustalCols p = some c) :
    c.nameStart + c.nameLen ≤ p.length ∧ c.seqStart + c.seqLen ≤ p.length ∧ 1 ≤ c.seqLen := by
  unfold clustalCols at h
  simp only at h
  split at h
  · simp at h
  · rename_i hlt
    simp only [Option.some.injEq] at h
    subst h
    simp only
    generalize hA : scanTo (fun c => !isSpace c) p 0 = a at hlt ⊢
    generalize hB : scanTo isSpace p (a + 1) = b at hlt ⊢
    generalize hC : scanTo (fun c => !isSpace c) p (b + 1) = c3 at hlt ⊢
    have h1 : a + 1 ≤ b := by rw [← hB]; exact scanTo_ge _ _ _
    have h2 : b + 1 ≤ c3 := by rw [← hC]; exact scanTo_ge _ _ _
    have h3 : c3 + 1 ≤ scanTo isSpace p (c3 + 1) := scanTo_ge _ _ _
    have h4 : scanTo isSpace p (c3 + 1) ≤ p.length := scanTo_le _ _ _ (by omega)
    omega

/-- invariant of the Clustal reader at a `esl_msafile_GetLine` call -/
structure ClustalInv (cfg : Cfg) (st : BlkSt) : Prop where
  blk : BlkInv cfg st
  nseq : st.nseq = st.names.length
  fresh : st.phase = .lead ∨ st.phase = .hdr → st.nblocks = 0 ∧ st.names = []
  inb : st.phase = .inblock → 1 ≤ st.idx ∧ 1 ≤ st.bsl
  betw : st.phase = .between → 1 ≤ st.idx ∧ 1 ≤ st.bsl ∧ st.idx = st.nseq

theorem clustalInv_init (cfg : Cfg) : ClustalInv cfg {} :=
  { blk := blkInv_init cfg, nseq := rfl, fresh := fun _ => ⟨rfl, rfl⟩,
    inb := fun h => by simp at h, betw := fun h => by simp at h }

/-- what `setBlock` leaves alone -/
structure SetBlockPost (st st' : BlkSt) (c : Cols) : Prop where
  phase : st'.phase = st.phase
  sqalloc : st'.sqalloc = st.sqalloc
  names : st'.names = st.names
  rows : st'.rows = st.rows
  nblocks : st'.nblocks = st.nblocks
  idx : st'.idx = st.idx
  nseq : st'.nseq = st.nseq
  alen : st'.alen = st.alen
  rf : st'.rf = st.rf
  bsl : st'.bsl = c.seqLen

theorem setBlock_post (st : BlkSt) (c : Cols) (hs : st.idx ≠ 0 → c.seqLen = st.bsl) : SetBlockPost st (setBlock st c) c := by
  unfold setBlock
  by_cases hi : st.idx = 0
  · have : (st.idx == 0) = true := by simp [hi]
    simp only [this, if_true]
    exact ⟨rfl, rfl, rfl, rfl, rfl, rfl, rfl, rfl, rfl, rfl⟩
  · have : (st.idx == 0) = false := by simp [hi]
    simp only [this, Bool.false_eq_true, if_false]
    exact ⟨rfl, rfl, rfl, rfl, rfl, rfl, rfl, rfl, rfl, (hs hi).symm⟩

/-- the storage invariant looks at `sqalloc names rows nblocks idx nseq alen` and, for the rows already read in this block, `bsl` -/
theorem blkInv_congr (cfg : Cfg) (st st' : BlkSt) (h : BlkInv cfg st)
    (hsq : st'.sqalloc = st.sqalloc) (hnm : st'.names = st.names) (hrows : st'.rows = st.rows) (hnb : st'.nblocks = st.nblocks)
    (hidx : st'.idx = st.idx) (hns : st'.nseq = st.nseq) (hal : st'.alen = st.alen) (hbsl : st.idx ≠ 0 → st'.bsl = st.bsl) :
    BlkInv cfg st' :=
  { alloc := by rw [hsq, hnm, hrows]; exact h.alloc,
    idx_le := by rw [hidx, hnm]; exact h.idx_le,
    rows_in := by
      intro i cur hi hg
      rw [hnm] at hi; rw [hrows] at hg
      have := h.rows_in i cur hi hg
      unfold lenAt at this ⊢
      rw [hidx, hal]
      by_cases hlt : i < st.idx
      · simp only [hlt, if_true] at this ⊢
        rw [hbsl (by omega)]; exact this
      · simp only [hlt, if_false] at this ⊢; exact this,
    rows_out := by rw [hnm, hrows]; exact h.rows_out,
    blk0 := by rw [hnb, hal, hidx, hnm]; exact h.blk0,
    later := by rw [hnb, hns, hnm]; exact h.later }

/-- the misalignment tests, as a hypothesis -/
theorem misaligned_false (st : BlkSt) (c : Cols) (hs2 : ¬ ((st.idx != 0 && c.seqLen != st.bsl) = true)) :
    st.idx ≠ 0 → c.seqLen = st.bsl := by
  intro hi
  by_cases hx : c.seqLen = st.bsl
  · exact hx
  · exfalso; apply hs2; simp [hi, hx]

/-- a row line read with `idx`, `alen`, `nblocks` already set for it -/
theorem clustalSeqLine_inv (cfg : Cfg) (hv : cfg.valid) (st : BlkSt) (p : Bytes) (h : BlkInv cfg st)
    (hn : st.nseq = st.names.length) :
    StepGood (ClustalInv cfg) (clustalSeqLine cfg st p) := by
  unfold clustalSeqLine
  cases hc : clustalCols p with
  | none => simp
  | some c =>
    simp only
    obtain ⟨hc1, hc2, hc3⟩ := clustalCols_ok p c hc
    split
    · simp
    · split
      · simp
      · rename_i hs2
        obtain ⟨name, hname⟩ := slice_isSome p c.nameStart c.nameLen hc1
        obtain ⟨seq, hseq⟩ := slice_isSome p c.seqStart c.seqLen hc2
        rw [hname, hseq]
        simp only
        have hseqlen := slice_length _ _ _ _ hseq
        have hsb := setBlock_post st c (misaligned_false st c hs2)
        have hinv0 : BlkInv cfg { setBlock st c with phase := Phase.inblock } :=
          blkInv_congr cfg st _ h hsb.sqalloc hsb.names hsb.rows hsb.nblocks hsb.idx hsb.nseq hsb.alen
            (fun hne => by
              show (setBlock st c).bsl = st.bsl
              rw [hsb.bsl]; exact misaligned_false st c hs2 hne)
        have hs := blkStore_inv cfg hv true _ name seq hinv0 (by
          show (setBlock st c).bsl = seq.length
          rw [hsb.bsl, hseqlen])
        cases hbs : blkStore cfg true { setBlock st c with phase := Phase.inblock } name seq with
        | inr r => rw [hbs] at hs; simpa using hs
        | inl st2 =>
          rw [hbs] at hs
          simp only [stepGood_inl] at hs ⊢
          obtain ⟨hi2, st1, hnp, hap⟩ := hs
          have hphase : st2.phase = .inblock := by rw [hap.phase, hnp.phase]
          have e1 : st1.nseq = if st.nblocks = 0 ∧ true = true then st.nseq + 1 else st.nseq := by
            have := hnp.nseq
            have e2 : ({ setBlock st c with phase := Phase.inblock } : BlkSt).nblocks = st.nblocks := hsb.nblocks
            have e3 : ({ setBlock st c with phase := Phase.inblock } : BlkSt).nseq = st.nseq := hsb.nseq
            rw [e2, e3] at this; exact this
          have e4 : st1.names.length = if st.nblocks = 0 then st.names.length + 1 else st.names.length := by
            have := hnp.names
            have e2 : ({ setBlock st c with phase := Phase.inblock } : BlkSt).nblocks = st.nblocks := hsb.nblocks
            have e3 : ({ setBlock st c with phase := Phase.inblock } : BlkSt).names = st.names := hsb.names
            rw [e2, e3] at this; exact this
          refine { blk := hi2, nseq := ?_, fresh := ?_, inb := ?_, betw := ?_ }
          · rw [hap.nseq, hap.names, e1, e4]
            by_cases hb0 : st.nblocks = 0
            · simp [hb0, hn]
            · simp [hb0, hn]
          · intro hp; rw [hphase] at hp; simp at hp
          · intro _
            refine ⟨by rw [hap.idx]; omega, ?_⟩
            rw [hap.bsl, hnp.bsl]
            show 1 ≤ (setBlock st c).bsl
            rw [hsb.bsl]; exact hc3
          · intro hp; rw [hphase] at hp; simp at hp

theorem clustalStep_inv (like : Bool) (cfg : Cfg) (hv : cfg.valid) (st : BlkSt) (line : Bytes) (h : ClustalInv cfg st) :
    StepGood (ClustalInv cfg) (clustalStep like cfg st line) := by
  unfold clustalStep
  cases hp : st.phase with
  | lead =>
    simp only
    split
    · simpa using h
    · split
      · simp [clustalHdrMsg]
      · split
        · simp [clustalHdrMsg]
        · split
          · simp [clustalHdrMsg]
          · simp only [stepGood_inl]
            exact { blk := blkInv_phase cfg st _ h.blk, nseq := h.nseq, fresh := fun _ => h.fresh (Or.inl hp),
                    inb := fun hx => by simp at hx, betw := fun hx => by simp at hx }
  | hdr =>
    simp only
    split
    · simpa using h
    · obtain ⟨hnb, hnm⟩ := h.fresh (Or.inr hp)
      have hb := h.blk
      have hidx0 : st.idx = 0 := by
        have := hb.idx_le; rw [hnm] at this; simpa using this
      refine clustalSeqLine_inv cfg hv _ line ?_ h.nseq
      refine blkInv_newBlock cfg st _ hb rfl rfl rfl rfl ?_ (fun _ => ⟨(hb.blk0 hnb).1, by rw [hnm]; rfl⟩)
        (fun hne => absurd hnb hne)
      intro i _
      unfold lenAt
      rw [hidx0]
      simp
  | inblock =>
    simp only
    obtain ⟨hi1, hb1⟩ := h.inb hp
    split
    · exact clustalSeqLine_inv cfg hv st line h.blk h.nseq
    · split
      · simp
      · rename_i hidx
        have hidx : st.idx = st.nseq := by simpa using hidx
        simp only [stepGood_inl]
        exact { blk := blkInv_phase cfg st _ h.blk, nseq := h.nseq, fresh := fun hx => by simp at hx,
                inb := fun hx => by simp at hx, betw := fun _ => ⟨hi1, hb1, hidx⟩ }
  | between =>
    simp only
    obtain ⟨hi1, hb1, hidx⟩ := h.betw hp
    split
    · simpa using h
    · have hb := h.blk
      have hnseq := h.nseq
      refine clustalSeqLine_inv cfg hv _ line ?_ hnseq
      refine blkInv_newBlock cfg st _ hb rfl rfl rfl rfl ?_ (fun h0 => by simp at h0) (fun _ => hnseq)
      intro i hi
      unfold lenAt
      have hlt : i < st.idx := by omega
      simp only [hlt, if_true]

theorem clustalFinish_good (cfg : Cfg) (st : BlkSt) (h : ClustalInv cfg st) : Good (clustalFinish cfg st) := by
  unfold clustalFinish
  cases hp : st.phase with
  | lead => simp
  | hdr => simp
  | inblock => simp
  | between =>
    simp only
    obtain ⟨hi1, hb1, hidx⟩ := h.betw hp
    have hb := h.blk
    apply blkResult_good
    · show st.names.length ≤ st.rows.length
      have := hb.alloc; omega
    · exact h.nseq
    · show 1 ≤ st.nseq; omega
    · show 1 ≤ st.alen + st.bsl; omega
    · intro i cur hi hg
      have hi : i < st.names.length := hi
      have := hb.rows_in i cur hi hg
      unfold lenAt at this
      have hlt : i < st.idx := by have := h.nseq; omega
      simp only [hlt, if_true] at this
      exact this
    · rfl

/-- **Clustal / Clustal-like reader, every input**: the outcome of `esl_msafile_clustal_Read` is a documented normal one
    and a returned alignment is well formed -/
theorem clustalRead_good (like : Bool) (cfg : Cfg) (hv : cfg.valid) (lines : List Bytes) : Good (clustalRead like cfg lines).1 :=
  runLines_inv (clustalStep like cfg) (clustalFinish cfg) (ClustalInv cfg) Good
    (fun st l h => clustalStep_inv like cfg hv st l h) (fun st h => clustalFinish_good cfg st h) lines {} (clustalInv_init cfg)

/-! ## success is only declared at end of input -/

theorem blkName_notOk (inc : Bool) (st : BlkSt) (name : Bytes) : NotOk (blkName inc st name) := by
  unfold blkName
  split
  · simp
  unfold blkNameCore
  simp only
  split
  · split <;> simp
  · split
    · simp
    · split
      · simp
      · split <;> simp

theorem blkAppend_notOk (cfg : Cfg) (st : BlkSt) (seq : Bytes) : NotOk (blkAppend cfg st seq) := by
  unfold blkAppend
  split
  · simp
  · split
    · simp
    · simp only
      generalize (if cfg.digital then dsqcat cfg.inmap _ seq else strmapcat cfg.inmap _ seq) = cat
      split
      · simp
      · simp
      · split <;> simp

theorem blkStore_notOk (cfg : Cfg) (inc : Bool) (st : BlkSt) (name seq : Bytes) : NotOk (blkStore cfg inc st name seq) := by
  unfold blkStore
  cases hn : blkName inc st name with
  | inr r =>
    have := blkName_notOk inc st name
    rw [hn] at this
    exact this
  | inl st1 => exact blkAppend_notOk cfg st1 seq

theorem clustalSeqLine_notOk (cfg : Cfg) (st : BlkSt) (p : Bytes) : NotOk (clustalSeqLine cfg st p) := by
  unfold clustalSeqLine
  split
  · simp
  · split
    · simp
    · split
      · simp
      · split
        · exact blkStore_notOk _ _ _ _ _
        · simp

theorem clustalStep_notOk (like : Bool) (cfg : Cfg) (st : BlkSt) (l : Bytes) : NotOk (clustalStep like cfg st l) := by
  unfold clustalStep
  split
  · split
    · simp
    · split
      · simp
      · split
        · simp
        · split <;> simp
  · split
    · simp
    · exact clustalSeqLine_notOk _ _ _
  · split
    · exact clustalSeqLine_notOk _ _ _
    · split <;> simp
  · split
    · simp
    · exact clustalSeqLine_notOk _ _ _

/-- after a successful Clustal read nothing is left: the next `esl_msafile_Read` returns eslEOF -/
theorem clustalRead_ok_consumes (like : Bool) (cfg : Cfg) (lines : List Bytes) (m : Msa)
    (h : (clustalRead like cfg lines).1 = .ok m) :
    (clustalRead like cfg lines).2 = [] ∧ (clustalRead like cfg (clustalRead like cfg lines).2).1 = .eof := by
  have h1 := runLines_finish_consumes (clustalStep like cfg) (clustalFinish cfg) (fun r => ∃ m, r = .ok m)
    (fun st l r hs => by
      intro ⟨m, hm⟩
      subst hm
      exact clustalStep_notOk like cfg st l m hs) lines {} ⟨m, h⟩
  refine ⟨h1, ?_⟩
  have : (clustalRead like cfg lines).2 = [] := h1
  rw [this]
  simp [clustalRead, runLines, clustalFinish]

end EaselModel.Msafile
