import EaselModel.Msafile.SelexRoundTrip
import EaselModel.Msafile.SelexWritable
/-! SELEX round trip WITH annotation lines (C03): `#=CS`, `#=RF`, `#=MM` in front of the sequence lines of every block,
`#=SS` / `#=SA` after the sequence line they belong to, each independently present or absent.

Every line of a block is `tag field (w columns) + blank + chunk` (`sxLine`), `w = max 4 (longest name)`, so the tags
`#=XX` (4 characters) fit and every chunk starts at column `w + 1`.  The proof follows the line `Slot`s of a block
(`layout`): the state of the reader between two lines of `selex_append_block` is described by a function
`pf : Slot → Nat` giving the number of columns every row pointer holds. -/
namespace EaselModel.Msafile

/-! ## slots and lines -/

def Slot.ty : Slot → LType
  | .sq _ => .sq | .rf => .rf | .mm => .mm | .cs => .cs | .ss _ => .ss | .sa _ => .sa

/-- the block record of a written line of type `ty`, after `selex_first_block` / `selex_other_block` -/
def gBLine (ty : LType) (w : Nat) (tag chunk : Bytes) : BLine := { ty := ty, line := sxLine w tag chunk, lpos := (w : Int) + 1 }

/-- … and after the first loop of `selex_append_block` -/
def gBLineF (ty : LType) (w L : Nat) (tag chunk : Bytes) : BLine :=
  { ty := ty, line := sxLine w tag chunk, lpos := (w : Int) + 1, rpos := (w : Int) + L }

theorem fixPos_gBLine (ty : LType) (w L : Nat) (tag chunk : Bytes) (hw : tag.length ≤ w) (hc : SxChunkOk L chunk) :
    fixPos (gBLine ty w tag chunk) = gBLineF ty w L tag chunk := by
  have hp := hc.pos
  unfold fixPos gBLine gBLineF
  simp only [rposScan_sxLine w L tag chunk hw hc]
  have h1 : ¬ ((w : Int) + L < (w : Int) + 1) := by omega
  simp only [h1, if_false]

/-- an annotation line: `memcpy` of the chunk behind the `alen` columns the row holds -/
theorem buildAnnRow_chunk (codes chunk : Bytes) (alen L : Nat) (hlen : alen ≤ codes.length) (hL : chunk.length = L)
    (hnz : ∀ t ∈ chunk, t ≠ 0) :
    buildAnnRow alen L 0 L chunk (sxRowAt false codes alen) = .inr (sxRow false (codes.take alen ++ chunk)) := by
  have hold : ((sxRowAt false codes alen).getD []).take alen = codes.take alen ∧ alen ≤ ((sxRowAt false codes alen).getD []).length := by
    unfold sxRowAt
    by_cases h0 : alen = 0
    · subst h0; simp
    · simp only [h0, if_false, Option.getD_some, sxRow, Bool.false_eq_true]
      constructor
      · rw [List.take_append_of_le_length (by simp; omega), List.take_take]; simp
      · simp; omega
  obtain ⟨R, hR, hRl⟩ := realloc_split 0 (sxRowAt false codes alen) (alen + L + 1) alen (by omega) hold.2
  rw [hold.1] at hR
  have hfill := fillRow_eq (realloc 0 (sxRowAt false codes alen) (alen + L + 1)) (codes.take alen) R 0 alen L 0 chunk [] 46 0
    hR (by simp; omega) (by omega) (by simp [hL]) (by simp)
  have hc0 : chunk.contains 0 = false := by
    rw [Bool.eq_false_iff]
    intro h
    exact hnz 0 (by simpa using h) rfl
  unfold buildAnnRow
  simp only [hc0, Bool.and_false, Bool.false_eq_true, if_false, hfill]
  simp [hL, sxRow]

/-- the storage mode of the row a slot points to -/
def slotDig (cfg : Cfg) : Slot → Bool
  | .sq _ => cfg.digital
  | _ => false

/-- one line of `selex_append_block`, for any line type: the row the slot points to grows by the chunk -/
theorem appendLine_any (cfg : Cfg) (e : UInt8 → UInt8) (w L : Nat) (s : Slot) (tag chunk codes : Bytes) (a seqi : Nat) (M : SxMsa)
    (hslot : slotOf s.ty seqi = some s) (hw : tag.length ≤ w) (hc : SxChunkOk L chunk) (hlen : a ≤ codes.length)
    (hget : M.get s = some (sxRowAt (slotDig cfg s) codes a))
    (hmap : s.ty = .sq → ∀ t ∈ chunk, mapByte cfg.inmap t = (.ok, some (e t)))
    (hid : s.ty ≠ .sq → e = id) :
    appendLine cfg a L ((w : Int) + 1) seqi M (gBLineF s.ty w L tag chunk)
      = .inr (M.set s (sxRow (slotDig cfg s) (codes.take a ++ chunk.map e))) := by
  have hp := hc.pos
  have hsrc : ((sxLine w tag chunk).drop (w + 1)).take L = chunk := by
    rw [sxLine_drop w tag chunk hw, ← hc.len, List.take_length]
  have hll := sxLine_length w L tag chunk hw hc
  have e1 : ((w : Int) + 1 != -1) = true := by simp; omega
  have e2 : (w : Int) + 1 - ((w : Int) + 1) = 0 := by omega
  have e3 : (w : Int) + L - ((w : Int) + 1) + 1 = (L : Int) := by omega
  have e4 : (decide ((0 : Int) < 0) || decide ((L : Int) < 0)) = false := by simp
  have e6 : ((w : Int) + 1).toNat = w + 1 := by omega
  have e7 : (L : Int).toNat = L := by omega
  have e8 : (0 : Int).toNat = 0 := rfl
  unfold appendLine
  simp only [gBLineF, e1, if_true, e2, e3, e4, Bool.false_eq_true, if_false, e6, e7, e8, hsrc, hslot, hget]
  cases s with
  | sq i =>
    have hb := buildSeqRow_chunk cfg e codes chunk a L hlen hc.len (hmap rfl)
    simp only [Slot.ty, slotDig, beq_self_eq_true, if_true] at hb ⊢
    rw [hb]
    split
    · next h => exfalso; rw [hll] at h; simp at h; have h2 := of_decide_eq_true h.2; omega
    · rfl
  | rf =>
    have he := hid (by simp [Slot.ty]); subst he
    have hb := buildAnnRow_chunk codes chunk a L hlen hc.len (fun t ht => (hc.ns t ht).2)
    have hne : (LType.rf == LType.sq) = false := rfl
    simp only [Slot.ty, slotDig, hne, Bool.false_eq_true, if_false, List.map_id] at hb ⊢
    rw [hb]
    split
    · next h => exfalso; rw [hll] at h; simp at h; have h2 := of_decide_eq_true h.2; omega
    · rfl
  | mm =>
    have he := hid (by simp [Slot.ty]); subst he
    have hb := buildAnnRow_chunk codes chunk a L hlen hc.len (fun t ht => (hc.ns t ht).2)
    have hne : (LType.mm == LType.sq) = false := rfl
    simp only [Slot.ty, slotDig, hne, Bool.false_eq_true, if_false, List.map_id] at hb ⊢
    rw [hb]
    split
    · next h => exfalso; rw [hll] at h; simp at h; have h2 := of_decide_eq_true h.2; omega
    · rfl
  | cs =>
    have he := hid (by simp [Slot.ty]); subst he
    have hb := buildAnnRow_chunk codes chunk a L hlen hc.len (fun t ht => (hc.ns t ht).2)
    have hne : (LType.cs == LType.sq) = false := rfl
    simp only [Slot.ty, slotDig, hne, Bool.false_eq_true, if_false, List.map_id] at hb ⊢
    rw [hb]
    split
    · next h => exfalso; rw [hll] at h; simp at h; have h2 := of_decide_eq_true h.2; omega
    · rfl
  | ss i =>
    have he := hid (by simp [Slot.ty]); subst he
    have hb := buildAnnRow_chunk codes chunk a L hlen hc.len (fun t ht => (hc.ns t ht).2)
    have hne : (LType.ss == LType.sq) = false := rfl
    simp only [Slot.ty, slotDig, hne, Bool.false_eq_true, if_false, List.map_id] at hb ⊢
    rw [hb]
    split
    · next h => exfalso; rw [hll] at h; simp at h; have h2 := of_decide_eq_true h.2; omega
    · rfl
  | sa i =>
    have he := hid (by simp [Slot.ty]); subst he
    have hb := buildAnnRow_chunk codes chunk a L hlen hc.len (fun t ht => (hc.ns t ht).2)
    have hne : (LType.sa == LType.sq) = false := rfl
    simp only [Slot.ty, slotDig, hne, Bool.false_eq_true, if_false, List.map_id] at hb ⊢
    rw [hb]
    split
    · next h => exfalso; rw [hll] at h; simp at h; have h2 := of_decide_eq_true h.2; omega
    · rfl

/-! ## the alignment under construction, slot by slot -/

def slotTag (m : Msa) : Slot → Bytes
  | .sq i => m.names.getD i [] | .rf => pfxRF | .mm => pfxMM | .cs => pfxCS | .ss _ => pfxSS | .sa _ => pfxSA

/-- the text written for the row a slot points to, all columns -/
def slotText (txt : Nat → Bytes) (m : Msa) : Slot → Bytes
  | .sq i => txt i | .rf => m.rf.getD [] | .mm => m.mm.getD [] | .cs => m.ssCons.getD []
  | .ss i => (optRow m.ss i).getD [] | .sa i => (optRow m.sa i).getD []

/-- written symbol to stored symbol: the input map for sequence lines, nothing for annotation lines (`memcpy`) -/
def slotEnc (enc : UInt8 → UInt8) : Slot → UInt8 → UInt8
  | .sq _ => enc | _ => id

def slotCodes (enc : UInt8 → UInt8) (txt : Nat → Bytes) (m : Msa) (s : Slot) : Bytes := (slotText txt m s).map (slotEnc enc s)

def slotChunk (txt : Nat → Bytes) (m : Msa) (pos : Nat) (s : Slot) : Bytes := ((slotText txt m s).drop pos).take 60

/-- the slots the writer prints a line for -/
def slotValid (m : Msa) : Slot → Prop
  | .sq i => i < m.nseq | .rf => m.rf.isSome = true | .mm => m.mm.isSome = true | .cs => m.ssCons.isSome = true
  | .ss i => i < m.nseq ∧ (optRow m.ss i).isSome = true | .sa i => i < m.nseq ∧ (optRow m.sa i).isSome = true

def annAt (o : Option Bytes) (p : Nat) : Option Bytes := o.bind fun x => sxRowAt false x p

def hasAnn (n : Nat) (o : OptRows) : Bool := (List.range n).any fun i => (optRow o i).isSome

/-- the alignment under construction when the row of slot `s` holds `pf s` columns -/
def gAt (cfg : Cfg) (enc : UInt8 → UInt8) (txt : Nat → Bytes) (m : Msa) (pf : Slot → Nat) (a : Nat) : SxMsa :=
  { nseq := m.nseq, names := m.names,
    rows := (List.range m.nseq).map fun i => sxRowAt cfg.digital ((txt i).map enc) (pf (.sq i)),
    alen := a,
    rf := annAt m.rf (pf .rf), mm := annAt m.mm (pf .mm), cs := annAt m.ssCons (pf .cs),
    ss := if hasAnn m.nseq m.ss then some ((List.range m.nseq).map fun i => annAt (optRow m.ss i) (pf (.ss i))) else none,
    sa := if hasAnn m.nseq m.sa then some ((List.range m.nseq).map fun i => annAt (optRow m.sa i) (pf (.sa i))) else none }

theorem hasAnn_of (n : Nat) (o : OptRows) (i : Nat) (hi : i < n) (h : (optRow o i).isSome = true) : hasAnn n o = true := by
  unfold hasAnn
  rw [List.any_eq_true]
  exact ⟨i, List.mem_range.mpr hi, h⟩

theorem annAt_some (o : Option Bytes) (p : Nat) (h : o.isSome = true) : annAt o p = sxRowAt false ((o.getD []).map id) p := by
  cases o with
  | none => simp at h
  | some x => simp [annAt]

theorem gAt_get (cfg : Cfg) (enc : UInt8 → UInt8) (txt : Nat → Bytes) (m : Msa) (pf : Slot → Nat) (a : Nat) (s : Slot)
    (hv : slotValid m s) :
    (gAt cfg enc txt m pf a).get s = some (sxRowAt (slotDig cfg s) (slotCodes enc txt m s) (pf s)) := by
  cases s with
  | sq i =>
    have hv' : i < m.nseq := hv
    simp [gAt, SxMsa.get, hv', slotDig, slotCodes, slotText, slotEnc]
  | rf => simp only [gAt, SxMsa.get, slotDig, slotCodes, slotText, slotEnc]; rw [annAt_some _ _ hv]
  | mm => simp only [gAt, SxMsa.get, slotDig, slotCodes, slotText, slotEnc]; rw [annAt_some _ _ hv]
  | cs => simp only [gAt, SxMsa.get, slotDig, slotCodes, slotText, slotEnc]; rw [annAt_some _ _ hv]
  | ss i =>
    obtain ⟨hi, hs⟩ := hv
    simp only [gAt, SxMsa.get, slotDig, slotCodes, slotText, slotEnc, hasAnn_of _ _ i hi hs, if_true]
    rw [← annAt_some _ _ hs]
    simp [hi]
  | sa i =>
    obtain ⟨hi, hs⟩ := hv
    simp only [gAt, SxMsa.get, slotDig, slotCodes, slotText, slotEnc, hasAnn_of _ _ i hi hs, if_true]
    rw [← annAt_some _ _ hs]
    simp [hi]

theorem rangeMap_set' {α : Type} (n i : Nat) (f g : Nat → α) (v : α) (hi : g i = v) (hne : ∀ j, j ≠ i → g j = f j) :
    ((List.range n).map f).set i v = (List.range n).map g := by
  apply List.ext_getElem?
  intro j
  rw [List.getElem?_set]
  by_cases hj : j < n
  · by_cases hij : i = j
    · subst hij; simp [hj, hi]
    · have := hne j (fun h => hij h.symm)
      simp [hij, hj, this]
  · by_cases hij : i = j
    · subst hij; simp [hj]
    · simp [hij, hj]

/-- the function `pf` with the value at `s` replaced -/
def pfSet (pf : Slot → Nat) (s : Slot) (q : Nat) : Slot → Nat := fun s' => if s' = s then q else pf s'

theorem gAt_set (cfg : Cfg) (enc : UInt8 → UInt8) (txt : Nat → Bytes) (m : Msa) (pf : Slot → Nat) (a : Nat) (s : Slot)
    (hv : slotValid m s) (q : Nat) (row : Bytes) (hrow : some row = sxRowAt (slotDig cfg s) (slotCodes enc txt m s) q) :
    (gAt cfg enc txt m pf a).set s row = gAt cfg enc txt m (pfSet pf s q) a := by
  cases s with
  | sq i =>
    simp only [slotDig, slotCodes, slotText, slotEnc] at hrow
    simp only [gAt, SxMsa.set, pfSet, reduceCtorEq, if_false]
    congr 1
    apply rangeMap_set'
    · simp [hrow]
    · intro j hj; simp [hj]
  | rf =>
    have hrow' : some row = annAt m.rf q := by rw [annAt_some _ _ hv]; exact hrow
    simp only [gAt, SxMsa.set, pfSet, reduceCtorEq, if_false, if_true, hrow']
  | mm =>
    have hrow' : some row = annAt m.mm q := by rw [annAt_some _ _ hv]; exact hrow
    simp only [gAt, SxMsa.set, pfSet, reduceCtorEq, if_false, if_true, hrow']
  | cs =>
    have hrow' : some row = annAt m.ssCons q := by rw [annAt_some _ _ hv]; exact hrow
    simp only [gAt, SxMsa.set, pfSet, reduceCtorEq, if_false, if_true, hrow']
  | ss i =>
    obtain ⟨hi, hs⟩ := hv
    have hrow' : some row = annAt (optRow m.ss i) q := by rw [annAt_some _ _ hs]; exact hrow
    simp only [gAt, SxMsa.set, pfSet, reduceCtorEq, if_false, hasAnn_of _ _ i hi hs, if_true, Option.map_some]
    congr 2
    apply rangeMap_set'
    · simp [hrow']
    · intro j hj; simp [hj]
  | sa i =>
    obtain ⟨hi, hs⟩ := hv
    have hrow' : some row = annAt (optRow m.sa i) q := by rw [annAt_some _ _ hs]; exact hrow
    simp only [gAt, SxMsa.set, pfSet, reduceCtorEq, if_false, hasAnn_of _ _ i hi hs, if_true, Option.map_some]
    congr 2
    apply rangeMap_set'
    · simp [hrow']
    · intro j hj; simp [hj]

/-! ## `selex_append_block` over the lines of a written block -/

/-- `seqi` (the number of sequence lines seen) selects every slot of the list in turn -/
def seqiOk : List Slot → Nat → Prop
  | [], _ => True
  | s :: r, k => slotOf s.ty k = some s ∧ seqiOk r (if s.ty == .sq then k + 1 else k)

/-- what the line written for slot `s` in the block at column `pos` (of `L` columns) satisfies -/
structure ItemG (cfg : Cfg) (enc : UInt8 → UInt8) (txt : Nat → Bytes) (m : Msa) (L pos : Nat) (s : Slot) : Prop where
  valid : slotValid m s
  tag : nameOk (slotTag m s)
  wlen : (slotTag m s).length ≤ selexNameLen m
  chunk : SxChunkOk L (slotChunk txt m pos s)
  clen : pos ≤ (slotCodes enc txt m s).length
  map : s.ty = .sq → ∀ t ∈ slotChunk txt m pos s, mapByte cfg.inmap t = (.ok, some (enc t))
  lty : ltypeOf (sxLine (selexNameLen m) (slotTag m s) (slotChunk txt m pos s)) = s.ty
  notc : isComment (sxLine (selexNameLen m) (slotTag m s) (slotChunk txt m pos s)) = false

def gBL (txt : Nat → Bytes) (m : Msa) (pos : Nat) (s : Slot) : BLine :=
  gBLine s.ty (selexNameLen m) (slotTag m s) (slotChunk txt m pos s)

def gBLF (txt : Nat → Bytes) (m : Msa) (L pos : Nat) (s : Slot) : BLine :=
  gBLineF s.ty (selexNameLen m) L (slotTag m s) (slotChunk txt m pos s)

theorem slotEnc_id (enc : UInt8 → UInt8) (s : Slot) (h : s.ty ≠ .sq) : slotEnc enc s = id := by
  cases s <;> first | rfl | exact absurd rfl h

theorem slotEnc_sq (enc : UInt8 → UInt8) (s : Slot) (h : s.ty = .sq) : slotEnc enc s = enc := by
  cases s <;> first | rfl | (simp [Slot.ty] at h)

theorem appendLines_g (cfg : Cfg) (enc : UInt8 → UInt8) (txt : Nat → Bytes) (m : Msa) (L pos : Nat) :
    ∀ (slots : List Slot) (seqi : Nat) (pf : Slot → Nat), seqiOk slots seqi → slots.Nodup →
      (∀ s ∈ slots, ItemG cfg enc txt m L pos s ∧ pf s = pos) →
      ∃ pf', appendLines cfg pos L ((selexNameLen m : Int) + 1) (slots.map (gBLF txt m L pos)) seqi (gAt cfg enc txt m pf pos)
          = .inr (gAt cfg enc txt m pf' pos) ∧ ∀ s, pf' s = if s ∈ slots then pos + 60 else pf s := by
  intro slots
  induction slots with
  | nil => intro seqi pf _ _ _; exact ⟨pf, rfl, fun s => by simp⟩
  | cons s0 rest ih =>
    intro seqi pf hsq hnd hit
    obtain ⟨hs0, hsr⟩ := hsq
    obtain ⟨hnot, hndr⟩ := List.nodup_cons.mp hnd
    obtain ⟨hI, hpf⟩ := hit s0 (by simp)
    have hstep : appendLine cfg pos L ((selexNameLen m : Int) + 1) seqi (gAt cfg enc txt m pf pos) (gBLF txt m L pos s0)
        = Sum.inr ((gAt cfg enc txt m pf pos).set s0 (sxRow (slotDig cfg s0)
            ((slotCodes enc txt m s0).take pos ++ (slotChunk txt m pos s0).map (slotEnc enc s0)))) :=
      appendLine_any cfg (slotEnc enc s0) (selexNameLen m) L s0 (slotTag m s0) (slotChunk txt m pos s0)
        (slotCodes enc txt m s0) pos seqi (gAt cfg enc txt m pf pos) hs0 hI.wlen hI.chunk hI.clen
        (by rw [gAt_get cfg enc txt m pf pos s0 hI.valid, hpf])
        (fun hty t ht => by rw [slotEnc_sq enc s0 hty]; exact hI.map hty t ht)
        (slotEnc_id enc s0)
    have hrow : some (sxRow (slotDig cfg s0) ((slotCodes enc txt m s0).take pos ++ (slotChunk txt m pos s0).map (slotEnc enc s0)))
        = sxRowAt (slotDig cfg s0) (slotCodes enc txt m s0) (pos + 60) :=
      sxRow_step (slotDig cfg s0) (slotEnc enc s0) (slotText txt m s0) pos
    rw [gAt_set cfg enc txt m pf pos s0 hI.valid (pos + 60) _ hrow] at hstep
    obtain ⟨pf', happ, hpf'⟩ := ih (if s0.ty == .sq then seqi + 1 else seqi) (pfSet pf s0 (pos + 60)) hsr hndr
      (fun s hs => ⟨(hit s (by simp [hs])).1, by
        have hne : s ≠ s0 := fun h => hnot (h ▸ hs)
        simp only [pfSet, hne, if_false]
        exact (hit s (by simp [hs])).2⟩)
    refine ⟨pf', ?_, ?_⟩
    · simp only [List.map_cons, appendLines, hstep]
      exact happ
    · intro s
      rw [hpf' s]
      by_cases hs : s ∈ rest
      · simp [hs]
      · by_cases hs0' : s = s0
        · subst hs0'; simp [hs, pfSet]
        · simp [hs, hs0', pfSet]

/-- `gAt` looks at the value of `pf` on the valid slots only -/
theorem gAt_congr (cfg : Cfg) (enc : UInt8 → UInt8) (txt : Nat → Bytes) (m : Msa) (pf pf' : Slot → Nat) (a : Nat)
    (h : ∀ s, slotValid m s → pf s = pf' s) : gAt cfg enc txt m pf a = gAt cfg enc txt m pf' a := by
  have hann : ∀ (o : Option Bytes) (p p' : Nat), (o.isSome = true → p = p') → annAt o p = annAt o p' := by
    intro o p p' hp
    cases o with
    | none => rfl
    | some x => rw [hp rfl]
  unfold gAt
  congr 1
  · apply List.map_congr_left
    intro i hi
    rw [h (.sq i) (List.mem_range.mp hi)]
  · exact hann _ _ _ (fun hs => h .rf hs)
  · exact hann _ _ _ (fun hs => h .mm hs)
  · exact hann _ _ _ (fun hs => h .cs hs)
  · congr 2
    apply List.map_congr_left
    intro i hi
    exact hann _ _ _ (fun hs => h (.ss i) ⟨List.mem_range.mp hi, hs⟩)
  · congr 2
    apply List.map_congr_left
    intro i hi
    exact hann _ _ _ (fun hs => h (.sa i) ⟨List.mem_range.mp hi, hs⟩)

/-- the state between two blocks, `p` columns read -/
def gAtP (cfg : Cfg) (enc : UInt8 → UInt8) (txt : Nat → Bytes) (m : Msa) (p : Nat) : SxMsa :=
  gAt cfg enc txt m (fun _ => p) (min p m.alen)

/-- `selex_append_block` on one written block: every row grows by its chunk, nothing is padded -/
theorem appendBlock_g (cfg : Cfg) (enc : UInt8 → UInt8) (txt : Nat → Bytes) (m : Msa) (pos : Nat) (hp : pos < m.alen)
    (slots : List Slot) (hne : slots ≠ []) (hsq : seqiOk slots 0) (hnd : slots.Nodup)
    (hit : ∀ s ∈ slots, ItemG cfg enc txt m (min 60 (m.alen - pos)) pos s) (hall : ∀ s, slotValid m s → s ∈ slots) :
    appendBlock cfg (gAtP cfg enc txt m pos) (slots.map (gBL txt m pos)) = .inr (gAtP cfg enc txt m (pos + 60)) := by
  have hL : 1 ≤ min 60 (m.alen - pos) := by omega
  have hfix : (slots.map (gBL txt m pos)).map fixPos = slots.map (gBLF txt m (min 60 (m.alen - pos)) pos) := by
    rw [List.map_map]
    apply List.map_congr_left
    intro s hs
    exact fixPos_gBLine s.ty _ _ _ _ (hit s hs).wlen (hit s hs).chunk
  have hmin : min pos m.alen = pos := by omega
  obtain ⟨pf', happ, hpf'⟩ := appendLines_g cfg enc txt m (min 60 (m.alen - pos)) pos slots 0 (fun _ => pos) hsq hnd
    (fun s hs => ⟨hit s hs, rfl⟩)
  cases slots with
  | nil => exact absurd rfl hne
  | cons s0 rest =>
    have hlm : leftmostOf (gBLF txt m (min 60 (m.alen - pos)) pos s0) (rest.map (gBLF txt m (min 60 (m.alen - pos)) pos))
        = (selexNameLen m : Int) + 1 :=
      leftmost_const _ (by omega) _ _ rfl (fun b hb => by
        obtain ⟨s, _, rfl⟩ := List.mem_map.mp hb; rfl)
    have hrm : rightmostOf (gBLF txt m (min 60 (m.alen - pos)) pos s0) (rest.map (gBLF txt m (min 60 (m.alen - pos)) pos))
        = (selexNameLen m : Int) + (min 60 (m.alen - pos) : Nat) :=
      rightmost_const _ (by omega) _ _ rfl (fun b hb => by
        obtain ⟨s, _, rfl⟩ := List.mem_map.mp hb; rfl)
    unfold appendBlock
    rw [hfix]
    simp only [List.map_cons, hlm, hrm]
    have e1 : ((selexNameLen m : Int) + (min 60 (m.alen - pos) : Nat) == -1) = false := by simp; omega
    have e2 : (selexNameLen m : Int) + (min 60 (m.alen - pos) : Nat) - ((selexNameLen m : Int) + 1) + 1 = ((min 60 (m.alen - pos) : Nat) : Int) := by omega
    have e3 : ¬ (((min 60 (m.alen - pos) : Nat) : Int) < 0) := by omega
    have e4 : (((min 60 (m.alen - pos) : Nat) : Int)).toNat = min 60 (m.alen - pos) := by omega
    simp only [e1, Bool.false_eq_true, if_false, e2, e3, e4]
    have hal : (gAtP cfg enc txt m pos).alen = pos := hmin
    have hst : gAtP cfg enc txt m pos = gAt cfg enc txt m (fun _ => pos) pos := by unfold gAtP; rw [hmin]
    simp only [List.map_cons] at happ
    rw [hal, hst, happ]
    simp only
    have hfin : gAt cfg enc txt m pf' pos = gAt cfg enc txt m (fun _ => pos + 60) pos :=
      gAt_congr cfg enc txt m pf' _ pos (fun s hv => by rw [hpf' s]; simp [hall s hv])
    rw [hfin]
    unfold gAtP gAt
    have : min (pos + 60) m.alen = pos + min 60 (m.alen - pos) := by omega
    simp only [this]

/-! ## `selex_first_block` / `selex_other_block` over the lines of a written block -/

def gLine (txt : Nat → Bytes) (m : Msa) (pos : Nat) (s : Slot) : Bytes :=
  sxLine (selexNameLen m) (slotTag m s) (slotChunk txt m pos s)

/-- none of the six tests of `selex_first_block` fails along the list of line types -/
def scanOk : List LType → Cnt → Prop
  | [], _ => True
  | t :: r, c => (c.bump t).err = none ∧ scanOk r (c.bump t)

theorem firstScan_g : ∀ (ls : List Bytes) (c : Cnt), scanOk (ls.map ltypeOf) c →
    firstScan ls c = .inr (ls.map ltypeOf, (ls.map ltypeOf).foldl Cnt.bump c) := by
  intro ls
  induction ls with
  | nil => intro c _; rfl
  | cons l ls ih =>
    intro c h
    obtain ⟨h1, h2⟩ := h
    unfold firstScan
    simp only [h1, ih _ h2, List.map_cons, List.foldl_cons]

/-- the names `selex_first_block` stores: the tags of the sequence lines -/
def sqNames (m : Msa) (slots : List Slot) : List Bytes :=
  slots.flatMap fun s => match s with | .sq i => [m.names.getD i []] | _ => []

theorem slot_sq_of_ty (s : Slot) (h : s.ty = .sq) : ∃ i, s = .sq i := by
  cases s <;> first | exact ⟨_, rfl⟩ | (simp [Slot.ty] at h)

theorem sqNames_cons_ne (m : Msa) (s : Slot) (r : List Slot) (h : s.ty ≠ .sq) : sqNames m (s :: r) = sqNames m r := by
  cases s <;> first | rfl | exact absurd rfl h

theorem firstNames_g (cfg : Cfg) (enc : UInt8 → UInt8) (txt : Nat → Bytes) (m : Msa) (L pos n : Nat) :
    ∀ (slots : List Slot) (seqi : Nat), seqiOk slots seqi → (∀ s ∈ slots, ItemG cfg enc txt m L pos s) →
      (∀ i, Slot.sq i ∈ slots → i < n) →
      firstNames n ((slots.map Slot.ty).zip (slots.map (gLine txt m pos))) seqi
        = .inr (sqNames m slots, slots.map (gBL txt m pos)) := by
  intro slots
  induction slots with
  | nil => intro seqi _ _ _; rfl
  | cons s0 rest ih =>
    intro seqi hsq hit hn
    obtain ⟨hs0, hsr⟩ := hsq
    have hI := hit s0 (by simp)
    have hmt := memtok_sxLine (selexNameLen m) L (slotTag m s0) (slotChunk txt m pos s0) hI.tag hI.chunk
    have hlp := lposOf_sxLine (selexNameLen m) L (slotTag m s0) (slotChunk txt m pos s0) hI.wlen hI.chunk
    simp only [List.map_cons, List.zip_cons_cons]
    unfold firstNames
    by_cases hty : s0.ty = .sq
    · obtain ⟨i, rfl⟩ := slot_sq_of_ty s0 hty
      have hi : i = seqi := by
        simp only [Slot.ty, slotOf, Option.some.injEq, Slot.sq.injEq] at hs0; exact hs0.symm
      subst hi
      have hlt : ¬ (i ≥ n) := by have := hn i (by simp); omega
      have hih := ih (i + 1) (by simpa [Slot.ty] using hsr) (fun s hs => hit s (by simp [hs])) (fun j hj => hn j (by simp [hj]))
      simp only [gLine, hmt, Slot.ty, beq_self_eq_true, if_true, hlt, if_false, hih, hlp]
      have hcs : cstr (m.names.getD i []) = m.names.getD i [] := cstr_id _ (nameOk_nz _ hI.tag)
      simp only [sqNames, List.flatMap_cons, slotTag, hcs]
      rfl
    · have hne : (s0.ty == LType.sq) = false := by simpa using hty
      have hih := ih seqi (by simpa [hne] using hsr) (fun s hs => hit s (by simp [hs])) (fun j hj => hn j (by simp [hj]))
      simp only [gLine, hmt, hne, Bool.false_eq_true, if_false, hih, hlp, sqNames_cons_ne m s0 rest hty]
      rfl

theorem otherTypes_g : ∀ (ls : List Bytes) (pre : List LType), otherTypes (pre ++ ls.map ltypeOf) ls pre.length = none := by
  intro ls
  induction ls with
  | nil => intro pre; rfl
  | cons l ls ih =>
    intro pre
    have hg : (pre ++ (l :: ls).map ltypeOf)[pre.length]? = some (ltypeOf l) := by simp
    unfold otherTypes
    simp only [hg, bne_self_eq_false, Bool.false_eq_true, if_false]
    have := ih (pre ++ [ltypeOf l])
    simpa using this

theorem otherNames_g (cfg : Cfg) (enc : UInt8 → UInt8) (txt : Nat → Bytes) (m : Msa) (L pos : Nat) :
    ∀ (slots : List Slot) (pre : List Slot) (seqi : Nat), seqiOk slots seqi → (∀ s ∈ slots, ItemG cfg enc txt m L pos s) →
      otherNames m.names ((pre ++ slots).map Slot.ty) (slots.map (gLine txt m pos)) pre.length seqi
        = .inr (slots.map (gBL txt m pos)) := by
  intro slots
  induction slots with
  | nil => intro pre seqi _ _; rfl
  | cons s0 rest ih =>
    intro pre seqi hsq hit
    obtain ⟨hs0, hsr⟩ := hsq
    have hI := hit s0 (by simp)
    have hmt := memtok_sxLine (selexNameLen m) L (slotTag m s0) (slotChunk txt m pos s0) hI.tag hI.chunk
    have hlp := lposOf_sxLine (selexNameLen m) L (slotTag m s0) (slotChunk txt m pos s0) hI.wlen hI.chunk
    have hg : ((pre ++ s0 :: rest).map Slot.ty)[pre.length]? = some s0.ty := by simp
    have hpre : (pre ++ s0 :: rest) = (pre ++ [s0]) ++ rest := by simp
    have hih := fun k hk => ih (pre ++ [s0]) k hk (fun s hs => hit s (by simp [hs]))
    simp only [List.length_append, List.length_singleton, ← hpre] at hih
    simp only [List.map_cons]
    unfold otherNames
    by_cases hty : s0.ty = .sq
    · obtain ⟨i, rfl⟩ := slot_sq_of_ty s0 hty
      have hi : i = seqi := by
        simp only [Slot.ty, slotOf, Option.some.injEq, Slot.sq.injEq] at hs0; exact hs0.symm
      subst hi
      have hv : i < m.names.length := hI.valid
      have hnm : m.names[i]? = some (slotTag m (.sq i)) := by
        simp [slotTag, List.getD_eq_getElem?_getD, List.getElem?_eq_getElem hv]
      have := hih (i + 1) (by simpa [Slot.ty] using hsr)
      simp only [gLine, hmt, hg, Slot.ty, beq_self_eq_true, if_true, hnm, memstrcmp, Bool.not_true, Bool.false_eq_true, if_false,
        this, hlp]
      rfl
    · have hne : (s0.ty == LType.sq) = false := by simpa using hty
      have := hih seqi (by simpa [hne] using hsr)
      simp only [gLine, hmt, hg, hne, Bool.false_eq_true, if_false, this, hlp]
      rfl

theorem gLine_types (cfg : Cfg) (enc : UInt8 → UInt8) (txt : Nat → Bytes) (m : Msa) (L pos : Nat) (slots : List Slot)
    (hit : ∀ s ∈ slots, ItemG cfg enc txt m L pos s) : (slots.map (gLine txt m pos)).map ltypeOf = slots.map Slot.ty := by
  rw [List.map_map]
  apply List.map_congr_left
  intro s hs
  exact (hit s hs).lty

theorem otherBlock_g (cfg : Cfg) (enc : UInt8 → UInt8) (txt : Nat → Bytes) (m : Msa) (L pos : Nat) (slots : List Slot) (M : SxMsa)
    (hsq : seqiOk slots 0) (hit : ∀ s ∈ slots, ItemG cfg enc txt m L pos s) (hnm : M.names = m.names) :
    otherBlock M (slots.map Slot.ty) (slots.map (gLine txt m pos)) = .inr (slots.map (gBL txt m pos)) := by
  have ht := otherTypes_g (slots.map (gLine txt m pos)) []
  rw [gLine_types cfg enc txt m L pos slots hit] at ht
  unfold otherBlock
  simp only [List.nil_append, List.length_nil] at ht
  rw [ht, hnm]
  exact otherNames_g cfg enc txt m L pos slots [] 0 hsq hit

theorem annAt_zero (o : Option Bytes) : annAt o 0 = none := by
  cases o <;> simp [annAt, sxRowAt]

theorem gAtP_zero (cfg : Cfg) (enc : UInt8 → UInt8) (txt : Nat → Bytes) (m : Msa) (c : Cnt) (hn : c.nseq = m.nseq)
    (hss : c.hasSS = hasAnn m.nseq m.ss) (hsa : c.hasSA = hasAnn m.nseq m.sa) :
    newMsa c m.names = gAtP cfg enc txt m 0 := by
  unfold newMsa gAtP gAt
  simp only [hn, hss, hsa, annAt_zero, Nat.zero_min]
  congr 1
  · exact rangeMap_const m.nseq _ none (fun j => by simp [sxRowAt])
  · congr 2; exact rangeMap_const m.nseq _ none (fun j => rfl)
  · congr 2; exact rangeMap_const m.nseq _ none (fun j => rfl)

theorem firstBlock_g (cfg : Cfg) (enc : UInt8 → UInt8) (txt : Nat → Bytes) (m : Msa) (L pos : Nat) (slots : List Slot)
    (hsq : seqiOk slots 0) (hit : ∀ s ∈ slots, ItemG cfg enc txt m L pos s)
    (hscan : scanOk (slots.map Slot.ty) {}) (hn : ((slots.map Slot.ty).foldl Cnt.bump {}).nseq = m.nseq) (hn1 : 1 ≤ m.nseq)
    (hss : ((slots.map Slot.ty).foldl Cnt.bump {}).hasSS = hasAnn m.nseq m.ss)
    (hsa : ((slots.map Slot.ty).foldl Cnt.bump {}).hasSA = hasAnn m.nseq m.sa)
    (hnames : sqNames m slots = m.names) :
    firstBlock (slots.map (gLine txt m pos)) = .inr (gAtP cfg enc txt m 0, slots.map Slot.ty, slots.map (gBL txt m pos)) := by
  have hty := gLine_types cfg enc txt m L pos slots hit
  have hsc := firstScan_g (slots.map (gLine txt m pos)) {} (by rw [hty]; exact hscan)
  rw [hty] at hsc
  have hfn := firstNames_g cfg enc txt m L pos m.nseq slots 0 hsq hit (fun i hi => (hit _ hi).valid)
  have hn0 : (m.nseq == 0) = false := by simp; omega
  unfold firstBlock
  simp only [hsc, hn, hn0, Bool.false_eq_true, if_false, hfn, hnames]
  rw [gAtP_zero cfg enc txt m _ hn hss hsa]

/-! ## the lines of a block, in the order the writer prints them -/

def optSlot (o : Option Bytes) (s : Slot) : List Slot := match o with | some _ => [s] | none => []

def consSlots (m : Msa) : List Slot := optSlot m.ssCons .cs ++ optSlot m.rf .rf ++ optSlot m.mm .mm

def seqSlots (m : Msa) (i : Nat) : List Slot := .sq i :: (optSlot (optRow m.ss i) (.ss i) ++ optSlot (optRow m.sa i) (.sa i))

def layout (m : Msa) : List Slot := consSlots m ++ (List.range m.nseq).flatMap (seqSlots m)

theorem mem_optSlot (o : Option Bytes) (s s' : Slot) : s' ∈ optSlot o s ↔ o.isSome = true ∧ s' = s := by
  cases o <;> simp [optSlot]

theorem mem_layout (m : Msa) (s : Slot) : s ∈ layout m ↔ slotValid m s := by
  cases s <;> simp [layout, consSlots, seqSlots, mem_optSlot, slotValid, List.mem_flatMap]

theorem nodup_optSlot2 (o1 o2 : Option Bytes) (s1 s2 : Slot) (h : s1 ≠ s2) : (optSlot o1 s1 ++ optSlot o2 s2).Nodup := by
  cases o1 <;> cases o2 <;> simp [optSlot, h]

theorem layout_nodup (m : Msa) : (layout m).Nodup := by
  unfold layout
  rw [List.nodup_append]
  refine ⟨?_, ?_, ?_⟩
  · unfold consSlots
    cases m.ssCons <;> cases m.rf <;> cases m.mm <;> simp [optSlot]
  · unfold List.Nodup
    rw [List.pairwise_flatMap]
    constructor
    · intro i _
      show (seqSlots m i).Nodup
      unfold seqSlots
      rw [List.nodup_cons]
      refine ⟨by simp [mem_optSlot], nodup_optSlot2 _ _ _ _ (by simp)⟩
    · have := List.nodup_range (n := m.nseq)
      refine List.Pairwise.imp ?_ this
      intro a b hab x hx y hy hxy
      subst hxy
      simp only [seqSlots, List.mem_cons, List.mem_append, mem_optSlot] at hx hy
      rcases hx with rfl | ⟨_, rfl⟩ | ⟨_, rfl⟩ <;> rcases hy with h | ⟨_, h⟩ | ⟨_, h⟩ <;> simp at h <;> exact hab h
  · intro a ha b hb hab
    subst hab
    simp only [consSlots, List.mem_append, mem_optSlot] at ha
    simp only [List.mem_flatMap, seqSlots, List.mem_cons, List.mem_append, mem_optSlot] at hb
    obtain ⟨i, _, hb⟩ := hb
    rcases ha with (⟨_, rfl⟩ | ⟨_, rfl⟩) | ⟨_, rfl⟩ <;> simp at hb

theorem seqiOk_pre (a b : List Slot) (k : Nat) (ha : ∀ s ∈ a, s = .cs ∨ s = .rf ∨ s = .mm) (hb : seqiOk b k) : seqiOk (a ++ b) k := by
  induction a with
  | nil => exact hb
  | cons s a ih =>
    have := ih (fun s' hs' => ha s' (by simp [hs']))
    rcases ha s (by simp) with rfl | rfl | rfl <;> exact ⟨rfl, this⟩

theorem seqiOk_seqs (m : Msa) : ∀ (len k : Nat), seqiOk ((List.range' k len).flatMap (seqSlots m)) k := by
  intro len
  induction len with
  | zero => intro k; trivial
  | succ len ih =>
    intro k
    rw [List.range'_succ, List.flatMap_cons]
    have := ih (k + 1)
    generalize List.flatMap (seqSlots m) (List.range' (k + 1) len) = tail at this ⊢
    unfold seqSlots
    cases optRow m.ss k <;> cases optRow m.sa k <;> simp [optSlot, seqiOk, slotOf, Slot.ty, this]

theorem layout_seqiOk (m : Msa) : seqiOk (layout m) 0 := by
  unfold layout
  apply seqiOk_pre
  · intro s hs
    simp only [consSlots, List.mem_append, mem_optSlot] at hs
    rcases hs with (⟨_, rfl⟩ | ⟨_, rfl⟩) | ⟨_, rfl⟩ <;> simp
  · rw [List.range_eq_range']
    exact seqiOk_seqs m m.nseq 0

theorem sqNames_seqSlots (m : Msa) (i : Nat) : sqNames m (seqSlots m i) = [m.names.getD i []] := by
  unfold seqSlots sqNames
  cases optRow m.ss i <;> cases optRow m.sa i <;> simp [optSlot]

theorem layout_sqNames (m : Msa) : sqNames m (layout m) = m.names := by
  have hc : sqNames m (consSlots m) = [] := by
    unfold consSlots sqNames
    cases m.ssCons <;> cases m.rf <;> cases m.mm <;> simp [optSlot]
  have hs : sqNames m ((List.range m.nseq).flatMap (seqSlots m)) = (List.range m.nseq).map fun i => m.names.getD i [] := by
    show ((List.range m.nseq).flatMap (seqSlots m)).flatMap _ = _
    rw [List.flatMap_assoc]
    exact flatMap_range_single m.nseq _ _ (fun i _ => sqNames_seqSlots m i)
  have : sqNames m (layout m) = sqNames m (consSlots m) ++ sqNames m ((List.range m.nseq).flatMap (seqSlots m)) := by
    unfold layout sqNames; rw [List.flatMap_append]
  rw [this, hc, hs, List.nil_append, names_rangeMap]

/-! ### the counters of `selex_first_block` along the layout -/

theorem scanOk_append : ∀ (a b : List LType) (c : Cnt), scanOk a c → scanOk b (a.foldl Cnt.bump c) → scanOk (a ++ b) c := by
  intro a
  induction a with
  | nil => intro b c _ hb; exact hb
  | cons t a ih => intro b c ha hb; exact ⟨ha.1, ih b _ ha.2 hb⟩

theorem err_sq (c : Cnt) (h1 : c.nrf ≤ 1) (h2 : c.ncs ≤ 1) : (c.bump .sq).err = none := by
  have h1' : ¬ (c.nrf > 1) := by omega
  have h2' : ¬ (c.ncs > 1) := by omega
  simp [Cnt.bump, Cnt.err, h1', h2']

theorem err_ss (c : Cnt) (h1 : c.nrf ≤ 1) (h2 : c.ncs ≤ 1) (hn : c.nseq ≠ 0) (h3 : c.nss = 0) (h4 : c.nsa ≤ 1) :
    (c.bump .ss).err = none := by
  have h1' : ¬ (c.nrf > 1) := by omega
  have h2' : ¬ (c.ncs > 1) := by omega
  have h4' : ¬ (c.nsa > 1) := by omega
  simp [Cnt.bump, Cnt.err, h1', h2', h3, h4', hn]

theorem err_sa (c : Cnt) (h1 : c.nrf ≤ 1) (h2 : c.ncs ≤ 1) (hn : c.nseq ≠ 0) (h3 : c.nss ≤ 1) (h4 : c.nsa = 0) :
    (c.bump .sa).err = none := by
  have h1' : ¬ (c.nrf > 1) := by omega
  have h2' : ¬ (c.ncs > 1) := by omega
  have h3' : ¬ (c.nss > 1) := by omega
  simp [Cnt.bump, Cnt.err, h1', h2', h3', h4, hn]

/-- the lines of one sequence: no test fails, one more sequence counted -/
theorem scan_seq (m : Msa) (k : Nat) (c : Cnt) (h1 : c.nrf ≤ 1) (h2 : c.ncs ≤ 1) :
    scanOk ((seqSlots m k).map Slot.ty) c ∧
    (((seqSlots m k).map Slot.ty).foldl Cnt.bump c).nrf = c.nrf ∧ (((seqSlots m k).map Slot.ty).foldl Cnt.bump c).ncs = c.ncs ∧
    (((seqSlots m k).map Slot.ty).foldl Cnt.bump c).nseq = c.nseq + 1 ∧
    (((seqSlots m k).map Slot.ty).foldl Cnt.bump c).hasSS = (c.hasSS || (optRow m.ss k).isSome) ∧
    (((seqSlots m k).map Slot.ty).foldl Cnt.bump c).hasSA = (c.hasSA || (optRow m.sa k).isSome) := by
  have e0 := err_sq c h1 h2
  have e1 := err_ss (c.bump .sq) h1 h2 (by simp [Cnt.bump]) rfl (by simp [Cnt.bump])
  have e2 := err_sa (c.bump .sq) h1 h2 (by simp [Cnt.bump]) (by simp [Cnt.bump]) rfl
  have e3 := err_sa ((c.bump .sq).bump .ss) h1 h2 (by simp [Cnt.bump]) (by simp [Cnt.bump]) rfl
  unfold seqSlots
  cases optRow m.ss k <;> cases optRow m.sa k <;>
    simp [optSlot, scanOk, Slot.ty, e0, e1, e2, e3] <;> simp [Cnt.bump]

theorem scan_seqs (m : Msa) : ∀ (len k : Nat) (c : Cnt), c.nrf ≤ 1 → c.ncs ≤ 1 →
    scanOk (((List.range' k len).flatMap (seqSlots m)).map Slot.ty) c ∧
    ((((List.range' k len).flatMap (seqSlots m)).map Slot.ty).foldl Cnt.bump c).nseq = c.nseq + len ∧
    ((((List.range' k len).flatMap (seqSlots m)).map Slot.ty).foldl Cnt.bump c).hasSS
      = (c.hasSS || (List.range' k len).any fun i => (optRow m.ss i).isSome) ∧
    ((((List.range' k len).flatMap (seqSlots m)).map Slot.ty).foldl Cnt.bump c).hasSA
      = (c.hasSA || (List.range' k len).any fun i => (optRow m.sa i).isSome) := by
  intro len
  induction len with
  | zero => intro k c _ _; simp [scanOk]
  | succ len ih =>
    intro k c h1 h2
    obtain ⟨s1, s2, s3, s4, s5, s6⟩ := scan_seq m k c h1 h2
    obtain ⟨i1, i2, i3, i4⟩ := ih (k + 1) (((seqSlots m k).map Slot.ty).foldl Cnt.bump c) (by omega) (by omega)
    rw [List.range'_succ, List.flatMap_cons, List.map_append, List.foldl_append]
    refine ⟨scanOk_append _ _ _ s1 i1, ?_, ?_, ?_⟩
    · rw [i2, s4]; omega
    · rw [i3, s5, List.any_cons, Bool.or_assoc]
    · rw [i4, s6, List.any_cons, Bool.or_assoc]

theorem layout_scan (m : Msa) :
    scanOk ((layout m).map Slot.ty) {} ∧ (((layout m).map Slot.ty).foldl Cnt.bump {}).nseq = m.nseq ∧
    (((layout m).map Slot.ty).foldl Cnt.bump {}).hasSS = hasAnn m.nseq m.ss ∧
    (((layout m).map Slot.ty).foldl Cnt.bump {}).hasSA = hasAnn m.nseq m.sa := by
  have hc : scanOk ((consSlots m).map Slot.ty) {} ∧ (((consSlots m).map Slot.ty).foldl Cnt.bump {}).nrf ≤ 1 ∧
      (((consSlots m).map Slot.ty).foldl Cnt.bump {}).ncs ≤ 1 ∧ (((consSlots m).map Slot.ty).foldl Cnt.bump {}).nseq = 0 ∧
      (((consSlots m).map Slot.ty).foldl Cnt.bump {}).hasSS = false ∧ (((consSlots m).map Slot.ty).foldl Cnt.bump {}).hasSA = false := by
    unfold consSlots
    cases m.ssCons <;> cases m.rf <;> cases m.mm <;> simp [optSlot, scanOk, Slot.ty, Cnt.bump, Cnt.err]
  obtain ⟨c1, c2, c3, c4, c5, c6⟩ := hc
  obtain ⟨i1, i2, i3, i4⟩ := scan_seqs m m.nseq 0 (((consSlots m).map Slot.ty).foldl Cnt.bump {}) c2 c3
  unfold layout hasAnn
  rw [List.map_append, List.foldl_append, List.range_eq_range']
  refine ⟨scanOk_append _ _ _ c1 i1, ?_, ?_, ?_⟩
  · rw [i2, c4]; omega
  · rw [i3, c5, Bool.false_or]
  · rw [i4, c6, Bool.false_or]

/-! ## the alignments covered -/

/-- `m` without the annotation SELEX writes lines for -/
def stripAnn (m : Msa) : Msa := { m with ssCons := none, rf := none, mm := none, ss := none, sa := none }

/-- an annotation string the SELEX reader returns unchanged: one character per column, no white space (leading and
    trailing white space of a chunk would be taken for padding and come back as `.`), no NUL -/
def AnnOk (alen : Nat) (s : Bytes) : Prop := s.length = alen ∧ ∀ t ∈ s, isSpace t = false ∧ t ≠ 0

/-- an alignment with `#=CS`/`#=RF`/`#=MM`/`#=SS`/`#=SA` annotation that `esl_msafile_selex_Write` + `esl_msafile_selex_Read`
    (configuration `cfg`) preserve: names and rows as in `SelexWritable`, every annotation string present is `AnnOk` -/
structure SelexAnnWritable (abc : Option Abc) (cfg : Cfg) (enc : UInt8 → UInt8) (txt : Nat → Bytes) (m : Msa) : Prop where
  base : SelexWritable abc cfg enc txt (stripAnn m)
  cs_ok : ∀ s, m.ssCons = some s → AnnOk m.alen s
  rf_ok : ∀ s, m.rf = some s → AnnOk m.alen s
  mm_ok : ∀ s, m.mm = some s → AnnOk m.alen s
  ss_ok : ∀ i, i < m.nseq → ∀ s, optRow m.ss i = some s → AnnOk m.alen s
  sa_ok : ∀ i, i < m.nseq → ∀ s, optRow m.sa i = some s → AnnOk m.alen s

theorem four_le_selexNameLen (m : Msa) : 4 ≤ selexNameLen m := by
  unfold selexNameLen
  have : ∀ (l : List Bytes) (a : Nat), a ≤ l.foldl (fun a s => max s.length a) a := by
    intro l
    induction l with
    | nil => intro a; simp
    | cons x l ih => intro a; simp only [List.foldl_cons]; have := ih (max x.length a); omega
  exact this _ _

theorem pfx_nameOk : nameOk pfxRF ∧ nameOk pfxMM ∧ nameOk pfxCS ∧ nameOk pfxSS ∧ nameOk pfxSA := by
  unfold nameOk; decide +kernel

theorem pfx_ltype (w : Nat) (chunk : Bytes) :
    ltypeOf (sxLine w pfxRF chunk) = .rf ∧ ltypeOf (sxLine w pfxMM chunk) = .mm ∧ ltypeOf (sxLine w pfxCS chunk) = .cs ∧
    ltypeOf (sxLine w pfxSS chunk) = .ss ∧ ltypeOf (sxLine w pfxSA chunk) = .sa := by
  simp [ltypeOf, memstrpfx, sxLine, pfxRF, pfxMM, pfxCS, pfxSS, pfxSA]

theorem pfx_notComment (w : Nat) (chunk : Bytes) :
    isComment (sxLine w pfxRF chunk) = false ∧ isComment (sxLine w pfxMM chunk) = false ∧ isComment (sxLine w pfxCS chunk) = false ∧
    isComment (sxLine w pfxSS chunk) = false ∧ isComment (sxLine w pfxSA chunk) = false := by
  simp [isComment, memstrpfx, sxLine, pfxRF, pfxMM, pfxCS, pfxSS, pfxSA]

theorem opt_isSome_get (o : Option Bytes) (h : o.isSome = true) : o = some (o.getD []) := by
  cases o with
  | none => simp at h
  | some x => rfl

theorem slotText_ok (abc : Option Abc) (cfg : Cfg) (enc : UInt8 → UInt8) (txt : Nat → Bytes) (m : Msa)
    (h : SelexAnnWritable abc cfg enc txt m) (s : Slot) (hv : slotValid m s) : AnnOk m.alen (slotText txt m s) := by
  cases s with
  | sq i => exact ⟨h.base.txt_len i hv, fun t ht => (h.base.txt_sym i hv t ht).2⟩
  | rf => exact h.rf_ok _ (opt_isSome_get _ hv)
  | mm => exact h.mm_ok _ (opt_isSome_get _ hv)
  | cs => exact h.cs_ok _ (opt_isSome_get _ hv)
  | ss i => exact h.ss_ok i hv.1 _ (opt_isSome_get _ hv.2)
  | sa i => exact h.sa_ok i hv.1 _ (opt_isSome_get _ hv.2)

theorem itemG_of (abc : Option Abc) (cfg : Cfg) (enc : UInt8 → UInt8) (txt : Nat → Bytes) (m : Msa)
    (h : SelexAnnWritable abc cfg enc txt m) (pos : Nat) (hp : pos < m.alen) (s : Slot) (hv : slotValid m s) :
    ItemG cfg enc txt m (min 60 (m.alen - pos)) pos s := by
  obtain ⟨hlen, hns⟩ := slotText_ok abc cfg enc txt m h s hv
  have hmem : ∀ t ∈ slotChunk txt m pos s, t ∈ slotText txt m s := fun t ht => List.mem_of_mem_drop (List.mem_of_mem_take ht)
  have hchunk : SxChunkOk (min 60 (m.alen - pos)) (slotChunk txt m pos s) :=
    { len := by simp [slotChunk, hlen], pos := by omega, ns := fun t ht => hns t (hmem t ht) }
  have hclen : pos ≤ (slotCodes enc txt m s).length := by simp [slotCodes, hlen]; omega
  have h4 := four_le_selexNameLen m
  obtain ⟨n1, n2, n3, n4, n5⟩ := pfx_nameOk
  obtain ⟨l1, l2, l3, l4, l5⟩ := pfx_ltype (selexNameLen m) (slotChunk txt m pos s)
  obtain ⟨c1, c2, c3, c4, c5⟩ := pfx_notComment (selexNameLen m) (slotChunk txt m pos s)
  cases s with
  | sq i =>
    have hi : i < m.nseq := hv
    have htag : sqTagOk (m.names.getD i []) := h.base.name_ok i hi
    exact { valid := hv, tag := htag.1, wlen := selexNameLen_le m _ (names_getD_mem m i hi), chunk := hchunk, clen := hclen
            map := fun _ t ht => (h.base.txt_sym i hi t (hmem t ht)).1
            lty := sxLine_ltype _ _ _ htag, notc := sxLine_notComment _ _ _ htag }
  | rf => exact { valid := hv, tag := n1, wlen := h4, chunk := hchunk, clen := hclen, map := fun hty => by simp [Slot.ty] at hty, lty := l1, notc := c1 }
  | mm => exact { valid := hv, tag := n2, wlen := h4, chunk := hchunk, clen := hclen, map := fun hty => by simp [Slot.ty] at hty, lty := l2, notc := c2 }
  | cs => exact { valid := hv, tag := n3, wlen := h4, chunk := hchunk, clen := hclen, map := fun hty => by simp [Slot.ty] at hty, lty := l3, notc := c3 }
  | ss i => exact { valid := hv, tag := n4, wlen := h4, chunk := hchunk, clen := hclen, map := fun hty => by simp [Slot.ty] at hty, lty := l4, notc := c4 }
  | sa i => exact { valid := hv, tag := n5, wlen := h4, chunk := hchunk, clen := hclen, map := fun hty => by simp [Slot.ty] at hty, lty := l5, notc := c5 }

theorem layout_items (abc : Option Abc) (cfg : Cfg) (enc : UInt8 → UInt8) (txt : Nat → Bytes) (m : Msa)
    (h : SelexAnnWritable abc cfg enc txt m) (pos : Nat) (hp : pos < m.alen) :
    ∀ s ∈ layout m, ItemG cfg enc txt m (min 60 (m.alen - pos)) pos s :=
  fun s hs => itemG_of abc cfg enc txt m h pos hp s ((mem_layout m s).mp hs)

theorem layout_ne (m : Msa) (hn : 1 ≤ m.nseq) : layout m ≠ [] := by
  intro h0
  have : Slot.sq 0 ∈ layout m := (mem_layout m _).mpr (show 0 < m.nseq by omega)
  rw [h0] at this
  simp at this

/-! ## the lines the writer prints -/

theorem selexOpt_eq (txt : Nat → Bytes) (m : Msa) (apos : Nat) (o : Option Bytes) (tag : String) (s : Slot)
    (htag : str tag = slotTag m s) (htext : slotText txt m s = o.getD []) (hnz : ∀ x, o = some x → ∀ t ∈ x, t ≠ 0) :
    selexOpt o (fun x => selexAnnLine (selexNameLen m) tag x apos) = (optSlot o s).map (gLine txt m apos) := by
  cases o with
  | none => rfl
  | some x =>
    have hmem : ∀ t ∈ (x.drop apos).take 60, t ≠ 0 := fun t ht => hnz x rfl t (List.mem_of_mem_drop (List.mem_of_mem_take ht))
    simp only [selexOpt, optSlot, List.map_cons, List.map_nil, gLine, selexAnnLine, slotChunk, htext, Option.getD_some, htag,
      sxLine_eq, strChunk, show selexCpl = 60 from rfl, cstr_id _ hmem]

theorem selexBlockLines_g (abc : Option Abc) (cfg : Cfg) (enc : UInt8 → UInt8) (txt : Nat → Bytes) (m : Msa)
    (h : SelexAnnWritable abc cfg enc txt m) (apos : Nat) :
    selexBlockLines abc m (selexNameLen m) apos = (if apos > 0 then [[]] else []) ++ (layout m).map (gLine txt m apos) := by
  have hcs := selexOpt_eq txt m apos m.ssCons "#=CS" .cs (show str "#=CS" = pfxCS by decide +kernel) rfl (fun x hx t ht => ((h.cs_ok x hx).2 t ht).2)
  have hrf := selexOpt_eq txt m apos m.rf "#=RF" .rf (show str "#=RF" = pfxRF by decide +kernel) rfl (fun x hx t ht => ((h.rf_ok x hx).2 t ht).2)
  have hmm := selexOpt_eq txt m apos m.mm "#=MM" .mm (show str "#=MM" = pfxMM by decide +kernel) rfl (fun x hx t ht => ((h.mm_ok x hx).2 t ht).2)
  unfold selexBlockLines layout consSlots
  rw [hcs, hrf, hmm]
  simp only [List.map_append, List.append_assoc]
  congr 4
  rw [List.map_flatMap]
  apply flatMap_congr'
  intro i hi
  have hi' : i < m.nseq := List.mem_range.mp hi
  have hss := selexOpt_eq txt m apos (optRow m.ss i) "#=SS" (.ss i) (show str "#=SS" = pfxSS by decide +kernel) rfl (fun x hx t ht => ((h.ss_ok i hi' x hx).2 t ht).2)
  have hsa := selexOpt_eq txt m apos (optRow m.sa i) "#=SA" (.sa i) (show str "#=SA" = pfxSA by decide +kernel) rfl (fun x hx t ht => ((h.sa_ok i hi' x hx).2 t ht).2)
  have hch : seqChunk abc m i apos selexCpl = ((txt i).drop apos).take 60 := h.base.chunk_eq i hi' apos
  unfold selexSeqLines seqSlots
  rw [hss, hsa, sxLine_eq, hch]
  simp only [List.map_cons, List.map_append, List.cons_append, List.nil_append]
  rfl

/-! ## the reader over the written lines -/

/-- the reader between two blocks, `p` columns read -/
structure GIdle (cfg : Cfg) (enc : UInt8 → UInt8) (txt : Nat → Bytes) (m : Msa) (p : Nat) (st : SxSt) : Prop where
  idle : st.inBlock = false
  cur : st.cur = []
  alloc : 0 < st.nalloc
  nb : st.nblocks ≠ 0
  nl : st.nlines = (layout m).length
  lt : st.ltype = (layout m).map Slot.ty
  msa : st.msa = some (gAtP cfg enc txt m p)

/-- the reader holding the lines of the block that starts at column `pos` -/
structure GInBlk (cfg : Cfg) (enc : UInt8 → UInt8) (txt : Nat → Bytes) (m : Msa) (pos : Nat) (st : SxSt) : Prop where
  inb : st.inBlock = true
  cur : st.cur = (layout m).map (gLine txt m pos)
  alloc : 0 < st.nalloc
  first : pos = 0 → st.nblocks = 0
  later : pos ≠ 0 → st.nblocks ≠ 0 ∧ st.nlines = (layout m).length ∧ st.ltype = (layout m).map Slot.ty ∧
    st.msa = some (gAtP cfg enc txt m pos)

theorem gLines_ok (abc : Option Abc) (cfg : Cfg) (enc : UInt8 → UInt8) (txt : Nat → Bytes) (m : Msa)
    (h : SelexAnnWritable abc cfg enc txt m) (pos : Nat) (hp : pos < m.alen) :
    ∀ l ∈ (layout m).map (gLine txt m pos), isBlankLine l = false ∧ isComment l = false := by
  intro l hl
  obtain ⟨s, hs, rfl⟩ := List.mem_map.mp hl
  have hI := layout_items abc cfg enc txt m h pos hp s hs
  exact ⟨sxLine_notBlank _ _ _ hI.tag, hI.notc⟩

/-- the end of a block: `selex_first_block` / `selex_other_block`, then `selex_append_block` -/
theorem processBlock_g (abc : Option Abc) (cfg : Cfg) (enc : UInt8 → UInt8) (txt : Nat → Bytes) (m : Msa)
    (h : SelexAnnWritable abc cfg enc txt m) (pos : Nat) (hp : pos < m.alen) (st : SxSt) (hst : GInBlk cfg enc txt m pos st) :
    ∃ st', processBlock cfg st = .inl st' ∧ GIdle cfg enc txt m (pos + 60) st' := by
  have hn1 : 1 ≤ m.nseq := h.base.n1
  have hit := layout_items abc cfg enc txt m h pos hp
  have hlen : st.cur.length = (layout m).length := by rw [hst.cur, List.length_map]
  have happ := appendBlock_g cfg enc txt m pos hp (layout m) (layout_ne m hn1) (layout_seqiOk m) (layout_nodup m) hit
    (fun s hv => (mem_layout m s).mpr hv)
  by_cases hp0 : pos = 0
  · subst hp0
    have hnb := hst.first rfl
    obtain ⟨sc1, sc2, sc3, sc4⟩ := layout_scan m
    have hfb := firstBlock_g cfg enc txt m (min 60 (m.alen - 0)) 0 (layout m) (layout_seqiOk m) hit sc1 sc2 hn1 sc3 sc4 (layout_sqNames m)
    refine ⟨{ st with inBlock := false, cur := [], nblocks := 1, nlines := st.cur.length, ltype := (layout m).map Slot.ty,
                      msa := some (gAtP cfg enc txt m (0 + 60)) }, ?_, ?_⟩
    · unfold processBlock
      simp only [hnb, bne_self_eq_false, Bool.false_and, Bool.false_eq_true, if_false, beq_self_eq_true, if_true, hst.cur]
      rw [hfb]
      simp only [happ]
    · exact { idle := rfl, cur := rfl, alloc := hst.alloc, nb := by simp, nl := hlen, lt := rfl, msa := rfl }
  · obtain ⟨hnb, hnl, hlt, hmsa⟩ := hst.later hp0
    have hob := otherBlock_g cfg enc txt m (min 60 (m.alen - pos)) pos (layout m) (gAtP cfg enc txt m pos) (layout_seqiOk m) hit rfl
    refine ⟨{ st with inBlock := false, cur := [], nblocks := st.nblocks + 1, msa := some (gAtP cfg enc txt m (pos + 60)) }, ?_, ?_⟩
    · unfold processBlock
      have hc1 : (st.nblocks != 0 && st.nlines != st.cur.length) = false := by simp [hnl, hlen]
      have hc2 : (st.nblocks == 0) = false := by simpa using hnb
      simp only [hc1, hc2, Bool.false_eq_true, if_false, hmsa, hlt]
      simp only [hst.cur]
      rw [hob]
      simp only [happ]
    · exact { idle := rfl, cur := rfl, alloc := hst.alloc, nb := by simp, nl := hnl, lt := hlt, msa := rfl }

theorem gLines_ne (txt : Nat → Bytes) (m : Msa) (pos : Nat) (hn : 1 ≤ m.nseq) : (layout m).map (gLine txt m pos) ≠ [] := by
  intro h0
  exact layout_ne m hn (List.map_eq_nil_iff.mp h0)

/-- the lines of a later block, from between the blocks -/
theorem collect_g (abc : Option Abc) (cfg : Cfg) (enc : UInt8 → UInt8) (txt : Nat → Bytes) (m : Msa)
    (h : SelexAnnWritable abc cfg enc txt m) (pos : Nat) (hp : pos < m.alen) (hp0 : pos ≠ 0) (st : SxSt) (hst : GIdle cfg enc txt m pos st) :
    ∃ st', stepsFrom (selexStep cfg) st ((layout m).map (gLine txt m pos)) = .inl st' ∧ GInBlk cfg enc txt m pos st' := by
  obtain ⟨st', hs, hi, hcur, _, h0', e1, e2, e3, e4⟩ := selexSteps_collect cfg ((layout m).map (gLine txt m pos)) st
    (gLines_ok abc cfg enc txt m h pos hp) (Or.inr (gLines_ne txt m pos h.base.n1)) (by rw [hst.cur]; simp) hst.alloc
  refine ⟨st', hs, { inb := hi, cur := by rw [hcur, hst.cur]; rfl, alloc := h0', first := fun h => absurd h hp0, later := fun _ => ?_ }⟩
  exact ⟨by rw [e1]; exact hst.nb, by rw [e2]; exact hst.nl, by rw [e3]; exact hst.lt, by rw [e4]; exact hst.msa⟩

/-- the lines of the first block, from the initial state -/
theorem collect_first_g (abc : Option Abc) (cfg : Cfg) (enc : UInt8 → UInt8) (txt : Nat → Bytes) (m : Msa)
    (h : SelexAnnWritable abc cfg enc txt m) :
    ∃ st', stepsFrom (selexStep cfg) {} ((layout m).map (gLine txt m 0)) = .inl st' ∧ GInBlk cfg enc txt m 0 st' := by
  obtain ⟨st', hs, hi, hcur, _, h0', e1, _, _, _⟩ := selexSteps_collect cfg ((layout m).map (gLine txt m 0)) {}
    (gLines_ok abc cfg enc txt m h 0 h.base.alen1) (Or.inr (gLines_ne txt m 0 h.base.n1)) (by simp) (by decide)
  refine ⟨st', hs, { inb := hi, cur := by rw [hcur]; rfl, alloc := h0', first := fun _ => by rw [e1], later := fun h => absurd rfl h }⟩

/-! ## the end of the input -/

theorem annAt_final (alen : Nat) (o : Option Bytes) (p : Nat) (hp : alen ≤ p) (hp0 : p ≠ 0) (hok : ∀ x, o = some x → AnnOk alen x) :
    (annAt o p).map cstr = o := by
  cases o with
  | none => rfl
  | some x =>
    obtain ⟨hl, hns⟩ := hok x rfl
    have htk : x.take p = x := List.take_of_length_le (by omega)
    simp only [annAt, Option.bind_some, sxRowAt, hp0, if_false, Option.map_some, sxRow, Bool.false_eq_true, htk]
    congr 1
    apply cstr_txt
    rw [List.all_eq_true]
    intro t ht
    simpa using (hns t ht).2

theorem hasAnn_all (n : Nat) (o : OptRows) : (List.range n).all (fun i => (optRow o i).isNone) = !hasAnn n o := by
  unfold hasAnn
  induction (List.range n) with
  | nil => rfl
  | cons i l ih =>
    simp only [List.all_cons, List.any_cons, ih, Bool.not_or]
    cases optRow o i <;> rfl

theorem rowsProj_final (alen n : Nat) (o : OptRows) (p : Nat) (hp : alen ≤ p) (hp0 : p ≠ 0)
    (hok : ∀ i, i < n → ∀ x, optRow o i = some x → AnnOk alen x) :
    (if hasAnn n o then some ((List.range n).map fun i => annAt (optRow o i) p) else none).map (fun l => l.map fun r => r.map cstr)
      = selexRowsProj n o := by
  unfold selexRowsProj
  rw [hasAnn_all]
  cases hasAnn n o with
  | false => rfl
  | true =>
    simp only [if_true, Option.map_some, Bool.not_true, Bool.false_eq_true, if_false, List.map_map]
    congr 1
    apply List.map_congr_left
    intro i hi
    exact annAt_final alen _ p hp hp0 (hok i (List.mem_range.mp hi))

theorem selexFinal_g (abc : Option Abc) (cfg : Cfg) (enc : UInt8 → UInt8) (txt : Nat → Bytes) (m : Msa)
    (h : SelexAnnWritable abc cfg enc txt m) (p : Nat) (hp : m.alen ≤ p) (st : SxSt) (hst : GIdle cfg enc txt m p st) :
    selexFinal cfg st = .ok (selexProject cfg m) := by
  have ha1 : 1 ≤ m.alen := h.base.alen1
  have hp0 : p ≠ 0 := by omega
  have hnb : (st.nblocks == 0) = false := by simpa using hst.nb
  have hmin : min p m.alen = m.alen := by omega
  have hal : ((gAtP cfg enc txt m p).alen == 0) = false := by
    show (min p m.alen == 0) = false
    rw [hmin]; simp; omega
  have hrow : ∀ i, i < m.nseq →
      (if cfg.digital then (sxRowAt cfg.digital ((txt i).map enc) p).getD [] else cstr ((sxRowAt cfg.digital ((txt i).map enc) p).getD []))
        = m.stored i := fun i hi => sxRow_final abc cfg enc txt (stripAnn m) h.base p hp i hi
  unfold selexFinal
  simp only [hnb, Bool.false_eq_true, if_false, hst.msa, hal]
  congr 1
  simp only [SxMsa.toMsa, selexProject, gAtP, gAt, hmin, List.map_map,
    annAt_final m.alen m.ssCons p hp hp0 h.cs_ok, annAt_final m.alen m.rf p hp hp0 h.rf_ok, annAt_final m.alen m.mm p hp hp0 h.mm_ok,
    rowsProj_final m.alen m.nseq m.ss p hp hp0 h.ss_ok, rowsProj_final m.alen m.nseq m.sa p hp hp0 h.sa_ok]
  cases hd : cfg.digital with
  | true =>
    simp only [if_true]
    congr 1
    apply List.map_congr_left
    intro i hi
    have := hrow i (List.mem_range.mp hi)
    simpa [hd] using this
  | false =>
    simp only [Bool.false_eq_true, if_false]
    congr 1
    apply List.map_congr_left
    intro i hi
    have := hrow i (List.mem_range.mp hi)
    simpa [hd] using this

/-- the blocks after the one being collected -/
theorem selexRun_blocks_g (abc : Option Abc) (cfg : Cfg) (enc : UInt8 → UInt8) (txt : Nat → Bytes) (m : Msa)
    (h : SelexAnnWritable abc cfg enc txt m) : ∀ (k pos : Nat) (st : SxSt), m.alen - pos ≤ k → pos < m.alen →
    GInBlk cfg enc txt m pos st →
    runLines (selexStep cfg) (selexFinish cfg) st
      ((blockStartsFrom m.alen selexCpl (pos + 60)).flatMap (selexBlockLines abc m (selexNameLen m)))
      = (.ok (selexProject cfg m), []) := by
  intro k
  induction k with
  | zero => intro pos st hk hp _; omega
  | succ k ih =>
    intro pos st hk hp hst
    obtain ⟨st1, hpb, hidle⟩ := processBlock_g abc cfg enc txt m h pos hp st hst
    rw [blockStartsFrom]
    by_cases hnext : pos + 60 < m.alen
    · have hc : pos + 60 < m.alen ∧ 0 < selexCpl := ⟨hnext, by decide⟩
      simp only [hc, and_self, dite_true, List.flatMap_cons]
      rw [selexBlockLines_g abc cfg enc txt m h (pos + 60)]
      have hpos : pos + 60 > 0 := by omega
      simp only [hpos, if_true, List.cons_append, List.nil_append]
      have hstep : selexStep cfg st [] = .inl st1 := by
        unfold selexStep
        simp [hst.inb, isComment, memstrpfx, isBlankLine, hpb]
      simp only [runLines, hstep]
      obtain ⟨st2, hs2, hin2⟩ := collect_g abc cfg enc txt m h (pos + 60) hnext (by omega) st1 hidle
      rw [runLines_append_inl (selexStep cfg) (selexFinish cfg) _ _ st1 st2 hs2]
      exact ih (pos + 60) st2 (by omega) hnext hin2
    · have hc : ¬ (pos + 60 < m.alen ∧ 0 < selexCpl) := fun hc => hnext hc.1
      simp only [hc, dite_false, List.flatMap_nil, runLines]
      unfold selexFinish
      simp only [hst.inb, if_true, hpb]
      rw [selexFinal_g abc cfg enc txt m h (pos + 60) (by omega) st1 hidle]

/-- **SELEX round trip on lines, annotation included** -/
theorem selexRead_writeLines_ann (abc : Option Abc) (cfg : Cfg) (enc : UInt8 → UInt8) (txt : Nat → Bytes) (m : Msa)
    (h : SelexAnnWritable abc cfg enc txt m) :
    selexRead cfg (selexLines abc m) = (.ok (selexProject cfg m), []) := by
  have ha1 : 1 ≤ m.alen := h.base.alen1
  obtain ⟨st, hs, hin⟩ := collect_first_g abc cfg enc txt m h
  unfold selexRead selexLines blockStarts
  rw [blockStartsFrom]
  have hc : 0 < m.alen ∧ 0 < selexCpl := ⟨by omega, by decide⟩
  simp only [hc, and_self, dite_true, List.flatMap_cons]
  rw [selexBlockLines_g abc cfg enc txt m h 0]
  simp only [Nat.lt_irrefl, gt_iff_lt, if_false, List.nil_append]
  rw [runLines_append_inl (selexStep cfg) (selexFinish cfg) _ _ {} st hs]
  exact selexRun_blocks_g abc cfg enc txt m h m.alen 0 st (by omega) (by omega) hin

theorem slotTag_lf (m : Msa) (name_lf : ∀ i, i < m.nseq → (10 : UInt8) ∉ m.names.getD i []) (s : Slot) (hv : slotValid m s) :
    (10 : UInt8) ∉ slotTag m s := by
  cases s with
  | sq i => exact name_lf i hv
  | rf => exact (show (10 : UInt8) ∉ pfxRF by decide)
  | mm => exact (show (10 : UInt8) ∉ pfxMM by decide)
  | cs => exact (show (10 : UInt8) ∉ pfxCS by decide)
  | ss i => exact (show (10 : UInt8) ∉ pfxSS by decide)
  | sa i => exact (show (10 : UInt8) ∉ pfxSA by decide)

/-- **SELEX round trip on bytes, annotation included**; `name_lf`: no name holds a line feed -/
theorem selexRead_write_ann (abc : Option Abc) (cfg : Cfg) (enc : UInt8 → UInt8) (txt : Nat → Bytes) (m : Msa)
    (h : SelexAnnWritable abc cfg enc txt m) (name_lf : ∀ i, i < m.nseq → (10 : UInt8) ∉ m.names.getD i []) :
    selexRead cfg (splitLines (selexWrite abc m)) = (.ok (selexProject cfg m), []) := by
  unfold selexWrite joinLF
  rw [splitLines_join, selexRead_writeLines_ann abc cfg enc txt m h]
  intro l hl
  unfold selexLines at hl
  obtain ⟨apos, hap, hl⟩ := List.mem_flatMap.mp hl
  have hlt := blockStarts_lt m.alen selexCpl apos hap
  rw [selexBlockLines_g abc cfg enc txt m h apos] at hl
  rcases List.mem_append.mp hl with hl | hl
  · split at hl
    · simp only [List.mem_singleton] at hl; subst hl; exact ⟨by simp, by simp⟩
    · simp at hl
  · obtain ⟨s, hs, rfl⟩ := List.mem_map.mp hl
    have hI := layout_items abc cfg enc txt m h apos hlt s hs
    exact sxLine_lineOk _ _ _ _ (slotTag_lf m name_lf s hI.valid) hI.chunk

/-! ## concrete, checkable conditions: text mode, digital mode -/

/-- an annotation string SELEX carries unchanged: one character per column, none of them white space or NUL -/
def annStrOk (alen : Nat) (s : Bytes) : Bool := s.length == alen && s.all fun t => !isSpace t && t != 0

def optAnnOk (alen : Nat) (o : Option Bytes) : Bool :=
  match o with
  | none => true
  | some s => annStrOk alen s

/-- the annotation of `m` that SELEX writes lines for (`#=CS` = `ssCons`, `#=RF`, `#=MM`, per-sequence `#=SS`, `#=SA`), each
    independently present or absent, is carried unchanged -/
structure SelexAnn (m : Msa) : Prop where
  cs_ok : optAnnOk m.alen m.ssCons = true
  rf_ok : optAnnOk m.alen m.rf = true
  mm_ok : optAnnOk m.alen m.mm = true
  ss_ok : ∀ i, i < m.nseq → optAnnOk m.alen (optRow m.ss i) = true
  sa_ok : ∀ i, i < m.nseq → optAnnOk m.alen (optRow m.sa i) = true

theorem annOk_of (alen : Nat) (o : Option Bytes) (h : optAnnOk alen o = true) : ∀ x, o = some x → AnnOk alen x := by
  intro x hx
  subst hx
  simp only [optAnnOk, annStrOk, Bool.and_eq_true, beq_iff_eq, List.all_eq_true, Bool.not_eq_true', bne_iff_ne, ne_eq] at h
  exact ⟨h.1, fun t ht => h.2 t ht⟩

theorem stripAnn_plain (m : Msa) : SelexPlain (stripAnn m) :=
  { cs_none := rfl, rf_none := rfl, mm_none := rfl, ss_none := fun _ _ => rfl, sa_none := fun _ _ => rfl }

/-- a text-mode alignment, annotation included, that SELEX represents faithfully -/
structure SelexAnnTextWritable (m : Msa) : Prop where
  dig : m.digital = false
  ann : SelexAnn m
  n1 : 1 ≤ m.nseq
  alen1 : 1 ≤ m.alen
  name_ok : ∀ i, i < m.nseq → selexNameOk (m.names.getD i [])
  row_ok : ∀ i, i < m.nseq → (m.aseq.getD i []).length = m.alen ∧ ∀ t ∈ m.aseq.getD i [], isGraph t = true

theorem SelexAnnTextWritable.strip {m : Msa} (h : SelexAnnTextWritable m) : SelexTextWritable (stripAnn m) :=
  { dig := h.dig, plain := stripAnn_plain m, n1 := h.n1, alen1 := h.alen1, name_ok := h.name_ok, row_ok := h.row_ok }

theorem selexAnnTextWritable_writable (m : Msa) (h : SelexAnnTextWritable m) :
    SelexAnnWritable none (selexCfg none) id (fun i => m.aseq.getD i []) m :=
  { base := selexTextWritable_writable (stripAnn m) h.strip
    cs_ok := annOk_of _ _ h.ann.cs_ok, rf_ok := annOk_of _ _ h.ann.rf_ok, mm_ok := annOk_of _ _ h.ann.mm_ok
    ss_ok := fun i hi => annOk_of _ _ (h.ann.ss_ok i hi), sa_ok := fun i hi => annOk_of _ _ (h.ann.sa_ok i hi) }

/-- a digital alignment (alphabet `a`), annotation included, that SELEX represents faithfully -/
structure SelexAnnDigitalWritable (a : Abc) (m : Msa) : Prop where
  dig : m.digital = true
  ann : SelexAnn m
  n1 : 1 ≤ m.nseq
  alen1 : 1 ≤ m.alen
  name_ok : ∀ i, i < m.nseq → selexNameOk (m.names.getD i [])
  row_ok : ∀ i, i < m.nseq → dsqRowOk a.kp m.alen (m.ax.getD i []) = true

theorem SelexAnnDigitalWritable.strip {a : Abc} {m : Msa} (h : SelexAnnDigitalWritable a m) : SelexDigitalWritable a (stripAnn m) :=
  { dig := h.dig, plain := stripAnn_plain m, n1 := h.n1, alen1 := h.alen1, name_ok := h.name_ok, row_ok := h.row_ok }

theorem selexAnnDigitalWritable_writable (a : Abc) (ha : selexDigSymOk a = true) (m : Msa) (h : SelexAnnDigitalWritable a m) :
    SelexAnnWritable (some a) (selexCfg (some a)) (selexEnc a) (selexDigTxt a m) m :=
  { base := selexDigitalWritable_writable a ha (stripAnn m) h.strip
    cs_ok := annOk_of _ _ h.ann.cs_ok, rf_ok := annOk_of _ _ h.ann.rf_ok, mm_ok := annOk_of _ _ h.ann.mm_ok
    ss_ok := fun i hi => annOk_of _ _ (h.ann.ss_ok i hi), sa_ok := fun i hi => annOk_of _ _ (h.ann.sa_ok i hi) }

theorem selexRead_write_ann_text (m : Msa) (h : SelexAnnTextWritable m) :
    selexRead (selexCfg none) (splitLines (selexWrite none m)) = (.ok (selexProject (selexCfg none) m), []) :=
  selexRead_write_ann none (selexCfg none) id _ m (selexAnnTextWritable_writable m h) (fun i hi => (h.name_ok i hi).2)

theorem selexRead_write_ann_digital (a : Abc) (ha : selexDigSymOk a = true) (m : Msa) (h : SelexAnnDigitalWritable a m) :
    selexRead (selexCfg (some a)) (splitLines (selexWrite (some a) m)) = (.ok (selexProject (selexCfg (some a)) m), []) :=
  selexRead_write_ann (some a) (selexCfg (some a)) (selexEnc a) _ m (selexAnnDigitalWritable_writable a ha m h)
    (fun i hi => (h.name_ok i hi).2)

/-! ## `write (read (write m)) = write m`, and what comes back -/

/-- the per-sequence annotation the reader rebuilds has the same entry for every sequence -/
theorem selexRowsProj_optRow (n : Nat) (o : OptRows) (i : Nat) (hi : i < n) : optRow (selexRowsProj n o) i = optRow o i := by
  unfold selexRowsProj
  split
  · next hall =>
    have := (List.all_eq_true.mp hall) i (List.mem_range.mpr hi)
    have hnone : optRow o i = none := by simpa using this
    rw [hnone]; rfl
  · simp [optRow, List.getD_eq_getElem?_getD, hi]

/-- re-writing what was read back reproduces the bytes, annotation lines included -/
theorem selexWrite_project_ann (abc : Option Abc) (cfg : Cfg) (m : Msa)
    (hax : abc.isSome = true → (selexProject cfg m).ax = (List.range m.nseq).map fun i => m.ax.getD i [])
    (haseq : abc.isSome = false → (selexProject cfg m).aseq = (List.range m.nseq).map fun i => m.aseq.getD i []) :
    selexWrite abc (selexProject cfg m) = selexWrite abc m := by
  have hn : (selexProject cfg m).nseq = m.nseq := rfl
  unfold selexWrite selexLines
  have hw : selexNameLen (selexProject cfg m) = selexNameLen m := rfl
  have hal : (selexProject cfg m).alen = m.alen := rfl
  rw [hw, hal]
  congr 1
  apply flatMap_congr'
  intro apos _
  unfold selexBlockLines
  have h1 : (selexProject cfg m).ssCons = m.ssCons := rfl
  have h2 : (selexProject cfg m).rf = m.rf := rfl
  have h3 : (selexProject cfg m).mm = m.mm := rfl
  rw [h1, h2, h3, hn]
  congr 1
  apply flatMap_congr'
  intro i hi
  have hi' : i < m.nseq := List.mem_range.mp hi
  unfold selexSeqLines
  have hnm : (selexProject cfg m).names = m.names := rfl
  have hss : optRow (selexProject cfg m).ss i = optRow m.ss i := selexRowsProj_optRow m.nseq m.ss i hi'
  have hsa : optRow (selexProject cfg m).sa i = optRow m.sa i := selexRowsProj_optRow m.nseq m.sa i hi'
  rw [hnm, hss, hsa]
  have hch : seqChunk abc (selexProject cfg m) i apos selexCpl = seqChunk abc m i apos selexCpl := by
    cases abc with
    | none =>
      simp only [seqChunk]
      rw [haseq rfl]
      simp [List.getD_eq_getElem?_getD, hi']
    | some a =>
      simp only [seqChunk]
      rw [hax rfl]
      simp [List.getD_eq_getElem?_getD, hi']
  rw [hch]

theorem selexWrite_project_ann_text (m : Msa) (h : SelexAnnTextWritable m) :
    selexWrite none (selexProject (selexCfg none) m) = selexWrite none m := by
  apply selexWrite_project_ann none (selexCfg none) m
  · intro hc; simp at hc
  · intro _
    simp [selexProject, selexCfg, Cfg.digital, Msa.stored, h.dig]

theorem selexWrite_project_ann_digital (a : Abc) (m : Msa) (h : SelexAnnDigitalWritable a m) :
    selexWrite (some a) (selexProject (selexCfg (some a)) m) = selexWrite (some a) m := by
  apply selexWrite_project_ann (some a) (selexCfg (some a)) m
  · intro _
    simp [selexProject, selexCfg, Cfg.digital, Msa.stored, h.dig]
  · intro hc; simp at hc

end EaselModel.Msafile
