import EaselModel.Msafile.GuessWritten
import EaselModel.Msafile.PhylipRoundTrip
/-! # Autodetection of library-written PHYLIP output (C03, round 6)

`esl_msafile_GuessFileFormat` on what `esl_msafile_phylip_Write` produces, for EVERY alignment with at least one column: the first
line ` <nseq> <alen>` is recognised as a PHYLIP header whatever the two numbers are (`phyHeader_first`), so

* with a `.ph` / `.phy` / `.phyi` / `.phys` file name the answer is the format the suffix names, nothing else is looked at;
* otherwise the answer IS that of the deep check `esl_msafile_phylip_CheckFileFormat` on the whole output (`guess_phylipWrite`):
  the set where autodetection does not return the format written is exactly `{m | phyCheckFileFormat (write m) ≠ ok fmt}`.
  The library documents that check as a heuristic (interleaved and sequential files are the same bytes for one sequence or one
  block; names that look like residues shift the inferred name width), so no closed form of the set is claimed; the monitor
  accepts exactly the documented "consistent with both" outcome there. -/
namespace EaselModel.Msafile

theorem dch_digits : ∀ d : Fin 10, inDelim bDigits (dch d.val) = true ∧ dch d.val ≠ 109 ∧ dch d.val ≠ 10 ∧ dch d.val ≠ 13 := by decide

theorem natDec_allDigits (n : Nat) : allDigits (natDec n) = true := by
  unfold allDigits
  rw [List.all_eq_true]
  intro c hc
  obtain ⟨d, hd, rfl⟩ := natDec_mem n c hc
  exact (dch_digits ⟨d, hd⟩).1

/-- a line without the letter `m` does not contain "multiple sequence alignment" -/
theorem memstrcontains_words (p : Bytes) (h : (109 : UInt8) ∉ p) : memstrcontains p bMsaWords = false := by
  induction p with
  | nil => rfl
  | cons c t ih =>
    have hc : c ≠ 109 := fun e => h (by rw [e]; simp)
    have ht : (109 : UInt8) ∉ t := fun e => h (by simp [e])
    unfold memstrcontains
    rw [ih ht, Bool.or_false]
    simp only [bMsaWords, List.isPrefixOf, Bool.and_eq_false_imp, beq_iff_eq]
    intro e; exact absurd e.symm hc

/-- the header line the PHYLIP writers print -/
def phyHdrLine (n a : Nat) : Bytes := [32] ++ natDec n ++ [32] ++ natDec a

theorem phyHdrLine_mem (n a : Nat) (c : UInt8) (hc : c ∈ phyHdrLine n a) : c = 32 ∨ ∃ d, d < 10 ∧ c = dch d := by
  unfold phyHdrLine at hc
  simp only [List.mem_append, List.mem_singleton] at hc
  rcases hc with ((h | h) | h) | h
  · exact Or.inl h
  · exact Or.inr (natDec_mem n c h)
  · exact Or.inl h
  · exact Or.inr (natDec_mem a c h)

/-- **` <nseq> <alen>` is a line, is not blank, and looks like a PHYLIP header - for all numbers** -/
theorem phyHeader_first (n a : Nat) :
    lineOk (phyHdrLine n a) ∧ isBlankLine (phyHdrLine n a) = false ∧ fmtByFirstLine (phyHdrLine n a) = .phylip := by
  have hno : ∀ x : UInt8, x ≠ 32 → (∀ d : Fin 10, dch d.val ≠ x) → x ∉ phyHdrLine n a := by
    intro x h32 hd hx
    rcases phyHdrLine_mem n a x hx with e | ⟨d, hd', e⟩
    · exact h32 e
    · exact hd ⟨d, hd'⟩ e.symm
  have h10 : (10 : UInt8) ∉ phyHdrLine n a := hno 10 (by decide) (fun d => (dch_digits d).2.2.1)
  have h13 : (13 : UInt8) ∉ phyHdrLine n a := hno 13 (by decide) (fun d => (dch_digits d).2.2.2)
  have h109 : (109 : UInt8) ∉ phyHdrLine n a := hno 109 (by decide) (fun d => (dch_digits d).2.1)
  have hshape : phyHdrLine n a = 32 :: (natDec n ++ 32 :: natDec a) := by unfold phyHdrLine; simp
  have htok : memtok (phyHdrLine n a) blankTab = some (natDec n, natDec a) := by
    rw [hshape, memtok_skip32]
    exact memtok_name_desc (natDec n) (natDec a) (natDec_nameOk n) (natDec_descOk a)
  refine ⟨⟨h10, fun h => h13 (List.mem_of_getLast? h)⟩, ?_, ?_⟩
  · -- not blank: the first digit of nseq
    obtain ⟨d, hd, hm⟩ : ∃ d, d < 10 ∧ dch d ∈ phyHdrLine n a := by
      cases hx : natDec n with
      | nil => exact absurd hx (natDec_ne_nil n)
      | cons c t =>
        obtain ⟨d, hd, e⟩ := natDec_mem n c (by rw [hx]; simp)
        exact ⟨d, hd, by rw [hshape, hx, ← e]; simp⟩
    unfold isBlankLine
    rw [Bool.eq_false_iff]
    intro hall
    have := (List.all_eq_true.mp hall) _ hm
    have hf := (dch_facts ⟨d, hd⟩).2.2.1
    simp only at hf
    rw [hf] at this; cases this
  · unfold fmtByFirstLine
    have p1 : memstrpfx (phyHdrLine n a) bStockholmHdr = false := by rw [hshape]; simp [memstrpfx, bStockholmHdr, List.isPrefixOf]
    have p2 : memstrpfx (phyHdrLine n a) bGt = false := by rw [hshape]; simp [memstrpfx, bGt, List.isPrefixOf]
    have p3 : memstrpfx (phyHdrLine n a) bClustal = false := by rw [hshape]; simp [memstrpfx, bClustal, List.isPrefixOf]
    simp only [p1, p2, p3, memstrcontains_words _ h109, Bool.false_eq_true, if_false, htok, natDec_allDigits, Bool.not_true,
      memtok_name (natDec a) (natDec_nameOk a), if_true]

/-- **autodetection of PHYLIP output, interleaved or sequential, any alignment with ≥ 1 column**: the suffix decides when there is
    one; otherwise the verdict is, exactly, that of `esl_msafile_phylip_CheckFileFormat` on the output -/
theorem guess_phylipWrite (fname : Option Bytes) (sequential : Bool) (abc : Option Abc) (m : Msa) (h : 0 < m.alen) :
    guessFormat fname (splitLines (phylipWrite sequential abc m)) =
      if fmtBySuffix fname == some .phylip then .ok (.phylip, 0)
      else if fmtBySuffix fname == some .phylips then .ok (.phylips, 0)
      else phyCheckFileFormat (splitLines (phylipWrite sequential abc m)) := by
  obtain ⟨rest, hr⟩ := phylipWrite_header sequential abc m h
  have hf := phyHeader_first m.nseq m.alen
  have hr' : phylipWrite sequential abc m = phyHdrLine m.nseq m.alen ++ 10 :: rest := hr
  rw [hr', splitLines_first _ _ hf.1, guessFormat_cons _ _ _ hf.2.1, hf.2.2]

theorem fmtBySuffix_phy : fmtBySuffix (some (str "x.phy")) = some .phylip := by decide +kernel
theorem fmtBySuffix_phys : fmtBySuffix (some (str "x.phys")) = some .phylips := by decide +kernel

end EaselModel.Msafile
