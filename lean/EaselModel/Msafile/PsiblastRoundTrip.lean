import EaselModel.Msafile.ClustalRoundTrip
import EaselModel.Msafile.Psiblast
/-! PSI-BLAST: reading what `esl_msafile_psiblast_Write` wrote gives the alignment back (C03), for alignments on which
    the writer's case/gap conventions are the identity (every column a consensus column: upper-case residues and `-`).
    The reader builds `msa->rf` from the case of the residues: `x` where some row holds a residue, `-` elsewhere. -/
namespace EaselModel.Msafile

/-! ## the scanning loops on a written row line -/

theorem scanBack_last (p : Bytes) (n : Nat) (c : UInt8) (h : p[n + 1]? = some c) (hc : isSpace c = false) :
    scanBack p (n + 1) = some (n + 1) := by
  rw [scanBack, h]
  simp [hc]

/-- the columns `psiCols` finds on `name ++ blanks ++ residues` -/
theorem psiCols_line (nm ch : Bytes) (k : Nat) (hnm : nm ≠ []) (hns : ∀ c ∈ nm, isSpace c = false)
    (hch : ch ≠ []) (hcs : ∀ c ∈ ch, isSpace c = false) :
    psiCols (nm ++ List.replicate (k + 1) 32 ++ ch) = .ok ⟨0, nm.length, nm.length + (k + 1), ch.length⟩ := by
  obtain ⟨n0, nt, rfl⟩ := List.exists_cons_of_ne_nil hnm
  have hch' := hch
  obtain ⟨c0, ct, rfl⟩ := List.exists_cons_of_ne_nil hch
  have hn0 : isSpace n0 = false := hns n0 (by simp)
  have hc0 : isSpace c0 = false := hcs c0 (by simp)
  have h32 : isSpace 32 = true := by decide
  have h1 : scanTo (fun c => !isSpace c) (n0 :: nt ++ List.replicate (k + 1) 32 ++ c0 :: ct) 0 = 0 := by
    unfold scanTo
    simp [hn0]
  have h2 : scanTo isSpace (n0 :: nt ++ List.replicate (k + 1) 32 ++ c0 :: ct) (0 + 1) = nt.length + 1 := by
    have e : n0 :: nt ++ List.replicate (k + 1) 32 ++ c0 :: ct = [n0] ++ (nt ++ (32 :: (List.replicate k 32 ++ c0 :: ct))) := by
      simp [List.replicate_succ]
    rw [e, scanTo_at _ [n0] _ (0 + 1) rfl,
      takeWhile_stopAt _ nt _ (fun x hx => by simp [hns x (by simp [hx])]) (Or.inr ⟨32, _, rfl, by simp [h32]⟩)]
    omega
  have h3 : scanTo (fun c => !isSpace c) (n0 :: nt ++ List.replicate (k + 1) 32 ++ c0 :: ct) (nt.length + 1 + 1)
      = nt.length + 1 + (k + 1) := by
    have e : n0 :: nt ++ List.replicate (k + 1) 32 ++ c0 :: ct = (n0 :: nt ++ [32]) ++ (List.replicate k 32 ++ c0 :: ct) := by
      simp [List.replicate_succ]
    rw [e, scanTo_at _ (n0 :: nt ++ [32]) _ (nt.length + 1 + 1) (by simp),
      takeWhile_stopAt _ (List.replicate k 32) _ (fun x hx => by rw [(List.mem_replicate.mp hx).2]; simp [h32])
        (Or.inr ⟨c0, ct, rfl, by simp [hc0]⟩)]
    simp; omega
  have hlen : (n0 :: nt ++ List.replicate (k + 1) 32 ++ c0 :: ct).length = nt.length + 1 + (k + 1) + ct.length + 1 := by
    simp; omega
  have hlt : ¬ (nt.length + 1 + (k + 1) ≥ (n0 :: nt ++ List.replicate (k + 1) 32 ++ c0 :: ct).length) := by
    rw [hlen]; omega
  -- the last character of the line is the last residue
  have hlast : ∃ c, (n0 :: nt ++ List.replicate (k + 1) 32 ++ c0 :: ct)[nt.length + 1 + (k + 1) + ct.length]? = some c ∧ isSpace c = false := by
    have hne : (c0 :: ct) ≠ [] := hch'
    refine ⟨(c0 :: ct).getLast hne, ?_, hcs _ (List.getLast_mem hne)⟩
    rw [List.getElem?_append_right (by simp; omega)]
    have : nt.length + 1 + (k + 1) + ct.length - (n0 :: nt ++ List.replicate (k + 1) 32).length = (c0 :: ct).length - 1 := by
      simp; omega
    rw [this, ← List.getLast?_eq_getElem?, List.getLast?_eq_some_getLast hne]
  obtain ⟨cl, hcl, hcls⟩ := hlast
  have hsb : scanBack (n0 :: nt ++ List.replicate (k + 1) 32 ++ c0 :: ct) ((n0 :: nt ++ List.replicate (k + 1) 32 ++ c0 :: ct).length - 1)
      = some (nt.length + 1 + (k + 1) + ct.length) := by
    rw [hlen]
    exact scanBack_last _ (nt.length + 1 + (k + 1) + ct.length - 1 + 0) cl
      (by rw [show nt.length + 1 + (k + 1) + ct.length - 1 + 0 + 1 = nt.length + 1 + (k + 1) + ct.length by omega]; exact hcl) hcls
        |> fun h => by
          rw [show nt.length + 1 + (k + 1) + ct.length + 1 - 1 = nt.length + 1 + (k + 1) + ct.length - 1 + 0 + 1 by omega, h]
          congr 1; omega
  have hge : ¬ (nt.length + 1 + (k + 1) + ct.length < nt.length + 1 + (k + 1)) := by omega
  unfold psiCols
  simp only [h1, h2, h3, hlt, if_false, hsb, hge, List.length_cons]
  congr 2 <;> omega

/-! ## the `#=RF`-like line built from the case of the residues -/

/-- a written residue character when every column is a consensus column -/
def psiUpper (c : UInt8) : Prop := isUpper c = true ∨ c = 45

theorem rfLoop_upper : ∀ (seq pre blk : Bytes), blk.length = seq.length → (∀ c ∈ seq, psiUpper c) → (∀ x ∈ blk, x ≠ 46) →
    rfLoop seq (pre ++ blk) pre.length = .ok (pre ++ List.zipWith (fun x c => if c == 45 then x else 120) blk seq) := by
  intro seq
  induction seq with
  | nil =>
    intro pre blk hl _ _
    have : blk = [] := List.length_eq_zero_iff.mp (by simpa using hl)
    subst this
    simp [rfLoop]
  | cons c rest ih =>
    intro pre blk hl hc hx
    obtain ⟨x, blk', rfl⟩ := List.exists_cons_of_ne_nil (l := blk) (by intro e; rw [e] at hl; simp at hl)
    have hl' : blk'.length = rest.length := by simpa using hl
    have hc' : ∀ c ∈ rest, psiUpper c := fun c h => hc c (by simp [h])
    have hx' : ∀ x ∈ blk', x ≠ 46 := fun y h => hx y (by simp [h])
    by_cases h45 : c = 45
    · subst h45
      rw [rfLoop]
      simp only [beq_self_eq_true, if_true]
      have := ih (pre ++ [x]) blk' hl' hc' hx'
      simp only [List.length_append, List.length_singleton, List.append_assoc, List.singleton_append] at this
      rw [this]
      simp
    · have hup : isUpper c = true := by
        rcases hc c (by simp) with h | h
        · exact h
        · exact absurd h h45
      have h45' : (c == 45) = false := by simpa using h45
      have hget : (pre ++ x :: blk')[pre.length]? = some x := by simp
      have hx46 : (x == 46) = false := by simpa using hx x (by simp)
      rw [rfLoop]
      simp only [h45', Bool.false_eq_true, if_false, hup, if_true, hget, hx46]
      have hset : (pre ++ x :: blk').set pre.length 120 = (pre ++ [120]) ++ blk' := by simp
      have := ih (pre ++ [120]) blk' hl' hc' hx'
      simp only [List.length_append, List.length_singleton] at this
      rw [hset, this]
      simp [h45]

/-- column `c` of the RF line when the first `idx` rows are accounted for -/
def colX (txt : Nat → Bytes) (idx c : Nat) : UInt8 :=
  if (List.range idx).any (fun i => (txt i).getD c 45 != 45) then 120 else 45

/-- the RF line under construction: final up to `pos`, then the block of `len` columns after `idx` rows -/
def rfAt (txt : Nat → Bytes) (nseq pos len idx : Nat) : Bytes :=
  (List.range pos).map (colX txt nseq) ++ (List.range len).map (fun b => colX txt idx (pos + b))

theorem colX_ne46 (txt : Nat → Bytes) (idx c : Nat) : colX txt idx c ≠ 46 := by
  unfold colX; split <;> decide

theorem colX_zero (txt : Nat → Bytes) (c : Nat) : colX txt 0 c = 45 := by simp [colX]

theorem colX_succ (txt : Nat → Bytes) (idx c : Nat) :
    colX txt (idx + 1) c = if (txt idx).getD c 45 == 45 then colX txt idx c else 120 := by
  unfold colX
  rw [List.range_succ, List.any_append]
  simp only [List.any_cons, List.any_nil, Bool.or_false]
  generalize (List.range idx).any _ = A
  generalize (txt idx).getD c 45 = v
  by_cases hv : v = 45
  · subst hv; cases A <;> simp
  · have h1 : (v == 45) = false := by simpa using hv
    have h2 : (v != 45) = true := by simp [bne, h1]
    cases A <;> simp [h1, h2]

theorem rfAt_full (txt : Nat → Bytes) (nseq pos len : Nat) :
    rfAt txt nseq pos len nseq = (List.range (pos + len)).map (colX txt nseq) := by
  unfold rfAt
  rw [List.range_add, List.map_append, List.map_map]
  rfl

/-- one row's residues folded into the RF line -/
theorem rfLoop_row (txt : Nat → Bytes) (nseq pos idx : Nat) (hu : ∀ c ∈ txt idx, psiUpper c) :
    rfLoop (((txt idx).drop pos).take 60) (rfAt txt nseq pos (((txt idx).drop pos).take 60).length idx) pos
      = .ok (rfAt txt nseq pos (((txt idx).drop pos).take 60).length (idx + 1)) := by
  have h := rfLoop_upper (((txt idx).drop pos).take 60) ((List.range pos).map (colX txt nseq))
    ((List.range (((txt idx).drop pos).take 60).length).map (fun b => colX txt idx (pos + b))) (by simp)
    (fun c hc => hu c (mem_of_drop_take hc))
    (fun x hx => by
      obtain ⟨b, _, rfl⟩ := List.mem_map.mp hx
      exact colX_ne46 txt idx _)
  rw [show ((List.range pos).map (colX txt nseq)).length = pos by simp] at h
  unfold rfAt
  rw [h]
  congr 2
  apply List.ext_getElem?
  intro b
  by_cases hb : b < (((txt idx).drop pos).take 60).length
  · have hb60 : b < 60 := Nat.lt_of_lt_of_le hb (List.length_take_le _ _)
    have hq : (((txt idx).drop pos).take 60)[b]? = (txt idx)[pos + b]? := by
      rw [List.getElem?_take]; simp [hb60, List.getElem?_drop]
    have hg : (txt idx).getD (pos + b) 45 = (((txt idx).drop pos).take 60)[b] := by
      rw [List.getD_eq_getElem?_getD, ← hq, List.getElem?_eq_getElem hb]; rfl
    simp only [List.getElem?_zipWith, List.getElem?_map, List.getElem?_range hb, List.getElem?_eq_getElem hb, Option.map_some,
      Option.some.injEq]
    rw [colX_succ, hg]
  · rw [List.getElem?_eq_none (by simp only [List.length_zipWith, List.length_map, List.length_range]; omega),
      List.getElem?_eq_none (by simp only [List.length_map, List.length_range]; omega)]

theorem psiUpper_fin : ∀ n : Fin 256, (isUpper (UInt8.ofNat n.val) = true ∨ UInt8.ofNat n.val = 45) →
    isSpace (UInt8.ofNat n.val) = false ∧ UInt8.ofNat n.val ≠ 0 := by decide +kernel

theorem psiUpper_notSpace (c : UInt8) (h : psiUpper c) : isSpace c = false ∧ c ≠ 0 := by
  have := psiUpper_fin ⟨c.toNat, c.toNat_lt⟩
  simp only [UInt8.ofNat_toNat] at this
  exact this h

/-! ## what PSI-BLAST carries -/

/-- the RF line the reader builds: `x` in the columns where some row holds a residue, `-` elsewhere -/
def psiRf (txt : Nat → Bytes) (m : Msa) : Bytes := (List.range m.alen).map (colX txt m.nseq)

/-- everything PSI-BLAST represents of `m`: names, aligned rows, default weights; the read-back alignment carries the RF
    line `rf` derived from the residues -/
def psiblastProject (cfg : Cfg) (rf : Bytes) (m : Msa) : Msa :=
  { digital := cfg.digital, kp := cfg.kp, alen := m.alen, names := m.names,
    aseq := if cfg.digital then [] else (List.range m.nseq).map m.stored,
    ax := if cfg.digital then (List.range m.nseq).map m.stored else [],
    hasw := false, wgt := List.replicate m.nseq Wgt.dflt, rf := some rf }

/-- an alignment that PSI-BLAST carries and `esl_msafile_psiblast_Write` + `esl_msafile_psiblast_Read` preserve: the
    text `txt i` the writer prints for row `i` consists of upper-case letters and `-` (every column a consensus column,
    every residue a letter), and is read back (`enc`) to the stored row -/
structure PsiblastWritable (abc : Option Abc) (cfg : Cfg) (enc : UInt8 → UInt8) (txt : Nat → Bytes) (m : Msa) : Prop where
  n1 : 1 ≤ m.nseq
  alen1 : 1 ≤ m.alen
  name_ok : ∀ i, i < m.nseq → cluNameOk (m.names.getD i [])
  txt_len : ∀ i, i < m.nseq → (txt i).length = m.alen
  line_eq : ∀ i, i < m.nseq → ∀ pos, pos < m.alen →
    psiRowLine abc m (maxWidth m.names) pos i
      = padRight ((maxWidth m.names : Nat) : Int) (m.names.getD i []) ++ [32, 32] ++ ((txt i).drop pos).take 60
  txt_sym : ∀ i, i < m.nseq → ∀ t ∈ txt i, mapByte cfg.inmap t = (.ok, some (enc t)) ∧ psiUpper t
  row_enc : ∀ i, i < m.nseq → m.stored i = mkRow cfg.digital ((txt i).map enc)

theorem psiRowLine_shape (abc : Option Abc) (cfg : Cfg) (enc : UInt8 → UInt8) (txt : Nat → Bytes) (m : Msa)
    (h : PsiblastWritable abc cfg enc txt m) (i : Nat) (hi : i < m.nseq) (pos : Nat) (hpos : pos < m.alen) :
    psiRowLine abc m (maxWidth m.names) pos i
      = m.names.getD i [] ++ List.replicate (maxWidth m.names - (m.names.getD i []).length + 1 + 1) 32 ++ ((txt i).drop pos).take 60 := by
  rw [h.line_eq i hi pos hpos]
  simp [padRight, List.replicate_succ']

/-! ## state relation -/

/-- in front of row `i` of the block starting at `pos` -/
structure PsiRt (cfg : Cfg) (enc : UInt8 → UInt8) (txt : Nat → Bytes) (m : Msa) (pos i : Nat) (st : BlkSt) : Prop where
  alen : st.alen = pos
  idx : st.idx = i
  nb : (st.nblocks == 0) = decide (pos = 0)
  nseq : pos ≠ 0 → st.nseq = m.nseq
  names : st.names = if pos = 0 then m.names.take i else m.names
  sq1 : 1 ≤ st.sqalloc
  sqi : i ≤ st.sqalloc
  sqn : pos ≠ 0 → m.nseq ≤ st.sqalloc
  rows : st.rows = (List.range st.sqalloc).map (cluRowF cfg enc txt m pos i)
  blk : i ≠ 0 → st.bss = maxWidth m.names + 2 ∧ st.bsl = blockLen m pos
  rfp : st.rf.take pos = (List.range pos).map (colX txt m.nseq)
  rfb : i ≠ 0 → st.rf = rfAt txt m.nseq pos (blockLen m pos) i

/-- between "Store the sequence name" and "Append the sequence" of row `i` -/
structure PsiMid (cfg : Cfg) (enc : UInt8 → UInt8) (txt : Nat → Bytes) (m : Msa) (pos i : Nat) (st : BlkSt) : Prop where
  phase : st.phase = .inblock
  alen : st.alen = pos
  idx : st.idx = i
  nb : (st.nblocks == 0) = decide (pos = 0)
  nseq : pos ≠ 0 → st.nseq = m.nseq
  names : st.names = if pos = 0 then m.names.take (i + 1) else m.names
  sq1 : 1 ≤ st.sqalloc
  sqi : i < st.sqalloc
  sqn : pos ≠ 0 → m.nseq ≤ st.sqalloc
  rows : st.rows = (List.range st.sqalloc).map (cluRowF cfg enc txt m pos i)
  bss : st.bss = maxWidth m.names + 2
  bsl : st.bsl = blockLen m pos
  rf : st.rf = rfAt txt m.nseq pos (blockLen m pos) (i + 1)

/-- the scanning part of `psiSeqLine` on a written row line -/
theorem psiSeqLine_line (cfg : Cfg) (st : BlkSt) (nm ch : Bytes) (k : Nat) (rf1 : Bytes) (hnm : nm ≠ []) (hns : ∀ c ∈ nm, isSpace c = false)
    (hch : ch ≠ []) (hcs : ∀ c ∈ ch, isSpace c = false)
    (hb : st.idx ≠ 0 → st.bss = nm.length + (k + 1) ∧ st.bsl = ch.length)
    (hrf : rfLoop ch (if st.idx == 0 then st.rf.take st.alen ++ List.replicate ch.length 45 else st.rf) st.alen = .ok rf1) :
    psiSeqLine cfg st (nm ++ List.replicate (k + 1) 32 ++ ch)
      = blkStore cfg false { st with bss := nm.length + (k + 1), bsl := ch.length, phase := .inblock, rf := rf1 } nm ch := by
  have hcols := psiCols_line nm ch k hnm hns hch hcs
  have hs1 : slice (nm ++ List.replicate (k + 1) 32 ++ ch) 0 nm.length = some nm := by
    have := slice_mid [] nm (List.replicate (k + 1) 32 ++ ch)
    simpa using this
  have hs2 : slice (nm ++ List.replicate (k + 1) 32 ++ ch) (nm.length + (k + 1)) ch.length = some ch := by
    have := slice_mid (nm ++ List.replicate (k + 1) 32) ch []
    simpa using this
  unfold psiSeqLine
  rw [hcols]
  simp only [hs1, hs2, hrf]
  by_cases h0 : st.idx = 0
  · simp [setBlock, h0]
  · obtain ⟨h1, h2⟩ := hb h0
    have e0 : (st.idx == 0) = false := by simpa using h0
    simp only [setBlock, e0, Bool.false_eq_true, if_false, h1, h2, bne_self_eq_false, Bool.and_false]

/-- "Store the sequence name" for row `i` -/
theorem psiName_mid (cfg : Cfg) (enc : UInt8 → UInt8) (txt : Nat → Bytes) (m : Msa) (pos i : Nat) (hi : i < m.nseq)
    (hc : cstr (m.names.getD i []) = m.names.getD i [])
    (st : BlkSt) (hst : PsiRt cfg enc txt m pos i st) :
    ∃ st2, blkName false { st with bss := maxWidth m.names + 2, bsl := blockLen m pos, phase := .inblock,
                                   rf := rfAt txt m.nseq pos (blockLen m pos) (i + 1) } (m.names.getD i []) = .inl st2 ∧
      PsiMid cfg enc txt m pos i st2 := by
  have hi' : i < m.names.length := hi
  by_cases hp : pos = 0
  · subst hp
    have hsq1 := hst.sq1
    have hsqi := hst.sqi
    have hidx : st.idx < expandAlloc st.idx st.sqalloc := by
      rw [hst.idx]; unfold expandAlloc; split <;> omega
    have h0 : (st.nblocks == 0) = true := by rw [hst.nb]; simp
    refine ⟨_, blkName_first false _ _ h0 hidx hc, ?_⟩
    exact
      { phase := rfl, alen := hst.alen, idx := hst.idx, nb := hst.nb
        nseq := fun h => absurd rfl h
        names := by
          show st.names ++ [m.names.getD i []] = _
          rw [hst.names]; simp only [if_true]
          exact take_succ_getD m.names i hi'
        sq1 := by show 1 ≤ expandAlloc st.idx st.sqalloc; unfold expandAlloc; split <;> omega
        sqi := by show i < expandAlloc st.idx st.sqalloc; rw [← hst.idx]; exact hidx
        sqn := fun h => absurd rfl h
        rows := by
          show (if st.idx ≥ st.sqalloc then st.rows ++ List.replicate st.sqalloc none else st.rows)
            = (List.range (expandAlloc st.idx st.sqalloc)).map _
          unfold expandAlloc
          by_cases hge : st.idx ≥ st.sqalloc
          · simp only [hge, if_true, hst.rows]
            exact rangeMap_expand _ _ (fun j hj => cluRowF_zero_ge cfg enc txt m i j (by rw [hst.idx] at hge; omega))
          · simp only [hge, if_false, hst.rows]
        bss := rfl, bsl := rfl, rf := rfl }
  · have hnseq : st.nseq = m.nseq := hst.nseq hp
    have hnames : st.names = m.names := by rw [hst.names]; simp [hp]
    have h0 : (st.nblocks == 0) = false := by rw [hst.nb]; simp [hp]
    refine ⟨_, blkName_later false _ _ h0 (by show st.idx < st.nseq; rw [hst.idx, hnseq]; exact hi) ?_, ?_⟩
    · show st.names[st.idx]? = _
      rw [hnames, hst.idx, List.getD_eq_getElem?_getD, List.getElem?_eq_getElem hi']; rfl
    · exact
        { phase := rfl, alen := hst.alen, idx := hst.idx, nb := hst.nb
          nseq := fun _ => hnseq
          names := by show st.names = _; rw [hnames]; simp [hp]
          sq1 := hst.sq1
          sqi := by show i < st.sqalloc; have := hst.sqn hp; omega
          sqn := hst.sqn
          rows := hst.rows, bss := rfl, bsl := rfl, rf := rfl }

/-- "Append the sequence" for row `i` -/
theorem psiAppend_mid (cfg : Cfg) (enc : UInt8 → UInt8) (txt : Nat → Bytes) (m : Msa) (pos i : Nat) (hi : i < m.nseq)
    (hpos : pos < m.alen) (hlenT : (txt i).length = m.alen)
    (hmaps : ∀ t ∈ txt i, mapByte cfg.inmap t = (.ok, some (enc t)))
    (st : BlkSt) (hst : PsiMid cfg enc txt m pos i st) :
    ∃ st', blkAppend cfg st (((txt i).drop pos).take 60) = .inl st' ∧ st'.phase = .inblock ∧ PsiRt cfg enc txt m pos (i + 1) st' := by
  have hrow : st.rows[st.idx]? = some (phyRowAt cfg enc txt pos i) := by
    rw [hst.rows, hst.idx, rangeMap_get _ _ _ hst.sqi]; simp [cluRowF, hi, ilvRowF]
  have hlen : rowLen cfg.digital (phyRowAt cfg enc txt pos i) = st.alen := by
    rw [hst.alen, rowLen_phyRowAt, List.length_take, hlenT]; omega
  have hcat := phy_cat_plain cfg enc (phyRowAt cfg enc txt pos i) (((txt i).drop pos).take 60)
    (buf_ne_nil _ _ (by rw [hlenT]; exact hpos)) (fun t ht => hmaps t (mem_of_drop_take ht))
  rw [curCodes_phyRowAt, ← List.map_append, ← take_step] at hcat
  have hl : (((txt i).take (pos + 60)).map enc).length = st.alen + (((txt i).drop pos).take 60).length := by
    rw [hst.alen]; simp [hlenT]; omega
  refine ⟨_, blkAppend_ok cfg st _ _ _ hrow hlen hcat hl, hst.phase, ?_⟩
  exact
    { alen := hst.alen
      idx := by show st.idx + 1 = i + 1; rw [hst.idx]
      nb := hst.nb, nseq := hst.nseq, names := hst.names, sq1 := hst.sq1
      sqi := hst.sqi
      sqn := hst.sqn
      rows := by
        show st.rows.set st.idx _ = _
        rw [hst.rows, hst.idx]
        exact cluRowF_set cfg enc txt m pos i _ hi hst.sqi
      blk := fun _ => ⟨hst.bss, hst.bsl⟩
      rfp := by
        show st.rf.take pos = _
        rw [hst.rf, rfAt, List.take_left' (by simp)]
      rfb := fun _ => hst.rf }

/-- one row line of a block -/
theorem psiSeqLine_row (abc : Option Abc) (cfg : Cfg) (enc : UInt8 → UInt8) (txt : Nat → Bytes) (m : Msa)
    (h : PsiblastWritable abc cfg enc txt m) (pos : Nat) (hpos : pos < m.alen) (i : Nat) (hi : i < m.nseq)
    (st : BlkSt) (hst : PsiRt cfg enc txt m pos i st) :
    ∃ st', psiSeqLine cfg st (psiRowLine abc m (maxWidth m.names) pos i) = .inl st' ∧ st'.phase = .inblock ∧
      PsiRt cfg enc txt m pos (i + 1) st' := by
  have hnm := h.name_ok i hi
  have hlenT := h.txt_len i hi
  have hw : (m.names.getD i []).length ≤ maxWidth m.names := maxWidth_ge m.names i hi
  have hchlen : (((txt i).drop pos).take 60).length = blockLen m pos := by
    simp [blockLen, hlenT]; omega
  have hss : (m.names.getD i []).length + (maxWidth m.names - (m.names.getD i []).length + 1 + 1) = maxWidth m.names + 2 := by omega
  have hrf0 : (if st.idx == 0 then st.rf.take st.alen ++ List.replicate (((txt i).drop pos).take 60).length 45 else st.rf)
      = rfAt txt m.nseq pos (((txt i).drop pos).take 60).length i := by
    by_cases h0 : i = 0
    · subst h0
      have : (st.idx == 0) = true := by rw [hst.idx]; rfl
      rw [this, hst.alen, hst.rfp]
      simp only [if_true, rfAt]
      rw [rangeMap_const _ (fun b => colX txt 0 (pos + b)) 45 (fun j => colX_zero txt _)]
    · have : (st.idx == 0) = false := by rw [hst.idx]; simpa using h0
      rw [this, hchlen]
      simp only [Bool.false_eq_true, if_false]
      exact hst.rfb h0
  have hrf : rfLoop (((txt i).drop pos).take 60)
      (if st.idx == 0 then st.rf.take st.alen ++ List.replicate (((txt i).drop pos).take 60).length 45 else st.rf) st.alen
      = .ok (rfAt txt m.nseq pos (((txt i).drop pos).take 60).length (i + 1)) := by
    rw [hrf0, hst.alen]
    exact rfLoop_row txt m.nseq pos i (fun c hc => (h.txt_sym i hi c hc).2)
  have hline := psiSeqLine_line cfg st (m.names.getD i []) (((txt i).drop pos).take 60)
    (maxWidth m.names - (m.names.getD i []).length + 1) _ hnm.1 (fun c hc => (hnm.2 c hc).1)
    (buf_ne_nil _ _ (by rw [hlenT]; exact hpos))
    (fun c hc => (psiUpper_notSpace c (h.txt_sym i hi c (mem_of_drop_take hc)).2).1)
    (fun h0 => by rw [hss, hchlen]; exact hst.blk (by rw [← hst.idx]; exact h0))
    hrf
  rw [hss, hchlen] at hline
  obtain ⟨st2, hs2, hmid⟩ := psiName_mid cfg enc txt m pos i hi (cstr_id _ (fun c hc => (hnm.2 c hc).2)) st hst
  obtain ⟨st3, hs3, hph, hrt⟩ := psiAppend_mid cfg enc txt m pos i hi hpos hlenT (fun t ht => (h.txt_sym i hi t ht).1) st2 hmid
  refine ⟨st3, ?_, hph, hrt⟩
  rw [psiRowLine_shape abc cfg enc txt m h i hi pos hpos, hline]
  unfold blkStore
  rw [hs2]
  exact hs3

/-! ## the steps of a block -/

theorem psiRowLine_notBlank (abc : Option Abc) (cfg : Cfg) (enc : UInt8 → UInt8) (txt : Nat → Bytes) (m : Msa)
    (h : PsiblastWritable abc cfg enc txt m) (i : Nat) (hi : i < m.nseq) (pos : Nat) (hpos : pos < m.alen) :
    isBlankLine (psiRowLine abc m (maxWidth m.names) pos i) = false := by
  obtain ⟨hne, hc⟩ := h.name_ok i hi
  rw [psiRowLine_shape abc cfg enc txt m h i hi pos hpos]
  obtain ⟨n0, nt, hnm⟩ := List.exists_cons_of_ne_nil hne
  have h0 := hc n0 (by rw [hnm]; simp)
  have hd : inDelim blankTab n0 = false := by
    have h32 : n0 ≠ 32 := fun e => by rw [e] at h0; exact absurd h0.1 (by decide)
    have h9 : n0 ≠ 9 := fun e => by rw [e] at h0; exact absurd h0.1 (by decide)
    simp [inDelim, blankTab, h0.2, h32, h9]
  rw [hnm]
  simp [isBlankLine, hd]

theorem psiStep_inblock_row (cfg : Cfg) (st : BlkSt) (l : Bytes) (hp : st.phase = .inblock) (hl : isBlankLine l = false) :
    psiStep cfg st l = psiSeqLine cfg st l := by
  unfold psiStep
  rw [hp]
  simp only [hl, Bool.false_eq_true, if_false]

/-- the row lines of the block starting at `pos` -/
theorem psiSteps_rows (abc : Option Abc) (cfg : Cfg) (enc : UInt8 → UInt8) (txt : Nat → Bytes) (m : Msa)
    (h : PsiblastWritable abc cfg enc txt m) (pos : Nat) (hpos : pos < m.alen) (st st0 : BlkSt)
    (hst0 : PsiRt cfg enc txt m pos 0 st0)
    (hfirst : psiStep cfg st (psiRowLine abc m (maxWidth m.names) pos 0) = psiSeqLine cfg st0 (psiRowLine abc m (maxWidth m.names) pos 0)) :
    ∀ i, 1 ≤ i → i ≤ m.nseq →
      ∃ st', stepsFrom (psiStep cfg) st ((List.range i).map (psiRowLine abc m (maxWidth m.names) pos)) = .inl st' ∧
        st'.phase = .inblock ∧ PsiRt cfg enc txt m pos i st' := by
  intro i
  induction i with
  | zero => intro h0; omega
  | succ i ih =>
    intro _ hi
    by_cases hi0 : i = 0
    · subst hi0
      obtain ⟨st1, hs1, hp1, hst1⟩ := psiSeqLine_row abc cfg enc txt m h pos hpos 0 (by omega) st0 hst0
      refine ⟨st1, ?_, hp1, hst1⟩
      have e1 : (List.range (0 + 1)).map (psiRowLine abc m (maxWidth m.names) pos) = [psiRowLine abc m (maxWidth m.names) pos 0] := rfl
      rw [e1]
      simp only [stepsFrom, hfirst, hs1]
    · obtain ⟨st1, hs1, hp1, hst1⟩ := ih (by omega) (by omega)
      obtain ⟨st2, hs2, hp2, hst2⟩ := psiSeqLine_row abc cfg enc txt m h pos hpos i (by omega) st1 hst1
      refine ⟨st2, ?_, hp2, hst2⟩
      rw [List.range_succ, List.map_append, stepsFrom_append (psiStep cfg) _ _ st st1 hs1]
      simp only [List.map_cons, List.map_nil, stepsFrom]
      rw [psiStep_inblock_row cfg st1 _ hp1 (psiRowLine_notBlank abc cfg enc txt m h i (by omega) pos hpos), hs2]

/-- the state after "End of one block" -/
structure PsiEnd (cfg : Cfg) (enc : UInt8 → UInt8) (txt : Nat → Bytes) (m : Msa) (pos : Nat) (st : BlkSt) : Prop where
  phase : st.phase = .between
  alen : st.alen = pos + blockLen m pos
  nb : (st.nblocks == 0) = false
  nseq : st.nseq = m.nseq
  names : st.names = m.names
  sq1 : 1 ≤ st.sqalloc
  sqn : m.nseq ≤ st.sqalloc
  rows : st.rows = (List.range st.sqalloc).map (cluRowF cfg enc txt m pos m.nseq)
  rf : st.rf = rfAt txt m.nseq pos (blockLen m pos) m.nseq

theorem psiEndBlock_after (cfg : Cfg) (enc : UInt8 → UInt8) (txt : Nat → Bytes) (m : Msa) (pos : Nat) (hn1 : 1 ≤ m.nseq)
    (st : BlkSt) (hst : PsiRt cfg enc txt m pos m.nseq st) :
    ∃ st', psiEndBlock st = .inl st' ∧ PsiEnd cfg enc txt m pos st' := by
  have hblk := hst.blk (by omega)
  have hcond : (st.nblocks != 0 && st.idx != st.nseq) = false := by
    by_cases hp : pos = 0
    · have : (st.nblocks == 0) = true := by rw [hst.nb]; simp [hp]
      simp [bne, this]
    · have : (st.idx != st.nseq) = false := by rw [hst.idx, hst.nseq hp]; simp
      simp [this]
  refine ⟨{ st with nseq := if st.nblocks == 0 then st.idx else st.nseq, alen := st.alen + st.bsl, nblocks := st.nblocks + 1,
                    phase := .between }, by unfold psiEndBlock; simp only [hcond, Bool.false_eq_true, if_false], ?_⟩
  exact
    { phase := rfl
      alen := by show st.alen + st.bsl = _; rw [hst.alen, hblk.2]
      nb := by show (st.nblocks + 1 == 0) = false; simp
      nseq := by
        show (if st.nblocks == 0 then st.idx else st.nseq) = m.nseq
        by_cases hp : pos = 0
        · have : (st.nblocks == 0) = true := by rw [hst.nb]; simp [hp]
          simp only [this, if_true, hst.idx]
        · have : (st.nblocks == 0) = false := by rw [hst.nb]; simp [hp]
          simp only [this, Bool.false_eq_true, if_false, hst.nseq hp]
      names := by
        show st.names = _
        rw [hst.names]
        have : m.names.take m.nseq = m.names := List.take_length
        split
        · exact this
        · rfl
      sq1 := hst.sq1
      sqn := hst.sqi
      rows := hst.rows
      rf := hst.rfb (by omega) }

theorem psiStep_inblock_blank (cfg : Cfg) (st : BlkSt) (hp : st.phase = .inblock) : psiStep cfg st [] = psiEndBlock st := by
  unfold psiStep
  rw [hp]
  simp [isBlankLine]

theorem psiStep_between_row (cfg : Cfg) (st : BlkSt) (l : Bytes) (hp : st.phase = .between) (hl : isBlankLine l = false) :
    psiStep cfg st l = psiSeqLine cfg { st with idx := 0 } l := by
  unfold psiStep
  rw [hp]
  simp only [hl, Bool.false_eq_true, if_false]

/-- the state in front of the next block -/
theorem psiRt_next (cfg : Cfg) (enc : UInt8 → UInt8) (txt : Nat → Bytes) (m : Msa) (pos : Nat)
    (hnext : pos + 60 < m.alen) (st : BlkSt) (hst : PsiEnd cfg enc txt m pos st) :
    PsiRt cfg enc txt m (pos + 60) 0 { st with idx := 0 } := by
  have hbl : pos + blockLen m pos = pos + 60 := blockLen_full m pos (by omega)
  have hbl' : blockLen m pos = 60 := by omega
  exact
    { alen := by show st.alen = _; rw [hst.alen, hbl]
      idx := rfl
      nb := by show (st.nblocks == 0) = _; rw [hst.nb]; simp
      nseq := fun _ => hst.nseq
      names := by show st.names = _; rw [hst.names]; simp
      sq1 := hst.sq1
      sqi := Nat.zero_le _
      sqn := fun _ => hst.sqn
      rows := by
        show st.rows = _
        rw [hst.rows]
        apply rangeMap_congr
        intro j _
        unfold cluRowF
        by_cases hj : j < m.nseq
        · simp [hj, ilvRowF]
        · simp [hj]
      blk := fun h0 => absurd rfl h0
      rfp := by
        show st.rf.take (pos + 60) = _
        rw [hst.rf, rfAt_full, hbl', List.take_of_length_le (by simp)]
      rfb := fun h0 => absurd rfl h0 }

theorem psiBlank_tail (m : Msa) (pos : Nat) :
    (if pos + psiCpl < m.alen then [([] : Bytes)] else []) = if pos + 60 < m.alen then [[]] else [] := rfl

/-- all the further blocks (with the blank line in front of each) -/
theorem psiSteps_blocks (abc : Option Abc) (cfg : Cfg) (enc : UInt8 → UInt8) (txt : Nat → Bytes) (m : Msa)
    (h : PsiblastWritable abc cfg enc txt m) :
    ∀ (fuel pos : Nat) (st : BlkSt), m.alen - pos ≤ fuel → pos < m.alen → st.phase = .inblock → PsiRt cfg enc txt m pos m.nseq st →
      ∃ st' pos', stepsFrom (psiStep cfg) st
          ((if pos + 60 < m.alen then [([] : Bytes)] else []) ++
            (blockStartsFrom m.alen 60 (pos + 60)).flatMap (psiBlockLines abc m (maxWidth m.names))) = .inl st' ∧
        st'.phase = .inblock ∧ PsiRt cfg enc txt m pos' m.nseq st' ∧ pos' < m.alen ∧ m.alen ≤ pos' + 60 := by
  intro fuel
  induction fuel with
  | zero => intro pos st hf hp _ _; omega
  | succ fuel ih =>
    intro pos st hf hp hph hst
    by_cases hlt : pos + 60 < m.alen
    · have hc : pos + 60 < m.alen ∧ 0 < 60 := ⟨hlt, by decide⟩
      rw [blockStartsFrom]
      simp only [hc, and_self, dite_true, List.flatMap_cons, if_true, List.cons_append, List.nil_append, stepsFrom]
      obtain ⟨stb, hsb, hstb⟩ := psiEndBlock_after cfg enc txt m pos h.n1 st hst
      rw [psiStep_inblock_blank cfg st hph, hsb]
      simp only
      obtain ⟨st2, hs2, hp2, hst2⟩ := psiSteps_rows abc cfg enc txt m h (pos + 60) hlt stb _
        (psiRt_next cfg enc txt m pos hlt stb hstb)
        (psiStep_between_row cfg stb _ hstb.phase (psiRowLine_notBlank abc cfg enc txt m h 0 h.n1 (pos + 60) hlt))
        m.nseq h.n1 (Nat.le_refl _)
      unfold psiBlockLines
      rw [psiBlank_tail, List.append_assoc, stepsFrom_append (psiStep cfg) _ _ stb st2 hs2]
      exact ih (pos + 60) st2 (by omega) hlt hp2 hst2
    · have hge : ¬ (pos + 60 < m.alen ∧ 0 < 60) := fun hh => hlt hh.1
      rw [blockStartsFrom]
      simp only [hlt, if_false]
      exact ⟨st, pos, rfl, hph, hst, hp, by omega⟩

/-- end of input after the last block -/
theorem psiFinish_after (cfg : Cfg) (enc : UInt8 → UInt8) (txt : Nat → Bytes) (m : Msa)
    (hn1 : 1 ≤ m.nseq) (hlenT : ∀ i, i < m.nseq → (txt i).length = m.alen)
    (hrow : ∀ i, i < m.nseq → m.stored i = mkRow cfg.digital ((txt i).map enc))
    (pos : Nat) (hp : pos < m.alen) (hlast : m.alen ≤ pos + 60)
    (st : BlkSt) (hph : st.phase = .inblock) (hst : PsiRt cfg enc txt m pos m.nseq st) :
    psiFinish cfg st = .ok (psiblastProject cfg (psiRf txt m) m) := by
  obtain ⟨st', hs', he⟩ := psiEndBlock_after cfg enc txt m pos hn1 st hst
  have hal : st'.alen = m.alen := by rw [he.alen]; exact blockLen_last m pos hp hlast
  have hrows : allSome (st'.rows.take m.nseq) = some ((List.range m.nseq).map m.stored) := by
    rw [he.rows, ← List.map_take, List.take_range, Nat.min_eq_left he.sqn]
    apply allSome_rangeMap
    intro j hj
    have hl := hlenT j hj
    simp only [cluRowF, hj, if_true, ilvRowF]
    rw [phyRowAt_full _ _ _ _ _ (by omega) (by omega), hrow j hj]
  have hrf : st'.rf = psiRf txt m := by
    rw [he.rf, rfAt_full, blockLen_last m pos hp hlast]; rfl
  have hnl2 : m.names.length = m.nseq := rfl
  unfold psiFinish
  rw [hph]
  simp only [hs']
  unfold blkResult
  simp only [he.nseq, he.names, hal, hrf, Bool.false_eq_true, if_false, hrows, List.length_map, List.length_range, bne_self_eq_false,
    psiblastProject, hnl2]

theorem psiRt_init (cfg : Cfg) (enc : UInt8 → UInt8) (txt : Nat → Bytes) (m : Msa) :
    PsiRt cfg enc txt m 0 0 { ({} : BlkSt) with idx := 0 } :=
  { alen := rfl, idx := rfl, nb := rfl, nseq := fun h => absurd rfl h, names := by simp, sq1 := by decide, sqi := Nat.zero_le _
    sqn := fun h => absurd rfl h
    rows := rangeMap_const _ _ _ (fun j => cluRowF_zero_ge cfg enc txt m 0 j (Nat.zero_le _))
    blk := fun h0 => absurd rfl h0
    rfp := rfl
    rfb := fun h0 => absurd rfl h0 }

theorem psiStep_lead_row (cfg : Cfg) (l : Bytes) (hl : isBlankLine l = false) :
    psiStep cfg {} l = psiSeqLine cfg { ({} : BlkSt) with idx := 0 } l := by
  unfold psiStep
  simp only [hl, Bool.false_eq_true, if_false]

/-- **PSI-BLAST round trip on lines** -/
theorem psiblastRead_writeLines (abc : Option Abc) (cfg : Cfg) (enc : UInt8 → UInt8) (txt : Nat → Bytes) (m : Msa)
    (h : PsiblastWritable abc cfg enc txt m) :
    psiblastRead cfg (psiblastLines abc m) = (.ok (psiblastProject cfg (psiRf txt m) m), []) := by
  have hn := h.n1
  have ha := h.alen1
  obtain ⟨st1, hs1, hp1, hst1⟩ := psiSteps_rows abc cfg enc txt m h 0 (by omega) {} _
    (psiRt_init cfg enc txt m) (psiStep_lead_row cfg _ (psiRowLine_notBlank abc cfg enc txt m h 0 hn 0 (by omega)))
    m.nseq hn (Nat.le_refl _)
  obtain ⟨st2, pos', hs2, hp2, hst2, hp', hlast⟩ := psiSteps_blocks abc cfg enc txt m h m.alen 0 st1 (by omega) (by omega) hp1 hst1
  have hbs : blockStarts m.alen psiCpl = 0 :: blockStartsFrom m.alen 60 (0 + 60) := blockStarts_cons m.alen ha
  have hall : stepsFrom (psiStep cfg) {} (psiblastLines abc m) = .inl st2 := by
    unfold psiblastLines
    rw [hbs, List.flatMap_cons]
    unfold psiBlockLines
    rw [psiBlank_tail, List.append_assoc, stepsFrom_append (psiStep cfg) _ _ _ st1 hs1]
    exact hs2
  unfold psiblastRead
  have := runLines_append_inl (psiStep cfg) (psiFinish cfg) _ [] {} st2 hall
  rw [List.append_nil] at this
  rw [this]
  simp only [runLines, psiFinish_after cfg enc txt m hn h.txt_len h.row_enc pos' hp' hlast st2 hp2 hst2]

/-! ## the written lines survive `esl_buffer_GetLine` -/

theorem psiRowLine_ok (abc : Option Abc) (cfg : Cfg) (enc : UInt8 → UInt8) (txt : Nat → Bytes) (m : Msa)
    (h : PsiblastWritable abc cfg enc txt m) (i : Nat) (hi : i < m.nseq) (pos : Nat) (hpos : pos < m.alen) :
    lineOk (psiRowLine abc m (maxWidth m.names) pos i) := by
  apply lineOk_of_notLFCR
  intro c hc
  have hsp : isSpace c = false ∨ c = 32 := by
    rw [psiRowLine_shape abc cfg enc txt m h i hi pos hpos] at hc
    rcases List.mem_append.mp hc with hc | hc
    · rcases List.mem_append.mp hc with hc | hc
      · exact Or.inl ((h.name_ok i hi).2 c hc).1
      · exact Or.inr (List.mem_replicate.mp hc).2
    · exact Or.inl (psiUpper_notSpace c (h.txt_sym i hi c (mem_of_drop_take hc)).2).1
  rcases hsp with e | e
  · constructor <;> (intro e2; rw [e2] at e; exact absurd e (by decide))
  · rw [e]; decide

theorem psiblastLines_ok (abc : Option Abc) (cfg : Cfg) (enc : UInt8 → UInt8) (txt : Nat → Bytes) (m : Msa)
    (h : PsiblastWritable abc cfg enc txt m) : ∀ l ∈ psiblastLines abc m, lineOk l := by
  intro l hl
  unfold psiblastLines at hl
  obtain ⟨pos, hpos, hl⟩ := List.mem_flatMap.mp hl
  have hpos' := blockStarts_lt m.alen psiCpl pos hpos
  unfold psiBlockLines at hl
  rcases List.mem_append.mp hl with hl | hl
  · obtain ⟨i, hi, hl⟩ := List.mem_map.mp hl
    subst hl
    exact psiRowLine_ok abc cfg enc txt m h i (List.mem_range.mp hi) pos hpos'
  · split at hl
    · rw [List.mem_singleton.mp hl]; exact ⟨by simp, by simp⟩
    · cases hl

/-- **PSI-BLAST round trip on bytes** -/
theorem psiblastRead_write (abc : Option Abc) (cfg : Cfg) (enc : UInt8 → UInt8) (txt : Nat → Bytes) (m : Msa)
    (h : PsiblastWritable abc cfg enc txt m) :
    psiblastRead cfg (splitLines (psiblastWrite abc m)) = (.ok (psiblastProject cfg (psiRf txt m) m), []) := by
  unfold psiblastWrite joinLF
  rw [splitLines_join _ (psiblastLines_ok abc cfg enc txt m h)]
  exact psiblastRead_writeLines abc cfg enc txt m h

end EaselModel.Msafile
