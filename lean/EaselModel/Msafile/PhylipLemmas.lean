import EaselModel.Msafile.Lemmas
import EaselModel.Msafile.AfaLemmas
import EaselModel.Msafile.Phylip
/-! Invariants of the PHYLIP readers (interleaved and sequential) and the facts the C01 theorems are glued from. -/
namespace EaselModel.Msafile

/-- `Good` for an outcome that still carries the pushed-back line -/
def GoodP (r : PRes) : Prop :=
  match r with
  | .ok (m, _) => m.wellFormed = true
  | .eof => True
  | .eformat msg => msg ≠ ""
  | .fault => False
  | .exc => False

abbrev StepP (Inv : PhySt → Prop) (x : Sum PhySt PRes) : Prop := StepOk Inv GoodP x

theorem stepP_inl (Inv : PhySt → Prop) (s : PhySt) : StepP Inv (.inl s) = Inv s := rfl
theorem stepP_inr (Inv : PhySt → Prop) (r : PRes) : StepP Inv (.inr r : Sum PhySt PRes) = GoodP r := rfl
@[simp] theorem goodP_eformat (msg : String) : GoodP (.eformat msg) = (msg ≠ "") := rfl
@[simp] theorem goodP_eof : GoodP .eof = True := rfl
@[simp] theorem goodP_exc : GoodP .exc = False := rfl
@[simp] theorem goodP_fault : GoodP .fault = False := rfl

theorem StepP.mono {I J : PhySt → Prop} (hIJ : ∀ s, I s → J s) {x : Sum PhySt PRes} (h : StepP I x) : StepP J x := by
  cases x with
  | inl s => exact hIJ s h
  | inr r => exact h

/-! ## rows -/

/-- the stored row (NULL or not) is a well-formed row of length `len` -/
def RowIs (cfg : Cfg) (len : Nat) (o : Option Bytes) : Prop := curOk cfg o ∧ rowLen cfg.digital o = len

theorem rowIs_none (cfg : Cfg) : RowIs cfg 0 none := ⟨fun r h => by simp at h, rfl⟩

theorem rowIs_pos (cfg : Cfg) (len : Nat) (o : Option Bytes) (h : RowIs cfg len o) (hl : 1 ≤ len) :
    ∃ r, o = some r ∧ rowOkB cfg.digital cfg.kp len r = true := by
  cases o with
  | none => have := h.2; simp [rowLen] at this; omega
  | some r => exact ⟨r, rfl, by have := h.1 r rfl; rw [h.2] at this; exact this⟩

theorem rowLen_cat_ge (cfg : Cfg) (cur : Option Bytes) (p : Bytes) :
    rowLen cfg.digital cur ≤ rowLen cfg.digital (if cfg.digital then dsqcat cfg.inmap cur p else strmapcat cfg.inmap cur p).2 := by
  cases hd : cfg.digital with
  | true =>
    simp only [if_true]
    unfold dsqcat
    by_cases hs : p.isEmpty
    · simp [hs]
    · simp only [hs, Bool.false_eq_true, if_false]
      cases cur with
      | none => simp [rowLen]
      | some d =>
        simp only [rowLen, if_true, dsqCodes, List.cons_append, List.length_cons, List.length_append, List.length_dropLast,
          List.length_drop, List.length_nil, List.length_reverse]
        omega
  | false =>
    simp only [Bool.false_eq_true, if_false]
    unfold strmapcat
    by_cases hs : p.isEmpty
    · simp [hs]
    · simp only [hs, Bool.false_eq_true, if_false]
      cases cur with
      | none => simp [rowLen]
      | some d => simp [rowLen]

/-- every stored row `i` is a well-formed row of length `want i` -/
def RowsWant (cfg : Cfg) (rows : List (Option Bytes)) (want : Nat → Nat) : Prop :=
  ∀ i o, rows[i]? = some o → RowIs cfg (want i) o

theorem RowsWant.congr {cfg : Cfg} {rows : List (Option Bytes)} {w w' : Nat → Nat} (h : RowsWant cfg rows w)
    (hw : ∀ i, i < rows.length → w i = w' i) : RowsWant cfg rows w' := by
  intro i o hio
  have hi : i < rows.length := (List.getElem?_eq_some_iff.mp hio).1
  rw [← hw i hi]; exact h i o hio

theorem RowsWant.set {cfg : Cfg} {rows : List (Option Bytes)} {w w' : Nat → Nat} (h : RowsWant cfg rows w)
    (k : Nat) (new : Option Bytes) (hnew : RowIs cfg (w' k) new) (hw : ∀ i, i < rows.length → i ≠ k → w i = w' i) :
    RowsWant cfg (rows.set k new) w' := by
  intro i o hio
  rw [List.getElem?_set] at hio
  by_cases hik : k = i
  · subst hik
    simp only [if_true] at hio
    split at hio
    · simp only [Option.some.injEq] at hio; rw [← hio]; exact hnew
    · simp at hio
  · simp only [hik, if_false] at hio
    have hi : i < rows.length := (List.getElem?_eq_some_iff.mp hio).1
    rw [← hw i hi (fun e => hik e.symm)]; exact h i o hio

theorem rowsWant_replicate (cfg : Cfg) (n : Nat) : RowsWant cfg (List.replicate n none) (fun _ => 0) := by
  intro i o hio
  rw [List.getElem?_replicate] at hio
  split at hio
  · simp only [Option.some.injEq] at hio; rw [← hio]; exact rowIs_none cfg
  · simp at hio

/-- entries below `k` of `sqname[]` are set -/
def NamesSet (names : List (Option Bytes)) (k : Nat) : Prop := ∀ i o, names[i]? = some o → i < k → o.isSome = true

theorem NamesSet.set {names : List (Option Bytes)} {k : Nat} (h : NamesSet names k) (j : Nat) (nm : Bytes) (k' : Nat)
    (hk : k' ≤ k ∨ (k' = k + 1 ∧ j = k) ∨ (k' = k + 1 ∧ k = names.length)) : NamesSet (names.set j (some nm)) k' := by
  intro i o hio hik
  rw [List.getElem?_set] at hio
  by_cases hji : j = i
  · subst hji
    simp only [if_true] at hio
    split at hio
    · simp only [Option.some.injEq] at hio; rw [← hio]; rfl
    · simp at hio
  · simp only [hji, if_false] at hio
    have hi : i < names.length := (List.getElem?_eq_some_iff.mp hio).1
    exact h i o hio (by omega)

theorem allSome_spec {α : Type} (P : α → Prop) :
    ∀ (l : List (Option α)), (∀ (i : Nat) (o : Option α), l[i]? = some o → ∃ a, o = some a ∧ P a) →
      ∃ rs, allSomeP l = some rs ∧ rs.length = l.length ∧ ∀ a ∈ rs, P a := by
  intro l
  induction l with
  | nil => intro _; exact ⟨[], rfl, rfl, by simp⟩
  | cons x t ih =>
    intro h
    obtain ⟨a, hxa, hpa⟩ := h 0 x (by simp)
    obtain ⟨rs, hrs, hlen, hall⟩ := ih (fun i o hio => h (i + 1) o (by simpa using hio))
    subst hxa
    refine ⟨a :: rs, by simp [allSomeP, hrs], by simp [hlen], ?_⟩
    intro b hb
    rcases List.mem_cons.mp hb with hb | hb
    · rw [hb]; exact hpa
    · exact hall b hb

/-! ## the invariant -/

/-- what holds from the header on -/
structure PhyBase (st : PhySt) : Prop where
  hn : 1 ≤ st.nseq
  ha : 1 ≤ st.alenStated
  rows_len : st.rows.length = st.nseq
  names_len : st.names.length = st.nseq

/-- returning the alignment: every row has the final length `a ≥ 1`, every name is set -/
theorem phyDone_good (cfg : Cfg) (st : PhySt) (a : Nat) (back : Option Bytes) (hb : PhyBase st) (ha : 1 ≤ a)
    (hr : RowsWant cfg st.rows (fun _ => a)) (hn : NamesSet st.names st.nseq) : GoodP (phyDone cfg st a back) := by
  obtain ⟨rs, hrs, hrl, hrall⟩ := allSome_spec (fun r => rowOkB cfg.digital cfg.kp a r = true) st.rows
    (fun i o hio => rowIs_pos cfg a o (hr i o hio) ha)
  obtain ⟨ns, hns, hnl, _⟩ := allSome_spec (fun _ => True) st.names (fun i o hio => by
    have hi : i < st.names.length := (List.getElem?_eq_some_iff.mp hio).1
    have := hn i o hio (by rw [← hb.names_len]; exact hi)
    cases o with
    | none => simp at this
    | some x => exact ⟨x, rfl, trivial⟩)
  unfold phyDone
  rw [hns, hrs]
  simp only [GoodP]
  exact wellFormed_plain cfg.digital cfg.kp a ns rs none
    (by rw [hnl, hb.names_len]; exact hb.hn) (by rw [hrl, hnl, hb.rows_len, hb.names_len])
    (List.all_eq_true.mpr hrall)

/-- the name field: an error outcome is a documented one, otherwise entry `idx` of `sqname[]` is set -/
theorem phyName_spec (st : PhySt) (line : Bytes) (hi : st.idx < st.nseq) (hl : st.names.length = st.nseq) :
    StepOk (fun (x : List (Option Bytes) × Bytes) => ∃ nm, x.1 = st.names.set st.idx (some nm)) GoodP (phyName st line) := by
  unfold phyName
  split
  · simp [phyMsgShort]
  · split
    · simp [phyMsgName]
    · rename_i nm _
      split
      · exfalso; omega
      · split
        · exfalso; omega
        · exact ⟨nm, rfl⟩

/-- appending to row `idx`: an error outcome is a documented one, otherwise the row is replaced by a well-formed row of
    the returned length, which is at least the old one -/
theorem phyCat_spec (cfg : Cfg) (hv : cfg.valid) (st : PhySt) (ldest : Nat) (p : Bytes) (hi : st.idx < st.rows.length)
    (hrow : ∀ o, st.rows[st.idx]? = some o → RowIs cfg ldest o) :
    StepOk (fun (x : List (Option Bytes) × Nat) => ∃ cur', x.1 = st.rows.set st.idx cur' ∧ RowIs cfg x.2 cur' ∧ ldest ≤ x.2)
      GoodP (phyCat cfg st ldest p) := by
  unfold phyCat
  split
  · rename_i hnone
    exfalso
    rw [List.getElem?_eq_none_iff] at hnone; omega
  · rename_i cur hcur
    have hr := hrow cur hcur
    split
    · rename_i hne
      exfalso; simp [hr.2] at hne
    · have hcat := curOk_cat cfg hv cur p hr.1
      have hge := rowLen_cat_ge cfg cur p
      have hne : (if cfg.digital then dsqcat cfg.inmap cur p else strmapcat cfg.inmap cur p).1 ≠ .exc := by
        by_cases hd : cfg.digital = true
        · simp only [hd, if_true]; exact dsqcat_noExc _ hv.noExc _ _
        · simp only [hd, Bool.false_eq_true, if_false]; exact strmapcat_noExc _ hv.noExc _ _
      split
      rename_i cs cur' heq
      rw [heq] at hcat hge hne
      cases cs with
      | einval => simp [phyMsgChars]
      | exc => exact absurd rfl hne
      | ok => exact ⟨_, rfl, ⟨hcat, rfl⟩, by rw [← hr.2]; exact hge⟩

theorem phyNameIf_spec (b : Bool) (st : PhySt) (line : Bytes) (hi : st.idx < st.nseq) (hl : st.names.length = st.nseq) :
    StepOk (fun (x : List (Option Bytes) × Bytes) => if b then ∃ nm, x.1 = st.names.set st.idx (some nm) else x.1 = st.names)
      GoodP (phyNameIf b st line) := by
  unfold phyNameIf
  cases b with
  | true => simpa using phyName_spec st line hi hl
  | false => simp

/-! ## interleaved -/

/-- rows below `idx` already hold the residues of the current block -/
def ilvWant (st : PhySt) (i : Nat) : Nat := if i < st.idx then st.alen + st.blockAlen else st.alen
/-- names are read in the first block -/
def ilvNamed (st : PhySt) : Nat := if st.nblocks = 0 then st.idx else st.nseq

structure IlvCore (cfg : Cfg) (st : PhySt) : Prop extends PhyBase st where
  idx_le : st.idx ≤ st.nseq
  rows_ok : RowsWant cfg st.rows (ilvWant st)
  names_ok : NamesSet st.names (ilvNamed st)

theorem ilvLine_inv (cfg : Cfg) (hv : cfg.valid) (st : PhySt) (line : Bytes) (h : IlvCore cfg st) (hi : st.idx < st.nseq) :
    StepP (fun st' => st'.phase = .rows ∧ IlvCore cfg st') (ilvLine cfg st line) := by
  unfold ilvLine
  have hname := phyNameIf_spec (st.nblocks == 0) st line hi h.names_len
  cases hnm : phyNameIf (st.nblocks == 0) st line with
  | inr r => rw [hnm] at hname; exact hname
  | inl x =>
    obtain ⟨names, p⟩ := x
    rw [hnm] at hname
    simp only [stepOk_inl] at hname
    have hnl : names.length = st.nseq := by
      by_cases hb : (st.nblocks == 0) = true
      · simp only [hb, if_true] at hname; obtain ⟨nm, hx⟩ := hname; rw [hx]; simp [h.names_len]
      · simp only [hb, Bool.false_eq_true, if_false] at hname; rw [hname]; exact h.names_len
    have hns : NamesSet names (if st.nblocks = 0 then st.idx + 1 else st.nseq) := by
      by_cases hb : st.nblocks = 0
      · simp only [hb, beq_self_eq_true, if_true] at hname ⊢
        obtain ⟨nm, hx⟩ := hname; rw [hx]
        exact h.names_ok.set st.idx nm _ (Or.inr (Or.inl ⟨by simp [ilvNamed, hb], by simp [ilvNamed, hb]⟩))
      · have hb' : (st.nblocks == 0) = false := by simpa using hb
        simp only [hb', Bool.false_eq_true, if_false] at hname
        simp only [hb, if_false]; rw [hname]
        have := h.names_ok; simpa [ilvNamed, hb] using this
    have hcat := phyCat_spec cfg hv st st.alen p (by rw [h.rows_len]; exact hi) (fun o ho => by
      have := h.rows_ok st.idx o ho
      simpa [ilvWant] using this)
    simp only
    cases hpc : phyCat cfg st st.alen p with
    | inr r => rw [hpc] at hcat; exact hcat
    | inl y =>
      obtain ⟨rows, curAlen⟩ := y
      rw [hpc] at hcat
      simp only [stepOk_inl] at hcat
      obtain ⟨cur', hrows, hrow, hge⟩ := hcat
      simp only
      have hrl : rows.length = st.nseq := by rw [hrows]; simp [h.rows_len]
      split
      · rename_i hz
        have hz' : st.idx = 0 := by simpa using hz
        simp only [stepP_inl]
        have hidx : st.idx + 1 ≤ st.nseq := by omega
        refine ⟨trivial, { hn := h.hn, ha := h.ha, rows_len := hrl, names_len := hnl, idx_le := hidx, rows_ok := ?_, names_ok := ?_ }⟩
        · rw [hrows]
          refine h.rows_ok.set st.idx cur' ?_ ?_
          · show RowIs cfg (if st.idx < st.idx + 1 then st.alen + (curAlen - st.alen) else st.alen) cur'
            have : st.alen + (curAlen - st.alen) = curAlen := by omega
            simpa [this] using hrow
          · intro i _ hne
            show (if i < st.idx then st.alen + st.blockAlen else st.alen) = (if i < st.idx + 1 then st.alen + (curAlen - st.alen) else st.alen)
            have h1 : ¬ i < st.idx := by omega
            have h2 : ¬ i < st.idx + 1 := by omega
            simp [h1, h2]
        · exact hns
      · split
        · simp [ilvMsgBlock]
        · rename_i hz hbl
          simp only [stepP_inl]
          have hbl' : curAlen - st.alen = st.blockAlen := by simpa using hbl
          have hidx : st.idx + 1 ≤ st.nseq := by omega
          refine ⟨trivial, { hn := h.hn, ha := h.ha, rows_len := hrl, names_len := hnl, idx_le := hidx, rows_ok := ?_, names_ok := hns }⟩
          rw [hrows]
          refine h.rows_ok.set st.idx cur' ?_ ?_
          · show RowIs cfg (if st.idx < st.idx + 1 then st.alen + st.blockAlen else st.alen) cur'
            have : st.alen + st.blockAlen = curAlen := by omega
            simpa [this] using hrow
          · intro i _ hne
            show (if i < st.idx then st.alen + st.blockAlen else st.alen) = (if i < st.idx + 1 then st.alen + st.blockAlen else st.alen)
            by_cases h1 : i < st.idx
            · have h2 : i < st.idx + 1 := by omega
              simp [h1, h2]
            · have h2 : ¬ i < st.idx + 1 := by omega
              simp [h1, h2]

/-- between two blocks: every row has length `alen`, every name is set -/
def IlvGap (cfg : Cfg) (st : PhySt) : Prop := IlvCore cfg st ∧ st.idx = 0 ∧ 0 < st.nblocks

theorem IlvCore.phase {cfg : Cfg} {st : PhySt} (h : IlvCore cfg st) (ph : PhyPhase) : IlvCore cfg { st with phase := ph } :=
  { hn := h.hn, ha := h.ha, rows_len := h.rows_len, names_len := h.names_len, idx_le := h.idx_le, rows_ok := h.rows_ok,
    names_ok := h.names_ok }

theorem ilvEndBlock_inv (cfg : Cfg) (st : PhySt) (h : IlvCore cfg st) : StepP (IlvGap cfg) (ilvEndBlock st) := by
  unfold ilvEndBlock
  split
  · simp [ilvMsgNseq]
  · rename_i hne
    have hidx : st.idx = st.nseq := by simpa using hne
    simp only [stepP_inl]
    refine ⟨{ hn := h.hn, ha := h.ha, rows_len := h.rows_len, names_len := h.names_len, idx_le := Nat.zero_le _,
              rows_ok := ?_, names_ok := ?_ }, rfl, Nat.succ_pos _⟩
    · refine h.rows_ok.congr (fun i hi => ?_)
      show (if i < st.idx then st.alen + st.blockAlen else st.alen) = (if i < 0 then st.alen + st.blockAlen + st.blockAlen else st.alen + st.blockAlen)
      have : i < st.idx := by rw [hidx, ← h.rows_len]; exact hi
      simp [this]
    · intro i o hio hlt
      have hlt' : i < st.nseq := by simpa [ilvNamed] using hlt
      refine h.names_ok i o hio ?_
      unfold ilvNamed
      split
      · omega
      · exact hlt'

theorem ilvEnd_good (cfg : Cfg) (st : PhySt) (back : Option Bytes) (h : IlvGap cfg st) : GoodP (ilvEnd cfg st back) := by
  obtain ⟨hc, h0, hnb⟩ := h
  unfold ilvEnd
  split
  · simp [ilvMsgAlen]
  · rename_i hne
    have he : st.alen = st.alenStated := by simpa using hne
    refine phyDone_good cfg st st.alen back hc.toPhyBase (by have := hc.ha; omega) (hc.rows_ok.congr (fun i _ => ?_)) ?_
    · simp [ilvWant, h0]
    · have := hc.names_ok
      have hnb' : st.nblocks ≠ 0 := by omega
      simpa [ilvNamed, hnb'] using this

theorem ilvNext_inv (cfg : Cfg) (hv : cfg.valid) (st : PhySt) (line : Bytes) (h : IlvGap cfg st) :
    StepP (fun st' => st'.phase = .rows ∧ IlvCore cfg st') (ilvNext cfg st line) := by
  unfold ilvNext
  split
  · obtain ⟨hc, h0, _⟩ := h
    have e : ({ st with idx := 0 } : PhySt) = st := by
      cases st; simp only at h0; subst h0; rfl
    rw [e]
    exact ilvLine_inv cfg hv st line hc (by have := hc.hn; omega)
  · exact ilvEnd_good cfg st (some line) h

/-! ## sequential -/

/-- rows below `idx` are complete, row `idx` is being read, the rows above are untouched -/
def seqWant (st : PhySt) (i : Nat) : Nat := if i < st.idx then st.alenStated else if i = st.idx then st.alen else 0

structure SeqCore (cfg : Cfg) (st : PhySt) : Prop extends PhyBase st where
  idx_lt : st.idx < st.nseq
  rows_ok : RowsWant cfg st.rows (seqWant st)
  names_ok : NamesSet st.names st.idx

/-- at a `esl_msafile_GetLine` call of the sequential reader: the name of sequence `idx` has been stored -/
def SeqInv (cfg : Cfg) (st : PhySt) : Prop := SeqCore cfg st ∧ NamesSet st.names (st.idx + 1)

theorem SeqInv.phase {cfg : Cfg} {st : PhySt} (h : SeqInv cfg st) (ph : PhyPhase) : SeqInv cfg { st with phase := ph } :=
  ⟨{ hn := h.1.hn, ha := h.1.ha, rows_len := h.1.rows_len, names_len := h.1.names_len, idx_lt := h.1.idx_lt, rows_ok := h.1.rows_ok,
     names_ok := h.1.names_ok }, h.2⟩

theorem seqLine_inv (cfg : Cfg) (hv : cfg.valid) (st : PhySt) (line : Bytes) (h : SeqCore cfg st)
    (hn : st.alen ≠ 0 → NamesSet st.names (st.idx + 1)) :
    StepP (fun st' => st'.phase = .rows ∧ SeqInv cfg st') (seqLine cfg st line) := by
  unfold seqLine
  have hname := phyNameIf_spec (st.alen == 0) st line h.idx_lt h.names_len
  cases hnm : phyNameIf (st.alen == 0) st line with
  | inr r => rw [hnm] at hname; exact hname
  | inl x =>
    obtain ⟨names, p⟩ := x
    rw [hnm] at hname
    simp only [stepOk_inl] at hname
    have hnl : names.length = st.nseq := by
      by_cases hb : (st.alen == 0) = true
      · simp only [hb, if_true] at hname; obtain ⟨nm, hx⟩ := hname; rw [hx]; simp [h.names_len]
      · simp only [hb, Bool.false_eq_true, if_false] at hname; rw [hname]; exact h.names_len
    have hns : NamesSet names st.idx ∧ NamesSet names (st.idx + 1) := by
      by_cases hb : st.alen = 0
      · simp only [hb, beq_self_eq_true, if_true] at hname
        obtain ⟨nm, hx⟩ := hname; rw [hx]
        exact ⟨h.names_ok.set st.idx nm _ (Or.inl (Nat.le_refl _)), h.names_ok.set st.idx nm _ (Or.inr (Or.inl ⟨rfl, rfl⟩))⟩
      · have hb' : (st.alen == 0) = false := by simpa using hb
        simp only [hb', Bool.false_eq_true, if_false] at hname
        rw [hname]; exact ⟨h.names_ok, hn hb⟩
    have hcat := phyCat_spec cfg hv st st.alen p (by rw [h.rows_len]; exact h.idx_lt) (fun o ho => by
      have := h.rows_ok st.idx o ho
      simpa [seqWant] using this)
    simp only
    cases hpc : phyCat cfg st st.alen p with
    | inr r => rw [hpc] at hcat; exact hcat
    | inl y =>
      obtain ⟨rows, alen'⟩ := y
      rw [hpc] at hcat
      simp only [stepOk_inl] at hcat
      obtain ⟨cur', hrows, hrow, _⟩ := hcat
      simp only [stepP_inl]
      have hrl : rows.length = st.nseq := by rw [hrows]; simp [h.rows_len]
      refine ⟨trivial, { hn := h.hn, ha := h.ha, rows_len := hrl, names_len := hnl, idx_lt := h.idx_lt, rows_ok := ?_, names_ok := hns.1 }, hns.2⟩
      rw [hrows]
      refine h.rows_ok.set st.idx cur' ?_ ?_
      · show RowIs cfg (if st.idx < st.idx then st.alenStated else if st.idx = st.idx then alen' else 0) cur'
        simpa using hrow
      · intro i _ hne
        show (if i < st.idx then st.alenStated else if i = st.idx then st.alen else 0)
          = (if i < st.idx then st.alenStated else if i = st.idx then alen' else 0)
        simp [hne]

theorem seqDone_good (cfg : Cfg) (st : PhySt) (back : Option Bytes) (h : SeqInv cfg st) (he : st.alen = st.alenStated)
    (hl : ¬ st.idx + 1 < st.nseq) : GoodP (phyDone cfg st st.alen back) := by
  have hlt := h.1.idx_lt
  refine phyDone_good cfg st st.alen back h.1.toPhyBase (by have := h.1.ha; omega) (h.1.rows_ok.congr (fun i hi => ?_))
    (fun i o hio hi => h.2 i o hio (by omega))
  have hi' : i < st.nseq := by rw [← h.1.rows_len]; exact hi
  show (if i < st.idx then st.alenStated else if i = st.idx then st.alen else 0) = st.alen
  by_cases h1 : i < st.idx
  · simp [h1, he]
  · have h2 : i = st.idx := by omega
    simp [h2]

theorem seqNext_inv (cfg : Cfg) (hv : cfg.valid) (st : PhySt) (line : Bytes) (h : SeqInv cfg st) :
    StepP (fun st' => st'.phase = .rows ∧ SeqInv cfg st') (seqNext cfg st line) := by
  unfold seqNext
  split
  · simp [seqMsgAlen]
  · rename_i hne
    have he : st.alen = st.alenStated := by simpa using hne
    split
    · rename_i hlt
      refine seqLine_inv cfg hv _ line
        { hn := h.1.hn, ha := h.1.ha, rows_len := h.1.rows_len, names_len := h.1.names_len, idx_lt := hlt, rows_ok := ?_, names_ok := h.2 }
        (fun hx => absurd rfl hx)
      refine h.1.rows_ok.congr (fun i _ => ?_)
      show (if i < st.idx then st.alenStated else if i = st.idx then st.alen else 0)
        = (if i < st.idx + 1 then st.alenStated else if i = st.idx + 1 then 0 else 0)
      by_cases h1 : i < st.idx
      · have h2 : i < st.idx + 1 := by omega
        simp [h1, h2]
      · by_cases h2 : i = st.idx
        · simp [h2, he]
        · have h3 : ¬ i < st.idx + 1 := by omega
          simp [h1, h2, h3]
    · rename_i hl
      exact seqDone_good cfg st (some line) h he hl

/-! ## the whole reader -/

/-- the invariant at every `esl_msafile_GetLine` call -/
def PhyInv (sequential : Bool) (cfg : Cfg) (st : PhySt) : Prop :=
  match st.phase with
  | .lead => True
  | .hdr => PhyBase st ∧ RowsWant cfg st.rows (fun _ => 0)
  | .rows => if sequential then SeqInv cfg st else IlvCore cfg st
  | .gap => if sequential then SeqInv cfg st else IlvGap cfg st

theorem phyInv_rows_ilv {cfg : Cfg} {st : PhySt} (h : st.phase = .rows ∧ IlvCore cfg st) : PhyInv false cfg st := by
  unfold PhyInv; rw [h.1]; simpa using h.2

theorem phyInv_rows_seq {cfg : Cfg} {st : PhySt} (h : st.phase = .rows ∧ SeqInv cfg st) : PhyInv true cfg st := by
  unfold PhyInv; rw [h.1]; simpa using h.2

theorem phyHeader_inv (cfg : Cfg) (sequential : Bool) (st : PhySt) (line : Bytes) :
    StepP (PhyInv sequential cfg) (phyHeader st line) := by
  unfold phyHeader
  simp only
  split
  · simp [phyMsgHdr1]
  · simp [phyMsgHdr1]
  · rename_i nseq _
    split
    · simp [phyMsgHdr2]
    · split
      · simp [phyMsgHdr3]
      · simp [phyMsgHdr3]
      · rename_i alen _
        split
        · simp [phyMsgHdr4]
        · rename_i hpos
          simp only [Bool.or_eq_true, decide_eq_true_eq, not_or, Int.not_lt] at hpos
          simp only [stepP_inl]
          unfold PhyInv
          simp only
          exact ⟨{ hn := by show 1 ≤ nseq.toNat; omega, ha := by show 1 ≤ alen.toNat; omega,
                   rows_len := by simp, names_len := by simp }, rowsWant_replicate cfg _⟩

theorem phyFirst_inv (cfg : Cfg) (hv : cfg.valid) (sequential : Bool) (st : PhySt) (line : Bytes)
    (hb : PhyBase st) (hr : RowsWant cfg st.rows (fun _ => 0)) :
    StepP (PhyInv sequential cfg) (phyFirst sequential cfg st line) := by
  unfold phyFirst
  cases sequential with
  | true =>
    simp only [if_true]
    refine (seqLine_inv cfg hv { st with idx := 0, alen := 0 } line
      { hn := hb.hn, ha := hb.ha, rows_len := hb.rows_len, names_len := hb.names_len, idx_lt := hb.hn, rows_ok := ?_, names_ok := ?_ }
      (fun hx => absurd rfl hx)).mono (fun s hs => phyInv_rows_seq hs)
    · refine hr.congr (fun i _ => ?_)
      show 0 = (if i < 0 then st.alenStated else if i = 0 then 0 else 0)
      simp
    · intro i o _ hi
      have : i < 0 := hi
      omega
  | false =>
    simp only [Bool.false_eq_true, if_false]
    refine (ilvLine_inv cfg hv { st with idx := 0, alen := 0, nblocks := 0 } line
      { hn := hb.hn, ha := hb.ha, rows_len := hb.rows_len, names_len := hb.names_len, idx_le := Nat.zero_le _, rows_ok := ?_, names_ok := ?_ }
      hb.hn).mono (fun s hs => phyInv_rows_ilv hs)
    · refine hr.congr (fun i _ => ?_)
      show 0 = (if i < 0 then 0 + st.blockAlen else 0)
      simp
    · intro i o _ hi
      simp [ilvNamed] at hi

theorem ilvStep_inv (cfg : Cfg) (hv : cfg.valid) (st : PhySt) (line : Bytes) (hp : st.phase = .rows ∨ st.phase = .gap)
    (h : PhyInv false cfg st) : StepP (PhyInv false cfg) (ilvStep cfg st line) := by
  unfold ilvStep
  rcases hp with hp | hp
  · have hc : IlvCore cfg st := by unfold PhyInv at h; rw [hp] at h; simpa using h
    rw [hp]
    simp only
    split
    · rename_i hcond
      simp only [Bool.and_eq_true, decide_eq_true_eq] at hcond
      exact (ilvLine_inv cfg hv st line hc hcond.1).mono (fun s hs => phyInv_rows_ilv hs)
    · have he := ilvEndBlock_inv cfg st hc
      cases heb : ilvEndBlock st with
      | inr r => rw [heb] at he; exact he
      | inl st' =>
        rw [heb] at he
        simp only [stepP_inl] at he
        simp only
        split
        · simp only [stepP_inl]
          unfold PhyInv
          simp only [Bool.false_eq_true, if_false]
          exact ⟨he.1.phase _, he.2.1, he.2.2⟩
        · exact (ilvNext_inv cfg hv st' line he).mono (fun s hs => phyInv_rows_ilv hs)
  · have hg : IlvGap cfg st := by unfold PhyInv at h; rw [hp] at h; simpa using h
    rw [hp]
    simp only
    split
    · simp only [stepP_inl]
      unfold PhyInv; rw [hp]; simpa using hg
    · exact (ilvNext_inv cfg hv st line hg).mono (fun s hs => phyInv_rows_ilv hs)

theorem ilvFinish_good (cfg : Cfg) (st : PhySt) (hp : st.phase = .rows ∨ st.phase = .gap)
    (h : PhyInv false cfg st) : GoodP (ilvFinish cfg st) := by
  unfold ilvFinish
  rcases hp with hp | hp
  · have hc : IlvCore cfg st := by unfold PhyInv at h; rw [hp] at h; simpa using h
    rw [hp]
    simp only
    have he := ilvEndBlock_inv cfg st hc
    cases heb : ilvEndBlock st with
    | inr r => rw [heb] at he; exact he
    | inl st' =>
      rw [heb] at he
      exact ilvEnd_good cfg st' none he
  · have hg : IlvGap cfg st := by unfold PhyInv at h; rw [hp] at h; simpa using h
    rw [hp]
    exact ilvEnd_good cfg st none hg

theorem seqInv_of {cfg : Cfg} {st : PhySt} (hp : st.phase = .rows ∨ st.phase = .gap) (h : PhyInv true cfg st) : SeqInv cfg st := by
  unfold PhyInv at h
  rcases hp with hp | hp <;> rw [hp] at h <;> simpa using h

theorem seqStep_inv (cfg : Cfg) (hv : cfg.valid) (st : PhySt) (line : Bytes) (hp : st.phase = .rows ∨ st.phase = .gap)
    (h : PhyInv true cfg st) : StepP (PhyInv true cfg) (seqStep cfg st line) := by
  have hs := seqInv_of hp h
  unfold seqStep
  rcases hp with hp | hp
  · rw [hp]
    simp only
    split
    · exact (seqLine_inv cfg hv st line hs.1 (fun _ => hs.2)).mono (fun s hs => phyInv_rows_seq hs)
    · split
      · simp only [stepP_inl]
        unfold PhyInv
        simp only [if_true]
        exact hs.phase _
      · exact (seqNext_inv cfg hv st line hs).mono (fun s hs => phyInv_rows_seq hs)
  · rw [hp]
    simp only
    split
    · simpa using h
    · exact (seqNext_inv cfg hv st line hs).mono (fun s hs => phyInv_rows_seq hs)

theorem seqFinish_good (cfg : Cfg) (st : PhySt) (hp : st.phase = .rows ∨ st.phase = .gap)
    (h : PhyInv true cfg st) : GoodP (seqFinish cfg st) := by
  have hs := seqInv_of hp h
  have key : GoodP (if st.idx + 1 < st.nseq then .eformat seqMsgEof
      else if st.alen != st.alenStated then .eformat seqMsgAlen else phyDone cfg st st.alen none) := by
    split
    · simp [seqMsgEof]
    · rename_i hl
      split
      · simp [seqMsgAlen]
      · rename_i hne
        exact seqDone_good cfg st none hs (by simpa using hne) hl
  unfold seqFinish
  rcases hp with hp | hp <;> rw [hp] <;> exact key

theorem phylipStep_inv (sequential : Bool) (cfg : Cfg) (hv : cfg.valid) (st : PhySt) (line : Bytes)
    (h : PhyInv sequential cfg st) : StepP (PhyInv sequential cfg) (phylipStep sequential cfg st line) := by
  unfold phylipStep
  cases hp : st.phase with
  | lead =>
    simp only
    split
    · simpa using h
    · exact phyHeader_inv cfg sequential st line
  | hdr =>
    simp only
    split
    · simpa using h
    · have hh : PhyBase st ∧ RowsWant cfg st.rows (fun _ => 0) := by unfold PhyInv at h; rw [hp] at h; exact h
      exact phyFirst_inv cfg hv sequential st line hh.1 hh.2
  | rows =>
    simp only
    cases sequential with
    | true => simp only [if_true]; exact seqStep_inv cfg hv st line (Or.inl hp) h
    | false => simp only [Bool.false_eq_true, if_false]; exact ilvStep_inv cfg hv st line (Or.inl hp) h
  | gap =>
    simp only
    cases sequential with
    | true => simp only [if_true]; exact seqStep_inv cfg hv st line (Or.inr hp) h
    | false => simp only [Bool.false_eq_true, if_false]; exact ilvStep_inv cfg hv st line (Or.inr hp) h

theorem phylipFinish_good (sequential : Bool) (cfg : Cfg) (st : PhySt) (h : PhyInv sequential cfg st) :
    GoodP (phylipFinish sequential cfg st) := by
  unfold phylipFinish
  cases hp : st.phase with
  | lead => simp
  | hdr => simp
  | rows =>
    simp only
    cases sequential with
    | true => simp only [if_true]; exact seqFinish_good cfg st (Or.inl hp) h
    | false => simp only [Bool.false_eq_true, if_false]; exact ilvFinish_good cfg st (Or.inl hp) h
  | gap =>
    simp only
    cases sequential with
    | true => simp only [if_true]; exact seqFinish_good cfg st (Or.inr hp) h
    | false => simp only [Bool.false_eq_true, if_false]; exact ilvFinish_good cfg st (Or.inr hp) h

theorem phyUnput_good (x : PRes × List Bytes) (h : GoodP x.1) : Good (phyUnput x).1 := by
  obtain ⟨r, rest⟩ := x
  cases r with
  | ok a =>
    obtain ⟨m, back⟩ := a
    cases back <;> exact h
  | eof => exact h
  | eformat msg => exact h
  | fault => exact h
  | exc => exact h

/-- **PHYLIP readers, every input**: the outcome of `esl_msafile_phylip_Read` (interleaved or sequential) is a documented
    normal one and a returned alignment is well formed; no access outside `sqname[] / aseq[] / ax[]`, no exception -/
theorem phylipRead_good (sequential : Bool) (cfg : Cfg) (hv : cfg.valid) (lines : List Bytes) :
    Good (phylipRead sequential cfg lines).1 :=
  phyUnput_good _ (runLines_inv (phylipStep sequential cfg) (phylipFinish sequential cfg) (PhyInv sequential cfg) GoodP
    (fun st l h => phylipStep_inv sequential cfg hv st l h) (fun st h => phylipFinish_good sequential cfg st h) lines {}
    (by unfold PhyInv; trivial))

/-- the same for an autodetected name width -/
theorem phylipReadW_good (namewidth : Nat) (sequential : Bool) (cfg : Cfg) (hv : cfg.valid) (lines : List Bytes) :
    Good (phylipReadW namewidth sequential cfg lines).1 :=
  phyUnput_good _ (runLines_inv (phylipStep sequential cfg) (phylipFinish sequential cfg) (PhyInv sequential cfg) GoodP
    (fun st l h => phylipStep_inv sequential cfg hv st l h) (fun st h => phylipFinish_good sequential cfg st h) lines _
    (by unfold PhyInv; trivial))

/-! ## what is left for the next read

A step that stops with eslOK hands back exactly the line it was given (`esl_msafile_PutLine`), the end of input hands
back nothing: the unread lines are a suffix of the lines offered. -/

def NotOkP (r : PRes) : Prop := ∀ a, r ≠ .ok a
/-- an eslOK outcome hands back `back` -/
def BackEq (back : Option Bytes) (r : PRes) : Prop := ∀ m b, r = .ok (m, b) → b = back

theorem NotOkP.backEq {r : PRes} (h : NotOkP r) (back : Option Bytes) : BackEq back r := fun m b e => absurd e (h (m, b))
@[simp] theorem notOkP_eformat (msg : String) : NotOkP (.eformat msg) := by intro a; simp
@[simp] theorem notOkP_exc : NotOkP .exc := by intro a; simp
@[simp] theorem notOkP_fault : NotOkP .fault := by intro a; simp
@[simp] theorem notOkP_eof : NotOkP .eof := by intro a; simp

abbrev StepNotOk {σ : Type} (x : Sum σ PRes) : Prop := StepOk (fun _ => True) NotOkP x
abbrev StepBack (back : Option Bytes) (x : Sum PhySt PRes) : Prop := StepOk (fun _ => True) (BackEq back) x

theorem StepNotOk.back {x : Sum PhySt PRes} (h : StepNotOk x) (back : Option Bytes) : StepBack back x := by
  cases x with
  | inl s => trivial
  | inr r => exact NotOkP.backEq h back

theorem phyDone_back (cfg : Cfg) (st : PhySt) (a : Nat) (back : Option Bytes) : BackEq back (phyDone cfg st a back) := by
  intro m b h
  unfold phyDone at h
  split at h
  · simp only [Res.ok.injEq, Prod.mk.injEq] at h; exact h.2.symm
  · simp at h

theorem phyNameIf_notOk (b : Bool) (st : PhySt) (line : Bytes) : StepNotOk (phyNameIf b st line) := by
  unfold phyNameIf phyName
  split
  · split
    · simp
    · split
      · simp
      · split
        · simp
        · split <;> simp
  · simp

theorem phyCat_notOk (cfg : Cfg) (st : PhySt) (ldest : Nat) (p : Bytes) : StepNotOk (phyCat cfg st ldest p) := by
  unfold phyCat
  split
  · simp
  · split
    · simp
    · split
      split <;> simp

theorem phyHeader_notOk (st : PhySt) (line : Bytes) : StepNotOk (phyHeader st line) := by
  unfold phyHeader
  simp only
  split
  · simp
  · simp
  · split
    · simp
    · split
      · simp
      · simp
      · split <;> simp

theorem ilvLine_notOk (cfg : Cfg) (st : PhySt) (line : Bytes) : StepNotOk (ilvLine cfg st line) := by
  unfold ilvLine
  have h1 := phyNameIf_notOk (st.nblocks == 0) st line
  cases hnm : phyNameIf (st.nblocks == 0) st line with
  | inr r => rw [hnm] at h1; exact h1
  | inl x =>
    obtain ⟨names, p⟩ := x
    simp only
    have h2 := phyCat_notOk cfg st st.alen p
    cases hpc : phyCat cfg st st.alen p with
    | inr r => rw [hpc] at h2; exact h2
    | inl y =>
      obtain ⟨rows, curAlen⟩ := y
      simp only
      split
      · simp
      · split <;> simp

theorem seqLine_notOk (cfg : Cfg) (st : PhySt) (line : Bytes) : StepNotOk (seqLine cfg st line) := by
  unfold seqLine
  have h1 := phyNameIf_notOk (st.alen == 0) st line
  cases hnm : phyNameIf (st.alen == 0) st line with
  | inr r => rw [hnm] at h1; exact h1
  | inl x =>
    obtain ⟨names, p⟩ := x
    simp only
    have h2 := phyCat_notOk cfg st st.alen p
    cases hpc : phyCat cfg st st.alen p with
    | inr r => rw [hpc] at h2; exact h2
    | inl y => simp

theorem ilvEnd_back (cfg : Cfg) (st : PhySt) (back : Option Bytes) : BackEq back (ilvEnd cfg st back) := by
  unfold ilvEnd
  split
  · exact (notOkP_eformat _).backEq _
  · exact phyDone_back cfg st st.alen back

theorem ilvNext_back (cfg : Cfg) (st : PhySt) (line : Bytes) : StepBack (some line) (ilvNext cfg st line) := by
  unfold ilvNext
  split
  · exact (ilvLine_notOk cfg _ line).back _
  · exact ilvEnd_back cfg st (some line)

theorem ilvEndBlock_notOk (st : PhySt) : StepNotOk (ilvEndBlock st) := by
  unfold ilvEndBlock
  split <;> simp

theorem ilvStep_back (cfg : Cfg) (st : PhySt) (line : Bytes) : StepBack (some line) (ilvStep cfg st line) := by
  unfold ilvStep
  cases st.phase with
  | lead => exact (notOkP_fault).backEq _
  | hdr => exact (notOkP_fault).backEq _
  | rows =>
    simp only
    split
    · exact (ilvLine_notOk cfg st line).back _
    · have he := ilvEndBlock_notOk st
      cases heb : ilvEndBlock st with
      | inr r => rw [heb] at he; exact NotOkP.backEq he _
      | inl st' =>
        simp only
        split
        · trivial
        · exact ilvNext_back cfg st' line
  | gap =>
    simp only
    split
    · trivial
    · exact ilvNext_back cfg st line

theorem ilvFinish_back (cfg : Cfg) (st : PhySt) : BackEq none (ilvFinish cfg st) := by
  unfold ilvFinish
  cases st.phase with
  | lead => exact (notOkP_fault).backEq _
  | hdr => exact (notOkP_fault).backEq _
  | rows =>
    simp only
    have he := ilvEndBlock_notOk st
    cases heb : ilvEndBlock st with
    | inr r => rw [heb] at he; exact NotOkP.backEq he _
    | inl st' => exact ilvEnd_back cfg st' none
  | gap => exact ilvEnd_back cfg st none

theorem seqNext_back (cfg : Cfg) (st : PhySt) (line : Bytes) : StepBack (some line) (seqNext cfg st line) := by
  unfold seqNext
  split
  · exact (notOkP_eformat _).backEq _
  · split
    · exact (seqLine_notOk cfg _ line).back _
    · exact phyDone_back cfg st st.alen (some line)

theorem seqStep_back (cfg : Cfg) (st : PhySt) (line : Bytes) : StepBack (some line) (seqStep cfg st line) := by
  unfold seqStep
  cases st.phase with
  | lead => exact (notOkP_fault).backEq _
  | hdr => exact (notOkP_fault).backEq _
  | rows =>
    simp only
    split
    · exact (seqLine_notOk cfg st line).back _
    · split
      · trivial
      · exact seqNext_back cfg st line
  | gap =>
    simp only
    split
    · trivial
    · exact seqNext_back cfg st line

theorem seqFinish_back (cfg : Cfg) (st : PhySt) : BackEq none (seqFinish cfg st) := by
  have key : BackEq none (if st.idx + 1 < st.nseq then .eformat seqMsgEof
      else if st.alen != st.alenStated then .eformat seqMsgAlen else phyDone cfg st st.alen none) := by
    split
    · exact (notOkP_eformat _).backEq _
    · split
      · exact (notOkP_eformat _).backEq _
      · exact phyDone_back cfg st st.alen none
  unfold seqFinish
  cases st.phase with
  | lead => exact (notOkP_fault).backEq _
  | hdr => exact (notOkP_fault).backEq _
  | rows => exact key
  | gap => exact key

theorem phylipStep_back (sequential : Bool) (cfg : Cfg) (st : PhySt) (line : Bytes) :
    StepBack (some line) (phylipStep sequential cfg st line) := by
  unfold phylipStep
  cases st.phase with
  | lead =>
    simp only
    split
    · trivial
    · exact (phyHeader_notOk st line).back _
  | hdr =>
    simp only
    split
    · trivial
    · unfold phyFirst
      cases sequential with
      | true => exact (seqLine_notOk cfg _ line).back _
      | false => exact (ilvLine_notOk cfg _ line).back _
  | rows =>
    simp only
    cases sequential with
    | true => exact seqStep_back cfg st line
    | false => exact ilvStep_back cfg st line
  | gap =>
    simp only
    cases sequential with
    | true => exact seqStep_back cfg st line
    | false => exact ilvStep_back cfg st line

theorem phylipFinish_back (sequential : Bool) (cfg : Cfg) (st : PhySt) : BackEq none (phylipFinish sequential cfg st) := by
  unfold phylipFinish
  cases st.phase with
  | lead => exact (notOkP_eof).backEq _
  | hdr => exact (notOkP_eformat _).backEq _
  | rows =>
    simp only
    cases sequential with
    | true => exact seqFinish_back cfg st
    | false => exact ilvFinish_back cfg st
  | gap =>
    simp only
    cases sequential with
    | true => exact seqFinish_back cfg st
    | false => exact ilvFinish_back cfg st

theorem phyUnput_snd_of_back (r : PRes) (rest : List Bytes) (back : Option Bytes) (h : BackEq back r) :
    (phyUnput (r, rest)).2 = rest ∨ (∃ l, back = some l ∧ (phyUnput (r, rest)).2 = l :: rest) := by
  cases r with
  | ok a =>
    obtain ⟨m, b⟩ := a
    have hb := h m b rfl
    cases b with
    | none => exact Or.inl rfl
    | some l => exact Or.inr ⟨l, hb.symm, rfl⟩
  | eof => exact Or.inl rfl
  | eformat msg => exact Or.inl rfl
  | fault => exact Or.inl rfl
  | exc => exact Or.inl rfl

/-- what a read leaves behind (pushed-back line included) is a suffix of what it was offered -/
theorem phylipRun_rest_suffix (sequential : Bool) (cfg : Cfg) : ∀ (lines : List Bytes) (st : PhySt),
    (phyUnput (runLines (phylipStep sequential cfg) (phylipFinish sequential cfg) st lines)).2 <:+ lines := by
  intro lines
  induction lines with
  | nil =>
    intro st
    simp only [runLines]
    rcases phyUnput_snd_of_back _ [] none (phylipFinish_back sequential cfg st) with h | ⟨l, hl, _⟩
    · rw [h]; exact List.suffix_refl _
    · simp at hl
  | cons x ls ih =>
    intro st
    unfold runLines
    have hb := phylipStep_back sequential cfg st x
    cases hs : phylipStep sequential cfg st x with
    | inl st' => exact List.IsSuffix.trans (ih st') (List.suffix_cons x ls)
    | inr r =>
      rw [hs] at hb
      simp only
      rcases phyUnput_snd_of_back r ls (some x) hb with h | ⟨l, hl, h⟩
      · rw [h]; exact List.suffix_cons x ls
      · rw [h]
        simp only [Option.some.injEq] at hl
        rw [hl]; exact List.suffix_refl _

theorem phylipRead_rest_suffix (sequential : Bool) (cfg : Cfg) (lines : List Bytes) :
    (phylipRead sequential cfg lines).2 <:+ lines :=
  phylipRun_rest_suffix sequential cfg lines {}

/-- a read that consumes nothing cannot succeed: reading a file alignment by alignment terminates
    (`eof` on the empty list; an eslOK read needs the header line and at least one alignment line) -/
theorem phylipRead_nil (sequential : Bool) (cfg : Cfg) : (phylipRead sequential cfg []).1 = .eof := rfl

end EaselModel.Msafile
