import EaselModel.Msafile.StoRoundTrip
/-! Stockholm / Pfam `#=GS <seqname> WT <weight>`: what the round trip will need of the token `printf("%.2f")` prints for a
    weight (`wgtTokOk`, the `gs_val` clause of kind 0 in `StoAnn`): a simple sufficient condition, "finite and not negative"; and
    `gsOrderOk_of_hasw`: with weights the first `#=GS` kind is `WT`, which covers every sequence. -/
namespace EaselModel.Msafile

/-- a binary64 pattern that is neither an infinity nor a NaN -/
def finiteF64 (b : UInt64) : Prop := (b.toNat / 2 ^ 52) % 2048 ≠ 2047

theorem fmtF2_shape (b : UInt64) (h : finiteF64 b) :
    ∃ ip fp, fmtF2 b = (if b.toNat / 2 ^ 63 == 1 then [45] else []) ++ (ip ++ 46 :: fp) ∧ ip ≠ [] ∧ allDig ip ∧ allDig fp := by
  have h' : ((b.toNat / 2 ^ 52) % 2048 == 2047) = false := by simpa [finiteF64] using h
  unfold fmtF2
  simp only [h', Bool.false_eq_true, if_false]
  split
  · obtain ⟨ip, fp, he, h1, h2, h3⟩ := fmtFixed_shape (b.toNat / 2 ^ 63 == 1) (b.toNat % 2 ^ 52) (-1074) 2 (by decide)
    exact ⟨ip, fp, he, h1, h2, h3⟩
  · obtain ⟨ip, fp, he, h1, h2, h3⟩ := fmtFixed_shape (b.toNat / 2 ^ 63 == 1) (b.toNat % 2 ^ 52 + 2 ^ 52)
      (Int.ofNat ((b.toNat / 2 ^ 52) % 2048) - 1075) 2 (by decide)
    exact ⟨ip, fp, he, h1, h2, h3⟩

/-- a finite weight whose sign bit is clear (`+0.0` included) prints as a token the round trip can carry -/
theorem wgtTokOk_of_nonneg (b : UInt64) (h : finiteF64 b) (hs : b.toNat / 2 ^ 63 ≠ 1) : wgtTokOk (fmtF2 b) := by
  obtain ⟨ip, fp, he, h1, h2, h3⟩ := fmtF2_shape b h
  have hneg : (b.toNat / 2 ^ 63 == 1) = false := by simpa using hs
  rw [hneg] at he
  simp only [Bool.false_eq_true, if_false, List.nil_append] at he
  have hr := realTok_of_shape [] ip fp (Or.inl rfl) h1 h2 h3
  rw [List.nil_append] at hr
  rw [he]
  refine ⟨hr.name, hr.real, hr.nolf, hr.nocr, ?_⟩
  obtain ⟨d, ip', rfl⟩ : ∃ d ip', ip = d :: ip' := by
    cases ip with
    | nil => exact absurd rfl h1
    | cons d t => exact ⟨d, t, rfl⟩
  have hd := digit_facts d (h2 d (by simp))
  have hdw : (d :: ip' ++ 46 :: fp).dropWhile isSpace = d :: ip' ++ 46 :: fp := by
    simp [hd.2.2.2.1]
  unfold strtodIsMinusOne
  rw [hdw]
  split
  · rename_i p heq
    simp only [List.cons_append, List.cons.injEq] at heq
    exact absurd heq.1 hd.2.2.2.2.1
  · rfl

/-- the default weight 1.0 prints as `1.00` -/
example : fmtF2 Wgt.dflt.toBits = str "1.00" ∧ wgtTokOk (fmtF2 Wgt.dflt.toBits) := by
  unfold wgtTokOk nameOk; decide +kernel
/-- … and the hypothesis is needed: -1.0 prints as `-1.00`, which the reader takes for "no weight" -/
example : fmtF2 Wgt.unset.toBits = str "-1.00" ∧ strtodIsMinusOne (fmtF2 Wgt.unset.toBits) = true := by decide +kernel

/-- with weights, `WT` is the first `#=GS` kind written and it is written for every sequence: the first-mention-order
    hypothesis holds whatever the (sparse) accessions, descriptions and unparsed tags are -/
theorem gsOrderOk_of_hasw (m : Msa) (hw : m.hasw = true) : gsOrderOk m := by
  intro q hq hprev hex i hi
  obtain ⟨i0, hi0, _⟩ := hex
  rcases q with _ | q
  · rw [gsVal_wt m hw i hi]; rfl
  · have := hprev 0 (by omega) i0 hi0
    rw [gsVal_wt m hw i0 hi0] at this; cases this

end EaselModel.Msafile
