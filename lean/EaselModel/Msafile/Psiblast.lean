import EaselModel.Msafile.Basic
import EaselModel.Msafile.Afa
import EaselModel.Msafile.Clustal
/-! # PSI-BLAST: `esl_msafile_psiblast.c`  (`esl_msafile_psiblast_SetInmap`, `esl_msafile_psiblast_Read`)

Same block structure as the Clustal reader (`BlkSt`, `blkStore`, `blkResult` of `Clustal.lean`), no header, a blank line or
EOF ends a block, the sequence field runs to the last non-space character of the line, and an `#=RF`-like line is built
from the case of the residues.  Phases: `lead` (skip leading blank lines; `hdr` is not used and behaves like `lead`),
`inblock` (the `GetLine` at the bottom of the row loop), `between` (skip blank lines to the start of the next block). -/
namespace EaselModel.Msafile

/-- `esl_msafile_psiblast_SetInmap` -/
def psiblastInmap (abc : Option Abc) : InMap :=
  let base : Array UInt8 :=
    match abc with
    | some a =>
      ((((a.inmap.setIfInBounds 0 a.unknown).setIfInBounds 46 dsqILLEGAL).setIfInBounds 95 dsqILLEGAL).setIfInBounds 42 dsqILLEGAL).setIfInBounds 126 dsqILLEGAL
    | none =>
      (Array.ofFn (n := 128) fun i =>
        let c := UInt8.ofNat i.val
        if i.val == 0 then (63 : UInt8) else if isAlpha c then c else dsqILLEGAL).setIfInBounds 45 45
  ⟨(base.setIfInBounds 79 dsqILLEGAL).setIfInBounds 111 dsqILLEGAL⟩

def psiblastCfg (abc : Option Abc) : Cfg := ⟨abc, psiblastInmap abc⟩

/-- `for (pos = start; pos > 0; pos--) if (! isspace(line[pos])) break;` : the value of `pos` after the loop;
    `none` = `line[pos]` read outside the line -/
def scanBack (p : Bytes) : Nat → Option Nat
  | 0 => some 0
  | pos + 1 =>
    match p[pos + 1]? with
    | none => none
    | some c => if !isSpace c then some (pos + 1) else scanBack p pos

inductive ColsRes where
  | ok (c : Cols)
  | invalid            -- "invalid alignment line"
  | fault
deriving Repr

/-- the four scanning loops at the top of the row loop -/
def psiCols (p : Bytes) : ColsRes :=
  let pos := scanTo (fun c => !isSpace c) p 0
  let nameStart := pos
  let pos := scanTo isSpace p (pos + 1)
  let nameLen := pos - nameStart
  let pos := scanTo (fun c => !isSpace c) p (pos + 1)
  let seqStart := pos
  if pos ≥ p.length then .invalid
  else
    match scanBack p (p.length - 1) with
    | none => .fault
    | some pos =>
      if pos < seqStart then .fault        -- seq_len ≤ 0: the model has no negative lengths (a negative `n` means "use strlen" to the *cat routines)
      else .ok ⟨nameStart, nameLen, seqStart, pos + 1 - seqStart⟩

inductive RfRes where
  | ok (rf : Bytes)
  | eformat (msg : String)
  | fault
deriving Repr

/-- `for (pos = 0; pos < seq_len; pos++) { … msa->rf[alen+pos] … }` with `off = alen+pos`, `seq` = the rest of the sequence field -/
def rfLoop : Bytes → Bytes → Nat → RfRes
  | [], rf, _ => .ok rf
  | c :: rest, rf, off =>
    if c == 45 then rfLoop rest rf (off + 1)
    else if isUpper c then
      match rf[off]? with
      | none => .fault
      | some x => if x == 46 then .eformat "unexpected upper case residue" else rfLoop rest (rf.set off 120) (off + 1)
    else if isLower c then
      match rf[off]? with
      | none => .fault
      | some x => if x == 120 then .eformat "unexpected lower case residue" else rfLoop rest (rf.set off 46) (off + 1)
    else rfLoop rest rf (off + 1)

/-- the body of the loop over the rows of a block, for the line `p`, including the `idx++`, up to the next `esl_msafile_GetLine` -/
def psiSeqLine (cfg : Cfg) (st : BlkSt) (p : Bytes) : Sum BlkSt (Res Msa) :=
  match psiCols p with
  | .fault => .inr .fault
  | .invalid => .inr (.eformat "invalid alignment line")
  | .ok c =>
    if st.idx != 0 && c.seqStart != st.bss then .inr (.eformat "sequence start is misaligned")
    else if st.idx != 0 && c.seqLen != st.bsl then .inr (.eformat "sequence end is misaligned")
    else
      match slice p c.nameStart c.nameLen, slice p c.seqStart c.seqLen with
      | some name, some seq =>
        -- if (idx == 0) { ESL_REALLOC(msa->rf, alen+seq_len+1); fill with '-' from alen on }
        let rf0 := if st.idx == 0 then st.rf.take st.alen ++ List.replicate c.seqLen 45 else st.rf
        match rfLoop seq rf0 st.alen with
        | .fault => .inr .fault
        | .eformat msg => .inr (.eformat msg)
        | .ok rf1 => blkStore cfg false { setBlock st c with phase := .inblock, rf := rf1 } name seq
      | _, _ => .inr .fault

/-- "End of one block": `if (nblocks == 0) nseq = idx; else if (idx != nseq) fail; alen += block_seq_len; nblocks++` -/
def psiEndBlock (st : BlkSt) : Sum BlkSt (Res Msa) :=
  if st.nblocks != 0 && st.idx != st.nseq then .inr (.eformat "last block didn't contain same # of seqs as earlier blocks")
  else .inl { st with nseq := if st.nblocks == 0 then st.idx else st.nseq,
                      alen := st.alen + st.bsl, nblocks := st.nblocks + 1, phase := .between }

def psiStep (cfg : Cfg) (st : BlkSt) (line : Bytes) : Sum BlkSt (Res Msa) :=
  match st.phase with
  | .lead | .hdr =>
    if isBlankLine line then .inl st
    else psiSeqLine cfg { st with idx := 0 } line
  | .inblock =>
    if isBlankLine line then psiEndBlock st                  -- blank line ends a block
    else psiSeqLine cfg st line
  | .between =>
    if isBlankLine line then .inl st
    else psiSeqLine cfg { st with idx := 0 } line

/-- end of input -/
def psiFinish (cfg : Cfg) (st : BlkSt) : Res Msa :=
  match st.phase with
  | .lead | .hdr => .eof
  | .inblock =>
    match psiEndBlock st with                                -- EOF ends a block; the blank-line skipping loop then sees EOF again
    | .inr r => r
    | .inl st' => blkResult cfg st' (some st'.rf)
  | .between => blkResult cfg st (some st.rf)

/-- `esl_msafile_psiblast_Read` on the remaining lines: outcome and the lines left unread -/
def psiblastRead (cfg : Cfg) (lines : List Bytes) : Res Msa × List Bytes :=
  runLines (psiStep cfg) (psiFinish cfg) {} lines

end EaselModel.Msafile
