import EaselModel.Msafile.WriteFmt
/-! # Stockholm / Pfam writer: `stockholm_write(fp, msa, cpl)` of `esl_msafile_stockholm.c`

The C function statement by statement; every `fprintf` is one element of the list of lines (all of them end in `\n`).
`cpl` = 200 for `eslMSAFILE_STOCKHOLM`, `msa->alen` for `eslMSAFILE_PFAM`. -/
namespace EaselModel.Msafile

/-- `for (tmpnseq = msa->nseq; tmpnseq; tmpnseq /= 10) uniqwidth++` -/
def decWidth (n : Nat) : Nat :=
  if _h : n = 0 then 0 else 1 + decWidth (n / 10)
termination_by n
decreasing_by omega

/-- `esl_msa_CheckUniqueNames(msa) == eslFAIL`: some name was stored before -/
def hasDupNames : List Bytes → Bool
  | [] => false
  | n :: rest => rest.contains n || hasDupNames rest

/-- the widths computed at the top of `stockholm_write` -/
structure StoLayout where
  uniq : Bool          -- make_uniquenames
  uniqwidth : Nat
  maxname : Nat
  maxgf : Nat
  maxgc : Nat
  maxgr : Nat
  margin : Nat
deriving Repr, DecidableEq

def stoLayout (m : Msa) : StoLayout :=
  let uniq := hasDupNames m.names
  let uniqwidth := if uniq then decWidth m.nseq + 1 else 0
  let maxname := maxWidth m.names
  let maxgf := maxWidth (m.gf.map (·.1))
  let maxgf := if maxgf < 2 then 2 else maxgf
  let maxgc := maxWidth (m.gc.map (·.1))
  let maxgc := if m.rf.isSome && maxgc < 2 then 2 else maxgc
  let maxgc := if m.mm.isSome && maxgc < 2 then 2 else maxgc
  let maxgc := if m.ssCons.isSome && maxgc < 7 then 7 else maxgc
  let maxgc := if m.saCons.isSome && maxgc < 7 then 7 else maxgc
  let maxgc := if m.ppCons.isSome && maxgc < 7 then 7 else maxgc
  let maxgr := maxWidth (m.gr.map (·.1))
  let maxgr := if m.ss.isSome && maxgr < 2 then 2 else maxgr
  let maxgr := if m.sa.isSome && maxgr < 2 then 2 else maxgr
  let maxgr := if m.pp.isSome && maxgr < 2 then 2 else maxgr
  let margin := uniqwidth + maxname + 1
  let margin := if maxgc > 0 && maxgc + 6 > margin then maxgc + 6 else margin
  let margin := if maxgr > 0 && uniqwidth + maxname + maxgr + 7 > margin then uniqwidth + maxname + maxgr + 7 else margin
  { uniq, uniqwidth, maxname, maxgf, maxgc, maxgr, margin }

/-- `"%0*d|%-*s"` (unique-name forcing, number `num`) or `"%-*s"`: a sequence name in a field of width `w` -/
def stoName (L : StoLayout) (m : Msa) (num i : Nat) (w : Int) : Bytes :=
  (if L.uniq then zeroPad (L.uniqwidth - 1) num ++ [124] else []) ++ padRight w (m.names.getD i [])

def sGF : Bytes := str "#=GF "
def sGS : Bytes := str "#=GS "
def sGC : Bytes := str "#=GC "
def sGR : Bytes := str "#=GR "

/-- `"#=GF %-*s %s\n"` -/
def gfLine (L : StoLayout) (tag val : Bytes) : Bytes := sGF ++ padRight L.maxgf tag ++ [32] ++ val

/-- the two-valued / one-valued cut-off line for the pair `(c1, c2)` -/
def cutLines (L : StoLayout) (tag : Bytes) (c1 c2 : Option UInt32) : List Bytes :=
  match c1, c2 with
  | some a, some b => [sGF ++ padRight L.maxgf tag ++ [32] ++ fmtF1 a ++ [32] ++ fmtF1 b]
  | some a, none => [sGF ++ padRight L.maxgf tag ++ [32] ++ fmtF1 a]
  | none, _ => []

/-- `esl_strtok(&s, "\n", &tok)` until it returns eslEOL: the non-empty pieces between line feeds -/
def strtokLF : Bytes → Bytes → List Bytes
  | [], acc => if acc.isEmpty then [] else [acc.reverse]
  | c :: r, acc =>
    if c == 10 then (if acc.isEmpty then strtokLF r [] else acc.reverse :: strtokLF r [])
    else strtokLF r (c :: acc)

/-- header, comments, #=GF section (ends with the blank line that is always written) -/
def stoHeadLines (L : StoLayout) (m : Msa) : List Bytes :=
  let cut := fun (k : Nat) => m.cutoff.getD k none
  [str "# STOCKHOLM 1.0"]
  ++ (if L.uniq then [str "# WARNING: seq names have been made unique by adding a prefix of \"<seq#>|\""] else [])
  ++ m.comments.map (fun c => 35 :: c)
  ++ (if m.comments.isEmpty then [] else [[]])
  ++ (match m.name with | some v => [gfLine L (str "ID") v] | none => [])
  ++ (match m.acc with | some v => [gfLine L (str "AC") v] | none => [])
  ++ (match m.desc with | some v => [gfLine L (str "DE") v] | none => [])
  ++ (match m.au with | some v => [gfLine L (str "AU") v] | none => [])
  ++ cutLines L (str "GA") (cut 2) (cut 3)
  ++ cutLines L (str "NC") (cut 4) (cut 5)
  ++ cutLines L (str "TC") (cut 0) (cut 1)
  ++ m.gf.map (fun t => gfLine L t.1 t.2)
  ++ [[]]

/-- the #=GS sections: WT, AC, DE, then one section per unparsed tag; each section ends with a blank line.
    In the unparsed-tag section the C code numbers a uniquified name with the TAG index `i`, not the sequence index `j`
    (`fprintf(fp, "#=GS %0*d|%-*s %-*s %s\n", uniqwidth-1, i, maxname, msa->sqname[j], …)`): modelled as it is. -/
def stoGSLines (L : StoLayout) (m : Msa) : List Bytes :=
  let idx := List.range m.nseq
  (if m.hasw then
     idx.map (fun i => sGS ++ stoName L m i i L.maxname ++ str " WT " ++ fmtF2 ((m.wgt.getD i Wgt.unset).toBits)) ++ [[]]
   else [])
  ++ (match m.sqacc with
      | some _ => idx.flatMap (fun i => match optRow m.sqacc i with
          | some v => [sGS ++ stoName L m i i L.maxname ++ str " AC " ++ v] | none => []) ++ [[]]
      | none => [])
  ++ (match m.sqdesc with
      | some _ => idx.flatMap (fun i => match optRow m.sqdesc i with
          | some v => [sGS ++ stoName L m i i L.maxname ++ str " DE " ++ v] | none => []) ++ [[]]
      | none => [])
  ++ (List.range m.gs.length).flatMap (fun i =>
        let t := m.gs.getD i ([], [])
        idx.flatMap (fun j => match t.2.getD j none with
          | some v => (strtokLF v []).map fun tok =>
              sGS ++ stoName L m j j L.maxname ++ [32] ++ padRight t.1.length t.1 ++ [32] ++ tok
          | none => [])
        ++ [[]])

/-- `"#=GR %-*s %-*s %s\n"` for sequence `i` -/
def grLine (L : StoLayout) (m : Msa) (i : Nat) (tag : Bytes) (s : Bytes) (pos acpl : Nat) : Bytes :=
  sGR ++ stoName L m i i L.maxname ++ [32]
    ++ padRight ((L.margin : Int) - L.maxname - L.uniqwidth - 7) tag ++ [32] ++ strChunk s pos acpl

/-- `"#=GC %-*s %s\n"` -/
def gcLine (L : StoLayout) (tag : Bytes) (s : Bytes) (pos acpl : Nat) : Bytes :=
  sGC ++ padRight ((L.margin : Int) - 6) tag ++ [32] ++ strChunk s pos acpl

def optLine (o : Option Bytes) (f : Bytes → Bytes) : List Bytes :=
  match o with | some s => [f s] | none => []

/-- the lines of sequence `i` in the block starting at `pos`: the row, then SS, SA, PP, then the unparsed #=GR tags -/
def stoSeqLines (L : StoLayout) (abc : Option Abc) (m : Msa) (pos acpl i : Nat) : List Bytes :=
  [stoName L m i i ((L.margin : Int) - L.uniqwidth - 1) ++ [32] ++ seqChunk abc m i pos acpl]
  ++ optLine (optRow m.ss i) (fun s => grLine L m i (str "SS") s pos acpl)
  ++ optLine (optRow m.sa i) (fun s => grLine L m i (str "SA") s pos acpl)
  ++ optLine (optRow m.pp i) (fun s => grLine L m i (str "PP") s pos acpl)
  ++ m.gr.flatMap (fun t => optLine (t.2.getD i none) (fun s => grLine L m i t.1 s pos acpl))

/-- one alignment block (`currpos = pos`); a blank line separates it from the previous block -/
def stoBlockLines (L : StoLayout) (abc : Option Abc) (m : Msa) (cpl pos : Nat) : List Bytes :=
  let acpl := if m.alen - pos > cpl then cpl else m.alen - pos
  (if pos > 0 then [[]] else [])
  ++ (List.range m.nseq).flatMap (stoSeqLines L abc m pos acpl)
  ++ optLine m.ssCons (fun s => gcLine L (str "SS_cons") s pos acpl)
  ++ optLine m.saCons (fun s => gcLine L (str "SA_cons") s pos acpl)
  ++ optLine m.ppCons (fun s => gcLine L (str "PP_cons") s pos acpl)
  ++ optLine m.rf (fun s => gcLine L (str "RF") s pos acpl)
  ++ optLine m.mm (fun s => gcLine L (str "MM") s pos acpl)
  ++ m.gc.map (fun t => gcLine L t.1 t.2 pos acpl)

/-- `cpl` of `esl_msafile_stockholm_Write` -/
def stoCpl (pfam : Bool) (m : Msa) : Nat := if pfam then m.alen else 200

/-- everything before the terminating `//` -/
def stockholmBodyLines (pfam : Bool) (abc : Option Abc) (m : Msa) : List Bytes :=
  let L := stoLayout m
  stoHeadLines L m ++ stoGSLines L m
    ++ (blockStarts m.alen (stoCpl pfam m)).flatMap (stoBlockLines L abc m (stoCpl pfam m))

def stockholmLines (pfam : Bool) (abc : Option Abc) (m : Msa) : List Bytes :=
  stockholmBodyLines pfam abc m ++ [[47, 47]]

/-- `esl_msafile_stockholm_Write(fp, msa, eslMSAFILE_STOCKHOLM | eslMSAFILE_PFAM)` (always eslOK: allocation and
    `fprintf` failures are not modelled) -/
def stockholmWrite (pfam : Bool) (abc : Option Abc) (m : Msa) : Bytes :=
  joinLF (stockholmLines pfam abc m)

end EaselModel.Msafile
