import EaselModel.Msafile.PhylipWritable
/-! PHYLIP: re-writing the re-read alignment reproduces the same bytes (`write (project m) = write m`). -/
namespace EaselModel.Msafile

theorem flatMap_congr_phy {α β : Type} (l : List α) (f g : α → List β) (h : ∀ a ∈ l, f a = g a) : l.flatMap f = l.flatMap g := by
  induction l with
  | nil => rfl
  | cons a t ih =>
    simp only [List.flatMap_cons]
    rw [h a (by simp), ih (fun b hb => h b (by simp [hb]))]

/-- the writers look at `nseq`, `alen` and the row lines only -/
theorem phylipWrite_congr (seq : Bool) (abc : Option Abc) (m m' : Msa) (hn : m'.nseq = m.nseq) (ha : m'.alen = m.alen)
    (hrow : ∀ idx, idx < m.nseq → ∀ apos, phyRowLine abc m' idx apos = phyRowLine abc m idx apos) :
    phylipWrite seq abc m' = phylipWrite seq abc m := by
  have hh : phyWrHeader m' = phyWrHeader m := by unfold phyWrHeader; rw [hn, ha]
  have e1 : ∀ apos, (List.range m.nseq).map (fun idx => phyRowLine abc m' idx apos)
      = (List.range m.nseq).map (fun idx => phyRowLine abc m idx apos) :=
    fun apos => List.map_congr_left (fun idx hi => hrow idx (List.mem_range.mp hi) apos)
  have e2 : (List.range m.nseq).flatMap (fun idx => (blockStarts m.alen phyRpl).map fun apos => phyRowLine abc m' idx apos)
      = (List.range m.nseq).flatMap (fun idx => (blockStarts m.alen phyRpl).map fun apos => phyRowLine abc m idx apos) :=
    flatMap_congr_phy _ _ _ (fun idx hi => List.map_congr_left (fun apos _ => hrow idx (List.mem_range.mp hi) apos))
  unfold phylipWrite phylipSequentialWrite phylipSequentialLines phylipInterleavedWrite
  rw [hh, hn, ha, e2]
  simp only [e1]

theorem padTrunc_take_phy (nm : Bytes) : padTrunc phyNameWidth (nm.take 10) = padTrunc phyNameWidth nm := by
  simp [padTrunc, phyNameWidth, List.take_take]

theorem phylipProject_nseq (cfg : Cfg) (m : Msa) : (phylipProject cfg m).nseq = m.nseq := by
  simp [phylipProject, Msa.nseq]

theorem phylipProject_name (cfg : Cfg) (m : Msa) (idx : Nat) (hi : idx < m.nseq) :
    (phylipProject cfg m).names.getD idx [] = (m.names.getD idx []).take 10 := by
  simp [phylipProject, List.getD_eq_getElem?_getD, hi, Msa.phyName]

theorem phyRowLine_congr_text (m m' : Msa) (idx apos : Nat)
    (hname : padTrunc phyNameWidth (m'.names.getD idx []) = padTrunc phyNameWidth (m.names.getD idx []))
    (haseq : m'.aseq.getD idx [] = m.aseq.getD idx []) :
    phyRowLine none m' idx apos = phyRowLine none m idx apos := by
  have hb : phyBuf none m' idx apos = phyBuf none m idx apos := by
    unfold phyBuf seqChunk
    simp only [haseq]
  unfold phyRowLine
  rw [hname, hb]

theorem phyRowLine_congr_dig (a : Abc) (m m' : Msa) (idx apos : Nat)
    (hname : padTrunc phyNameWidth (m'.names.getD idx []) = padTrunc phyNameWidth (m.names.getD idx []))
    (hax : m'.ax.getD idx [] = m.ax.getD idx []) :
    phyRowLine (some a) m' idx apos = phyRowLine (some a) m idx apos := by
  have hb : phyBuf (some a) m' idx apos = phyBuf (some a) m idx apos := by
    unfold phyBuf seqChunk
    simp only [hax]
  unfold phyRowLine
  rw [hname, hb]

/-- **PHYLIP, text mode: `write (project m) = write m`** (both variants) -/
theorem phylipWrite_project_text (seq : Bool) (m : Msa) (h : PhylipTextWritable m) :
    phylipWrite seq none (phylipProject (phylipCfg none) m) = phylipWrite seq none m := by
  apply phylipWrite_congr seq none m _ (phylipProject_nseq _ m) rfl
  intro idx hi apos
  apply phyRowLine_congr_text
  · rw [phylipProject_name _ m idx hi, padTrunc_take_phy]
  · simp [phylipProject, phylipCfg, Cfg.digital, List.getD_eq_getElem?_getD, hi, Msa.stored, h.dig]

/-- **PHYLIP, digital mode: `write (project m) = write m`** (both variants) -/
theorem phylipWrite_project_digital (seq : Bool) (a : Abc) (m : Msa) (h : PhylipDigitalWritable a m) :
    phylipWrite seq (some a) (phylipProject (phylipCfg (some a)) m) = phylipWrite seq (some a) m := by
  apply phylipWrite_congr seq (some a) m _ (phylipProject_nseq _ m) rfl
  intro idx hi apos
  apply phyRowLine_congr_dig
  · rw [phylipProject_name _ m idx hi, padTrunc_take_phy]
  · simp [phylipProject, phylipCfg, Cfg.digital, List.getD_eq_getElem?_getD, hi, Msa.stored, h.dig]

end EaselModel.Msafile
