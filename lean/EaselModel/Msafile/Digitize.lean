import EaselModel.Msafile.Basic
/-! `esl_msa_Digitize` (esl_msa.c) with `esl_abc_ValidateSeq` / `esl_abc_Digitize` (esl_alphabet.c): text alignment → digital alignment -/
namespace EaselModel.Msafile

/-- `esl_abc_CIsValid(a, c)` -/
def Abc.cIsValid (a : Abc) (c : UInt8) : Bool := isAscii c && (a.inmap.getD c.toNat dsqILLEGAL).toNat < a.kp

/-- `esl_abc_Digitize` on a validated row: sentinel, codes, sentinel -/
def Abc.digitizeRow (a : Abc) (row : Bytes) : Bytes :=
  dsqSENTINEL :: row.map (fun c => a.inmap.getD c.toNat dsqILLEGAL) ++ [dsqSENTINEL]

/-- `esl_msa_Digitize`: `none` = eslEINVAL (some row holds a character that is not in the alphabet), the alignment is left in text mode -/
def Msa.digitize (m : Msa) (a : Abc) : Option Msa :=
  if m.aseq.all (fun r => r.all a.cIsValid) then
    some { m with digital := true, kp := a.kp, ax := m.aseq.map a.digitizeRow, aseq := [] }
  else none

end EaselModel.Msafile
