import EaselModel.Msafile.ClustalReadDomain
import EaselModel.Msafile.PsiblastLemmas
import EaselModel.Msafile.PsiblastWritable
/-! "Reformat stability", PSI-BLAST: `esl_msafile_psiblast_Read` guarantees ≥ 1 sequence, ≥ 1 column, names without white
    space or NUL, rows of `alen` symbols.  The domain of the PSI-BLAST round-trip theorem (`PsiblastTextWritable` /
    `PsiblastDigitalWritable`: the alignments on which the writer is the identity) is much narrower than what the reader
    returns: it also asks for no lower-case (insert) residue and for the `rf` line to mark every column that holds a residue;
    those two conditions are hypotheses here. -/
namespace EaselModel.Msafile

theorem name_nospace_gen (p : Bytes) (ns nl : Nat) (name : Bytes) (h1 : ns = scanTo (fun c => !isSpace c) p 0)
    (h2 : nl = scanTo isSpace p (ns + 1) - ns) (hs : slice p ns nl = some name) : ∀ x ∈ name, isSpace x = false := by
  have hge : ns + 1 ≤ scanTo isSpace p (ns + 1) := scanTo_ge _ _ _
  unfold slice at hs
  by_cases hb : ns + nl ≤ p.length
  · simp only [hb, if_true, Option.some.injEq] at hs
    have hlt : scanTo (fun c => !isSpace c) p 0 < p.length := by rw [← h1]; omega
    obtain ⟨c0, hc0, hP⟩ := scanTo_stop (fun c => !isSpace c) p 0 hlt
    rw [← h1] at hc0
    rw [← hs, h2]
    exact nameSlice_nospace p ns c0 hc0 (by simpa using hP)
  · simp [hb] at hs

theorem psiCols_spec (p : Bytes) (c : Cols) (h : psiCols p = .ok c) :
    c.nameStart = scanTo (fun c => !isSpace c) p 0 ∧ c.nameLen = scanTo isSpace p (c.nameStart + 1) - c.nameStart ∧ 1 ≤ c.seqLen := by
  unfold psiCols at h
  simp only at h
  repeat' split at h
  all_goals first
    | (injection h with h; subst h; exact ⟨rfl, rfl, by simp only; omega⟩)
    | (simp at h; done)
    | cases h

/-- the shared invariant, plus: between two blocks at least one column was read -/
structure PsiNdInv (cfg : Cfg) (st : BlkSt) : Prop where
  blk : BlkNdInv cfg st
  alen1 : st.phase = .between → 1 ≤ st.alen

theorem psiSeqLine_nd (cfg : Cfg) (hg : cfg.digital = false → cfg.inmap.emits isGraph = true) (st st' : BlkSt) (p : Bytes)
    (h : psiSeqLine cfg st p = .inl st') (hi : BlkNdInv cfg st) (hph : st.idx ≠ 0 → 1 ≤ st.bsl) : PsiNdInv cfg st' := by
  unfold psiSeqLine at h
  split at h
  · simp at h
  · simp at h
  · rename_i c hc
    obtain ⟨hc1, hc2, hc3⟩ := psiCols_spec p c hc
    split at h
    · simp at h
    · split at h
      · simp at h
      · split at h
        · rename_i name seq hname hseq
          simp only at h
          split at h
          · simp at h
          · simp at h
          · rename_i rf1 hrf
            unfold blkStore at h
            split at h
            · simp at h
            · rename_i st1 hnm
              have hsl : 1 ≤ (setBlock st c).bsl := by
                unfold setBlock
                by_cases h0 : st.idx = 0
                · simp only [h0, beq_self_eq_true, if_true]; exact hc3
                · have : (st.idx == 0) = false := by simpa using h0
                  simp only [this, Bool.false_eq_true, if_false]; exact hph h0
              have hsb : (setBlock st c).names = st.names ∧ (setBlock st c).rows = st.rows := by
                unfold setBlock; split <;> exact ⟨rfl, rfl⟩
              have hi1 : BlkNdInv cfg { setBlock st c with phase := .inblock, rf := rf1 } :=
                { names := by show ∀ nm ∈ (setBlock st c).names, _; rw [hsb.1]; exact hi.names
                  rows := by show _ → ∀ r, some r ∈ (setBlock st c).rows → _; rw [hsb.2]; exact hi.rows
                  bsl := fun _ => hsl }
              obtain ⟨n1, n2, n3, n4, _⟩ := blkName_nd cfg false _ st1 name hnm (name_nospace_gen p _ _ name hc1 hc2 hname)
                (name_ne_gen p _ _ name hc2 hname) hi1
              obtain ⟨a1, a2, a3, a4⟩ := blkAppend_nd cfg hg st1 st' seq h (fun hd r hr => hi1.rows hd r (n2 r hr))
              have hphase : st'.phase = .inblock := by rw [a3, n3]
              exact { blk := { names := by rw [a1]; exact n1, rows := a2, bsl := fun _ => by rw [a4, n4]; exact hsl }
                      alen1 := fun hb => by rw [hphase] at hb; cases hb }
        · simp at h

theorem psiEndBlock_nd (cfg : Cfg) (st st' : BlkSt) (h : psiEndBlock st = .inl st') (hi : PsiNdInv cfg st) (hph : st.phase = .inblock) :
    PsiNdInv cfg st' ∧ st'.phase = .between := by
  unfold psiEndBlock at h
  split at h
  · simp at h
  · injection h with h
    subst h
    have hb := hi.blk.bsl (Or.inl hph)
    exact ⟨{ blk := { names := hi.blk.names, rows := hi.blk.rows, bsl := fun _ => hb }
             alen1 := fun _ => by show 1 ≤ st.alen + st.bsl; omega }, rfl⟩

theorem psiStep_nd (cfg : Cfg) (hg : cfg.digital = false → cfg.inmap.emits isGraph = true) (st : BlkSt) (l : Bytes)
    (hi : PsiNdInv cfg st) : StepOk (PsiNdInv cfg) (CluNdGood cfg) (psiStep cfg st l) := by
  cases hs : psiStep cfg st l with
  | inr r =>
    intro m hm
    subst hm
    exact absurd hs (psiStep_notOk cfg st l m)
  | inl st' =>
    show PsiNdInv cfg st'
    have hidx0 : BlkNdInv cfg { st with idx := 0 } := { names := hi.blk.names, rows := hi.blk.rows, bsl := hi.blk.bsl }
    unfold psiStep at hs
    split at hs
    · split at hs
      · injection hs with hs; subst hs; exact hi
      · exact psiSeqLine_nd cfg hg _ st' l hs hidx0 (fun h => absurd rfl h)
    · split at hs
      · injection hs with hs; subst hs; exact hi
      · exact psiSeqLine_nd cfg hg _ st' l hs hidx0 (fun h => absurd rfl h)
    · rename_i hph
      split at hs
      · exact (psiEndBlock_nd cfg st st' hs hi hph).1
      · exact psiSeqLine_nd cfg hg st st' l hs hi.blk (fun _ => hi.blk.bsl (Or.inl hph))
    · split at hs
      · injection hs with hs; subst hs; exact hi
      · exact psiSeqLine_nd cfg hg _ st' l hs hidx0 (fun h => absurd rfl h)

theorem psiFinish_nd (cfg : Cfg) (st : BlkSt) (hi : PsiNdInv cfg st) : CluNdGood cfg (psiFinish cfg st) := by
  unfold psiFinish
  split
  · intro m hm; simp at hm
  · intro m hm; simp at hm
  · rename_i hph
    split
    · rename_i r hend
      intro m hm
      subst hm
      exact absurd hend (psiEndBlock_notOk st m)
    · rename_i st1 hend
      obtain ⟨h1, h2⟩ := psiEndBlock_nd cfg st st1 hend hi hph
      exact blkResult_nd cfg st1 _ h1.blk (h1.alen1 h2)
  · rename_i hph
    exact blkResult_nd cfg st _ hi.blk (hi.alen1 hph)

theorem psiblastRead_nd (cfg : Cfg) (hg : cfg.digital = false → cfg.inmap.emits isGraph = true) (lines : List Bytes) :
    CluNdGood cfg (psiblastRead cfg lines).1 :=
  runLines_inv (psiStep cfg) (psiFinish cfg) (PsiNdInv cfg) (CluNdGood cfg)
    (fun st l h => psiStep_nd cfg hg st l h) (fun st h => psiFinish_nd cfg st h) lines {}
    { blk := { names := fun _ h => by simp at h, rows := fun _ r h => by simp at h,
               bsl := fun h => by rcases h with h | h <;> cases h }
      alen1 := fun h => by cases h }

/-- every residue is an upper-case letter other than `O`, or `-` (text mode) -/
def psiRowsUpperB (m : Msa) : Bool := m.aseq.all fun r => r.all psiTextSym

/-- every column is a consensus column (by `rf`, else by the first sequence) or holds `-` in every row (text mode) -/
def psiColsOkB (m : Msa) : Bool :=
  (List.range m.alen).all fun pos => isConsensusCol none m pos || (List.range m.nseq).all fun i => aseqAt m i pos == 45

/-- digital mode: every code is a residue other than pyrrolysine, or the gap -/
def psiRowsDigB (a : Abc) (m : Msa) : Bool := m.ax.all fun r => (dsqCodes (some r)).all (psiDigCode a)

def psiColsOkDigB (a : Abc) (m : Msa) : Bool :=
  (List.range m.alen).all fun pos =>
    isConsensusCol (some a) m pos || (List.range m.nseq).all fun i => (axAt m i pos).toNat == a.k

def psiTextGraphB : Bool := (psiblastInmap none).emits isGraph

theorem psiTextGraphB_true : psiTextGraphB = true := by decide +kernel

/-- **what the PSI-BLAST reader returns in text mode is in the domain of the PSI-BLAST round trip**, given: no empty name,
    no lower-case residue, `rf` marks every column that holds a residue -/
theorem psiblastRead_domain_text (lines : List Bytes) (m : Msa) (rest : List Bytes)
    (h : psiblastRead (psiblastCfg none) lines = (.ok m, rest)) (hup : psiRowsUpperB m = true)
    (hcol : psiColsOkB m = true) : PsiblastTextWritable m := by
  have hg := psiblastRead_good (psiblastCfg none) ⟨by decide +kernel, by decide +kernel⟩ lines
  have hn := psiblastRead_nd (psiblastCfg none) (fun _ => psiTextGraphB_true) lines
  rw [h] at hg hn
  obtain ⟨hnm, hdig, _, halen, _⟩ := hn m rfl
  have hdig' : m.digital = false := hdig
  obtain ⟨h1, hrows⟩ := rd_wellFormed_rows m hg
  rw [hdig'] at hrows
  simp only [Bool.false_eq_true, if_false] at hrows
  exact
    { dig := hdig', n1 := h1, alen1 := halen
      name_ok := cluName_ok m hnm
      row_ok := fun i hi => by
        have hmem := rd_getD_mem m.aseq i (by rw [hrows.1]; exact hi)
        exact ⟨(hrows.2 _ hmem).1, fun t ht => (List.all_eq_true.mp ((List.all_eq_true.mp hup) _ hmem)) t ht⟩
      col_ok := fun pos hp => by
        have := (List.all_eq_true.mp hcol) pos (List.mem_range.mpr hp)
        simp only [Bool.or_eq_true, List.all_eq_true, beq_iff_eq, List.mem_range] at this
        rcases this with h2 | h2
        · exact Or.inl h2
        · exact Or.inr h2 }

/-- … digital mode -/
theorem psiblastRead_domain_digital (a : Abc) (hv : (psiblastCfg (some a)).valid) (lines : List Bytes) (m : Msa) (rest : List Bytes)
    (h : psiblastRead (psiblastCfg (some a)) lines = (.ok m, rest)) (hup : psiRowsDigB a m = true)
    (hcol : psiColsOkDigB a m = true) : PsiblastDigitalWritable a m := by
  have hg := psiblastRead_good (psiblastCfg (some a)) hv lines
  have hn := psiblastRead_nd (psiblastCfg (some a)) (fun hd => by simp [psiblastCfg, Cfg.digital] at hd) lines
  rw [h] at hg hn
  obtain ⟨hnm, hdig, hkp, halen, _⟩ := hn m rfl
  have hdig' : m.digital = true := hdig
  have hkp' : m.kp = a.kp := hkp
  obtain ⟨h1, hrows⟩ := rd_wellFormed_rows m hg
  rw [hdig'] at hrows
  simp only [if_true] at hrows
  exact
    { dig := hdig', n1 := h1, alen1 := halen
      name_ok := cluName_ok m hnm
      row_ok := fun i hi => by
        have hmem := rd_getD_mem m.ax i (by rw [hrows.1]; exact hi)
        refine ⟨by rw [← hkp']; exact hrows.2 _ hmem, fun x hx => ?_⟩
        exact (List.all_eq_true.mp ((List.all_eq_true.mp hup) _ hmem)) x hx
      col_ok := fun pos hp => by
        have := (List.all_eq_true.mp hcol) pos (List.mem_range.mpr hp)
        simp only [Bool.or_eq_true, List.all_eq_true, beq_iff_eq, List.mem_range] at this
        rcases this with h2 | h2
        · exact Or.inl h2
        · exact Or.inr h2 }

end EaselModel.Msafile
