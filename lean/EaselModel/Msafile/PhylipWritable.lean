import EaselModel.Msafile.PhylipRoundTrip
import EaselModel.Msafile.AfaWritable
import EaselModel.Msafile.AbcTables
/-! Concrete, checkable conditions under which an alignment is `PhylipWritable`: text mode, and digital mode with the
    generated amino / DNA / RNA alphabets. -/
namespace EaselModel.Msafile

/-! ## text mode -/

/-- the residue characters PHYLIP carries unchanged in text mode: upper-case letters, `-`, `*`, `?`
    (lower case comes back upper case, `.` `_` and blank come back `-`, `~` comes back `?`: excluded here) -/
def phyTextSym (t : UInt8) : Bool := isUpper t || t == 45 || t == 42 || t == 63

/-- table fact: such a character is not changed by `phylip_rectify_output_seq_text`, the text-mode input map sends it to
    itself, it is graphic -/
def phyTextSymOk : Bool :=
  (List.range 256).all fun n =>
    let t := UInt8.ofNat n
    !(phyTextSym t) || (phyRectifyTextChar t == t && mapByte (phylipInmap none) t == (CatSt.ok, some t) && isGraph t)

theorem phyTextSymOk_true : phyTextSymOk = true := by decide +kernel

theorem phy_text_sym (t : UInt8) (h : phyTextSym t = true) :
    phyRectifyTextChar t = t ∧ mapByte (phylipInmap none) t = (.ok, some t) ∧ isGraph t = true := by
  have h1 := (List.all_eq_true.mp phyTextSymOk_true) t.toNat (List.mem_range.mpr t.toNat_lt)
  simp only [UInt8.ofNat_toNat, h, Bool.not_true, Bool.false_or, Bool.and_eq_true, beq_iff_eq] at h1
  exact ⟨h1.1.1, h1.1.2, h1.2⟩

theorem phy_text_sp : mapByte (phylipInmap none) 32 = (.ok, none) := by decide +kernel

/-- a text-mode alignment that PHYLIP represents faithfully (up to names cut to ten characters) -/
structure PhylipTextWritable (m : Msa) : Prop where
  dig : m.digital = false
  n1 : 1 ≤ m.nseq
  alen1 : 1 ≤ m.alen
  nmax : m.nseq ≤ 2147483647
  amax : m.alen ≤ 2147483647
  name_ok : ∀ i, i < m.nseq → phyNameOk (m.names.getD i [])
  row_ok : ∀ i, i < m.nseq → (m.aseq.getD i []).length = m.alen ∧ ∀ t ∈ m.aseq.getD i [], phyTextSym t = true

theorem map_id_of {α : Type} (f : α → α) (l : List α) (h : ∀ a ∈ l, f a = a) : l.map f = l := by
  conv => rhs; rw [← List.map_id l]
  exact List.map_congr_left h

theorem phylipTextWritable_writable (m : Msa) (h : PhylipTextWritable m) :
    PhylipWritable none (phylipCfg none) id (fun i => m.aseq.getD i []) m :=
  { n1 := h.n1, alen1 := h.alen1, nmax := h.nmax, amax := h.amax, name_ok := h.name_ok
    sp := phy_text_sp
    txt_len := fun i hi => (h.row_ok i hi).1
    buf_eq := fun i hi pos => by
      have hsym := (h.row_ok i hi).2
      have hmem : ∀ t ∈ ((m.aseq.getD i []).drop pos).take 60, t ∈ m.aseq.getD i [] :=
        fun t ht => List.mem_of_mem_drop (List.mem_of_mem_take ht)
      have h0 : ∀ t ∈ ((m.aseq.getD i []).drop pos).take 60, t ≠ 0 :=
        fun t ht => graph_ne t 0 (by decide) (phy_text_sym t (hsym t (hmem t ht))).2.2
      show phyRectifyText (strChunk (m.aseq.getD i []) pos phyRpl) = _
      unfold strChunk phyRectifyText
      rw [show phyRpl = 60 from rfl, cstr_id _ h0]
      exact map_id_of _ _ (fun t ht => (phy_text_sym t (hsym t (hmem t ht))).1)
    txt_sym := fun i hi t ht => by
      have := phy_text_sym t ((h.row_ok i hi).2 t ht)
      exact ⟨by simpa [phylipCfg] using this.2.1, this.2.2⟩
    row_enc := fun i hi => by
      simp [Msa.stored, h.dig, mkRow, phylipCfg, Cfg.digital] }

/-! ## digital mode -/

/-- the stored symbol the reader produces for a written character -/
def phyEnc (a : Abc) (t : UInt8) : UInt8 :=
  match mapByte (phylipInmap (some a)) t with
  | (_, some x) => x
  | _ => 0

def phyRectChar (c : UInt8) : UInt8 := if c == 126 then 63 else c

/-- table fact about an alphabet: the character written for code `x < Kp` (`sym[x]`, `~` printed as `?`) is read back as
    `x` and is graphic; blank is ignored; no code collides with the sentinel -/
def phyDigSymOk (a : Abc) : Bool :=
  ((List.range a.kp).all fun x =>
    let t := phyRectChar (a.sym.getD x 0)
    mapByte (phylipInmap (some a)) t == (CatSt.ok, some (UInt8.ofNat x)) && isGraph t)
  && mapByte (phylipInmap (some a)) 32 == (CatSt.ok, none) && decide (a.kp ≤ 250)

theorem phyDigSymOk_amino : phyDigSymOk abcAmino = true := by decide +kernel
theorem phyDigSymOk_dna : phyDigSymOk abcDna = true := by decide +kernel
theorem phyDigSymOk_rna : phyDigSymOk abcRna = true := by decide +kernel

theorem phy_dig_sym (a : Abc) (ha : phyDigSymOk a = true) (x : UInt8) (hx : x.toNat < a.kp) :
    mapByte (phylipInmap (some a)) (phyRectChar (a.sym.getD x.toNat 0)) = (.ok, some (phyEnc a (phyRectChar (a.sym.getD x.toNat 0)))) ∧
    isGraph (phyRectChar (a.sym.getD x.toNat 0)) = true ∧ phyEnc a (phyRectChar (a.sym.getD x.toNat 0)) = x := by
  unfold phyDigSymOk at ha
  simp only [Bool.and_eq_true, beq_iff_eq, decide_eq_true_eq] at ha
  have h1 := (List.all_eq_true.mp ha.1.1) x.toNat (List.mem_range.mpr hx)
  simp only [UInt8.ofNat_toNat, Bool.and_eq_true, beq_iff_eq] at h1
  obtain ⟨hm, hg⟩ := h1
  have he : phyEnc a (phyRectChar (a.sym.getD x.toNat 0)) = x := by unfold phyEnc; rw [hm]
  exact ⟨by rw [he]; exact hm, hg, he⟩

/-- a digital alignment (alphabet `a`) that PHYLIP represents faithfully (up to names cut to ten characters) -/
structure PhylipDigitalWritable (a : Abc) (m : Msa) : Prop where
  dig : m.digital = true
  n1 : 1 ≤ m.nseq
  alen1 : 1 ≤ m.alen
  nmax : m.nseq ≤ 2147483647
  amax : m.alen ≤ 2147483647
  name_ok : ∀ i, i < m.nseq → phyNameOk (m.names.getD i [])
  row_ok : ∀ i, i < m.nseq → dsqRowOk a.kp m.alen (m.ax.getD i []) = true

theorem takeWhile_sentinel (l : Bytes) (hl : ∀ x ∈ l, x ≠ dsqSENTINEL) (pos n : Nat) :
    (((l ++ [dsqSENTINEL]).drop pos).take n).takeWhile (· != dsqSENTINEL) = (l.drop pos).take n := by
  rw [List.drop_append, List.take_append]
  rw [List.takeWhile_append_of_pos (fun x hx => by
    have := hl x (List.mem_of_mem_drop (List.mem_of_mem_take hx)); simpa using this)]
  have : ∀ (a b : Nat), ((([dsqSENTINEL] : Bytes).drop a).take b).takeWhile (· != dsqSENTINEL) = [] := by
    intro a b
    cases a with
    | zero =>
      cases b with
      | zero => rfl
      | succ b => simp
    | succ a => simp
  rw [this]; simp

/-- the text the writer prints for row `i` -/
def phyDigTxt (a : Abc) (m : Msa) (i : Nat) : Bytes :=
  ((dsqCodes (some (m.ax.getD i []))).map fun x => a.sym.getD x.toNat 0).map phyRectChar

theorem phylipDigitalWritable_writable (a : Abc) (ha : phyDigSymOk a = true) (m : Msa) (h : PhylipDigitalWritable a m) :
    PhylipWritable (some a) (phylipCfg (some a)) (phyEnc a) (phyDigTxt a m) m := by
  have hkp : a.kp ≤ 250 := by
    unfold phyDigSymOk at ha
    simp only [Bool.and_eq_true, decide_eq_true_eq] at ha
    exact ha.2
  have hsp : mapByte (phylipInmap (some a)) 32 = (.ok, none) := by
    unfold phyDigSymOk at ha
    simp only [Bool.and_eq_true, beq_iff_eq] at ha
    exact ha.1.2
  have hcodes : ∀ i, i < m.nseq →
      (dsqCodes (some (m.ax.getD i []))).all (fun x => decide (x.toNat < a.kp)) = true ∧ (dsqCodes (some (m.ax.getD i []))).length = m.alen := by
    intro i hi
    cases hr : m.ax.getD i [] with
    | nil => have := h.row_ok i hi; rw [hr] at this; simp [dsqRowOk] at this
    | cons s0 rest =>
      have := h.row_ok i hi; rw [hr] at this
      simp only [dsqRowOk, Bool.and_eq_true, beq_iff_eq] at this
      refine ⟨by simpa [dsqCodes] using this.2, ?_⟩
      simp only [dsqCodes, List.drop_succ_cons, List.drop_zero, List.length_dropLast]
      omega
  have hlt : ∀ i, i < m.nseq → ∀ x ∈ dsqCodes (some (m.ax.getD i [])), x.toNat < a.kp := by
    intro i hi x hx
    simpa using (List.all_eq_true.mp (hcodes i hi).1) x hx
  exact
    { n1 := h.n1, alen1 := h.alen1, nmax := h.nmax, amax := h.amax, name_ok := h.name_ok
      sp := by simpa [phylipCfg] using hsp
      txt_len := fun i hi => by simp only [phyDigTxt, List.length_map]; exact (hcodes i hi).2
      buf_eq := fun i hi pos => by
        have hshape := dsqRow_shape _ _ _ (h.row_ok i hi)
        have hns : ∀ x ∈ dsqCodes (some (m.ax.getD i [])), x ≠ dsqSENTINEL := by
          intro x hx hs
          have := hlt i hi x hx
          rw [hs] at this
          simp [dsqSENTINEL] at this
          omega
        show phyRectifyDigital (textizeN a ((m.ax.getD i []).drop (pos + 1)) phyRpl) = _
        have hdrop : (m.ax.getD i []).drop (pos + 1) = (dsqCodes (some (m.ax.getD i [])) ++ [dsqSENTINEL]).drop pos := by
          conv => lhs; rw [hshape]
          simp
        unfold textizeN phyRectifyDigital
        rw [hdrop, show phyRpl = 60 from rfl, takeWhile_sentinel _ hns]
        simp only [phyDigTxt, List.map_drop, List.map_take]
        rfl
      txt_sym := fun i hi t ht => by
        simp only [phyDigTxt, List.mem_map] at ht
        obtain ⟨s, ⟨x, hx, rfl⟩, rfl⟩ := ht
        have := phy_dig_sym a ha x (hlt i hi x hx)
        exact ⟨by simpa [phylipCfg] using this.1, this.2.1⟩
      row_enc := fun i hi => by
        have hshape := dsqRow_shape _ _ _ (h.row_ok i hi)
        have hmap : (phyDigTxt a m i).map (phyEnc a) = dsqCodes (some (m.ax.getD i [])) := by
          simp only [phyDigTxt, List.map_map]
          exact map_id_of _ _ (fun x hx => (phy_dig_sym a ha x (hlt i hi x hx)).2.2)
        rw [hmap]
        simp only [Msa.stored, h.dig, if_true, mkRow, phylipCfg, Cfg.digital, Option.isSome_some]
        exact hshape }

end EaselModel.Msafile
