import EaselModel.Msafile.Lemmas
import EaselModel.Msafile.AfaLemmas
import EaselModel.Msafile.ClustalLemmas
import EaselModel.Msafile.Psiblast
/-! Invariant of the PSI-BLAST reader and the proof that it is total and returns well-formed alignments only
    (the row storage part is `BlkInv` of `ClustalLemmas.lean`). -/
namespace EaselModel.Msafile

/-! ## scanning -/

theorem takeWhile_stop (q : UInt8 → Bool) : ∀ l : Bytes, (l.takeWhile q).length < l.length →
    ∃ c, l[(l.takeWhile q).length]? = some c ∧ q c = false := by
  intro l
  induction l with
  | nil => intro h; simp at h
  | cons x xs ih =>
    intro h
    by_cases hq : q x = true
    · simp only [List.takeWhile_cons, hq, if_true, List.length_cons] at h ⊢
      obtain ⟨c, h1, h2⟩ := ih (by omega)
      exact ⟨c, by simpa using h1, h2⟩
    · have hq' : q x = false := by simpa using hq
      simp only [List.takeWhile_cons, hq', Bool.false_eq_true, if_false, List.length_nil]
      exact ⟨x, by simp, hq'⟩

/-- where a scanning loop stops inside the line, the stopping condition holds -/
theorem scanTo_stop (P : UInt8 → Bool) (p : Bytes) (pos : Nat) (h : scanTo P p pos < p.length) :
    ∃ c, p[scanTo P p pos]? = some c ∧ P c = true := by
  unfold scanTo at h ⊢
  have hlt : ((p.drop pos).takeWhile (fun c => !P c)).length < (p.drop pos).length := by
    rw [List.length_drop]; omega
  obtain ⟨c, h1, h2⟩ := takeWhile_stop (fun c => !P c) (p.drop pos) hlt
  rw [List.getElem?_drop] at h1
  exact ⟨c, h1, by simpa using h2⟩

theorem scanBack_spec (p : Bytes) : ∀ (pos s : Nat), s ≤ pos → pos < p.length →
    (∃ c, p[s]? = some c ∧ isSpace c = false) → ∃ r, scanBack p pos = some r ∧ s ≤ r ∧ r ≤ pos := by
  intro pos
  induction pos with
  | zero =>
    intro s hs _ _
    exact ⟨0, rfl, by omega, by omega⟩
  | succ pos ih =>
    intro s hs hlt hc
    unfold scanBack
    rw [List.getElem?_eq_getElem hlt]
    simp only
    by_cases hsp : isSpace p[pos + 1] = true
    · simp only [hsp, Bool.not_true, Bool.false_eq_true, if_false]
      have hne : s ≠ pos + 1 := by
        intro he
        obtain ⟨c, h1, h2⟩ := hc
        rw [he, List.getElem?_eq_getElem hlt] at h1
        simp only [Option.some.injEq] at h1
        rw [h1] at hsp
        rw [h2] at hsp
        exact absurd hsp (by simp)
      obtain ⟨r, h1, h2, h3⟩ := ih s (by omega) (by omega) hc
      exact ⟨r, h1, h2, by omega⟩
    · have hsp' : isSpace p[pos + 1] = false := by simpa using hsp
      simp only [hsp', Bool.not_false, if_true]
      exact ⟨pos + 1, rfl, hs, by omega⟩

def ColsRes.good (p : Bytes) : ColsRes → Prop
  | .ok c => c.nameStart + c.nameLen ≤ p.length ∧ c.seqStart + c.seqLen ≤ p.length ∧ 1 ≤ c.seqLen
  | .invalid => True
  | .fault => False

/-- `psiCols` never reads outside the line and delivers a name field and a non-empty sequence field inside it -/
theorem psiCols_ok (p : Bytes) : (psiCols p).good p := by
  unfold psiCols
  simp only
  generalize hA : scanTo (fun c => !isSpace c) p 0 = a
  generalize hB : scanTo isSpace p (a + 1) = b
  generalize hC : scanTo (fun c => !isSpace c) p (b + 1) = c3
  have h1 : a + 1 ≤ b := by rw [← hB]; exact scanTo_ge _ _ _
  have h2 : b + 1 ≤ c3 := by rw [← hC]; exact scanTo_ge _ _ _
  split
  · trivial
  · rename_i hlt
    have hlt : c3 < p.length := by omega
    show ColsRes.good p _
    have hstop : ∃ c, p[c3]? = some c ∧ isSpace c = false := by
      have := scanTo_stop (fun c => !isSpace c) p (b + 1) (by rw [hC]; exact hlt)
      rw [hC] at this
      obtain ⟨c, e1, e2⟩ := this
      exact ⟨c, e1, by simpa using e2⟩
    obtain ⟨r, hr1, hr2, hr3⟩ := scanBack_spec p (p.length - 1) c3 (by omega) (by omega) hstop
    rw [hr1]
    simp only
    have : ¬ (r < c3) := by omega
    rw [if_neg this]
    show a + (b - a) ≤ p.length ∧ c3 + (r + 1 - c3) ≤ p.length ∧ 1 ≤ r + 1 - c3
    refine ⟨by omega, by omega, by omega⟩

/-! ## the `#=RF` line -/

def RfRes.good (n : Nat) : RfRes → Prop
  | .ok rf' => rf'.length = n
  | .eformat msg => msg ≠ ""
  | .fault => False

theorem rfLoop_ok : ∀ (seq rf : Bytes) (off : Nat), off + seq.length ≤ rf.length →
    (rfLoop seq rf off).good rf.length := by
  intro seq
  induction seq with
  | nil => intro rf off _; simp [rfLoop, RfRes.good]
  | cons c rest ih =>
    intro rf off h
    simp only [List.length_cons] at h
    have hoff : off < rf.length := by omega
    unfold rfLoop
    split
    · exact ih rf (off + 1) (by omega)
    · split
      · rw [List.getElem?_eq_getElem hoff]
        simp only
        split
        · simp [RfRes.good]
        · have := ih (rf.set off 120) (off + 1) (by rw [List.length_set]; omega)
          rw [List.length_set] at this
          exact this
      · split
        · rw [List.getElem?_eq_getElem hoff]
          simp only
          split
          · simp [RfRes.good]
          · have := ih (rf.set off 46) (off + 1) (by rw [List.length_set]; omega)
            rw [List.length_set] at this
            exact this
        · exact ih rf (off + 1) (by omega)

/-! ## the reader's invariant -/

/-- invariant of the PSI-BLAST reader at a `esl_msafile_GetLine` call -/
structure PsiInv (cfg : Cfg) (st : BlkSt) : Prop where
  blk : st.phase ≠ .between → BlkInv cfg st
  fresh : st.phase = .lead ∨ st.phase = .hdr → st.nblocks = 0 ∧ st.names = []
  inb : st.phase = .inblock → 1 ≤ st.idx ∧ 1 ≤ st.bsl ∧ st.rf.length = st.alen + st.bsl
  betw : st.phase = .between →
    BlkInv cfg { st with idx := 0 } ∧ st.nblocks ≠ 0 ∧ 1 ≤ st.nseq ∧ 1 ≤ st.alen ∧ st.rf.length = st.alen

theorem psiInv_init (cfg : Cfg) : PsiInv cfg {} :=
  { blk := fun _ => blkInv_init cfg, fresh := fun _ => ⟨rfl, rfl⟩,
    inb := fun h => by simp at h, betw := fun h => by simp at h }

/-- a row line read with `idx`, `alen`, `nblocks` already set for it -/
theorem psiSeqLine_inv (cfg : Cfg) (hv : cfg.valid) (st : BlkSt) (p : Bytes) (h : BlkInv cfg st)
    (hrf0 : st.idx = 0 → st.alen ≤ st.rf.length) (hrf1 : st.idx ≠ 0 → st.rf.length = st.alen + st.bsl) :
    StepGood (PsiInv cfg) (psiSeqLine cfg st p) := by
  unfold psiSeqLine
  have hcols := psiCols_ok p
  cases hc : psiCols p with
  | fault => rw [hc] at hcols; exact absurd hcols (by simp [ColsRes.good])
  | invalid => simp
  | ok c =>
    rw [hc] at hcols
    simp only
    obtain ⟨hc1, hc2, hc3⟩ := hcols
    split
    · simp
    · split
      · simp
      · rename_i hs2
        obtain ⟨name, hname⟩ := slice_isSome p c.nameStart c.nameLen hc1
        obtain ⟨seq, hseq⟩ := slice_isSome p c.seqStart c.seqLen hc2
        rw [hname, hseq]
        simp only
        have hseqlen := slice_length _ _ _ _ hseq
        have hmis := misaligned_false st c hs2
        -- the RF line
        generalize hrf0def : (if st.idx == 0 then st.rf.take st.alen ++ List.replicate c.seqLen 45 else st.rf) = rf0
        have hrf0len : rf0.length = st.alen + c.seqLen := by
          rw [← hrf0def]
          by_cases hi : st.idx = 0
          · have : (st.idx == 0) = true := by simp [hi]
            simp only [this, if_true, List.length_append, List.length_take, List.length_replicate]
            have := hrf0 hi; omega
          · have : (st.idx == 0) = false := by simp [hi]
            simp only [this, Bool.false_eq_true, if_false]
            rw [hrf1 hi, hmis hi]
        have hrfl := rfLoop_ok seq rf0 st.alen (by rw [hrf0len, hseqlen]; omega)
        cases hrl : rfLoop seq rf0 st.alen with
        | fault => rw [hrl] at hrfl; exact absurd hrfl (by simp [RfRes.good])
        | eformat msg => rw [hrl] at hrfl; simpa [RfRes.good] using hrfl
        | ok rf1 =>
          rw [hrl] at hrfl
          have hrfl : rf1.length = rf0.length := hrfl
          simp only
          have hsb := setBlock_post st c hmis
          have hinv0 : BlkInv cfg { setBlock st c with phase := Phase.inblock, rf := rf1 } :=
            blkInv_congr cfg st _ h hsb.sqalloc hsb.names hsb.rows hsb.nblocks hsb.idx hsb.nseq hsb.alen
              (fun hne => by
                show (setBlock st c).bsl = st.bsl
                rw [hsb.bsl]; exact hmis hne)
          have hs := blkStore_inv cfg hv false _ name seq hinv0 (by
            show (setBlock st c).bsl = seq.length
            rw [hsb.bsl, hseqlen])
          cases hbs : blkStore cfg false { setBlock st c with phase := Phase.inblock, rf := rf1 } name seq with
          | inr r => rw [hbs] at hs; simpa using hs
          | inl st2 =>
            rw [hbs] at hs
            simp only [stepGood_inl] at hs ⊢
            obtain ⟨hi2, st1, hnp, hap⟩ := hs
            have hphase : st2.phase = .inblock := by rw [hap.phase, hnp.phase]
            refine { blk := fun _ => hi2, fresh := ?_, inb := ?_, betw := ?_ }
            · intro hp; rw [hphase] at hp; simp at hp
            · intro _
              have hbsl : st2.bsl = c.seqLen := by
                rw [hap.bsl, hnp.bsl]
                show (setBlock st c).bsl = c.seqLen
                exact hsb.bsl
              have halen : st2.alen = st.alen := by
                rw [hap.alen, hnp.alen]
                show (setBlock st c).alen = st.alen
                exact hsb.alen
              have hrf : st2.rf = rf1 := by rw [hap.rf, hnp.rf]
              refine ⟨by rw [hap.idx]; omega, by rw [hbsl]; exact hc3, ?_⟩
              rw [hrf, hbsl, halen, hrfl, hrf0len]
            · intro hp; rw [hphase] at hp; simp at hp

theorem psiEndBlock_inv (cfg : Cfg) (st : BlkSt) (h : PsiInv cfg st) (hp : st.phase = .inblock) :
    StepGood (fun st' => PsiInv cfg st' ∧ st'.phase = .between) (psiEndBlock st) := by
  unfold psiEndBlock
  have hb := h.blk (by rw [hp]; simp)
  obtain ⟨hi1, hb1, hrf⟩ := h.inb hp
  split
  · simp
  · rename_i hchk
    simp only [stepGood_inl]
    have hidx : st.idx = st.names.length := by
      by_cases h0 : st.nblocks = 0
      · exact (hb.blk0 h0).2
      · have hl := hb.later h0
        by_cases hx : st.idx = st.nseq
        · omega
        · exfalso; apply hchk; simp [h0, hx]
    have hns : (if (st.nblocks == 0) = true then st.idx else st.nseq) = st.names.length := by
      by_cases h0 : st.nblocks = 0
      · simp [h0, hidx]
      · have : (st.nblocks == 0) = false := by simp [h0]
        simp only [this, Bool.false_eq_true, if_false]
        exact hb.later h0
    refine ⟨{ blk := fun hne => absurd rfl hne, fresh := fun hx => by simp at hx, inb := fun hx => by simp at hx,
              betw := fun _ => ⟨?_, by show st.nblocks + 1 ≠ 0; omega, ?_, by show 1 ≤ st.alen + st.bsl; omega, hrf⟩ }, by first | rfl | trivial⟩
    · refine blkInv_newBlock cfg st _ hb rfl rfl rfl rfl ?_ (fun h0 => by
        have h0 : st.nblocks + 1 = 0 := h0
        omega) (fun _ => hns)
      intro i hi
      unfold lenAt
      have hlt : i < st.idx := by omega
      simp only [hlt, if_true]
    · show 1 ≤ (if (st.nblocks == 0) = true then st.idx else st.nseq)
      rw [hns]; omega

theorem psiStep_inv (cfg : Cfg) (hv : cfg.valid) (st : BlkSt) (line : Bytes) (h : PsiInv cfg st) :
    StepGood (PsiInv cfg) (psiStep cfg st line) := by
  have hfresh : st.phase = .lead ∨ st.phase = .hdr →
      StepGood (PsiInv cfg) (if isBlankLine line = true then Sum.inl st else psiSeqLine cfg { st with idx := 0 } line) := by
    intro hp
    split
    · simpa using h
    · obtain ⟨hnb, hnm⟩ := h.fresh hp
      have hb := h.blk (by rcases hp with hp | hp <;> rw [hp] <;> simp)
      have hidx0 : st.idx = 0 := by
        have := hb.idx_le; rw [hnm] at this; simpa using this
      have ha0 := (hb.blk0 hnb).1
      refine psiSeqLine_inv cfg hv _ line ?_ (fun _ => by
        show st.alen ≤ st.rf.length
        omega) (fun hne => absurd rfl hne)
      refine blkInv_newBlock cfg st _ hb rfl rfl rfl rfl ?_ (fun _ => ⟨ha0, by rw [hnm]; rfl⟩)
        (fun hne => absurd hnb hne)
      intro i _
      unfold lenAt
      rw [hidx0]
      simp
  unfold psiStep
  split
  · rename_i hp; exact hfresh (Or.inl hp)
  · rename_i hp; exact hfresh (Or.inr hp)
  · rename_i hp
    obtain ⟨hi1, hb1, hrf⟩ := h.inb hp
    split
    · have := psiEndBlock_inv cfg st h hp
      cases he : psiEndBlock st with
      | inr r => rw [he] at this; simpa using this
      | inl st' => rw [he] at this; simp only [stepGood_inl] at this ⊢; exact this.1
    · exact psiSeqLine_inv cfg hv st line (h.blk (by rw [hp]; simp)) (fun h0 => by omega) (fun _ => hrf)
  · rename_i hp
    obtain ⟨hb, hnb, hns, hal, hrf⟩ := h.betw hp
    split
    · simpa using h
    · exact psiSeqLine_inv cfg hv _ line hb (fun _ => by
        show st.alen ≤ st.rf.length
        omega) (fun hne => absurd rfl hne)

theorem psiResult_good (cfg : Cfg) (st : BlkSt) (h : PsiInv cfg st) (hp : st.phase = .between) :
    Good (blkResult cfg st (some st.rf)) := by
  obtain ⟨hb, hnb, hns, hal, hrf⟩ := h.betw hp
  apply blkResult_good
  · have := hb.alloc
    have h1 : st.names.length ≤ st.sqalloc := this.2.2
    have h2 : st.rows.length = st.sqalloc := this.2.1
    omega
  · exact hb.later hnb
  · exact hns
  · exact hal
  · intro i cur hi hg
    have := hb.rows_in i cur hi hg
    unfold lenAt at this
    simpa using this
  · simp [optLenOk, hrf]

theorem psiFinish_good (cfg : Cfg) (st : BlkSt) (h : PsiInv cfg st) : Good (psiFinish cfg st) := by
  unfold psiFinish
  split
  · simp
  · simp
  · rename_i hp
    have := psiEndBlock_inv cfg st h hp
    cases he : psiEndBlock st with
    | inr r => rw [he] at this; simpa using this
    | inl st' =>
      rw [he] at this
      simp only [stepGood_inl] at this ⊢
      exact psiResult_good cfg st' this.1 this.2
  · rename_i hp
    exact psiResult_good cfg st h hp

/-- **PSI-BLAST reader, every input**: the outcome of `esl_msafile_psiblast_Read` is a documented normal one and a returned
    alignment (with its RF line) is well formed -/
theorem psiblastRead_good (cfg : Cfg) (hv : cfg.valid) (lines : List Bytes) : Good (psiblastRead cfg lines).1 :=
  runLines_inv (psiStep cfg) (psiFinish cfg) (PsiInv cfg) Good
    (fun st l h => psiStep_inv cfg hv st l h) (fun st h => psiFinish_good cfg st h) lines {} (psiInv_init cfg)

/-! ## success is only declared at end of input -/

theorem psiSeqLine_notOk (cfg : Cfg) (st : BlkSt) (p : Bytes) : NotOk (psiSeqLine cfg st p) := by
  unfold psiSeqLine
  split
  · simp
  · simp
  · split
    · simp
    · split
      · simp
      · split
        · simp only
          generalize (if st.idx == 0 then st.rf.take st.alen ++ List.replicate _ 45 else st.rf) = rf0
          split
          · simp
          · simp
          · exact blkStore_notOk _ _ _ _ _
        · simp

theorem psiEndBlock_notOk (st : BlkSt) : NotOk (psiEndBlock st) := by
  unfold psiEndBlock
  split <;> simp

theorem psiStep_notOk (cfg : Cfg) (st : BlkSt) (l : Bytes) : NotOk (psiStep cfg st l) := by
  unfold psiStep
  split
  · split
    · simp
    · exact psiSeqLine_notOk _ _ _
  · split
    · simp
    · exact psiSeqLine_notOk _ _ _
  · split
    · exact psiEndBlock_notOk _
    · exact psiSeqLine_notOk _ _ _
  · split
    · simp
    · exact psiSeqLine_notOk _ _ _

/-- after a successful PSI-BLAST read nothing is left: the next `esl_msafile_Read` returns eslEOF -/
theorem psiblastRead_ok_consumes (cfg : Cfg) (lines : List Bytes) (m : Msa) (h : (psiblastRead cfg lines).1 = .ok m) :
    (psiblastRead cfg lines).2 = [] ∧ (psiblastRead cfg (psiblastRead cfg lines).2).1 = .eof := by
  have h1 := runLines_finish_consumes (psiStep cfg) (psiFinish cfg) (fun r => ∃ m, r = .ok m)
    (fun st l r hs => by
      intro ⟨m, hm⟩
      subst hm
      exact psiStep_notOk cfg st l m hs) lines {} ⟨m, h⟩
  refine ⟨h1, ?_⟩
  have : (psiblastRead cfg lines).2 = [] := h1
  rw [this]
  simp [psiblastRead, runLines, psiFinish]

end EaselModel.Msafile
